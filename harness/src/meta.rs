//! C03 / C04 / C17 / C05: metainfo geometry, extraction, path handling.
use crate::util::*;
use rdest::verif::*;
use rdest::Metainfo;

fn bstr(b: &[u8]) -> Vec<u8> {
    let mut v = b.len().to_string().into_bytes();
    v.push(b':');
    v.extend_from_slice(b);
    v
}

pub fn sha1(data: &[u8]) -> [u8; 20] {
    let mut h = sha1_smol::Sha1::new();
    h.update(data);
    h.digest().bytes()
}

/// Torrent for `content` cut into pieces of `pl` bytes; files = (length, path); single-file form if one file and !force_multi.
pub fn torrent(name: &[u8], pl: usize, files: &[(usize, Vec<u8>)], content: &[u8], force_multi: bool) -> Vec<u8> {
    let mut pieces = vec![];
    if pl > 0 {
        for chunk in content.chunks(pl) {
            pieces.extend_from_slice(&sha1(chunk));
        }
    }
    let mut info = vec![];
    info.push(b'd');
    if files.len() == 1 && !force_multi {
        info.extend(bstr(b"length"));
        info.extend(format!("i{}e", files[0].0).as_bytes());
    } else {
        info.extend(bstr(b"files"));
        info.push(b'l');
        for (len, path) in files {
            info.push(b'd');
            info.extend(bstr(b"length"));
            info.extend(format!("i{}e", len).as_bytes());
            info.extend(bstr(b"path"));
            info.extend(bstr(path));
            info.push(b'e');
        }
        info.push(b'e');
    }
    info.extend(bstr(b"name"));
    info.extend(bstr(name));
    info.extend(bstr(b"piece length"));
    info.extend(format!("i{}e", pl).as_bytes());
    info.extend(bstr(b"pieces"));
    info.extend(bstr(&pieces));
    info.push(b'e');
    let mut doc = vec![b'd'];
    doc.extend(bstr(b"announce"));
    doc.extend(bstr(b"http://127.0.0.1:1/a"));
    doc.extend(bstr(b"info"));
    doc.extend(info);
    doc.push(b'e');
    doc
}

fn scratch(tag: &str) -> (std::path::PathBuf, std::path::PathBuf) {
    static COUNTER: std::sync::atomic::AtomicUsize = std::sync::atomic::AtomicUsize::new(0);
    let n = COUNTER.fetch_add(1, std::sync::atomic::Ordering::SeqCst);
    let base = std::env::current_dir().unwrap();
    let canary = base.join(format!("{}_{}_{}", tag, std::process::id(), n));
    let cwd = canary.join("cwd");
    std::fs::create_dir_all(&cwd).unwrap();
    (base, canary)
}

fn write_pieces(pl: usize, content: &[u8]) {
    if pl == 0 {
        return;
    }
    for chunk in content.chunks(pl) {
        std::fs::write(hash_to_string(&sha1(chunk)) + ".piece", chunk).unwrap();
    }
}

fn run_extract(m: &Metainfo) -> Result<(), ()> {
    let (tx, _rx) = tokio::sync::mpsc::channel(4);
    let ex = Extractor::new(m.clone(), tx);
    match catch(|| ex.verif_extract_files()) {
        Ok(Ok(())) => Ok(()),
        _ => Err(()),
    }
}

/// C03: `ex <pl> <len,len,…> x<content>` → the extracted files' bytes.
fn op_ex(pl: usize, lens: &str, content: &[u8], stale: bool) -> String {
    let lens: Vec<usize> = if lens == "-" { vec![] } else { lens.split(',').map(|x| x.parse().unwrap()).collect() };
    let files: Vec<(usize, Vec<u8>)> = lens.iter().enumerate().map(|(k, l)| (*l, format!("f{}", k).into_bytes())).collect();
    let doc = torrent(b"out", pl, &files, content, true);
    let m = match Metainfo::from_bencode(&doc) {
        Ok(m) => m,
        Err(_) => return "noparse".into(),
    };
    let (base, canary) = scratch("ex");
    std::env::set_current_dir(canary.join("cwd")).unwrap();
    write_pieces(pl, content);
    if stale {
        // the download directory is not fresh: an earlier, longer version of every output file is already there
        for (k, (l, _)) in files.iter().enumerate() {
            let p = if files.len() > 1 { format!("out/f{}", k) } else { format!("f{}", k) };
            if files.len() > 1 {
                let _ = std::fs::create_dir_all("out");
            }
            let _ = std::fs::write(&p, vec![0xEEu8; l + 1 + k * 5]);
        }
    }
    let r = run_extract(&m);
    let mut outs = vec![];
    for (k, _) in files.iter().enumerate() {
        let p = if files.len() > 1 { format!("out/f{}", k) } else { format!("f{}", k) };
        outs.push(match std::fs::read(&p) {
            Ok(d) => hex(&d),
            Err(_) => "missing".to_string(),
        });
    }
    std::env::set_current_dir(&base).unwrap();
    let _ = std::fs::remove_dir_all(&canary);
    match r {
        Ok(()) => format!("ok {}", if outs.is_empty() { "-".to_string() } else { outs.join(",") }),
        Err(()) => "err".into(),
    }
}

/// C03/C17: `geo <pl> <len,len,…>` → pieces_num, total_length, piece_length(i) for all i, ranges.
fn op_geo(pl: usize, lens: &str) -> String {
    let lens: Vec<usize> = if lens == "-" { vec![] } else { lens.split(',').map(|x| x.parse().unwrap()).collect() };
    let total: usize = lens.iter().sum();
    let files: Vec<(usize, Vec<u8>)> = lens.iter().enumerate().map(|(k, l)| (*l, format!("f{}", k).into_bytes())).collect();
    let content = vec![0u8; total];
    let doc = torrent(b"out", pl, &files, &content, true);
    let m = match Metainfo::from_bencode(&doc) {
        Ok(m) => m,
        Err(_) => return "noparse".into(),
    };
    let r = catch(|| {
        let n = m.pieces_num();
        let pls: Vec<String> = (0..n).map(|i| m.piece_length(i).to_string()).collect();
        let ranges: Vec<String> = m
            .file_piece_ranges()
            .iter()
            .map(|(_, s, e)| format!("{}.{}-{}.{}", s.file_index, s.byte_index, e.file_index, e.byte_index))
            .collect();
        format!(
            "n={} total={} pl={} ranges={}",
            n,
            m.total_length(),
            if pls.is_empty() { "-".to_string() } else { pls.join(",") },
            if ranges.is_empty() { "-".to_string() } else { ranges.join(",") }
        )
    });
    r.unwrap_or_else(|_| "P".into())
}

/// C04: `paths <name-hex> <path-hex,…>` → the output paths computed by file_piece_ranges (multi-file if >1 path).
fn op_paths(name: &[u8], paths: &str) -> String {
    let ps: Vec<Vec<u8>> = paths.split(',').map(|h| unhex(h)).collect();
    let files: Vec<(usize, Vec<u8>)> = ps.iter().map(|p| (1usize, p.clone())).collect();
    let content = vec![7u8; files.len()];
    let doc = torrent(name, 4, &files, &content, files.len() > 1);
    let m = match Metainfo::from_bencode(&doc) {
        Ok(m) => m,
        Err(_) => return "noparse".into(),
    };
    let comp_str = |p: &std::path::PathBuf| -> String {
        use std::os::unix::ffi::OsStrExt;
        use std::path::Component;
        let parts: Vec<Vec<u8>> = p
            .components()
            .map(|c| match c {
                Component::RootDir => b"<ROOT>".to_vec(),
                Component::ParentDir => b"..".to_vec(),
                Component::CurDir => b".".to_vec(),
                Component::Normal(x) => x.as_bytes().to_vec(),
                Component::Prefix(_) => b"<PREFIX>".to_vec(),
            })
            .collect();
        hex(&parts.join(&b'/'))
    };
    match catch(|| m.file_piece_ranges().iter().map(|(p, _, _)| comp_str(p)).collect::<Vec<_>>()) {
        Ok(v) => v.join(","),
        Err(()) => "P".into(),
    }
}

fn list_dir(root: &std::path::Path, rel: &std::path::Path, out: &mut Vec<String>) {
    if let Ok(rd) = std::fs::read_dir(root.join(rel)) {
        for e in rd.filter_map(|e| e.ok()) {
            let r = rel.join(e.file_name());
            let is_dir = e.file_type().map(|t| t.is_dir()).unwrap_or(false);
            out.push(format!("{}{}", r.to_string_lossy(), if is_dir { "/" } else { "" }));
            if is_dir {
                list_dir(root, &r, out);
            }
        }
    }
}

/// How deep the download directory of `exq` sits below the per-case scratch directory: a path with fewer `..` than
/// this cannot leave the scratch directory, whatever the code under test does with it.
const JAIL_DEPTH: usize = 24;

/// C04: real extraction inside `<jail>/cwd`, where `<jail>` is `JAIL_DEPTH` directories below the per-case scratch
/// directory; reports everything that exists afterwards, relative to `<jail>` (`<OUT>/…` for anything above it).
/// `@C@` in a name/path is replaced by the absolute jail directory (absolute paths are only ever pointed there).
fn op_exq(name: &[u8], paths: &str) -> String {
    let dotdots = |b: &[u8]| b.split(|c| *c == b'/').filter(|c| *c == b"..").count();
    let raw: Vec<Vec<u8>> = paths.split(',').map(|h| unhex(h)).collect();
    let worst = dotdots(name) + raw.iter().map(|p| dotdots(p)).max().unwrap_or(0);
    if worst + 2 >= JAIL_DEPTH {
        return "refused".into();
    }
    let (base, canary) = scratch("exq");
    let mut jail = canary.clone();
    for _ in 0..JAIL_DEPTH {
        jail.push("n");
    }
    let cwd = jail.join("cwd");
    std::fs::create_dir_all(&cwd).unwrap();
    let sub = |b: &[u8]| -> Vec<u8> {
        let s = String::from_utf8_lossy(b).replace("@C@", jail.to_str().unwrap());
        s.into_bytes()
    };
    let ps: Vec<Vec<u8>> = raw.iter().map(|p| sub(p)).collect();
    let files: Vec<(usize, Vec<u8>)> = ps.iter().map(|p| (1usize, p.clone())).collect();
    let content: Vec<u8> = (0..files.len()).map(|k| k as u8).collect();
    let doc = torrent(&sub(name), 4, &files, &content, files.len() > 1);
    let res = match Metainfo::from_bencode(&doc) {
        Ok(m) => {
            std::env::set_current_dir(&cwd).unwrap();
            // the system's temporary directory is outside the download directory too: point it into the scratch area, so
            // that anything created there shows in the listing below
            let systmp = canary.join("systmp");
            std::fs::create_dir_all(&systmp).unwrap();
            let old_tmp = std::env::var_os("TMPDIR");
            std::env::set_var("TMPDIR", &systmp);
            write_pieces(4, &content);
            let mut r = run_extract(&m);
            if files.len() % 2 == 0 {
                // the client is started a second time in the directory of the finished download
                write_pieces(4, &content);
                let r2 = run_extract(&m);
                if r.is_ok() {
                    r = r2;
                }
            }
            match old_tmp {
                Some(v) => std::env::set_var("TMPDIR", v),
                None => std::env::remove_var("TMPDIR"),
            }
            std::env::set_current_dir(&base).unwrap();
            if r.is_ok() { "ok" } else { "err" }
        }
        Err(_) => "noparse",
    };
    let mut all = vec![];
    list_dir(&canary, std::path::Path::new(""), &mut all);
    let jail_rel: String = vec!["n"; JAIL_DEPTH].join("/");
    let mut listing = vec![];
    for p in all {
        if p.ends_with(".piece") || p == "cwd/" || p == "systmp/" {
            continue;
        }
        let q = p.trim_end_matches('/');
        if jail_rel == q || jail_rel.starts_with(&format!("{}/", q)) {
            continue; // the chain of directories leading to the jail
        }
        match p.strip_prefix(&format!("{}/", jail_rel)) {
            Some(inside) => listing.push(inside.to_string()),
            None => listing.push(format!("<OUT>/{}", p)),
        }
    }
    listing.sort();
    let _ = std::fs::remove_dir_all(&canary);
    format!("{} {}", res, listing.iter().map(|p| hex(p.as_bytes())).collect::<Vec<_>>().join(","))
}

pub fn run03(args: &[&str]) -> String {
    match args[0] {
        "ex" => op_ex(args[1].parse().unwrap(), args[2], &unhex(args[3]), false),
        "exs" => op_ex(args[1].parse().unwrap(), args[2], &unhex(args[3]), true),
        "exg" => {
            // large geometries: the content is a function of (length, seed), the files are reported by hash and length
            let lens: Vec<usize> = args[2].split(',').map(|x| x.parse().unwrap()).collect();
            let content = crate::mi::pattern(lens.iter().sum(), args[3].parse().unwrap());
            let full = op_ex(args[1].parse().unwrap(), args[2], &content, false);
            match full.strip_prefix("ok ") {
                Some(files) if files != "-" => format!(
                    "ok {}",
                    files
                        .split(',')
                        .map(|f| if f == "missing" { "missing".to_string() } else { let d = unhex(f); format!("{}:{}", hex(&sha1(&d)), d.len()) })
                        .collect::<Vec<_>>()
                        .join(",")
                ),
                _ => full,
            }
        }
        "geo" => op_geo(args[1].parse().unwrap(), args[2]),
        _ => panic!("unknown C03 op"),
    }
}

pub fn run04(args: &[&str]) -> String {
    match args[0] {
        "paths" => op_paths(&unhex(args[1]), args[2]),
        "exq" => op_exq(&unhex(args[1]), args[2]),
        _ => panic!("unknown C04 op"),
    }
}

pub fn gen03(r: &mut Rng, n: usize) -> Vec<String> {
    let mut out = vec![];
    for k in 0..n {
        let pl = match r.below(8) {
            0 => 1,
            1 => 16384,
            _ => 1 + r.below(40) as usize,
        };
        let nf = 1 + r.below(8) as usize;
        let small = pl <= 64;
        let lens: Vec<usize> = (0..nf)
            .map(|_| match r.below(6) {
                0 => 0,
                1 => pl,
                2 => pl.saturating_sub(1),
                3 => pl + 1,
                4 => r.below(pl as u64) as usize,
                _ => r.below(if small { 3 * pl as u64 + 1 } else { pl as u64 * 2 }) as usize,
            })
            .collect();
        let total: usize = lens.iter().sum();
        let lens_s = lens.iter().map(|x| x.to_string()).collect::<Vec<_>>().join(",");
        if k % 97 == 50 {
            // piece lengths beyond the client's own default (256 KiB), files that take more than that out of one piece
            let plg = *r.pick(&[262145usize, 524288, 300000]);
            out.push(format!("exg {} 100,{},0,{},77 {}", plg, plg + plg / 2, plg / 3, r.below(1000)));
        }
        if k % 4 == 3 || total > 70000 {
            out.push(format!("geo {} {}", pl, lens_s));
        } else {
            out.push(format!("{} {} {} {}", if k % 3 == 1 { "exs" } else { "ex" }, pl, lens_s, hex(&r.bytes(total))));
        }
    }
    out
}

const PATH_PARTS: [&str; 27] = [
    "a", "b", "..", ".", "", "c.txt", "...", "..a", "a..", " ", "@C@", "x/y", "é", "-",
    // not separators on this platform: one ordinary component each
    "..\\..\\evil", "a\\b", "\\abs", "..\\", "C:\\x", "..\\..",
    // ordinary components that turn into `.` / `..` when control characters or blanks are dropped afterwards
    ".\t.", ".\u{1}.", "\t", ".\n", "..\u{7f}", "a\tb", ". .",
];

fn gen_path(r: &mut Rng) -> Vec<u8> {
    match r.below(10) {
        0 => {
            // exhaustive-style: random string over {a . /}
            let n = r.below(8) as usize;
            (0..n).map(|_| *r.pick(&[b'a', b'.', b'/'])).collect()
        }
        1 => format!("@C@/{}", r.pick(&["outside", "esc/ape", "../up"])).into_bytes(),
        2 => format!("{}{}", "../".repeat(1 + r.below(4) as usize), r.pick(&["etc", "x/y", ""])).into_bytes(),
        _ => {
            let k = 1 + r.below(4) as usize;
            let parts: Vec<&str> = (0..k).map(|_| *r.pick(&PATH_PARTS)).collect();
            let lead = if r.chance(1, 8) { "/" } else { "" };
            // never produce an absolute path outside the canary directory
            let s = format!("{}{}", lead, parts.join("/"));
            if s.starts_with('/') { format!("@C@{}", s).into_bytes() } else { s.into_bytes() }
        }
    }
}

pub fn gen04(r: &mut Rng, n: usize) -> Vec<String> {
    let mut out = vec![];
    for k in 0..n {
        let name = gen_path(r);
        let np = if r.coin() { 1 } else { 2 + r.below(3) as usize };
        let paths: Vec<String> = (0..np).map(|_| hex(&gen_path(r))).collect();
        if k % 3 == 0 {
            // the pure path computation (no '@C@' substitution there: keep it out)
            let clean = |b: Vec<u8>| -> Vec<u8> { String::from_utf8_lossy(&b).replace("@C@", "/abs").into_bytes() };
            let paths2: Vec<String> = paths.iter().map(|p| hex(&clean(unhex(p)))).collect();
            out.push(format!("paths {} {}", hex(&clean(name)), paths2.join(",")));
        } else {
            out.push(format!("exq {} {}", hex(&name), paths.join(",")));
        }
    }
    out
}
