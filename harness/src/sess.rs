//! Helpers around the real `Session` (manager) driven through the verif hooks; C13 ops.
use crate::util::*;
use crate::wire::bits_str;
use rdest::verif::*;
use rdest::{Metainfo, Session};

pub fn rt() -> tokio::runtime::Runtime {
    tokio::runtime::Builder::new_current_thread()
        .enable_all()
        .build()
        .unwrap()
}

/// Deterministic fake piece hash for piece `i` (the manager never checks hashes).
pub fn fake_hash(i: usize) -> [u8; 20] {
    let mut h = [0u8; 20];
    for (k, b) in h.iter_mut().enumerate() {
        *b = (i as u8).wrapping_mul(31).wrapping_add(k as u8);
    }
    h
}

pub fn torrent_bytes(hashes: &[[u8; 20]], piece_len: u64, total: u64, announce: &str) -> Vec<u8> {
    let mut v = vec![];
    v.extend(format!("d8:announce{}:{}4:infod6:lengthi{}e4:name1:f12:piece lengthi{}e6:pieces{}:", announce.len(), announce, total, piece_len, hashes.len() * 20).as_bytes());
    for h in hashes {
        v.extend_from_slice(h);
    }
    v.extend(b"ee");
    v
}

/// Single-file torrent with `n` pieces of `piece_len` bytes (last piece `last_len`, 1..=piece_len).
pub fn metainfo(n: usize, piece_len: u64, last_len: u64) -> Metainfo {
    let hashes: Vec<[u8; 20]> = (0..n).map(fake_hash).collect();
    let total = if n == 0 { 0 } else { (n as u64 - 1) * piece_len + last_len };
    Metainfo::from_bencode(&torrent_bytes(&hashes, piece_len, total, "http://127.0.0.1:1/a")).expect("harness torrent must parse")
}

pub fn own_id() -> [u8; 20] {
    *b"-VF0001-000000000000"
}

pub fn parse_statuses(s: &str) -> Vec<Status> {
    if s == "-" {
        return vec![];
    }
    s.split(',')
        .map(|t| match t {
            "m" => Status::Missing,
            "h" => Status::Have,
            _ => Status::Reserved(t[1..].parse().unwrap()),
        })
        .collect()
}

pub fn statuses_str(st: &[Status]) -> String {
    if st.is_empty() {
        return "-".into();
    }
    st.iter()
        .map(|s| match s {
            Status::Missing => "m".to_string(),
            Status::Have => "h".to_string(),
            Status::Reserved(n) => format!("r{}", n),
        })
        .collect::<Vec<_>>()
        .join(",")
}

pub fn parse_bits(s: &str) -> Vec<bool> {
    s.chars().filter(|c| *c == '0' || *c == '1').map(|c| c == '1').collect()
}

pub fn addr_of(k: usize) -> String {
    format!("10.0.0.{}:{}", k + 1, 6000 + k)
}

/// C13: `ch <statuses> <peer bitfields ';'-separated> <target index>` → eight answers of choose_piece_index.
fn op_choose(statuses: &str, peers: &str, target: usize, by_message: bool) -> String {
    let st = parse_statuses(statuses);
    let peer_bits: Vec<Vec<bool>> = peers.split(';').map(parse_bits).collect();
    let r = catch(|| {
        rt().block_on(async {
            let mut s = Session::new(metainfo(st.len(), 16384, 16384), own_id());
            for (k, bits) in peer_bits.iter().enumerate() {
                s.verif_add_peer(addr_of(k), None);
                if by_message {
                    // the advertised set arrives the way it does in a session: as a Bitfield message of that connection
                    let (tx, _rx) = tokio::sync::oneshot::channel();
                    let cmd = PeerCmd::RecvBitfield { addr: addr_of(k), bitfield: Bitfield::from_vec(bits), resp_ch: tx };
                    let _ = s.verif_handle_peer_cmd(cmd).await;
                } else {
                    s.verif_peers().get_mut(&addr_of(k)).unwrap().pieces = bits.clone();
                }
            }
            *s.verif_statuses() = st.clone();
            let mut out = vec![];
            for _ in 0..8 {
                out.push(match s.verif_choose(&addr_of(target)).await {
                    Some(i) => i.to_string(),
                    None => "-".to_string(),
                });
            }
            out.join(",")
        })
    });
    r.unwrap_or_else(|_| "P".into())
}

pub fn run13(args: &[&str]) -> String {
    match args[0] {
        "ch" => op_choose(args[1], args[2], args[3].parse().unwrap(), false),
        "chb" => op_choose(args[1], args[2], args[3].parse().unwrap(), true),
        _ => panic!("unknown C13 op"),
    }
}

pub fn gen_statuses(r: &mut Rng, n: usize) -> Vec<Status> {
    // three regimes: mostly missing (far from end game), around the end-game limit, nearly done
    let regime = r.below(4);
    (0..n)
        .map(|_| {
            let p_have = match regime {
                0 => 10,
                1 => 50,
                2 => 80,
                _ => 95,
            };
            if r.below(100) < p_have {
                Status::Have
            } else if r.chance(1, 3) {
                Status::Reserved(1 + r.below(3) as usize)
            } else {
                Status::Missing
            }
        })
        .collect()
}

/// A pick made on the Have path: an idle unchoked peer (nothing of it was eligible when it unchoked us, because its
/// only piece was being fetched elsewhere) announces a common piece after the other fetch was given up.
fn gen13_have(r: &mut Rng) -> String {
    let np = 10 + r.below(6) as usize;
    let j = r.below(np as u64) as usize;
    let i = (j + 1 + r.below(np as u64 - 1) as usize) % np;
    let bits = |set: &[usize]| -> String { (0..np).map(|k| if set.contains(&k) { '1' } else { '0' }).collect() };
    if r.chance(1, 3) {
        // the announced piece is being fetched from another peer (not end game): nothing may be asked of the announcer
        let ops = vec![
            format!("a0;b0:{}", bits(&[j])),
            format!("a1;b1:{}", bits(&[])),
            "u0".to_string(),
            "u1".to_string(),
            format!("h1:{}", j),
        ];
        return format!("hist {} {} {}", np, r.next() % 1_000_000, ops.join(";"));
    }
    let extra = 1 + r.below(3) as usize;
    let mut ops = vec![format!("a0;b0:{}", bits(&[j])), format!("a1;b1:{}", bits(&[j]))];
    for k in 0..extra {
        ops.push(format!("a{};b{}:{}", 2 + k, 2 + k, bits(&[i])));
    }
    ops.push("u0".into());
    ops.push("u1".into());
    ops.push(if r.coin() { "c0".to_string() } else { "k0".to_string() });
    ops.push(format!("h1:{}", i));
    format!("hist {} {} {}", np, r.next() % 1_000_000, ops.join(";"))
}

pub fn gen13(r: &mut Rng, n: usize) -> Vec<String> {
    let mut out = vec![];
    // every pick counts: manager histories judged by C13 (the pick of the Have path included)
    out.extend(gen12(r, n / 40));
    for _ in 0..(n / 200).max(6) {
        out.push(gen13_have(r));
    }
    for _ in 0..n {
        let np = match r.below(5) {
            0 => 3 + r.below(8) as usize,
            1 => 9 + r.below(4) as usize,
            2 => 8 * (1 + r.below(4) as usize), // no spare bits in the last byte of a bitfield
            _ => 3 + r.below(38) as usize,
        };
        let mut st = gen_statuses(r, np);
        // put the number of non-Have pieces right at the end-game threshold now and then
        if r.chance(1, 4) && np >= 12 {
            let want = 9 + r.below(3) as usize;
            let mut not_have = 0;
            for s in st.iter_mut() {
                if *s != Status::Have {
                    not_have += 1;
                    if not_have > want {
                        *s = Status::Have;
                    }
                }
            }
            let mut k = 0;
            while not_have < want && k < np {
                if st[k] == Status::Have {
                    st[k] = if r.coin() { Status::Missing } else { Status::Reserved(1) };
                    not_have += 1;
                }
                k += 1;
            }
        }
        let peers = 1 + r.below(6) as usize;
        let dens = 10 + r.below(85);
        let bits: Vec<String> = (0..peers)
            .map(|_| bits_str(&(0..np).map(|_| r.below(100) < dens).collect::<Vec<_>>()))
            .collect();
        let target = r.below(peers as u64) as usize;
        out.push(format!("{} {} {} {}", if r.coin() { "ch" } else { "chb" }, statuses_str(&st), bits.join(";"), target));
    }
    out
}

// ---------------------------------------------------------------------------------------------
// C14: choking policy histories on the real Session.

fn snap14(s: &mut Session) -> String {
    let mut v: Vec<(usize, String)> = s
        .verif_peers()
        .iter()
        .map(|(addr, p)| {
            let k: usize = addr.split(':').next().unwrap().rsplit('.').next().unwrap().parse::<usize>().unwrap() - 1;
            (
                k,
                format!(
                    "{}{}{}{}",
                    k,
                    if p.am_choked { 'c' } else { 'u' },
                    if p.interested { 'i' } else { 'n' },
                    if p.optimistic_unchoke { 'o' } else { '-' }
                ),
            )
        })
        .collect();
    v.sort();
    if v.is_empty() {
        "-".into()
    } else {
        v.into_iter().map(|x| x.1).collect::<Vec<_>>().join(",")
    }
}

fn idx_of(addr: &str) -> usize {
    addr.split(':').next().unwrap().rsplit('.').next().unwrap().parse::<usize>().unwrap() - 1
}

/// `hist <ops ';'-separated>`; ops: a<k> b<k> i<k> n<k> k<k> r<k=rate,...>/<newopt k,…|->
fn op_hist14(ops: &str) -> String {
    let r = catch(|| {
        rt().block_on(async {
            let mut s = Session::new(metainfo(4, 16384, 16384), own_id());
            let mut out: Vec<String> = vec![];
            for op in ops.split(';') {
                let (c, rest) = op.split_at(1);
                let mut pre = String::new();
                match c {
                    "a" => s.verif_add_peer(addr_of(rest.parse().unwrap()), None),
                    "b" => {
                        let (tx, rx) = tokio::sync::oneshot::channel();
                        let cmd = PeerCmd::RecvBitfield {
                            addr: addr_of(rest.parse().unwrap()),
                            // what the peer offers is not C14's business: every third address is a seeder (a complete
                            // bitfield), every third offers nothing, the others something
                            bitfield: {
                                let k: usize = rest.parse().unwrap();
                                Bitfield::from_vec(&match k % 3 {
                                    0 => vec![true, true, true, true],
                                    1 => vec![true, false, true, false],
                                    _ => vec![false, false, false, false],
                                })
                            },
                            resp_ch: tx,
                        };
                        match s.verif_handle_peer_cmd(cmd).await {
                            Ok(_) => match rx.await {
                                Ok(BitfieldCmd::SendState { with_am_unchoked, .. }) => {
                                    pre = format!("B[{}]", if with_am_unchoked { 'u' } else { '-' })
                                }
                                Err(_) => pre = "B[noresp]".into(),
                            },
                            Err(_) => pre = "B[err]".into(),
                        }
                    }
                    "i" => {
                        let cmd = PeerCmd::RecvInterested { addr: addr_of(rest.parse().unwrap()) };
                        if s.verif_handle_peer_cmd(cmd).await.is_err() {
                            pre = "E".into()
                        }
                    }
                    "n" => {
                        let (tx, _rx) = tokio::sync::oneshot::channel();
                        let cmd = PeerCmd::RecvNotInterested { addr: addr_of(rest.parse().unwrap()), resp_ch: tx };
                        if s.verif_handle_peer_cmd(cmd).await.is_err() {
                            pre = "E".into()
                        }
                    }
                    "k" => s.verif_kill_peer(&addr_of(rest.parse().unwrap())).await,
                    "q" => {
                        // the peer asks for a block of a piece we own: the manager's answer (load or ignore) must leave the
                        // choke / interest bookkeeping alone
                        s.verif_statuses()[0] = Status::Have;
                        let (tx, _rx) = tokio::sync::oneshot::channel();
                        let cmd = PeerCmd::RecvRequest { addr: addr_of(rest.parse().unwrap()), piece_index: 0, resp_ch: tx };
                        if s.verif_handle_peer_cmd(cmd).await.is_err() {
                            pre = "E".into()
                        }
                    }
                    "r" => {
                        let (rates_s, opt_s) = rest.split_once('/').unwrap();
                        let mut rates: Vec<(String, u32)> = if rates_s.is_empty() {
                            vec![]
                        } else {
                            rates_s
                                .split(',')
                                .map(|kv| {
                                    let (k, v) = kv.split_once('=').unwrap();
                                    (addr_of(k.parse().unwrap()), v.parse().unwrap())
                                })
                                .collect()
                        };
                        let new_opt: Vec<String> = if opt_s == "-" {
                            vec![]
                        } else {
                            opt_s.split(',').map(|k| addr_of(k.parse().unwrap())).collect()
                        };
                        match s.verif_rotate(&mut rates, &new_opt) {
                            Ok(map) => {
                                let order: Vec<String> = rates.iter().map(|(a, _)| idx_of(a).to_string()).collect();
                                let mut m: Vec<(usize, bool)> = map.iter().map(|(a, b)| (idx_of(a), *b)).collect();
                                m.sort();
                                pre = format!(
                                    "R[{}][{}]",
                                    order.join("."),
                                    m.iter().map(|(k, b)| format!("{}:{}", k, if *b { 'c' } else { 'u' })).collect::<Vec<_>>().join(".")
                                );
                            }
                            Err(_) => pre = "R[err]".into(),
                        }
                    }
                    "t" => {
                        // one rotation tick of the real timer handler: t<round>/<seeder>/<k=dl:ul,...> ('-' = not reported)
                        let f: Vec<&str> = rest.split('/').collect();
                        *s.verif_round() = f[0].parse().unwrap();
                        // 1: everything owned (a seeder); 0: nothing; 2: the end game - nothing Missing any more, the last
                        // pieces still being fetched (Reserved); 3: a mix. Only 1 is a seeder.
                        for (j, st) in s.verif_statuses().iter_mut().enumerate() {
                            *st = match f[1] {
                                "1" => Status::Have,
                                "2" => if j == 0 { Status::Reserved(1) } else if j % 2 == 1 { Status::Have } else { Status::Reserved(2) },
                                "3" => match j % 3 { 0 => Status::Have, 1 => Status::Missing, _ => Status::Reserved(1) },
                                _ => Status::Missing,
                            };
                        }
                        for (_, p) in s.verif_peers().iter_mut() {
                            p.download_rate = None;
                            p.uploaded_rate = None;
                        }
                        if !f[2].is_empty() {
                            for kv in f[2].split(',') {
                                let (k, v) = kv.split_once('=').unwrap();
                                let (d, u) = v.split_once(':').unwrap();
                                // the rates arrive the way they do in a session: a SyncStats command of the connection task
                                let addr = addr_of(k.parse().unwrap());
                                if s.verif_peers().contains_key(&addr) {
                                    let cmd = PeerCmd::SyncStats {
                                        addr,
                                        downloaded_rate: d.parse().ok(),
                                        uploaded_rate: u.parse().ok(),
                                        unexpected_blocks: 0,
                                    };
                                    let _ = s.verif_handle_peer_cmd(cmd).await;
                                }
                            }
                        }
                        let mut brx = s.verif_subscribe();
                        match s.verif_rotation_tick().await {
                            Ok(()) => {
                                let m = match brx.try_recv() {
                                    Ok(BroadCmd::SendOwnState { am_choked_map }) => {
                                        let mut m: Vec<(usize, bool)> = am_choked_map.iter().map(|(a, b)| (idx_of(a), *b)).collect();
                                        m.sort();
                                        format!(
                                            "={}",
                                            m.iter().map(|(k, b)| format!("{}:{}", k, if *b { 'c' } else { 'u' })).collect::<Vec<_>>().join(".")
                                        )
                                    }
                                    Ok(_) => "?".to_string(),
                                    Err(_) => "-".to_string(),
                                };
                                let round = *s.verif_round();
                                pre = format!("T[{}][{}]", round, m);
                            }
                            Err(_) => pre = "T[err]".into(),
                        }
                    }
                    _ => panic!("bad C14 op"),
                }
                out.push(format!("{}{}", pre, snap14(&mut s)));
            }
            out.join(";")
        })
    });
    r.unwrap_or_else(|_| "P".into())
}

pub fn run14(args: &[&str]) -> String {
    match args[0] {
        "hist" => op_hist14(args[1]),
        _ => panic!("unknown C14 op"),
    }
}

/// A rotation tick: round, seeder flag, pairwise distinct rates (the order of ties depends on the hash map's
/// iteration order); with `partial`, some peers have not reported one or both rates yet.
fn tick14(r: &mut Rng, present: &[usize], partial: bool) -> String {
    let mut vals: Vec<u32> = (0..present.len() as u32 * 2 + 2).collect();
    r.shuffle(&mut vals);
    let mut vals2 = vals.clone();
    r.shuffle(&mut vals2);
    let rates: Vec<String> = present
        .iter()
        .enumerate()
        .map(|(j, k)| {
            let d = if partial && r.chance(1, 4) { "-".to_string() } else { vals[j].to_string() };
            let u = if partial && r.chance(1, 4) { "-".to_string() } else { vals2[j].to_string() };
            format!("{}={}:{}", k, d, u)
        })
        .collect();
    format!("t{}/{}/{}", r.below(3), r.below(4), rates.join(","))
}

pub fn gen14(r: &mut Rng, n: usize) -> Vec<String> {
    let mut out = vec![];
    for case in 0..n {
        if case % 8 == 7 {
            // a full house of interested peers waiting for a slot, a few fresh connections that were unchoked on
            // their bitfield and have not reported rates yet, then the timer fires
            let waiting = 9 + r.below(6) as usize;
            let fresh = 1 + r.below(3) as usize;
            let mut ops: Vec<String> = vec![];
            let mut present: Vec<usize> = vec![];
            for k in 0..waiting {
                ops.push(format!("a{}", k));
                ops.push(format!("i{}", k));
                present.push(k);
            }
            if r.chance(1, 2) {
                ops.push(tick14(r, &present, false));
            }
            for k in waiting..waiting + fresh {
                ops.push(format!("a{}", k));
                if r.chance(1, 2) {
                    ops.push(format!("i{}", k));
                }
                ops.push(format!("b{}", k));
            }
            let mut t = tick14(r, &present, false);
            if r.chance(1, 3) {
                present.extend(waiting..waiting + fresh);
                let partial = r.chance(1, 2);
                t = tick14(r, &present, partial);
            }
            ops.push(t);
            present = (0..waiting + fresh).collect();
            for _ in 0..r.below(4) {
                let partial = r.chance(1, 3);
                ops.push(tick14(r, &present, partial));
            }
            out.push(format!("hist {}", ops.join(";")));
            continue;
        }
        let max_peers = match r.below(3) {
            0 => 1 + r.below(6) as usize,
            1 => 9 + r.below(5) as usize,
            _ => 1 + r.below(25) as usize,
        };
        // shadow state to generate admissible new_optimistic choices: (present, am_choked?, interested) is not
        // tracked exactly (the implementation decides am_choked); we re-run the prefix to read the snapshot.
        let steps = 5 + r.below(36) as usize;
        let mut ops: Vec<String> = vec![];
        let mut present: Vec<usize> = vec![];
        for _ in 0..steps {
            let roll = r.below(100);
            if present.is_empty() || (roll < 30 && present.len() < max_peers) {
                let k = loop {
                    let k = r.below(max_peers as u64 + 2) as usize;
                    if !present.contains(&k) {
                        break k;
                    }
                };
                present.push(k);
                ops.push(format!("a{}", k));
                // a fresh connection normally sends its bitfield and often interest right away
                if r.chance(3, 4) {
                    ops.push(format!("i{}", k));
                }
                if r.chance(3, 4) {
                    ops.push(format!("b{}", k));
                }
            } else if roll < 45 {
                ops.push(format!("i{}", r.pick(&present)));
            } else if roll < 52 {
                ops.push(format!("n{}", r.pick(&present)));
            } else if roll < 55 {
                // ... and a late block request right after (a peer that lost interest may still have one in flight)
                let k = *r.pick(&present);
                if r.coin() {
                    ops.push(format!("n{}", k));
                }
                ops.push(format!("q{}", k));
            } else if roll < 65 {
                ops.push(format!("b{}", r.pick(&present)));
            } else if roll < 72 {
                let i = r.below(present.len() as u64) as usize;
                ops.push(format!("k{}", present.remove(i)));
            } else if roll < 82 {
                let partial = r.chance(1, 3);
                ops.push(tick14(r, &present, partial));
            } else {
                // rotation: rates with ties, in random vector order; new_optimistic chosen from the snapshot
                let snap = op_hist14(&ops.join(";"));
                let last = snap.rsplit(';').next().unwrap_or("-").to_string();
                let last = last.rsplit(']').next().unwrap().to_string();
                let cands: Vec<usize> = last
                    .split(',')
                    .filter(|t| t.len() >= 4 && t.contains('c') && t.contains('i') && !t.starts_with('-'))
                    .filter_map(|t| {
                        let digits: String = t.chars().take_while(|c| c.is_ascii_digit()).collect();
                        let flags: String = t.chars().skip_while(|c| c.is_ascii_digit()).collect();
                        if flags.starts_with("ci") { digits.parse().ok() } else { None }
                    })
                    .collect();
                let mut ps = present.clone();
                r.shuffle(&mut ps);
                let tie_base = r.below(5) as u32;
                let rates: Vec<String> = ps
                    .iter()
                    .map(|k| format!("{}={}", k, if r.chance(1, 3) { tie_base } else { r.below(8) as u32 }))
                    .collect();
                let opt = if !cands.is_empty() && r.chance(1, 2) { r.pick(&cands).to_string() } else { "-".to_string() };
                ops.push(format!("r{}/{}", rates.join(","), opt));
            }
        }
        out.push(format!("hist {}", ops.join(";")));
    }
    out
}

// ---------------------------------------------------------------------------------------------
// C12: piece bookkeeping histories on the real Session.

fn snap12(s: &mut Session) -> String {
    let st = statuses_str(&s.verif_statuses().clone());
    let mut v: Vec<(usize, String)> = s
        .verif_peers()
        .iter()
        .map(|(addr, p)| {
            let k = idx_of(addr);
            (
                k,
                format!(
                    "{}:{}:{}{}{}",
                    k,
                    match p.piece_index {
                        Some(i) => i.to_string(),
                        None => "-".into(),
                    },
                    if p.choked { 'c' } else { 'u' },
                    if p.am_interested { 'I' } else { 'n' },
                    if p.interested { 'i' } else { 'n' }
                ),
            )
        })
        .collect();
    v.sort();
    let ps = if v.is_empty() { "-".to_string() } else { v.into_iter().map(|x| x.1).collect::<Vec<_>>().join(",") };
    format!("{}|{}|{}", st, ps, if s.verif_files_extracted() { 'x' } else { '-' })
}

/// Apply one op; returns the reply token (`Rq<i>`, `Ri<i>`, `In`, `Ni`, `Pk`, `Ig`, `-`, `E`).
async fn apply12(s: &mut Session, op: &str) -> String {
    use tokio::sync::oneshot;
    let (c, rest) = op.split_at(1);
    let (kstr, arg) = match rest.split_once(':') {
        Some((k, a)) => (k, a),
        None => (rest, ""),
    };
    let k: usize = kstr.parse().unwrap();
    let addr = addr_of(k);
    let req = |r: &ReqData| r.piece_index;
    match c {
        "a" => {
            s.verif_add_peer(addr, None);
            "-".into()
        }
        "k" => {
            s.verif_kill_peer(&addr).await;
            "-".into()
        }
        "c" => match s.verif_handle_peer_cmd(PeerCmd::RecvChoke { addr }).await {
            Ok(_) => "-".into(),
            Err(_) => "E".into(),
        },
        "i" => match s.verif_handle_peer_cmd(PeerCmd::RecvInterested { addr }).await {
            Ok(_) => "-".into(),
            Err(_) => "E".into(),
        },
        "u" => {
            let (tx, rx) = oneshot::channel();
            match s.verif_handle_peer_cmd(PeerCmd::RecvUnchoke { addr, resp_ch: tx }).await {
                Ok(_) => match rx.await {
                    Ok(UnchokeCmd::SendInterestedAndRequest(r)) => format!("Ri{}", req(&r)),
                    Ok(UnchokeCmd::SendRequest(r)) => format!("Rq{}", req(&r)),
                    Ok(UnchokeCmd::SendNotInterested) => "Ni".into(),
                    Ok(UnchokeCmd::Ignore) => "Ig".into(),
                    Err(_) => "E".into(),
                },
                Err(_) => "E".into(),
            }
        }
        "n" => {
            let (tx, rx) = oneshot::channel();
            match s.verif_handle_peer_cmd(PeerCmd::RecvNotInterested { addr, resp_ch: tx }).await {
                Ok(_) => match rx.await {
                    Ok(NotInterestedCmd::PrepareKill) => "Pk".into(),
                    Ok(NotInterestedCmd::Ignore) => "Ig".into(),
                    Err(_) => "E".into(),
                },
                Err(_) => "E".into(),
            }
        }
        "h" => {
            let (tx, rx) = oneshot::channel();
            let cmd = PeerCmd::RecvHave { addr, piece_index: arg.parse().unwrap(), resp_ch: tx };
            match s.verif_handle_peer_cmd(cmd).await {
                Ok(_) => match rx.await {
                    Ok(HaveCmd::SendInterestedAndRequest(r)) => format!("Ri{}", req(&r)),
                    Ok(HaveCmd::SendInterested) => "In".into(),
                    Ok(HaveCmd::Ignore) => "Ig".into(),
                    Err(_) => "E".into(),
                },
                Err(_) => "E".into(),
            }
        }
        "b" => {
            let (tx, rx) = oneshot::channel();
            let cmd = PeerCmd::RecvBitfield { addr, bitfield: Bitfield::from_vec(&parse_bits(arg)), resp_ch: tx };
            match s.verif_handle_peer_cmd(cmd).await {
                Ok(_) => match rx.await {
                    Ok(BitfieldCmd::SendState { am_interested, .. }) => (if am_interested { "BI" } else { "Bn" }).into(),
                    Err(_) => "E".into(),
                },
                Err(_) => "E".into(),
            }
        }
        "d" | "x" => {
            let (tx, rx) = oneshot::channel();
            let cmd = if c == "d" {
                PeerCmd::PieceDone { addr, resp_ch: tx }
            } else {
                PeerCmd::PieceCancel { addr, resp_ch: tx }
            };
            match s.verif_handle_peer_cmd(cmd).await {
                Ok(_) => match rx.await {
                    Ok(PieceCmd::SendRequest(r)) => format!("Rq{}", req(&r)),
                    Ok(PieceCmd::SendNotInterested) => "Ni".into(),
                    Ok(PieceCmd::PrepareKill) => "Pk".into(),
                    Ok(PieceCmd::Ignore) => "Ig".into(),
                    Err(_) => "E".into(),
                },
                Err(_) => "E".into(),
            }
        }
        _ => panic!("bad C12 op {}", op),
    }
}

/// Bencoded tracker reply listing the peers `ks` (addresses `addr_of(k)`), in this order.
pub fn tracker_reply_for(ks: &[usize]) -> Vec<u8> {
    let mut b = b"d8:intervali1800e5:peersl".to_vec();
    for k in ks {
        let ip = format!("10.0.0.{}", k + 1);
        b.extend_from_slice(format!("d2:ip{}:{}7:peer id20:", ip.len(), ip).as_bytes());
        b.extend_from_slice(format!("-CAND{:02}-000000000000", k % 100).as_bytes());
        b.extend_from_slice(format!("4:porti{}ee", 6000 + k).as_bytes());
    }
    b.extend_from_slice(b"ee");
    b
}

/// The manager-level ops of the connection bookkeeping: `T<k.k.k|->` a tracker reply listing these peers, `F` a
/// tracker failure, `K<k>` a `KillReq` handled by the real `handle_kill_req`. Everything else is `apply12`.
async fn apply_cand(s: &mut Session, op: &str) -> String {
    let (c, rest) = op.split_at(1);
    match c {
        "T" => {
            let ks: Vec<usize> = if rest == "-" { vec![] } else { rest.split('.').map(|t| t.parse().unwrap()).collect() };
            let resp = rdest::TrackerResp::from_bencode(&tracker_reply_for(&ks)).expect("harness tracker reply must parse");
            // the reply is the held tracker task's: that task has returned (the real one announces to a dead port)
            if let Some(j) = s.verif_tracker_job().take() {
                j.abort();
                *s.verif_tracker_job() = Some(tokio::spawn(async {}));
            }
            s.verif_handle_tracker_cmd(TrackerCmd::TrackerResp(resp)).await;
            "-".into()
        }
        "F" => {
            s.verif_handle_tracker_cmd(TrackerCmd::Fail("harness".to_string())).await;
            "-".into()
        }
        "K" => {
            let addr = addr_of(rest.parse().unwrap());
            match s.verif_handle_peer_cmd(PeerCmd::KillReq { addr, reason: "harness".to_string() }).await {
                Ok(_) => "-".into(),
                Err(_) => "E".into(),
            }
        }
        _ => apply12(s, op).await,
    }
}

fn snap_cand(s: &mut Session) -> String {
    let c: Vec<String> = s.verif_candidates().iter().map(|(a, _)| idx_of(a).to_string()).collect();
    format!(
        "{}|{}|{}",
        snap12(s),
        if c.is_empty() { "-".to_string() } else { c.join(".") },
        if s.verif_tracker_job_held() { 'y' } else { 'n' }
    )
}

/// `cand <npieces> <tie-seed> <ops>` → per op `reply|statuses|peers|x|candidates|tracker-held`.
fn op_cand(np: usize, tie_seed: u64, ops: &str) -> String {
    set_tie_break_seed(Some(tie_seed));
    let ops: Vec<String> = ops.split(';').map(|s| s.to_string()).collect();
    let mut out: Vec<String> = vec![];
    let r = catch(|| {
        rt().block_on(async {
            let mut s = Session::new(metainfo(np, 16384, 16384), own_id());
            let mut res: Vec<String> = vec![];
            for op in ops.iter() {
                let step = std::panic::AssertUnwindSafe(apply_cand(&mut s, op));
                let reply = match tokio::time::timeout(std::time::Duration::from_millis(1500), futures_catch(step)).await {
                    Ok(Ok(r)) => r,
                    Ok(Err(())) => {
                        res.push("PANIC".into());
                        return res;
                    }
                    Err(_) => {
                        res.push("HANG".into());
                        return res;
                    }
                };
                res.push(format!("{}|{}", reply, snap_cand(&mut s)));
                // the connection tasks started for candidates fail to connect and report it; nobody reads that here
                tokio::task::yield_now().await;
            }
            res
        })
    });
    set_tie_break_seed(None);
    match r {
        Ok(v) => out.extend(v),
        Err(()) => out.push("PANIC".into()),
    }
    out.join(";")
}

/// `hist <npieces> <tie-seed> <ops>` → per op `reply|statuses|peers`, `PANIC` if the manager panicked.
fn op_hist12(np: usize, tie_seed: u64, ops: &str) -> String {
    set_tie_break_seed(Some(tie_seed));
    let ops: Vec<String> = ops.split(';').map(|s| s.to_string()).collect();
    let mut out: Vec<String> = vec![];
    let r = catch(|| {
        rt().block_on(async {
            let mut s = Session::new(metainfo(np, 16384, 16384), own_id());
            let mut res: Vec<String> = vec![];
            for op in ops.iter() {
                // a panic inside must not lose what was observed so far
                let step = std::panic::AssertUnwindSafe(apply12(&mut s, op));
                let reply = match futures_catch(step).await {
                    Ok(r) => r,
                    Err(()) => {
                        res.push("PANIC".into());
                        return res;
                    }
                };
                res.push(format!("{}|{}", reply, snap12(&mut s)));
            }
            res
        })
    });
    set_tie_break_seed(None);
    match r {
        Ok(v) => out.extend(v),
        Err(()) => out.push("PANIC".into()),
    }
    out.join(";")
}

/// Poll a future to completion catching a panic raised by any poll.
async fn futures_catch<F: std::future::Future>(f: std::panic::AssertUnwindSafe<F>) -> Result<F::Output, ()> {
    let mut f = Box::pin(f.0);
    std::future::poll_fn(move |cx| {
        match std::panic::catch_unwind(std::panic::AssertUnwindSafe(|| f.as_mut().poll(cx))) {
            Ok(std::task::Poll::Ready(v)) => std::task::Poll::Ready(Ok(v)),
            Ok(std::task::Poll::Pending) => std::task::Poll::Pending,
            Err(_) => std::task::Poll::Ready(Err(())),
        }
    })
    .await
}

pub fn run12(args: &[&str]) -> String {
    match args[0] {
        "hist" => op_hist12(args[1].parse().unwrap(), args[2].parse().unwrap(), args[3]),
        "cand" => op_cand(args[1].parse().unwrap(), args[2].parse().unwrap(), args[3]),
        _ => panic!("unknown C12 op"),
    }
}

/// Generate histories; the enabledness of `d`/`x` follows the connection task's own rule for `piece_rx`
/// (set by a reply with request data, cleared on done/cancel and on an unchoke answered without request).
pub fn gen12(r: &mut Rng, n: usize) -> Vec<String> {
    let mut out = vec![];
    for _ in 0..n {
        let np = match r.below(3) {
            0 => 3 + r.below(5) as usize,
            1 => 9 + r.below(4) as usize,
            _ => 3 + r.below(12) as usize,
        };
        let max_peers = 1 + r.below(4) as usize;
        let tie_seed = r.next() % 1_000_000;
        let steps = 4 + r.below(40) as usize;
        let mut ops: Vec<String> = vec![];
        let mut present: Vec<usize> = vec![];
        // replay-based generation: run the prefix on the implementation to know rx / statuses
        let mut rx: std::collections::HashMap<usize, Option<usize>> = Default::default();
        let mut have: Vec<bool> = vec![false; np];
        for _ in 0..steps {
            let roll = r.below(100);
            let op: String;
            if present.is_empty() || (roll < 12 && present.len() < max_peers) {
                let k = loop {
                    let k = r.below(max_peers as u64 + 1) as usize;
                    if !present.contains(&k) {
                        break k;
                    }
                };
                present.push(k);
                rx.insert(k, None);
                ops.push(format!("a{}", k));
                let dens = 30 + r.below(70);
                let bits: Vec<bool> = (0..np).map(|_| r.below(100) < dens).collect();
                op = format!("b{}:{}", k, &bits_str(&bits)[1..]);
            } else {
                let k = *r.pick(&present);
                let has_rx = rx[&k].is_some();
                op = match roll {
                    12..=24 => format!("u{}", k),
                    25..=34 => format!("c{}", k),
                    35..=39 => format!("i{}", k),
                    40..=44 => format!("n{}", k),
                    45..=54 => format!("h{}:{}", k, r.below(np as u64)),
                    55..=59 => {
                        let dens = 30 + r.below(70);
                        let bits: Vec<bool> = (0..np).map(|_| r.below(100) < dens).collect();
                        format!("b{}:{}", k, &bits_str(&bits)[1..])
                    }
                    60..=84 if has_rx => format!("d{}", k),
                    85..=92 if has_rx && have[rx[&k].unwrap()] => format!("x{}", k),
                    93..=96 => {
                        present.retain(|x| *x != k);
                        format!("k{}", k)
                    }
                    _ => format!("u{}", k),
                };
            }
            ops.push(op.clone());
            // observe the implementation's reply to keep the ghost `rx` in step
            let res = op_hist12(np, tie_seed, &ops.join(";"));
            let last = res.rsplit(';').next().unwrap().to_string();
            if last == "PANIC" {
                break;
            }
            let reply = last.split('|').next().unwrap().to_string();
            let (c, rest) = op.split_at(1);
            let k: usize = rest.split(':').next().unwrap().parse().unwrap();
            let idx = |s: &str| s[2..].parse::<usize>().ok();
            match c {
                "u" => {
                    rx.insert(k, if reply.starts_with('R') { idx(&reply) } else { None });
                }
                "h" => {
                    if reply.starts_with('R') {
                        rx.insert(k, idx(&reply));
                    }
                }
                "d" | "x" => {
                    if c == "d" {
                        if let Some(Some(y)) = rx.get(&k) {
                            have[*y] = true;
                        }
                    }
                    rx.insert(k, if reply.starts_with('R') { idx(&reply) } else { None });
                }
                "k" => {
                    rx.remove(&k);
                }
                _ => {}
            }
            // PrepareKill ends the connection task: its only remaining event is the kill request
            if reply == "Pk" {
                ops.push(format!("k{}", k));
                present.retain(|x| *x != k);
                rx.remove(&k);
            }
        }
        out.push(format!("hist {} {} {}", np, tie_seed, ops.join(";")));
    }
    out
}

/// Histories of the connection bookkeeping: tracker replies (also listing connected and already queued peers, and one
/// peer twice), peers that offer nothing, peers that run dry after a piece, lost connections, tracker failures.
pub fn gen_cand(r: &mut Rng, n: usize) -> Vec<String> {
    let mut out = vec![];
    for case in 0..n {
        let np = 1 + r.below(4) as usize;
        let tie_seed = r.next() % 1_000_000;
        let pool = match case % 3 {
            0 => 4 + r.below(4) as usize,
            1 => 12 + r.below(6) as usize,
            _ => 2 + r.below(24) as usize,
        };
        let steps = 3 + r.below(30) as usize;
        if case % 10 == 9 {
            // a crowd of connected peers we are interested in (more than the eleven connections a reply may open), then a reply
            let crowd = 11 + r.below(4) as usize;
            let mut ops: Vec<String> = vec![];
            for k in 0..crowd {
                ops.push(format!("a{}", 30 + k));
                ops.push(format!("b{}:{}", 30 + k, "1".repeat(np)));
            }
            ops.push(format!("T{}", (0..3).map(|k| k.to_string()).collect::<Vec<_>>().join(".")));
            ops.push(format!("K{}", 30));
            ops.push(format!("K{}", 31));
            out.push(format!("cand {} {} {}", np, tie_seed, ops.join(";")));
            continue;
        }
        set_tie_break_seed(Some(tie_seed));
        // one pass: the history is generated against a live session (the reply decides what a task can emit next)
        let ops: Vec<String> = rt().block_on(async {
            let mut s = Session::new(metainfo(np, 16384, 16384), own_id());
            let mut ops: Vec<String> = vec![];
            let mut rx: std::collections::HashMap<usize, Option<usize>> = Default::default();
            let mut have: Vec<bool> = vec![false; np];
            let mut present: Vec<usize> = vec![];
            let mut pending: Option<String> = None;
            for step in 0..steps {
                let roll = r.below(100);
                let op: String;
                if let Some(p) = pending.take() {
                    op = p;
                } else if step == 0 || roll < 12 {
                    // a reply: 0..pool peers, now and then more than eleven, repeated and already connected ones included
                    let cnt = match r.below(4) {
                        0 => r.below(3) as usize,
                        1 => 11 + r.below(4) as usize,
                        _ => r.below(pool as u64 + 1) as usize,
                    };
                    let ks: Vec<String> = (0..cnt).map(|_| r.below(pool as u64).to_string()).collect();
                    op = if ks.is_empty() { "T-".to_string() } else { format!("T{}", ks.join(".")) };
                } else if roll < 16 {
                    op = "F".to_string();
                } else if roll < 22 && present.len() < 20 {
                    // an incoming connection (record added by the harness)
                    let k = 30 + r.below(6) as usize;
                    if present.contains(&k) {
                        continue;
                    }
                    op = format!("a{}", k);
                } else if present.is_empty() {
                    op = format!("K{}", r.below(pool as u64));
                } else {
                    let k = *r.pick(&present);
                    let has_rx = rx.get(&k).map(|x| x.is_some()).unwrap_or(false);
                    op = match roll {
                        22..=41 => {
                            // a bitfield: often nothing we lack
                            let dens = *r.pick(&[0u64, 0, 30, 100]);
                            let bits: Vec<bool> = (0..np).map(|i| !have[i] && r.below(100) < dens || have[i] && r.coin()).collect();
                            format!("b{}:{}", k, &bits_str(&bits)[1..])
                        }
                        42..=56 => format!("u{}", k),
                        57..=61 => format!("c{}", k),
                        62..=66 => format!("i{}", k),
                        67..=69 => format!("n{}", k),
                        70..=84 if has_rx => format!("d{}", k),
                        85..=88 if has_rx && have[rx[&k].unwrap()] => format!("x{}", k),
                        89..=96 => format!("K{}", k),
                        _ => format!("h{}:{}", k, r.below(np as u64)),
                    };
                }
                ops.push(op.clone());
                let step_f = std::panic::AssertUnwindSafe(apply_cand(&mut s, &op));
                let reply = match tokio::time::timeout(std::time::Duration::from_millis(1500), futures_catch(step_f)).await {
                    Ok(Ok(r)) => r,
                    _ => break,
                };
                present = s.verif_peers().keys().map(|a| idx_of(a)).collect();
                present.sort();
                rx.retain(|k, _| present.contains(k));
                let (c, rest) = op.split_at(1);
                let k: Option<usize> = rest.split(':').next().and_then(|t| t.parse().ok());
                if c == "K" {
                    // the address may be connected again at once (it was still queued as a candidate): a new task, nothing assigned
                    if let Some(k) = k {
                        rx.remove(&k);
                    }
                }
                let idx = |s: &str| s[2..].parse::<usize>().ok();
                if let Some(k) = k {
                    match c {
                        "u" => {
                            rx.insert(k, if reply.starts_with('R') { idx(&reply) } else { None });
                        }
                        "h" => {
                            if reply.starts_with('R') {
                                rx.insert(k, idx(&reply));
                            }
                        }
                        "d" | "x" => {
                            if c == "d" {
                                if let Some(Some(y)) = rx.get(&k) {
                                    have[*y] = true;
                                }
                            }
                            rx.insert(k, if reply.starts_with('R') { idx(&reply) } else { None });
                        }
                        _ => {}
                    }
                    // PrepareKill ends the connection task: its only remaining event is the kill request
                    if reply == "Pk" {
                        pending = Some(format!("K{}", k));
                    }
                }
                tokio::task::yield_now().await;
            }
            if let Some(p) = pending.take() {
                ops.push(p);
            }
            ops
        });
        set_tie_break_seed(None);
        out.push(format!("cand {} {} {}", np, tie_seed, ops.join(";")));
    }
    out
}


/// C09 (manager side): `mreq <statuses> <flags: am_choked choked interested am_interested> <idx>` → the manager's
/// answer to `RecvRequest`.
pub fn op_mreq(statuses: &str, flags: &str, idx: usize) -> String {
    let st = parse_statuses(statuses);
    let f: Vec<bool> = flags.chars().map(|c| c == '1').collect();
    let r = catch(|| {
        rt().block_on(async {
            let mut s = Session::new(metainfo(st.len(), 16384, 16384), own_id());
            s.verif_add_peer(addr_of(0), None);
            {
                let p = s.verif_peers().get_mut(&addr_of(0)).unwrap();
                p.am_choked = f[0];
                p.choked = f[1];
                p.interested = f[2];
                p.am_interested = f[3];
            }
            *s.verif_statuses() = st.clone();
            let (tx, rx) = tokio::sync::oneshot::channel();
            let _ = s.verif_handle_peer_cmd(PeerCmd::RecvRequest { addr: addr_of(0), piece_index: idx, resp_ch: tx }).await;
            match rx.await {
                Ok(RequestCmd::LoadAndSendPiece { piece_index, piece_hash }) => format!("ld:{}:{}", piece_index, hex(&piece_hash)),
                Ok(RequestCmd::Ignore) => "ig".to_string(),
                Err(_) => "noreply".to_string(),
            }
        })
    });
    r.unwrap_or_else(|_| "P".into())
}

pub fn gen_mreq(r: &mut Rng) -> String {
    let n = 1 + r.below(6) as usize;
    let st: Vec<&str> = (0..n).map(|_| *r.pick(&["m", "h", "h", "r1", "r2"])).collect();
    let flags: String = (0..4).map(|_| if r.coin() { '1' } else { '0' }).collect();
    let idx = match r.below(6) {
        0 => n,
        1 => n + 3,
        _ => r.below(n as u64) as usize,
    };
    format!("mreq {} {} {}", st.join(","), flags, idx)
}


/// C11 (manager side): `minit <statuses>` → payload of the bitfield the manager answers `Init` with.
pub fn op_minit(statuses: &str) -> String {
    let st = parse_statuses(statuses);
    let r = catch(|| {
        rt().block_on(async {
            let mut s = Session::new(metainfo(st.len(), 16384, 16384), own_id());
            s.verif_add_peer(addr_of(0), None);
            *s.verif_statuses() = st.clone();
            let (tx, rx) = tokio::sync::oneshot::channel();
            let _ = s.verif_handle_peer_cmd(PeerCmd::Init { addr: addr_of(0), peer_id: [65u8; 20], resp_ch: tx }).await;
            match rx.await {
                Ok(InitCmd::SendBitfield { bitfield }) => {
                    let data = bitfield.data();
                    hex(&data[5..])
                }
                Err(_) => "noreply".to_string(),
            }
        })
    });
    r.unwrap_or_else(|_| "P".into())
}

pub fn gen_minit(r: &mut Rng) -> String {
    let n = *r.pick(&[1usize, 7, 8, 9, 16, 17, 3, 24]) + r.below(2) as usize;
    let st: Vec<&str> = (0..n).map(|_| *r.pick(&["m", "h", "h", "r1", "r2", "m"])).collect();
    format!("minit {}", st.join(","))
}
