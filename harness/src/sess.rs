//! Helpers around the real `Session` (manager) driven through the verif hooks; C13 ops.
use crate::util::*;
use crate::wire::bits_str;
use rdest::verif::*;
use rdest::{Metainfo, Session};

pub fn rt() -> tokio::runtime::Runtime {
    tokio::runtime::Builder::new_current_thread()
        .enable_all()
        .build()
        .unwrap()
}

/// Deterministic fake piece hash for piece `i` (the manager never checks hashes).
pub fn fake_hash(i: usize) -> [u8; 20] {
    let mut h = [0u8; 20];
    for (k, b) in h.iter_mut().enumerate() {
        *b = (i as u8).wrapping_mul(31).wrapping_add(k as u8);
    }
    h
}

pub fn torrent_bytes(hashes: &[[u8; 20]], piece_len: u64, total: u64, announce: &str) -> Vec<u8> {
    let mut v = vec![];
    v.extend(format!("d8:announce{}:{}4:infod6:lengthi{}e4:name1:f12:piece lengthi{}e6:pieces{}:", announce.len(), announce, total, piece_len, hashes.len() * 20).as_bytes());
    for h in hashes {
        v.extend_from_slice(h);
    }
    v.extend(b"ee");
    v
}

/// Single-file torrent with `n` pieces of `piece_len` bytes (last piece `last_len`, 1..=piece_len).
pub fn metainfo(n: usize, piece_len: u64, last_len: u64) -> Metainfo {
    let hashes: Vec<[u8; 20]> = (0..n).map(fake_hash).collect();
    let total = if n == 0 { 0 } else { (n as u64 - 1) * piece_len + last_len };
    Metainfo::from_bencode(&torrent_bytes(&hashes, piece_len, total, "http://127.0.0.1:1/a")).expect("harness torrent must parse")
}

pub fn own_id() -> [u8; 20] {
    *b"-VF0001-000000000000"
}

pub fn parse_statuses(s: &str) -> Vec<Status> {
    if s == "-" {
        return vec![];
    }
    s.split(',')
        .map(|t| match t {
            "m" => Status::Missing,
            "h" => Status::Have,
            _ => Status::Reserved(t[1..].parse().unwrap()),
        })
        .collect()
}

pub fn statuses_str(st: &[Status]) -> String {
    if st.is_empty() {
        return "-".into();
    }
    st.iter()
        .map(|s| match s {
            Status::Missing => "m".to_string(),
            Status::Have => "h".to_string(),
            Status::Reserved(n) => format!("r{}", n),
        })
        .collect::<Vec<_>>()
        .join(",")
}

pub fn parse_bits(s: &str) -> Vec<bool> {
    s.chars().filter(|c| *c == '0' || *c == '1').map(|c| c == '1').collect()
}

pub fn addr_of(k: usize) -> String {
    format!("10.0.0.{}:{}", k + 1, 6000 + k)
}

/// C13: `ch <statuses> <peer bitfields ';'-separated> <target index>` → eight answers of choose_piece_index.
fn op_choose(statuses: &str, peers: &str, target: usize) -> String {
    let st = parse_statuses(statuses);
    let peer_bits: Vec<Vec<bool>> = peers.split(';').map(parse_bits).collect();
    let r = catch(|| {
        rt().block_on(async {
            let mut s = Session::new(metainfo(st.len(), 16384, 16384), own_id());
            for (k, bits) in peer_bits.iter().enumerate() {
                s.verif_add_peer(addr_of(k), None);
                s.verif_peers().get_mut(&addr_of(k)).unwrap().pieces = bits.clone();
            }
            *s.verif_statuses() = st.clone();
            let mut out = vec![];
            for _ in 0..8 {
                out.push(match s.verif_choose(&addr_of(target)).await {
                    Some(i) => i.to_string(),
                    None => "-".to_string(),
                });
            }
            out.join(",")
        })
    });
    r.unwrap_or_else(|_| "P".into())
}

pub fn run13(args: &[&str]) -> String {
    match args[0] {
        "ch" => op_choose(args[1], args[2], args[3].parse().unwrap()),
        _ => panic!("unknown C13 op"),
    }
}

pub fn gen_statuses(r: &mut Rng, n: usize) -> Vec<Status> {
    // three regimes: mostly missing (far from end game), around the end-game limit, nearly done
    let regime = r.below(4);
    (0..n)
        .map(|_| {
            let p_have = match regime {
                0 => 10,
                1 => 50,
                2 => 80,
                _ => 95,
            };
            if r.below(100) < p_have {
                Status::Have
            } else if r.chance(1, 3) {
                Status::Reserved(1 + r.below(3) as usize)
            } else {
                Status::Missing
            }
        })
        .collect()
}

pub fn gen13(r: &mut Rng, n: usize) -> Vec<String> {
    let mut out = vec![];
    for _ in 0..n {
        let np = match r.below(4) {
            0 => 3 + r.below(8) as usize,
            1 => 9 + r.below(4) as usize,
            _ => 3 + r.below(38) as usize,
        };
        let mut st = gen_statuses(r, np);
        // put the number of non-Have pieces right at the end-game threshold now and then
        if r.chance(1, 4) && np >= 12 {
            let want = 9 + r.below(3) as usize;
            let mut not_have = 0;
            for s in st.iter_mut() {
                if *s != Status::Have {
                    not_have += 1;
                    if not_have > want {
                        *s = Status::Have;
                    }
                }
            }
            let mut k = 0;
            while not_have < want && k < np {
                if st[k] == Status::Have {
                    st[k] = if r.coin() { Status::Missing } else { Status::Reserved(1) };
                    not_have += 1;
                }
                k += 1;
            }
        }
        let peers = 1 + r.below(6) as usize;
        let dens = 10 + r.below(85);
        let bits: Vec<String> = (0..peers)
            .map(|_| bits_str(&(0..np).map(|_| r.below(100) < dens).collect::<Vec<_>>()))
            .collect();
        let target = r.below(peers as u64) as usize;
        out.push(format!("ch {} {} {}", statuses_str(&st), bits.join(";"), target));
    }
    out
}
