//! Correspondence harness for rdest: runs the real implementation (built from /repo's working tree
//! with `--features verif`) on generated or replayed cases and prints one line per case:
//! `<PROP> <args…> | <canonical implementation result>`.
mod bcodec;
mod conn;
mod e2e02;
mod hand;
mod lag;
mod meta;
mod mi;
mod tr;
mod tr19;
mod sess;
mod sysloop;
mod util;
mod wire;

use std::io::{BufRead, Write};
use util::Rng;

fn run_line(prop: &str, args: &[&str]) -> String {
    match prop {
        "C02" | "C19" | "C11" | "C01" if args[0] == "hist" || args[0] == "cand" => sess::run12(args),
        "C02" if args[0] == "lag" => lag::op_lag(args[1].parse().unwrap(), args[2].parse().unwrap()),
        "C02" => e2e02::run(args),
        "C03" => meta::run03(args),
        "C04" => meta::run04(args),
        "C05" | "C17" => mi::run(args),
        "C18" => tr::run18(args),
        "C19" => tr19::run19(args),
        "C06" => conn::run(args),
        "C01" | "C12" | "C02" | "C11" if args[0] == "sys" => sysloop::op_sys(args[1].parse().unwrap(), args[2].parse().unwrap(), args[3].parse().unwrap(), args[4]),
        "C08" if args[0] == "resp" || args[0] == "accept" => tr19::run19(args),
        "C09" if args[0] == "hist" => sess::run14(args),
        "C08" | "C09" | "C10" | "C11" | "C20" | "C01" => hand::run(args),
        "C07" if args[0] == "st" || args[0] == "snd" || args[0] == "tcps" => conn::run(args),
        "C07" => wire::run(args),
        "C12" => sess::run12(args),
        "C15" if args[0] == "dec" => bcodec::run16(args),
        "C15" => bcodec::run15(args),
        "C16" => bcodec::run16(args),
        "C13" if args[0] == "hist" => sess::run12(args),
        "C13" => sess::run13(args),
        "C14" if args[0] == "hand" || args[0] == "stats" => hand::run(args),
        "C14" => sess::run14(args),
        _ => panic!("unknown property {}", prop),
    }
}

fn gen(prop: &str, rng: &mut Rng, n: usize) -> Vec<String> {
    match prop {
        "C02" => {
            // end-to-end runs, then manager histories (the tie of the manager model that C02's T2/T3 are proved on)
            let mut v = e2e02::gen(rng, n);
            v.extend(sess::gen12(rng, n * 25));
            // the connection bookkeeping around it (candidates, re-announce): model Swarm/Cand, theorems T5
            v.extend(sess::gen_cand(rng, n * 5));
            // a connection whose transport is ready late, after more announcements than the broadcast channel retains
            v.push("lag 40 35".to_string());
            v.push(format!("lag {} {}", 36 + rng.below(30), 33 + rng.below(3)));
            v.push("lag 12 3".to_string());
            v
        }
        "C03" => meta::gen03(rng, n),
        "C04" => meta::gen04(rng, n),
        "C05" => mi::gen05(rng, n),
        "C17" => mi::gen17(rng, n),
        "C19" => tr19::gen19(rng, n, std::env::args().nth(5).map(|t| t == "thorough").unwrap_or(false)),
        "C18" => tr::gen18(rng, n, std::env::args().nth(5).map(|t| t == "thorough").unwrap_or(false)),
        "C06" => conn::gen(rng, n),
        "C09" => {
            let mut v = hand::gen(rng, n, prop);
            // "a peer the client chokes gets no piece data": the choke state the manager has on record must be the one the peer
            // was told (choking-policy histories incl. repeated bitfields and block requests, read by C14's model)
            v.extend(sess::gen14(rng, (n / 8).max(20)));
            v
        }
        "C08" | "C10" | "C11" | "C20" | "C01" => hand::gen(rng, n, prop),
        "C07" => wire::gen(rng, n),
        "C12" => {
            // manager histories (events scripted), then the closed loop: the same events produced by real connection tasks
            let mut v = sess::gen12(rng, n);
            for _ in 0..(n / 100).max(5) {
                v.push(sysloop::gen_sys(rng));
            }
            // "no sequence of peer events makes the manager panic": announcements of pieces on and just behind the end of the
            // torrent, before and after a bitfield, in the closed loop (the task must stop them; the manager must survive)
            for np in [1usize, 3, 8, 9] {
                for i in [np - 1, np, np + 1, 0xffff_ffff] {
                    let hs = format!("f0:hs,{},{}", sysloop::PLACEHOLDER, "x4141414141414141414141414141414141414141");
                    let bf = format!("f0:bf,x{}", "00".repeat((np + 7) / 8));
                    let mid = if rng.coin() { format!(";{}", bf) } else { String::new() };
                    v.push(format!("sys {} 100 {} a0;{}{};f0:hv,{};f0:un", np, rng.next() % 1_000_000, hs, mid, i));
                }
            }
            // ... and the connection bookkeeping that creates and replaces the peer records the reservations hang on
            v.extend(sess::gen_cand(rng, (n / 50).max(10)));
            v
        }
        "C15" => bcodec::gen15(rng, n),
        "C16" => bcodec::gen16(rng, n, std::env::args().nth(5).map(|t| t == "thorough").unwrap_or(false)),
        "C13" => sess::gen13(rng, n),
        "C14" => {
            // manager histories, then the connection task's side: own-state broadcasts on the wire (C14_trace)
            let mut v = sess::gen14(rng, n);
            v.extend(hand::gen(rng, (n / 5).max(14), "C14"));
            // the measured rate itself: the task's statistics and its timer handler
            for _ in 0..(n / 10).max(10) {
                v.push(hand::gen_stats(rng));
            }
            v
        }
        _ => panic!("unknown property {}", prop),
    }
}

/// Candidate simplifications of one argument token (used by `harness shrink`).
fn shrink_token(t: &str) -> Vec<String> {
    let mut out = vec![];
    let list = |sep: char, out: &mut Vec<String>| {
        let items: Vec<&str> = t.split(sep).collect();
        let n = items.len();
        if n > 1 {
            let s = sep.to_string();
            out.push(items[..n / 2].join(&s));
            out.push(items[n / 2..].join(&s));
            if n >= 8 {
                for q in 0..4 {
                    let (a, b) = (q * n / 4, (q + 1) * n / 4);
                    let mut v = items.clone();
                    v.drain(a..b);
                    out.push(v.join(&s));
                }
            }
            for i in (0..n).rev() {
                let mut v = items.clone();
                v.remove(i);
                out.push(v.join(&s));
            }
        }
    };
    if t.contains(';') {
        list(';', &mut out);
    } else if t.contains(',') {
        list(',', &mut out);
    } else if let Some(h) = t.strip_prefix('x') {
        let n = h.len() / 2;
        if n > 0 {
            out.push(format!("x{}", &h[..2 * (n / 2)]));
            out.push(format!("x{}", &h[2 * (n / 2)..]));
            if n <= 96 {
                for i in (0..n).rev() {
                    out.push(format!("x{}{}", &h[..2 * i], &h[2 * i + 2..]));
                }
            }
        }
    } else if let Some(b) = t.strip_prefix('b') {
        if b.len() > 1 && b.chars().all(|c| c == '0' || c == '1') {
            out.push(format!("b{}", &b[..b.len() / 2]));
            out.push(format!("b{}", &b[..b.len() - 1]));
        }
    } else if let Ok(v) = t.parse::<u64>() {
        if v > 0 {
            out.push("0".into());
            out.push((v / 2).to_string());
            out.push((v - 1).to_string());
        }
    }
    out.retain(|c| c != t && !c.is_empty());
    out
}

fn emit(out: &mut impl Write, prop: &str, args_line: &str) {
    let args: Vec<&str> = args_line.split_whitespace().collect();
    let res = match util::catch(|| run_line(prop, &args)) {
        Ok(r) => r,
        Err(()) => "BADCASE".to_string(),
    };
    writeln!(out, "{} {} | {}", prop, args_line, res).unwrap();
}

fn main() {
    if std::env::var("VERIF_PANIC_TRACE").is_err() { std::panic::set_hook(Box::new(|_| {})); }
    let argv: Vec<String> = std::env::args().collect();
    let stdout = std::io::stdout();
    let mut out = std::io::BufWriter::new(stdout.lock());
    match argv.get(1).map(|s| s.as_str()) {
        // harness child-e2e19 <k> <kinds> <npeers>   (internal: spawned by `C19 e2e`)
        Some("child-e2e02") => {
            drop(out);
            e2e02::child(
                argv[2].parse().expect("seed"),
                argv[3].parse().expect("pl"),
                &argv[4],
                argv[5].parse().expect("honest"),
                argv[6].parse().expect("droppers"),
                argv[7].parse().expect("mode"),
            );
        }
        Some("child-e2e19") => {
            drop(out);
            tr19::child_e2e19(argv[2].parse().expect("k"), &argv[3], argv[4].parse().expect("npeers"));
        }
        Some("child-acc08") => {
            drop(out);
            tr19::child_acc08(argv.get(2).map(|s| s.as_str()) != Some("u"));
        }
        // harness gen <PROP> <seed> <count>
        Some("gen") => {
            let prop = &argv[2];
            let seed: u64 = argv[3].parse().expect("seed");
            let n: usize = argv[4].parse().expect("count");
            let mut rng = Rng::new(seed);
            if prop == "CAND" {
                // connection bookkeeping histories only (development aid; the checks run them inside C02 and C19)
                for a in sess::gen_cand(&mut rng, n) {
                    emit(&mut out, "C02", &a);
                }
                return;
            }
            for a in gen(prop, &mut rng, n) {
                emit(&mut out, prop, &a);
            }
        }
        // harness run   (stdin: lines `<PROP> <args…>` with an optional `| …` tail that is ignored)
        Some("run") => {
            let stdin = std::io::stdin();
            for line in stdin.lock().lines() {
                let line = line.unwrap();
                let line = line.split('|').next().unwrap().trim().to_string();
                if line.is_empty() || line.starts_with('#') {
                    continue;
                }
                let (prop, rest) = line.split_once(' ').unwrap_or((&line, ""));
                emit(&mut out, prop, rest);
            }
        }
        // harness shrink  (stdin: one line `<PROP> <args…>`; stdout: simpler candidate lines)
        Some("shrink") => {
            let stdin = std::io::stdin();
            for line in stdin.lock().lines() {
                let line = line.unwrap();
                let line = line.split('|').next().unwrap().trim().to_string();
                let toks: Vec<&str> = line.split_whitespace().collect();
                if toks.len() < 2 {
                    continue;
                }
                for i in (1..toks.len()).rev() {
                    for cand in shrink_token(toks[i]) {
                        let mut v: Vec<String> = toks.iter().map(|s| s.to_string()).collect();
                        v[i] = cand;
                        writeln!(out, "{}", v.join(" ")).unwrap();
                    }
                }
            }
        }
        _ => {
            eprintln!("usage: harness gen <PROP> <seed> <count> | harness run < cases");
            std::process::exit(2);
        }
    }
}
