//! Correspondence harness for rdest: runs the real implementation (built from /repo's working tree
//! with `--features verif`) on generated or replayed cases and prints one line per case:
//! `<PROP> <args…> | <canonical implementation result>`.
mod conn;
mod sess;
mod util;
mod wire;

use std::io::{BufRead, Write};
use util::Rng;

fn run_line(prop: &str, args: &[&str]) -> String {
    match prop {
        "C06" => conn::run(args),
        "C07" => wire::run(args),
        "C13" => sess::run13(args),
        _ => panic!("unknown property {}", prop),
    }
}

fn gen(prop: &str, rng: &mut Rng, n: usize) -> Vec<String> {
    match prop {
        "C06" => conn::gen(rng, n),
        "C07" => wire::gen(rng, n),
        "C13" => sess::gen13(rng, n),
        _ => panic!("unknown property {}", prop),
    }
}

fn emit(out: &mut impl Write, prop: &str, args_line: &str) {
    let args: Vec<&str> = args_line.split_whitespace().collect();
    let res = run_line(prop, &args);
    writeln!(out, "{} {} | {}", prop, args_line, res).unwrap();
}

fn main() {
    std::panic::set_hook(Box::new(|_| {}));
    let argv: Vec<String> = std::env::args().collect();
    let stdout = std::io::stdout();
    let mut out = std::io::BufWriter::new(stdout.lock());
    match argv.get(1).map(|s| s.as_str()) {
        // harness gen <PROP> <seed> <count>
        Some("gen") => {
            let prop = &argv[2];
            let seed: u64 = argv[3].parse().expect("seed");
            let n: usize = argv[4].parse().expect("count");
            let mut rng = Rng::new(seed);
            for a in gen(prop, &mut rng, n) {
                emit(&mut out, prop, &a);
            }
        }
        // harness run   (stdin: lines `<PROP> <args…>` with an optional `| …` tail that is ignored)
        Some("run") => {
            let stdin = std::io::stdin();
            for line in stdin.lock().lines() {
                let line = line.unwrap();
                let line = line.split('|').next().unwrap().trim().to_string();
                if line.is_empty() || line.starts_with('#') {
                    continue;
                }
                let (prop, rest) = line.split_once(' ').unwrap_or((&line, ""));
                emit(&mut out, prop, rest);
            }
        }
        _ => {
            eprintln!("usage: harness gen <PROP> <seed> <count> | harness run < cases");
            std::process::exit(2);
        }
    }
}
