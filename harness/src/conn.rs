//! C06: `Connection::parse_frame` / `recv_frame` against scripted byte sources.
use crate::util::*;
use crate::wire::{frame_toks, gen_msg, impl_data, M};
use rdest::verif::*;
use tokio::io::AsyncWriteExt;

fn rt() -> tokio::runtime::Runtime {
    tokio::runtime::Builder::new_current_thread()
        .enable_all()
        .build()
        .unwrap()
}

/// feed + one `parse_frame` call.
fn op_pf(buf: &[u8]) -> String {
    let r = catch(|| {
        let mut c = Connection::new("mem".to_string());
        c.verif_feed(buf);
        let res = c.verif_parse_frame();
        (res, c.verif_buffer_len())
    });
    match r {
        Err(()) => "P".into(),
        Ok((Ok(Some(f)), rest)) => format!("F {} {}", frame_toks(&f).join(","), rest),
        Ok((Ok(None), rest)) => format!("N {}", rest),
        Ok((Err(_), _)) => "X".into(),
    }
}

fn ev_frame(f: &Frame) -> String {
    format!("F:{}", frame_toks(f).join(","))
}

fn cuts_to_chunks(cuts: &str, stream: &[u8]) -> Vec<Vec<u8>> {
    let mut out = vec![];
    let mut pos = 0usize;
    if cuts != "-" {
        for c in cuts.split(',') {
            let n: usize = c.parse().unwrap();
            out.push(stream[pos..pos + n].to_vec());
            pos += n;
        }
    }
    if pos < stream.len() {
        out.push(stream[pos..].to_vec());
    }
    out
}

/// In-memory stream, exact segmentation: the next chunk is written only when `recv_frame` is pending.
fn op_st(cuts: &str, stream: &[u8]) -> String {
    let chunks = cuts_to_chunks(cuts, stream);
    let r = catch(|| {
        rt().block_on(async move {
            let (mut w, r) = tokio::io::duplex(1 << 22);
            let mut conn = Connection::new("mem".to_string());
            conn.verif_with_stream(r);
            let mut events: Vec<String> = vec![];
            let mut retained: Vec<usize> = vec![];
            let mut next = 0usize;
            let mut w_open = true;
            loop {
                // poll recv_frame once; if it is pending, it is waiting for a read
                let polled = {
                    let fut = conn.recv_frame();
                    tokio::pin!(fut);
                    tokio::select! {
                        biased;
                        r = &mut fut => Some(r),
                        _ = std::future::ready(()) => None,
                    }
                };
                match polled {
                    Some(Ok(Some(f))) => events.push(ev_frame(&f)),
                    Some(Ok(None)) => {
                        events.push("C".into());
                        break;
                    }
                    Some(Err(rdest::Error::ConnectionReset)) => {
                        events.push("R".into());
                        break;
                    }
                    Some(Err(_)) => {
                        events.push("X".into());
                        break;
                    }
                    None => {
                        retained.push(conn.verif_buffer_len());
                        if next < chunks.len() {
                            w.write_all(&chunks[next]).await.unwrap();
                            next += 1;
                        } else if w_open {
                            w.shutdown().await.unwrap();
                            w_open = false;
                        } else {
                            events.push("STALL".into());
                            break;
                        }
                    }
                }
            }
            format!(
                "{} r={}",
                events.join(";"),
                retained.iter().map(|x| x.to_string()).collect::<Vec<_>>().join(",")
            )
        })
    });
    r.unwrap_or_else(|_| "P".into())
}

/// Real TCP over loopback (exercises the socket branch of `recv_frame`); segmentation is whatever the OS does.
fn op_tcp(cuts: &str, stream: &[u8]) -> String {
    let chunks = cuts_to_chunks(cuts, stream);
    let r = catch(|| {
        rt().block_on(async move {
            let listener = tokio::net::TcpListener::bind("127.0.0.1:0").await.unwrap();
            let addr = listener.local_addr().unwrap();
            let writer = tokio::spawn(async move {
                let mut s = tokio::net::TcpStream::connect(addr).await.unwrap();
                s.set_nodelay(true).unwrap();
                for c in chunks {
                    if s.write_all(&c).await.is_err() {
                        return;
                    }
                    let _ = s.flush().await;
                    tokio::task::yield_now().await;
                }
                let _ = s.shutdown().await;
                // keep the socket until the reader is done
                tokio::time::sleep(std::time::Duration::from_millis(20)).await;
            });
            let (sock, _) = listener.accept().await.unwrap();
            let mut conn = Connection::new(addr.to_string());
            conn.with_socket(sock);
            let mut events: Vec<String> = vec![];
            loop {
                let r = tokio::time::timeout(std::time::Duration::from_secs(5), conn.recv_frame()).await;
                match r {
                    Err(_) => {
                        events.push("STALL".into());
                        break;
                    }
                    Ok(Ok(Some(f))) => events.push(ev_frame(&f)),
                    Ok(Ok(None)) => {
                        events.push("C".into());
                        break;
                    }
                    Ok(Err(rdest::Error::ConnectionReset)) => {
                        events.push("R".into());
                        break;
                    }
                    Ok(Err(_)) => {
                        events.push("X".into());
                        break;
                    }
                }
            }
            writer.abort();
            events.join(";")
        })
    });
    r.unwrap_or_else(|_| "P".into())
}

/// Payload of the `k`-th Piece message of a `snd` run.
pub fn snd_block(k: usize, len: usize) -> Vec<u8> {
    (0..len).map(|j| ((k * 31 + j * 7 + 3) % 251) as u8).collect()
}

fn fnv64(data: &[u8]) -> u64 {
    let mut h: u64 = 0xcbf29ce484222325;
    for b in data {
        h ^= *b as u64;
        h = h.wrapping_mul(0x100000001b3);
    }
    h
}

/// `snd <n> <len> <delay ms>`: the socket branch of `send_msg` under back-pressure. `n` Piece messages (each followed by a
/// Have) are written with `Connection::send_msg` to a loopback TCP socket with the smallest buffers the OS grants, while the
/// remote does not read for `delay` ms; then it reads everything. Reports the length and FNV-1a hash of what arrived.
fn op_snd(n: usize, len: usize, delay_ms: u64) -> String {
    let r = catch(|| {
        rt().block_on(async move {
            use tokio::io::AsyncReadExt;
            let lsock = tokio::net::TcpSocket::new_v4().unwrap();
            let _ = lsock.set_recv_buffer_size(2048);
            lsock.bind("127.0.0.1:0".parse().unwrap()).unwrap();
            let listener = lsock.listen(4).unwrap();
            let addr = listener.local_addr().unwrap();
            let reader = tokio::spawn(async move {
                let (mut s, _) = listener.accept().await.unwrap();
                tokio::time::sleep(std::time::Duration::from_millis(delay_ms)).await;
                let mut all: Vec<u8> = vec![];
                let mut buf = vec![0u8; 65536];
                loop {
                    match tokio::time::timeout(std::time::Duration::from_secs(10), s.read(&mut buf)).await {
                        Ok(Ok(0)) => break,
                        Ok(Ok(k)) => all.extend_from_slice(&buf[..k]),
                        _ => break,
                    }
                }
                all
            });
            let csock = tokio::net::TcpSocket::new_v4().unwrap();
            let _ = csock.set_send_buffer_size(2048);
            let stream = csock.connect(addr).await.unwrap();
            let mut conn = Connection::new(addr.to_string());
            conn.with_socket(stream);
            let mut err = String::new();
            for k in 0..n {
                let m = M::Pc(k as u32, 0, snd_block(k, len));
                let sent = tokio::time::timeout(std::time::Duration::from_secs(20), async {
                    match &m {
                        M::Pc(i, b, blk) => conn.send_msg(&Piece::new(*i as usize, *b as usize, blk.clone())).await.is_ok(),
                        _ => true,
                    }
                })
                .await;
                if sent != Ok(true) {
                    err = format!("ERR-send-{}", k);
                    break;
                }
                if conn.send_msg(&Have::new(k)).await.is_err() {
                    err = format!("ERR-send-have-{}", k);
                    break;
                }
            }
            drop(conn);
            let all = reader.await.unwrap_or_default();
            if !err.is_empty() {
                return err;
            }
            format!("len={} fnv={:016x}", all.len(), fnv64(&all))
        })
    });
    r.unwrap_or_else(|_| "P".into())
}

/// `tcps`: as `tcp`, but the receive loop is the connection task's: `recv_frame` is polled inside a `select!` next to a
/// timer, so a pending receive is dropped and started again while a frame is still arriving in parts (every part of the
/// stream is written after a pause). What is decoded must not depend on that.
fn op_tcps(cuts: &str, stream: &[u8]) -> String {
    let chunks = cuts_to_chunks(cuts, stream);
    let r = catch(|| {
        rt().block_on(async move {
            let listener = tokio::net::TcpListener::bind("127.0.0.1:0").await.unwrap();
            let addr = listener.local_addr().unwrap();
            let writer = tokio::spawn(async move {
                let mut s = tokio::net::TcpStream::connect(addr).await.unwrap();
                s.set_nodelay(true).unwrap();
                for c in chunks {
                    if s.write_all(&c).await.is_err() {
                        return;
                    }
                    let _ = s.flush().await;
                    tokio::time::sleep(std::time::Duration::from_millis(12)).await;
                }
                let _ = s.shutdown().await;
                tokio::time::sleep(std::time::Duration::from_millis(20)).await;
            });
            let (sock, _) = listener.accept().await.unwrap();
            let mut conn = Connection::new(addr.to_string());
            conn.with_socket(sock);
            let mut events: Vec<String> = vec![];
            let mut tick = tokio::time::interval(std::time::Duration::from_millis(3));
            let t0 = std::time::Instant::now();
            loop {
                if t0.elapsed().as_secs() >= 8 {
                    events.push("STALL".into());
                    break;
                }
                tokio::select! {
                    r = conn.recv_frame() => match r {
                        Ok(Some(f)) => events.push(ev_frame(&f)),
                        Ok(None) => {
                            events.push("C".into());
                            break;
                        }
                        Err(rdest::Error::ConnectionReset) => {
                            events.push("R".into());
                            break;
                        }
                        Err(_) => {
                            events.push("X".into());
                            break;
                        }
                    },
                    _ = tick.tick() => {}
                }
            }
            writer.abort();
            events.join(";")
        })
    });
    r.unwrap_or_else(|_| "P".into())
}

pub fn run(args: &[&str]) -> String {
    if args[0] == "tcps" {
        return op_tcps(args[1], &unhex(args[2]));
    }
    if args[0] == "snd" {
        return op_snd(args[1].parse().unwrap(), args[2].parse().unwrap(), args[3].parse().unwrap());
    }
    if args[0] == "hand" {
        return crate::hand::run(args);
    }
    match args[0] {
        "pf" => op_pf(&unhex(args[1])),
        "st" => op_st(args[1], &unhex(args[2])),
        "tcp" => op_tcp(args[1], &unhex(args[2])),
        _ => panic!("unknown C06 op"),
    }
}

fn small_msg(r: &mut Rng) -> M {
    // like gen_msg but with small payloads most of the time
    match gen_msg(r) {
        M::Bf(b) if b.len() > 64 && r.chance(9, 10) => M::Bf(b[..r.below(20) as usize].to_vec()),
        M::Pc(i, b, blk) if blk.len() > 64 && r.chance(9, 10) => {
            M::Pc(i, b, blk[..r.below(40) as usize].to_vec())
        }
        m => m,
    }
}

/// One stream element: valid message, unknown id, malformed, garbage.
fn element(r: &mut Rng) -> Vec<u8> {
    match r.below(20) {
        0..=10 => impl_data(&small_msg(r)),
        11 | 12 => {
            // unknown id with a complete body
            let id = loop {
                let id = r.below(256) as u8;
                if id > 8 {
                    break id;
                }
            };
            let n = r.below(12) as usize;
            let mut v = ((1 + n) as u32).to_be_bytes().to_vec();
            v.push(id);
            v.extend(r.bytes(n));
            v
        }
        13 => vec![0, 0, 0, 0],
        14 => {
            // known id, impossible length
            let id = r.below(9) as u8;
            let len = *r.pick(&[1u32, 2, 3, 5, 6, 8, 9, 12, 13, 14, 0x10000, 0x10001, 0xffff_ffff]);
            let mut v = len.to_be_bytes().to_vec();
            v.push(id);
            v.extend(r.bytes_below(20));
            v
        }
        15 => {
            // handshake look-alike
            let mut v = impl_data(&M::Hs(r.bytes(20), r.bytes(20)));
            match r.below(4) {
                0 => v[0] = r.next() as u8,
                1 => {
                    let k = 1 + r.below(19) as usize;
                    v[k] ^= 1 << r.below(8)
                }
                2 => v[4] = r.next() as u8,
                _ => {}
            }
            v
        }
        16 => {
            // oversize / boundary length with unknown or known id
            let len = *r.pick(&[65535u32, 65536, 65537, 0x0100_0000, 0x1300_0000, 0xffff_ffff]);
            let mut v = len.to_be_bytes().to_vec();
            v.push(r.next() as u8);
            v.extend(r.bytes_below(10));
            v
        }
        18 if r.chance(1, 3) => {
            // a complete frame of (nearly) the maximum size: with its 4-byte prefix it is longer than the 65536-byte
            // receive buffer's initial capacity
            let len = *r.pick(&[65531u32, 65532, 65533, 65535, 65536]);
            let id = *r.pick(&[5u8, 7, 7, 20, 9]);
            let mut v = len.to_be_bytes().to_vec();
            v.push(id);
            if id == 7 {
                v.extend_from_slice(&(r.below(4) as u32).to_be_bytes());
                v.extend_from_slice(&(r.below(3) as u32 * 16384).to_be_bytes());
                v.extend(vec![0xabu8; len as usize - 9]);
            } else {
                v.extend(vec![0x5au8; len as usize - 1]);
            }
            v
        }
        17 => {
            // id 84 ('T') without the handshake prefix
            let n = r.below(6) as usize;
            let mut v = ((1 + n) as u32).to_be_bytes().to_vec();
            v.push(84);
            v.extend(r.bytes(n));
            v
        }
        _ => {
            let n = 1 + r.below(12) as usize;
            r.bytes(n)
        }
    }
}

pub fn gen_stream(r: &mut Rng) -> Vec<u8> {
    let k = 1 + r.below(6);
    let mut s = vec![];
    for _ in 0..k {
        s.extend(element(r));
    }
    if r.chance(1, 3) && !s.is_empty() {
        let cut = r.below(s.len() as u64 + 1) as usize;
        s.truncate(cut);
    }
    s
}

fn random_cuts(r: &mut Rng, len: usize) -> String {
    if len == 0 {
        return "-".into();
    }
    if len > 65536 && r.chance(2, 3) {
        // a stream longer than the receive buffer: first read at, just below or just above its capacity
        let first = *r.pick(&[65535usize, 65536, 65537, 65532, len - 1]);
        if first < len {
            return first.to_string();
        }
    }
    let k = r.below(5) as usize;
    let mut cuts = vec![];
    let mut left = len;
    for _ in 0..k {
        if left <= 1 {
            break;
        }
        let n = 1 + r.below(left as u64 - 1) as usize;
        cuts.push(n.to_string());
        left -= n;
    }
    if cuts.is_empty() {
        "-".into()
    } else {
        cuts.join(",")
    }
}

pub fn gen(r: &mut Rng, n: usize) -> Vec<String> {
    let mut out = vec![];
    while out.len() < n {
        let s = gen_stream(r);
        match r.below(10) {
            0..=3 => out.push(format!("pf {}", hex(&s))),
            4..=7 => out.push(format!("st {} {}", random_cuts(r, s.len()), hex(&s))),
            8 => {
                // every single cut point of a short stream
                if s.len() <= 48 && s.len() >= 2 {
                    for c in 1..s.len() {
                        out.push(format!("st {} {}", c, hex(&s)));
                    }
                } else {
                    out.push(format!("st {} {}", random_cuts(r, s.len()), hex(&s)));
                }
            }
            _ => out.push(format!("{} {} {}", if r.coin() { "tcp" } else { "tcps" }, random_cuts(r, s.len()), hex(&s))),
        }
        // level 3: the connection task itself on a stream that the decoder rejects / that ends
        if out.len() % 12 == 0 {
            out.push(crate::hand::gen_script(r, "C10"));
        }
    }
    out.truncate(n);
    out
}
