//! C17 / C05: `Metainfo::from_bencode`, accessors, `create_file`, info-hash.
use crate::util::*;
use rdest::Metainfo;

fn err_tag(e: &rdest::Error) -> String {
    let s = format!("{:?}", e);
    if s.starts_with("Decode") {
        return "Decode".into();
    }
    s.replace("(\"", ":").replace("\")", "").replace(' ', "_")
}

/// Every accessor, for every valid piece index (capped: first 40 and last 3), under `catch_unwind`.
fn accessors(m: &Metainfo) -> String {
    let mut bad = vec![];
    let n = match catch(|| m.pieces_num()) {
        Ok(n) => n,
        Err(()) => {
            bad.push("pieces_num".to_string());
            0
        }
    };
    if catch(|| m.total_length()).is_err() {
        bad.push("total_length".into());
    }
    if catch(|| m.tracker_url().len()).is_err() {
        bad.push("tracker_url".into());
    }
    if catch(|| m.info_hash()[0]).is_err() {
        bad.push("info_hash".into());
    }
    let mut idx: Vec<usize> = (0..n.min(40)).collect();
    for k in 1..=3 {
        if n >= k && !idx.contains(&(n - k)) {
            idx.push(n - k);
        }
    }
    let mut pl_bad = false;
    let mut p_bad = false;
    for i in idx {
        pl_bad |= catch(|| m.piece_length(i)).is_err();
        p_bad |= catch(|| m.piece(i)[0]).is_err();
    }
    if pl_bad {
        bad.push("piece_length".into());
    }
    if p_bad {
        bad.push("piece".into());
    }
    if catch(|| m.file_piece_ranges().len()).is_err() {
        bad.push("file_piece_ranges".into());
    }
    if bad.is_empty() {
        "safe".into()
    } else {
        format!("P:{}", bad.join("+"))
    }
}

/// `mi x<doc> …` → `err <kind>` | `ok <announce> <name> <piece length> <pieces> <files> <info hash> <total|P> <accessors>`
fn op_mi(doc: &[u8]) -> String {
    let m = match catch(|| Metainfo::from_bencode(doc)) {
        Err(()) => return "P".into(),
        Ok(Err(e)) => return format!("err {}", err_tag(&e)),
        Ok(Ok(m)) => m,
    };
    let (name, pl, files) = m.verif_fields();
    let n = m.pieces_num();
    let mut pieces = vec![];
    for i in 0..n {
        pieces.extend_from_slice(m.piece(i));
    }
    let files_s: Vec<String> = files.iter().map(|(l, p)| format!("{}:{}", l, hex(p.as_bytes()))).collect();
    let total = match catch(|| m.total_length()) {
        Ok(t) => t.to_string(),
        Err(()) => "P".into(),
    };
    format!(
        "ok {} {} {} {} {} {} {} {}",
        hex(m.tracker_url().as_bytes()),
        hex(name.as_bytes()),
        pl,
        hex(&pieces),
        if files_s.is_empty() { "-".to_string() } else { files_s.join(",") },
        hex(m.info_hash()),
        total,
        accessors(&m)
    )
}

/// The content of a created file: a function of (length, seed) that the model driver recomputes.
pub fn pattern(len: usize, seed: u64) -> Vec<u8> {
    // a multiplicative hash of the index: no two pieces of a test torrent have the same content
    (0..len)
        .map(|i| ((((i as u64).wrapping_add(seed.wrapping_mul(40503))).wrapping_mul(2654435761) & 0xffff_ffff) >> 24) as u8)
        .collect()
}

/// `create <name> <tracker> <len> <seed>` → the bytes of the `.torrent` written by `create_file`, and what
/// `from_file` reads back from it (`-` if it does not parse).
fn op_create(name: &[u8], tracker: &[u8], len: usize, seed: u64) -> String {
    static COUNTER: std::sync::atomic::AtomicUsize = std::sync::atomic::AtomicUsize::new(0);
    let n = COUNTER.fetch_add(1, std::sync::atomic::Ordering::SeqCst);
    let base = std::env::current_dir().unwrap();
    let dir = base.join(format!("create_{}_{}", std::process::id(), n));
    std::fs::create_dir_all(dir.join("src")).unwrap();
    let name_s = String::from_utf8(name.to_vec()).expect("utf-8 file name");
    let tracker_s = String::from_utf8(tracker.to_vec()).expect("utf-8 tracker url");
    let path = dir.join("src").join(&name_s);
    std::env::set_current_dir(&dir).unwrap();
    if seed % 3 == 0 {
        // an earlier torrent of a longer version of the file (with a longer tracker URL) is already there: creating the
        // torrent again must replace it, whatever its size
        std::fs::write(&path, pattern(len + 2 * 262144 + 17, seed + 1)).unwrap();
        let _ = catch(|| Metainfo::create_file(&path, &(tracker_s.clone() + "/a/much/longer/announce/path")));
    }
    std::fs::write(&path, pattern(len, seed)).unwrap();
    let r = catch(|| Metainfo::create_file(&path, &tracker_s));
    let out = match r {
        Err(()) => "P".to_string(),
        Ok(Err(e)) => format!("err {}", err_tag(&e)),
        Ok(Ok(())) => match std::fs::read(dir.join(format!("{}.torrent", name_s))) {
            Ok(t) => {
                let back = match catch(|| Metainfo::from_file(&dir.join(format!("{}.torrent", name_s)))) {
                    Ok(Ok(m)) => format!("{}:{}", m.total_length(), m.pieces_num()),
                    _ => "-".into(),
                };
                format!("ok {} {}", hex(&t), back)
            }
            Err(_) => "nofile".into(),
        },
    };
    std::env::set_current_dir(&base).unwrap();
    let _ = std::fs::remove_dir_all(&dir);
    out
}

pub fn run(args: &[&str]) -> String {
    match args[0] {
        "mi" => op_mi(&unhex(args[1])),
        "create" => op_create(&unhex(args[1]), &unhex(args[2]), args[3].parse().unwrap(), args[4].parse().unwrap()),
        _ => panic!("unknown metainfo op"),
    }
}

// ---------------------------------------------------------------------------------------------------------------
// Document generator: a syntax tree with control over the exact encoding.

#[derive(Clone)]
pub enum T {
    Int(String),
    /// bytes, number of leading zeros in the length prefix
    Str(Vec<u8>, usize),
    List(Vec<T>),
    /// entries in the order they are written; keys are strings with their own leading zeros
    Dict(Vec<(Vec<u8>, usize, T)>),
}

pub fn render_str(out: &mut Vec<u8>, s: &[u8], zeros: usize) {
    out.extend(std::iter::repeat(b'0').take(zeros));
    out.extend(s.len().to_string().as_bytes());
    out.push(b':');
    out.extend_from_slice(s);
}

impl T {
    pub fn render(&self, out: &mut Vec<u8>) {
        match self {
            T::Int(s) => {
                out.push(b'i');
                out.extend(s.as_bytes());
                out.push(b'e');
            }
            T::Str(s, z) => render_str(out, s, *z),
            T::List(items) => {
                out.push(b'l');
                for i in items {
                    i.render(out);
                }
                out.push(b'e');
            }
            T::Dict(entries) => {
                out.push(b'd');
                for (k, z, v) in entries {
                    render_str(out, k, *z);
                    v.render(out);
                }
                out.push(b'e');
            }
        }
    }
    pub fn s(b: &[u8]) -> T {
        T::Str(b.to_vec(), 0)
    }
    pub fn i(v: i128) -> T {
        T::Int(v.to_string())
    }
}

const HUGE: [i128; 9] = [0, 1, 2, 20, 1 << 31, (1 << 32) + 1, (1 << 62) + 5, (1 << 63) - 1, 1 << 63];

fn rand_small(r: &mut Rng, depth: usize) -> T {
    match r.below(if depth == 0 { 2 } else { 5 }) {
        0 => T::i(r.below(100) as i128 - 20),
        1 => {
            let n = r.below(6) as usize;
            T::Str(r.bytes(n), if r.chance(1, 6) { 1 + r.below(2) as usize } else { 0 })
        }
        2 => T::List((0..r.below(3)).map(|_| rand_small(r, depth - 1)).collect()),
        _ => {
            let keys: [&[u8]; 6] = [b"a", b"info", b"k", b"name", b"zz", b"length"];
            T::Dict((0..r.below(3)).map(|_| (r.pick(&keys).to_vec(), 0, rand_small(r, depth - 1))).collect())
        }
    }
}

fn utf8_name(r: &mut Rng) -> Vec<u8> {
    let opts: [&[u8]; 8] = [b"NAME", b"a", b"file.bin", "zażółć".as_bytes(), "日本".as_bytes(), b"dir/f", b"", b"x y"];
    match r.below(3) {
        0 => utf8_text(r),
        _ => r.pick(&opts).to_vec(),
    }
}

/// Valid UTF-8 that a "helpful" conversion would alter: leading / trailing / inner white space of every kind, NUL, BOM,
/// upper case, percent escapes, combining marks, characters outside the BMP.
fn utf8_text(r: &mut Rng) -> Vec<u8> {
    const PALETTE: [&str; 30] = [
        " ", "\t", "\n", "\r", "\u{b}", "\u{c}", "\u{85}", "\u{a0}", "\u{2028}", "\u{3000}", "\u{feff}", "\0", "a", "Z", "/", "\\", ".", "..", "%",
        "%20", "?", "&", "=", ":", "+", "é", "e\u{301}", "日", "😀", "\u{7f}",
    ];
    let n = r.below(9) as usize;
    let mut s = String::new();
    for _ in 0..n {
        s.push_str(*r.pick(&PALETTE[..]));
    }
    s.into_bytes()
}

/// Announce values: plain URLs, and text the parser must hand over untouched.
fn announce_text(r: &mut Rng) -> Vec<u8> {
    let opts: [&[u8]; 11] = [
        b"http://127.0.0.1:8000/ann", b"URL", b"http://t.example/a?k=v", b"", b"http://t/a\n", b" http://t/a", b"HTTP://T.Example/A%2fb/", b"   ",
        b"udp://tracker.example.org:6969/announce", b"wss://t.example/a", b"http://t.example/my tracker/a?user=John Doe&k=v",
    ];
    match r.below(3) {
        0 => utf8_text(r),
        _ => r.pick(&opts).to_vec(),
    }
}

fn bad_utf8(r: &mut Rng) -> Vec<u8> {
    let opts: [&[u8]; 7] = [b"\xff", b"a\x80", b"\xc0\xaf", b"\xed\xa0\x80", b"\xf4\x90\x80\x80", b"\xe2\x82", b"\xf0\x9f\x98"];
    r.pick(&opts).to_vec()
}

pub struct Doc {
    pub bytes: Vec<u8>,
    /// span of the value of the last `info` key of the main dictionary (when the document was built around one)
    pub span: Option<Vec<u8>>,
}

/// The entries of an `info` dictionary; `mutate` selects one deliberate defect (0 = none).
fn info_entries(r: &mut Rng, mutate: u64) -> Vec<(Vec<u8>, usize, T)> {
    let npieces = r.below(5) as usize;
    let mut pieces = r.bytes(20 * npieces);
    let mut pl: T = T::i(*r.pick(&[1i128, 2, 16, 16384, 262144, 1 << 40, (1 << 63) - 1]));
    let mut name: Option<T> = Some(T::s(&utf8_name(r)));
    let multi = r.coin();
    let mut length: Option<T> = if multi { None } else { Some(T::i(*r.pick(&HUGE[..8]))) };
    let mut files: Option<T> = if multi {
        let n = r.below(4);
        Some(T::List(
            (0..n)
                .map(|_| {
                    let mut e = vec![(b"length".to_vec(), 0, T::i(*r.pick(&HUGE[..7]))), (b"path".to_vec(), 0, T::s(&utf8_name(r)))];
                    if r.chance(1, 4) {
                        e.push((b"md5".to_vec(), 0, T::s(b"0123")));
                    }
                    if r.chance(1, 5) {
                        e.swap(0, 1);
                    }
                    T::Dict(e)
                })
                .collect(),
        ))
    } else {
        None
    };
    match mutate {
        1 => pl = T::i(0),
        2 => pl = T::i(-5),
        3 => pl = T::s(b"16"),
        4 => pieces.push(1),
        5 => name = None,
        6 => name = Some(T::s(&bad_utf8(r))),
        7 => name = Some(T::i(3)),
        8 => {
            length = None;
            files = None;
        }
        9 => {
            length = Some(T::i(5));
            files = Some(T::List(vec![]));
        }
        10 => {
            // file lengths whose sum does not fit u64
            files = Some(T::List(
                (0..3).map(|k| T::Dict(vec![(b"length".to_vec(), 0, T::i((1 << 63) - 1)), (b"path".to_vec(), 0, T::s(format!("f{}", k).as_bytes()))])).collect(),
            ));
            length = None;
        }
        11 => {
            // malformed file entries are skipped
            files = Some(T::List(vec![
                T::i(1),
                T::Dict(vec![(b"length".to_vec(), 0, T::i(-1)), (b"path".to_vec(), 0, T::s(b"neg"))]),
                T::Dict(vec![(b"length".to_vec(), 0, T::i(7)), (b"path".to_vec(), 0, T::s(&bad_utf8(r)))]),
                T::Dict(vec![(b"length".to_vec(), 0, T::i(7)), (b"path".to_vec(), 0, T::List(vec![T::s(b"a")]))]),
                T::Dict(vec![(b"length".to_vec(), 0, T::i(9)), (b"path".to_vec(), 0, T::s(b"good"))]),
                T::Dict(vec![(b"path".to_vec(), 0, T::s(b"nolen"))]),
            ]));
            length = None;
        }
        12 => length = if multi { Some(T::i(-1)) } else { Some(T::s(b"12")) },
        13 => pl = T::i(1 << 63),
        _ => {}
    }
    let mut e: Vec<(Vec<u8>, usize, T)> = vec![];
    if let Some(f) = files {
        e.push((b"files".to_vec(), 0, f));
    }
    if let Some(l) = length {
        e.push((b"length".to_vec(), 0, l));
    }
    if let Some(n) = name {
        e.push((b"name".to_vec(), 0, n));
    }
    e.push((b"piece length".to_vec(), 0, pl));
    if mutate != 14 {
        e.push((b"pieces".to_vec(), 0, T::Str(pieces, 0)));
    }
    // extras inside info, possibly nested dictionaries with their own `info`/`name` keys
    for _ in 0..r.below(3) {
        let k: [&[u8]; 5] = [b"private", b"source", b"zzz", b"aaa", b"meta"];
        e.push((r.pick(&k).to_vec(), 0, rand_small(r, 2)));
    }
    e
}

/// A metainfo document. `style`: 0 = canonical order, 1 = shuffled keys / leading zeros, 2 = decoys around `info`.
pub fn gen_doc(r: &mut Rng, mutate: u64, style: u64) -> Doc {
    let mut info = info_entries(r, mutate);
    if style >= 1 {
        r.shuffle(&mut info);
        for e in info.iter_mut() {
            if r.chance(1, 5) {
                e.1 = 1 + r.below(2) as usize;
            }
        }
    } else {
        info.sort_by(|a, b| a.0.cmp(&b.0));
    }
    let info_t = T::Dict(info);
    let mut span = vec![];
    info_t.render(&mut span);

    let mut top: Vec<(Vec<u8>, usize, T)> = vec![];
    match mutate {
        20 => {}
        21 => top.push((b"announce".to_vec(), 0, T::i(1))),
        22 => top.push((b"announce".to_vec(), 0, T::s(&bad_utf8(r)))),
        _ => top.push((b"announce".to_vec(), 0, T::s(&announce_text(r)))),
    }
    if mutate == 23 {
        top.push((b"info".to_vec(), 0, T::i(7)));
    } else if mutate != 24 {
        top.push((b"info".to_vec(), if style >= 1 && r.chance(1, 4) { 1 } else { 0 }, info_t.clone()));
    }
    // extra top-level keys
    let nextra = r.below(4);
    for _ in 0..nextra {
        let k: [&[u8]; 7] = [b"comment", b"creation date", b"a", b"zz", b"encoding", b"announce-list", b"nodes"];
        let v = if style == 2 && r.coin() {
            // decoy: a dictionary that itself has a key spelled `info`
            T::Dict(vec![(b"x".to_vec(), 0, rand_small(r, 1)), (b"info".to_vec(), 0, rand_small(r, 2))])
        } else if r.chance(1, 6) {
            // BEP 12: further trackers, tier by tier (the client announces to `announce`; what it reports as the tracker URL
            // is that key's value)
            T::List(vec![
                T::List(vec![T::s(b"http://backup.example.net/announce"), T::s(b"udp://t2.example:80")]),
                T::List(vec![T::s(b"https://third.example/a")]),
            ])
        } else if style >= 1 && r.chance(1, 3) {
            // decoy: a *value* spelled like the key (e.g. `6:source4:info`), in front of or behind the real entry
            T::s(b"info")
        } else {
            rand_small(r, 2)
        };
        let is_tiers = matches!(&v, T::List(l) if l.len() == 2 && matches!(&l[0], T::List(_)));
        top.push((if is_tiers { b"announce-list".to_vec() } else { r.pick(&k).to_vec() }, 0, v));
    }
    if style == 0 {
        top.sort_by(|a, b| a.0.cmp(&b.0));
    } else {
        r.shuffle(&mut top);
    }
    if mutate == 25 {
        // a second `info` key after the first (the HashMap keeps the last)
        let mut second = info_entries(r, 0);
        second.sort_by(|a, b| a.0.cmp(&b.0));
        let t2 = T::Dict(second);
        span.clear();
        t2.render(&mut span);
        top.push((b"info".to_vec(), 0, t2));
    }
    let mut bytes = vec![];
    // values in front of the dictionary
    if style == 2 {
        for _ in 0..r.below(3) {
            let pre = match r.below(4) {
                0 => T::i(4),
                1 => T::s(b"info"),
                2 => T::List(vec![T::Dict(vec![(b"info".to_vec(), 0, T::i(1))])]),
                _ => T::Dict(vec![(b"info".to_vec(), 0, T::s(b"decoy"))]),
            };
            pre.render(&mut bytes);
        }
    }
    T::Dict(top).render(&mut bytes);
    // data following the dictionary
    if r.chance(1, 4) {
        match r.below(3) {
            0 => T::i(0).render(&mut bytes),
            1 => T::Dict(vec![(b"info".to_vec(), 0, T::s(b"after"))]).render(&mut bytes),
            _ => T::s(b"trailing").render(&mut bytes),
        }
    }
    let has_info = mutate != 23 && mutate != 24;
    Doc { bytes, span: if has_info { Some(span) } else { None } }
}

fn line(d: &Doc) -> String {
    format!("mi {} {}", hex(&d.bytes), d.span.as_ref().map(|s| hex(s)).unwrap_or("-".into()))
}

pub fn gen17(r: &mut Rng, n: usize) -> Vec<String> {
    let mut out = vec![];
    // byte-string length prefixes that no buffer can hold (above isize::MAX, at usize::MAX): an error, never a panic
    for doc in [
        &b"d8:announce9223372036854775808:URL4:infod6:lengthi1e4:name1:a12:piece lengthi1e6:pieces20:AAAAAAAAAAAAAAAAAAAAee"[..],
        b"d8:announce3:URL4:infod6:lengthi1e4:name1:a12:piece lengthi1e6:pieces18446744073709551615:AAAAAAAAAAAAAAAAAAAAee",
        b"d8:announce3:URL4:infod6:lengthi1e4:name9223372036854775809:a12:piece lengthi1e6:pieces20:AAAAAAAAAAAAAAAAAAAAee",
        b"9999999999999999999:",
        b"d9223372036854775808:announce3:URLe",
    ] {
        out.push(line(&Doc { bytes: doc.to_vec(), span: None }));
    }
    for k in 0..n {
        if k % 40 == 39 {
            let pl = 262144usize;
            let len = *r.pick(&[0usize, 1, 20, pl - 1, pl, pl + 1, 2 * pl + 5]);
            let names: [&[u8]; 5] = [b"my_file.dat", b"a", "zażółć gęślą".as_bytes(), b"x y.z", "日本語.bin".as_bytes()];
            let tr: [&[u8]; 3] = [b"http://127.0.0.1:8000", b"", "http://tracker.example/ąę?x=1".as_bytes()];
            let (nm, tk) = (*r.pick(&names), *r.pick(&tr));
            out.push(format!("create {} {} {} {}", hex(nm), hex(tk), len, r.below(256)));
            continue;
        }
        let d = match r.below(10) {
            0..=3 => {
                let st = r.below(3);
                gen_doc(r, 0, st)
            }
            4..=6 => {
                let (mu, st) = (1 + r.below(14), r.below(2));
                gen_doc(r, mu, st)
            }
            7 => {
                let (mu, st) = (20 + r.below(6), r.below(2));
                gen_doc(r, mu, st)
            }
            8 => {
                // truncation / mutation of a valid document
                let mut d = gen_doc(r, 0, 0);
                if r.coin() {
                    let cut = r.below(d.bytes.len() as u64 + 1) as usize;
                    d.bytes.truncate(cut);
                } else {
                    let i = r.below(d.bytes.len() as u64) as usize;
                    d.bytes[i] = *r.pick(&[b'e', b'd', b'l', b'i', b'0', b':', b'-', 0xff]);
                }
                d.span = None;
                d
            }
            _ => {
                let n = r.below(12) as usize;
                Doc { bytes: (0..n).map(|_| *r.pick(&[b'd', b'e', b'l', b'i', b'1', b'4', b':', b'a', b'-'])).collect(), span: None }
            }
        };
        out.push(line(&d));
    }
    out
}

pub fn gen05(r: &mut Rng, n: usize) -> Vec<String> {
    (0..n)
        .map(|k| {
            let d = match k % 8 {
                0 => gen_doc(r, 0, 0),
                1 | 2 => gen_doc(r, 0, 1),
                7 => {
                    let st = r.below(3);
                    gen_doc(r, 25, st)
                }
                6 if k % 16 == 6 => {
                    // the document ends inside the info value (accepted, finding C16-F1): the last one to three bytes of a
                    // document that ends with its info dictionary are cut off
                    let mut d = gen_doc(r, 0, 0);
                    let cut = 1 + r.below(3) as usize;
                    if d.bytes.len() > cut + 4 {
                        let n = d.bytes.len() - cut;
                        d.bytes.truncate(n);
                        d.span = None;
                    }
                    d
                }
                _ => gen_doc(r, 0, 2),
            };
            line(&d)
        })
        .collect()
}
