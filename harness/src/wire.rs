//! C07 (and the parse level of C06): serialisers and `Frame::parse`.
use crate::util::*;
use rdest::verif::*;
use std::io::Cursor;

#[derive(Clone, Debug)]
pub enum M {
    Hs(Vec<u8>, Vec<u8>),
    Ka,
    Ch,
    Un,
    In,
    Ni,
    Hv(u32),
    Bf(Vec<u8>),
    Rq(u32, u32, u32),
    Pc(u32, u32, Vec<u8>),
    Cn(u32, u32, u32),
}

pub fn m_toks(m: &M) -> Vec<String> {
    match m {
        M::Hs(h, p) => vec!["hs".into(), hex(h), hex(p)],
        M::Ka => vec!["ka".into()],
        M::Ch => vec!["ch".into()],
        M::Un => vec!["un".into()],
        M::In => vec!["in".into()],
        M::Ni => vec!["ni".into()],
        M::Hv(i) => vec!["hv".into(), i.to_string()],
        M::Bf(b) => vec!["bf".into(), hex(b)],
        M::Rq(i, b, l) => vec!["rq".into(), i.to_string(), b.to_string(), l.to_string()],
        M::Pc(i, b, blk) => vec!["pc".into(), i.to_string(), b.to_string(), hex(blk)],
        M::Cn(i, b, l) => vec!["cn".into(), i.to_string(), b.to_string(), l.to_string()],
    }
}

pub fn m_of_toks(t: &[&str]) -> M {
    let n = |s: &str| s.parse::<u32>().expect("u32");
    match t[0] {
        "hs" => M::Hs(unhex(t[1]), unhex(t[2])),
        "ka" => M::Ka,
        "ch" => M::Ch,
        "un" => M::Un,
        "in" => M::In,
        "ni" => M::Ni,
        "hv" => M::Hv(n(t[1])),
        "bf" => M::Bf(unhex(t[1])),
        "rq" => M::Rq(n(t[1]), n(t[2]), n(t[3])),
        "pc" => M::Pc(n(t[1]), n(t[2]), unhex(t[3])),
        "cn" => M::Cn(n(t[1]), n(t[2]), n(t[3])),
        _ => panic!("bad message token"),
    }
}

fn arr20(v: &[u8]) -> [u8; 20] {
    let mut a = [0u8; 20];
    a.copy_from_slice(v);
    a
}

/// Bytes produced by the real serialiser for `m`.
pub fn impl_data(m: &M) -> Vec<u8> {
    match m {
        M::Hs(h, p) => Handshake::new(&arr20(h), &arr20(p)).data(),
        M::Ka => KeepAlive::new().data(),
        M::Ch => Choke::new().data(),
        M::Un => Unchoke::new().data(),
        M::In => Interested::new().data(),
        M::Ni => NotInterested::new().data(),
        M::Hv(i) => Have::new(*i as usize).data(),
        M::Bf(b) => {
            // Bitfield has no byte constructor: build it by parsing a frame carrying `b`.
            let mut raw = ((1 + b.len()) as u32).to_be_bytes().to_vec();
            raw.push(5);
            raw.extend_from_slice(b);
            let mut crs = Cursor::new(&raw[..]);
            match Frame::parse(&mut crs) {
                Ok(Frame::Bitfield(bf)) => bf.data(),
                _ => {
                    // too large for a frame: go through from_vec of the bits (same bytes when padded with 0)
                    let bits: Vec<bool> = b
                        .iter()
                        .flat_map(|x| (0..8).map(move |k| x & (0x80 >> k) != 0))
                        .collect();
                    Bitfield::from_vec(&bits).data()
                }
            }
        }
        M::Rq(i, b, l) => Request::new(*i as usize, *b as usize, *l as usize).data(),
        M::Pc(i, b, blk) => Piece::new(*i as usize, *b as usize, blk.clone()).data(),
        M::Cn(i, b, l) => Cancel::new(*i as usize, *b as usize, *l as usize).data(),
    }
}

/// Canonical description of a parsed frame (re-serialised through the real accessors).
pub fn frame_toks(f: &Frame) -> Vec<String> {
    match f {
        Frame::Handshake(h) => {
            let d = h.data();
            vec!["hs".into(), hex(&d[28..48]), hex(&d[48..68])]
        }
        Frame::KeepAlive(_) => vec!["ka".into()],
        Frame::Choke(_) => vec!["ch".into()],
        Frame::Unchoke(_) => vec!["un".into()],
        Frame::Interested(_) => vec!["in".into()],
        Frame::NotInterested(_) => vec!["ni".into()],
        Frame::Have(h) => vec!["hv".into(), h.piece_index().to_string()],
        Frame::Bitfield(b) => vec!["bf".into(), hex(&b.data()[5..])],
        Frame::Request(r) => vec![
            "rq".into(),
            r.piece_index().to_string(),
            r.block_begin().to_string(),
            r.block_length().to_string(),
        ],
        Frame::Piece(p) => vec![
            "pc".into(),
            p.piece_index().to_string(),
            p.block_begin().to_string(),
            hex(p.block()),
        ],
        Frame::Cancel(c) => {
            let d = c.data();
            let f = |o: usize| u32::from_be_bytes([d[o], d[o + 1], d[o + 2], d[o + 3]]).to_string();
            vec!["cn".into(), f(5), f(9), f(13)]
        }
    }
}

/// `Frame::parse` on `buf` → outcome tokens (`F n msg…` | `S n` | `I` | `X` | `P`).
pub fn impl_parse(buf: &[u8]) -> String {
    let r = catch(|| {
        let mut crs = Cursor::new(buf);
        let res = Frame::parse(&mut crs);
        (res, crs.position())
    });
    match r {
        Err(()) => "P".into(),
        Ok((Ok(f), pos)) => format!("F {} {}", pos, frame_toks(&f).join(" ")),
        Ok((Err(rdest::Error::UnknownId(_)), pos)) => format!("S {}", pos),
        Ok((Err(rdest::Error::Incomplete(_)), _)) => "I".into(),
        Ok((Err(_), _)) => "X".into(),
    }
}

pub fn bits_str(b: &[bool]) -> String {
    let mut s = String::from("b");
    for x in b {
        s.push(if *x { '1' } else { '0' });
    }
    s
}

/// Run one C07 op on the implementation.
pub fn run(args: &[&str]) -> String {
    match args[0] {
        "enc" => match catch(|| impl_data(&m_of_toks(&args[1..]))) {
            Ok(d) => hex(&d),
            Err(()) => "P".into(),
        },
        "rt" => {
            let mt: Vec<&str> = args[1].split(',').collect();
            let m = m_of_toks(&mt);
            let rest = unhex(args[2]);
            match catch(|| impl_data(&m)) {
                Ok(mut d) => {
                    d.extend_from_slice(&rest);
                    impl_parse(&d)
                }
                Err(()) => "P".into(),
            }
        }
        "bits" => {
            let n: usize = args[1].parse().unwrap();
            let bits: Vec<bool> = args[2].chars().filter(|c| *c == '0' || *c == '1').map(|c| c == '1').collect();
            match catch(|| {
                let bf = Bitfield::from_vec(&bits);
                let packed = bf.data()[5..].to_vec();
                let back = match bf.to_vec(n) {
                    Ok(v) => bits_str(&v),
                    Err(_) => "err".into(),
                };
                format!("{} {}", hex(&packed), back)
            }) {
                Ok(s) => s,
                Err(()) => "P".into(),
            }
        }
        _ => panic!("unknown C07 op"),
    }
}

pub fn gen_msg(r: &mut Rng) -> M {
    match r.below(11) {
        0 => M::Hs(r.bytes(20), r.bytes(20)),
        1 => M::Ka,
        2 => M::Ch,
        3 => M::Un,
        4 => M::In,
        5 => M::Ni,
        6 => M::Hv(r.u32b()),
        7 => {
            let n = match r.below(6) {
                0 => 0,
                1 => 1,
                2 => r.below(40) as usize,
                3 => 65535,
                4 => 65536,
                _ => r.below(3000) as usize,
            };
            M::Bf(r.bytes(n))
        }
        8 => M::Rq(r.u32b(), r.u32b(), r.u32b()),
        9 => {
            let n = match r.below(8) {
                0 => 0,
                1 => 1,
                2 => 16384,
                3 => 65527,
                4 => 65528,
                5 => 16383,
                _ => r.below(300) as usize,
            };
            M::Pc(r.u32b(), r.u32b(), r.bytes(n))
        }
        _ => M::Cn(r.u32b(), r.u32b(), r.u32b()),
    }
}

/// Generate the args of `n` C07 cases.
const KINDS: [&str; 11] = ["hs", "ka", "ch", "un", "in", "ni", "hv", "bf", "rq", "pc", "cn"];

pub fn gen(r: &mut Rng, n: usize) -> Vec<String> {
    let mut out = vec![];
    // "decoding those bytes yields the same message": the emitted bytes of one message of every kind, read back through
    // the connection's receive path in two segments, every cut position of the short ones (op `st` of C06)
    for _ in 0..2 {
        for kind in 0..11 {
            let m = loop {
                let m = gen_msg(r);
                if m_toks(&m)[0] == KINDS[kind] {
                    break m;
                }
            };
            let bytes = impl_data(&m);
            if bytes.len() <= 80 {
                for c in 1..bytes.len() {
                    out.push(format!("st {} {}", c, hex(&bytes)));
                }
            } else {
                for c in [1usize, 4, 5, bytes.len() / 2, bytes.len() - 1] {
                    out.push(format!("st {} {}", c, hex(&bytes)));
                }
            }
        }
    }
    // "decoding those bytes yields the same message": the emitted bytes of a large Piece and a few small messages arriving
    // over TCP in parts while the receive is polled the way the connection task polls it (dropped at every timer tick)
    for _ in 0..3 {
        let mut bytes: Vec<u8> = vec![];
        let n = 16384 - r.below(300) as usize;
        bytes.extend(impl_data(&M::Pc(r.u32b(), r.u32b(), r.bytes(n).iter().map(|b| b | 1).collect())));
        bytes.extend(impl_data(&M::Hv(r.u32b())));
        bytes.extend(impl_data(&M::Rq(r.u32b(), r.u32b(), r.u32b())));
        let c1 = 1 + r.below(6000) as usize;
        let c2 = 1 + r.below(6000) as usize;
        out.push(format!("tcps {},{} {}", c1, c2, hex(&bytes)));
    }
    // "the bytes the client emits": the socket branch of send_msg while the remote is slow to read (tiny socket buffers)
    for (cnt, len, delay) in [(24usize, 16384usize, 300u64), (40, 8000, 150), (3, 100, 0)] {
        out.push(format!("snd {} {} {}", cnt, len + r.below(9) as usize, delay));
    }
    for k in 0..n {
        match k % 3 {
            0 => out.push(format!("enc {}", m_toks(&gen_msg(r)).join(" "))),
            1 => {
                let m = gen_msg(r);
                let rest_len = match r.below(4) {
                    0 => 0,
                    1 => 1,
                    _ => r.below(24) as usize,
                };
                out.push(format!("rt {} {}", m_toks(&m).join(","), hex(&r.bytes(rest_len))))
            }
            _ => {
                let len = match r.below(5) {
                    0 => r.below(9) as usize,
                    1 => 8 * r.below(10) as usize,
                    2 => r.below(71) as usize,
                    3 => 1 + r.below(2000) as usize,
                    _ => r.below(33) as usize,
                };
                let bits: Vec<bool> = (0..len).map(|_| r.coin()).collect();
                let n = if r.chance(4, 5) { len } else { r.below(len as u64 + 12) as usize };
                out.push(format!("bits {} {}", n, bits_str(&bits)))
            }
        }
    }
    out
}
