//! The real connection task (`PeerHandler`) over an in-memory stream, with a scripted manager on the other
//! end of its channels and tokio's paused clock (C01, C08, C09, C10, C11, C20, C06 level 3).
use crate::util::*;
use crate::wire::{frame_toks, impl_data, m_of_toks};
use rdest::verif::*;
use std::collections::HashMap;
use std::io::Cursor;
use tokio::io::{AsyncReadExt, AsyncWriteExt};
use tokio::sync::{broadcast, mpsc};

pub const ADDR: &str = "mem";

/// Deterministic piece content shared with the Lean driver: byte k of piece i.
pub fn content_byte(i: usize, k: usize) -> u8 {
    (i.wrapping_mul(131).wrapping_add(k.wrapping_mul(7)).wrapping_add(k >> 8)) as u8
}

pub fn content(i: usize, len: usize) -> Vec<u8> {
    (0..len).map(|k| content_byte(i, k)).collect()
}

pub fn sha1(data: &[u8]) -> [u8; 20] {
    let mut h = sha1_smol::Sha1::new();
    h.update(data);
    h.digest().bytes()
}

pub fn piece_hash(i: usize, len: usize, good: bool) -> [u8; 20] {
    let mut h = sha1(&content(i, len));
    if !good {
        h[0] ^= 1;
    }
    h
}

fn short_msg(f: &Frame) -> String {
    frame_toks(f).join(",")
}

enum Reply {
    Bitfield(Vec<u8>),
    Req(usize, usize, bool, bool), // index, len, good hash, with interested
    SendInterested,
    SendNotInterested,
    PrepareKill,
    Ignore,
    State(bool, bool),
    Load(usize, usize, bool), // index, len, file present
    None,
}

fn parse_reply(t: &str) -> Reply {
    if t == "-" || t.is_empty() {
        return Reply::None;
    }
    match t {
        "In" => return Reply::SendInterested,
        "Ni" => return Reply::SendNotInterested,
        "Pk" => return Reply::PrepareKill,
        "Ig" => return Reply::Ignore,
        _ => {}
    }
    let (c, rest) = t.split_at(1);
    let nums = |s: &str| -> Vec<String> { s.split(',').map(|x| x.to_string()).collect() };
    match c {
        "B" => Reply::Bitfield(unhex(rest)),
        "Q" | "I" => {
            let v = nums(rest);
            Reply::Req(v[0].parse().unwrap(), v[1].parse().unwrap(), v[2] == "good", c == "I")
        }
        "L" => {
            let v = nums(rest);
            Reply::Load(v[0].parse().unwrap(), v[1].parse().unwrap(), v[2] == "present")
        }
        "S" => Reply::State(rest.starts_with('u'), rest.ends_with('i')),
        _ => panic!("bad reply token {}", t),
    }
}

fn req_data(i: usize, len: usize, good: bool) -> ReqData {
    ReqData { piece_index: i, piece_length: len, piece_hash: piece_hash(i, len, good) }
}

struct Env {
    cmds: mpsc::Receiver<PeerCmd>,
    peer: tokio::io::DuplexStream,
    rbuf: Vec<u8>,
    out: Vec<String>,
    terminated: bool,
    progress: bool,
    harness_files: HashMap<String, Vec<u8>>,
    /// a `SendHave` the manager broadcasts while this connection's `Init` is being answered (script event `H<i>`)
    early_have: Option<(broadcast::Sender<BroadCmd>, usize)>,
    /// inode of every file the harness has put under a piece's name before the step: a store that writes the same bytes
    /// again (temporary file renamed over it) is still seen
    stale_inos: HashMap<String, u64>,
}

impl Env {
    /// Answer one pending command with `reply`, recording the command. Returns true if the reply was consumed.
    fn on_cmd(&mut self, cmd: PeerCmd, reply: &mut Option<Reply>) {
        self.progress = true;
        let mut take = || reply.take().unwrap_or(Reply::None);
        match cmd {
            PeerCmd::Init { peer_id, resp_ch, .. } => {
                self.out.push(format!("c=init:{}", hex(&peer_id)));
                if let Reply::Bitfield(b) = take() {
                    // Bitfield has no byte constructor: parse one from a frame
                    let mut raw = ((1 + b.len()) as u32).to_be_bytes().to_vec();
                    raw.push(5);
                    raw.extend_from_slice(&b);
                    let mut crs = Cursor::new(&raw[..]);
                    if let Ok(Frame::Bitfield(bf)) = Frame::parse(&mut crs) {
                        // the bitfield is computed; a piece stored on another connection right now is announced before the
                        // task has taken this answer
                        if let Some((tx, i)) = self.early_have.take() {
                            let _ = tx.send(BroadCmd::SendHave { piece_index: i });
                        }
                        let _ = resp_ch.send(InitCmd::SendBitfield { bitfield: bf });
                    }
                }
            }
            PeerCmd::RecvChoke { .. } => self.out.push("c=choke".into()),
            PeerCmd::RecvInterested { .. } => self.out.push("c=interested".into()),
            PeerCmd::RecvUnchoke { resp_ch, .. } => {
                self.out.push("c=unchoke".into());
                let _ = match take() {
                    Reply::Req(i, l, g, true) => resp_ch.send(UnchokeCmd::SendInterestedAndRequest(req_data(i, l, g))),
                    Reply::Req(i, l, g, false) => resp_ch.send(UnchokeCmd::SendRequest(req_data(i, l, g))),
                    Reply::SendNotInterested => resp_ch.send(UnchokeCmd::SendNotInterested),
                    Reply::Ignore => resp_ch.send(UnchokeCmd::Ignore),
                    _ => Ok(()),
                };
            }
            PeerCmd::RecvNotInterested { resp_ch, .. } => {
                self.out.push("c=notinterested".into());
                let _ = match take() {
                    Reply::PrepareKill => resp_ch.send(NotInterestedCmd::PrepareKill),
                    Reply::Ignore => resp_ch.send(NotInterestedCmd::Ignore),
                    _ => Ok(()),
                };
            }
            PeerCmd::RecvHave { piece_index, resp_ch, .. } => {
                self.out.push(format!("c=have:{}", piece_index));
                let _ = match take() {
                    Reply::Req(i, l, g, _) => resp_ch.send(HaveCmd::SendInterestedAndRequest(req_data(i, l, g))),
                    Reply::SendInterested => resp_ch.send(HaveCmd::SendInterested),
                    Reply::Ignore => resp_ch.send(HaveCmd::Ignore),
                    _ => Ok(()),
                };
            }
            PeerCmd::RecvBitfield { bitfield, resp_ch, .. } => {
                self.out.push(format!("c=bitfield:{}", hex(&bitfield.data()[5..])));
                if let Reply::State(u, i) = take() {
                    let _ = resp_ch.send(BitfieldCmd::SendState { with_am_unchoked: u, am_interested: i });
                }
            }
            PeerCmd::RecvRequest { piece_index, resp_ch, .. } => {
                self.out.push(format!("c=request:{}", piece_index));
                let _ = match take() {
                    Reply::Load(i, l, present) => {
                        let h = piece_hash(i, l, true);
                        if present {
                            let name = hash_to_string(&h) + ".piece";
                            std::fs::write(&name, content(i, l)).unwrap();
                            self.harness_files.insert(name, content(i, l));
                        }
                        resp_ch.send(RequestCmd::LoadAndSendPiece { piece_index: i, piece_hash: h })
                    }
                    Reply::Ignore => resp_ch.send(RequestCmd::Ignore),
                    _ => Ok(()),
                };
            }
            PeerCmd::PieceDone { resp_ch, .. } | PeerCmd::PieceCancel { resp_ch, .. } => {
                // (which of the two it is was recorded by the caller)
                let _ = match take() {
                    Reply::Req(i, l, g, _) => resp_ch.send(PieceCmd::SendRequest(req_data(i, l, g))),
                    Reply::SendNotInterested => resp_ch.send(PieceCmd::SendNotInterested),
                    Reply::PrepareKill => resp_ch.send(PieceCmd::PrepareKill),
                    Reply::Ignore => resp_ch.send(PieceCmd::Ignore),
                    _ => Ok(()),
                };
            }
            PeerCmd::SyncStats { .. } => {
                self.progress = false; // periodic statistics are not part of any compared behaviour
            }
            PeerCmd::KillReq { reason, .. } => {
                self.out.push(if reason == "End job normally" { "T".into() } else { "TE".into() });
                self.terminated = true;
            }
        }
    }

    async fn pump(&mut self, reply: &mut Option<Reply>, files_before: &mut HashMap<String, Vec<u8>>) {
        // bytes written by the task so far (it blocks on every reply channel, so nothing it writes after a
        // command that needs a reply can be here before we answer)
        let mut buf = [0u8; 65536];
        loop {
            let n = tokio::select! {
                biased;
                r = self.peer.read(&mut buf) => r.unwrap_or(0),
                _ = std::future::ready(()) => 0,
            };
            if n == 0 {
                break;
            }
            self.progress = true;
            self.rbuf.extend_from_slice(&buf[..n]);
        }
        self.flush_frames();
        // commands
        while let Ok(cmd) = self.cmds.try_recv() {
            match &cmd {
                PeerCmd::PieceDone { .. } => {
                    self.note_new_files(files_before);
                    self.out.push("c=piecedone".into())
                }
                PeerCmd::PieceCancel { .. } => self.out.push("c=piececancel".into()),
                _ => {}
            }
            self.on_cmd(cmd, reply);
        }
    }

    fn flush_frames(&mut self) {
        loop {
            let mut crs = Cursor::new(&self.rbuf[..]);
            match Frame::parse(&mut crs) {
                Ok(f) => {
                    let n = crs.position() as usize;
                    self.out.push(format!("w={}", short_msg(&f)));
                    self.rbuf.drain(..n);
                }
                Err(rdest::Error::Incomplete(_)) => break,
                Err(_) => {
                    self.out.push(format!("w=GARBAGE:{}", hex(&self.rbuf)));
                    self.rbuf.clear();
                    break;
                }
            }
        }
    }

    fn note_new_files(&mut self, before: &mut HashMap<String, Vec<u8>>) {
        let mut names: Vec<String> = std::fs::read_dir(".")
            .unwrap()
            .filter_map(|e| e.ok())
            .map(|e| e.file_name().to_string_lossy().to_string())
            .filter(|n| n.ends_with(".piece"))
            .collect();
        names.sort();
        for n in names {
            let data = std::fs::read(&n).unwrap_or_default();
            let replaced = {
                use std::os::unix::fs::MetadataExt;
                let ino = std::fs::metadata(&n).map(|m| m.ino()).unwrap_or(0);
                match self.stale_inos.get_mut(&n) {
                    Some(i) if *i != ino => {
                        *i = ino;
                        true
                    }
                    _ => false,
                }
            };
            if (before.get(&n) != Some(&data) || replaced) && self.harness_files.get(&n) != Some(&data) {
                self.out.push(format!(
                    "s={}:{}:{}",
                    n.trim_end_matches(".piece").to_lowercase(),
                    hex(&sha1(&data)),
                    data.len()
                ));
                before.insert(n, data);
            }
        }
    }
}

/// `hand <in|out:xPEERID> <npieces> <script>`
pub fn op_hand(mode: &str, np: usize, script: &str) -> String {
    static COUNTER: std::sync::atomic::AtomicUsize = std::sync::atomic::AtomicUsize::new(0);
    let n = COUNTER.fetch_add(1, std::sync::atomic::Ordering::SeqCst);
    let base = std::env::current_dir().unwrap();
    let dir = base.join(format!("hand_{}_{}", std::process::id(), n));
    std::fs::create_dir_all(&dir).unwrap();
    std::env::set_current_dir(&dir).unwrap();
    let script_owned: Vec<String> = script.split(';').map(|s| s.to_string()).collect();
    // "s-" in front of the mode: the download directory is not clean - under the name of every piece the task is asked to
    // fetch lies a stale, partial file (an interrupted earlier run); it is put back before every step until the piece is stored
    // "d-": in the way of every piece being fetched there is a *directory* of the piece file's name, so the store fails
    // "v-": what lies there is the *verified* piece (another connection fetching the same piece stored it a moment ago: end
    // game); it must still be there afterwards whatever this connection receives
    let dir_on = mode.starts_with("d-");
    let ver_on = mode.starts_with("v-");
    let stale_on = mode.starts_with("s-") || dir_on || ver_on;
    let mode = mode.trim_start_matches("s-").trim_start_matches("d-").trim_start_matches("v-").to_string();
    let r = catch(|| {
        // one blocking thread: file operations of the task (tokio::fs) and the barrier below share one FIFO queue
        let rt = tokio::runtime::Builder::new_current_thread().enable_all().start_paused(true).max_blocking_threads(1).build().unwrap();
        rt.block_on(async move {
            let info_hash = [7u8; 20];
            let own_id = *b"-VF0001-000000000000";
            let peer_id: Option<[u8; 20]> = match mode.strip_prefix("out:") {
                Some(h) => {
                    let v = unhex(h);
                    let mut a = [0u8; 20];
                    a.copy_from_slice(&v);
                    Some(a)
                }
                None => None,
            };
            let (cmd_tx, cmd_rx) = mpsc::channel::<PeerCmd>(4096);
            let (broad_tx, broad_rx) = broadcast::channel::<BroadCmd>(1024);
            let (ours, theirs) = tokio::io::duplex(1 << 22);
            let mut handler = PeerHandler::new(ADDR.to_string(), own_id, peer_id, info_hash, np, cmd_tx, broad_rx);
            let mut task = tokio::spawn(async move { handler.verif_run_mem(theirs).await });
            let mut env = Env { cmds: cmd_rx, peer: ours, rbuf: vec![], out: vec![], terminated: false, progress: false, harness_files: HashMap::new(), early_have: None, stale_inos: HashMap::new() };
            let mut files: HashMap<String, Vec<u8>> = HashMap::new();
            let mut stale: HashMap<String, Vec<u8>> = HashMap::new();
            let mut results: Vec<String> = vec![];
            // let the task start (and arm its timers) at virtual time 0
            for _ in 0..6 {
                tokio::task::yield_now().await;
            }
            for (evno, ev) in script_owned.iter().enumerate() {
                let (body, reply_tok) = match ev.split_once('>') {
                    Some((b, r)) => (b, r),
                    None => (ev.as_str(), "-"),
                };
                let mut reply = Some(parse_reply(reply_tok));
                if stale_on {
                    if let Some(Reply::Req(i, l, true, _)) = &reply {
                        let c = content(*i, *l);
                        stale.entry(hash_to_string(&piece_hash(*i, *l, true)) + ".piece").or_insert_with(|| if ver_on { c.clone() } else { c[..c.len() / 3].to_vec() });
                    }
                    for (n, d) in stale.iter_mut() {
                        if dir_on {
                            d.clear();
                            let _ = std::fs::create_dir_all(n.as_str());
                        } else {
                            std::fs::write(n.as_str(), &d).unwrap();
                            use std::os::unix::fs::MetadataExt;
                            env.stale_inos.insert(n.clone(), std::fs::metadata(n.as_str()).map(|m| m.ino()).unwrap_or(0));
                        }
                        files.insert(n.clone(), d.clone());
                    }
                }
                // inject
                if !env.terminated {
                    if let Some(next) = script_owned.get(evno + 1) {
                        if let Some(i) = next.split('>').next().and_then(|b| b.strip_prefix('H')) {
                            env.early_have = Some((broad_tx.clone(), i.parse().unwrap()));
                        }
                    }
                    if body.starts_with('H') {
                        // (broadcast already, while the Init of the event before was answered; if that event produced no Init the
                        // announcement goes out now)
                        if let Some((tx, i)) = env.early_have.take() {
                            let _ = tx.send(BroadCmd::SendHave { piece_index: i });
                        }
                    } else if body == "s" {
                        // start of the task: nothing to inject, the reply answers Init
                    } else if body.starts_with("f:") || (body.starts_with('g') && body.contains(':')) {
                        // `g<cut>:` = the same frame as `f:`, delivered in two segments
                        let (cut, m): (Option<usize>, &str) = match body.strip_prefix("f:") {
                            Some(m) => (None, m),
                            None => {
                                let (c, m) = body[1..].split_once(':').unwrap();
                                (Some(c.parse().unwrap()), m)
                            }
                        };
                        let toks: Vec<&str> = m.split(',').collect();
                        let bytes = if toks[0] == "pb" {
                            // correct block of piece idx (plen) at begin/len
                            let (idx, plen, begin, len): (usize, usize, usize, usize) =
                                (toks[1].parse().unwrap(), toks[2].parse().unwrap(), toks[3].parse().unwrap(), toks[4].parse().unwrap());
                            let c = content(idx, plen);
                            Piece::new(idx, begin, c[begin..begin + len].to_vec()).data()
                        } else if toks[0] == "px" {
                            // an answer to the request (begin, len) that carries the bytes found at `src` of the same piece
                            let (idx, plen, begin, len, src): (usize, usize, usize, usize, usize) = (
                                toks[1].parse().unwrap(),
                                toks[2].parse().unwrap(),
                                toks[3].parse().unwrap(),
                                toks[4].parse().unwrap(),
                                toks[5].parse().unwrap(),
                            );
                            let c = content(idx, plen);
                            Piece::new(idx, begin, c[src..src + len].to_vec()).data()
                        } else {
                            impl_data(&m_of_toks(&toks))
                        };
                        match cut {
                            Some(c) if bytes.len() > 1 => {
                                let c = c.clamp(1, bytes.len() - 1);
                                let _ = env.peer.write_all(&bytes[..c]).await;
                                // let the task read and look at the first segment
                                for _ in 0..12 {
                                    tokio::task::yield_now().await;
                                }
                                let _ = tokio::task::spawn_blocking(|| ()).await;
                                for _ in 0..12 {
                                    tokio::task::yield_now().await;
                                }
                                let _ = env.peer.write_all(&bytes[c..]).await;
                            }
                            _ => {
                                let _ = env.peer.write_all(&bytes).await;
                            }
                        }
                    } else if let Some(h) = body.strip_prefix("x:") {
                        let _ = env.peer.write_all(&unhex(h)).await;
                    } else if let Some(k) = body.strip_prefix("p:") {
                        // a fragment of a keep-alive: so many zero bytes
                        let _ = env.peer.write_all(&vec![0u8; k.parse().unwrap()]).await;
                    } else if let Some(i) = body.strip_prefix('h') {
                        let _ = broad_tx.send(BroadCmd::SendHave { piece_index: i.parse().unwrap() });
                    } else if let Some(o) = body.strip_prefix('o') {
                        let mut map = HashMap::new();
                        match o {
                            "c" => {
                                map.insert(ADDR.to_string(), true);
                            }
                            "u" => {
                                map.insert(ADDR.to_string(), false);
                            }
                            _ => {
                                map.insert("other".to_string(), true);
                            }
                        }
                        let _ = broad_tx.send(BroadCmd::SendOwnState { am_choked_map: map });
                    } else if let Some(secs) = body.strip_prefix('t') {
                        tokio::time::advance(std::time::Duration::from_secs(secs.parse().unwrap())).await;
                    } else if body == "e" {
                        let _ = env.peer.shutdown().await;
                    } else {
                        panic!("bad event {}", body);
                    }
                }
                // run the task until it is quiet
                let mut quiet = 0;
                let mut rounds = 0;
                while quiet < 5 && rounds < 400 {
                    env.progress = false;
                    for _ in 0..6 {
                        tokio::task::yield_now().await;
                    }
                    // barrier: every file operation the task has queued so far (write, rename, read) is done
                    // when this no-op, queued behind it on the single blocking thread, has run. Quiescence is
                    // therefore independent of how slow the machine is.
                    let _ = tokio::task::spawn_blocking(|| ()).await;
                    for _ in 0..6 {
                        tokio::task::yield_now().await;
                    }
                    env.pump(&mut reply, &mut files).await;
                    if env.progress {
                        quiet = 0;
                    } else {
                        quiet += 1;
                    }
                    rounds += 1;
                }
                if !env.terminated && task.is_finished() {
                    // the task ended without reporting to the manager: it panicked
                    env.out.push("PANIC".into());
                    env.terminated = true;
                }
                env.note_new_files(&mut files);
                // a file the harness had put there and the task has removed
                if stale_on && !dir_on {
                    let mut gone: Vec<&String> = stale.keys().filter(|n| !std::path::Path::new(n.as_str()).exists()).collect();
                    gone.sort();
                    for n in gone {
                        env.out.push(format!("gone={}:{}", n.trim_end_matches(".piece").to_lowercase(), if ver_on { "verified" } else { "partial" }));
                    }
                }
                env.stale_inos.clear();
                // a stale file that has been replaced by a stored piece is not put back
                stale.retain(|n, d| files.get(n) == Some(d));
                // every save must be observed anew, also when the same piece is stored twice
                for n in files.keys().chain(env.harness_files.keys()) {
                    let _ = std::fs::remove_file(n);
                }
                files.clear();
                env.harness_files.clear();
                results.push(if env.out.is_empty() { "-".to_string() } else { env.out.join("/") });
                env.out.clear();
            }
            if !task.is_finished() {
                task.abort();
            }
            let _ = (&mut task).await;
            results.join(";")
        })
    });
    std::env::set_current_dir(&base).unwrap();
    let _ = std::fs::remove_dir_all(&dir);
    r.unwrap_or_else(|_| "P".into())
}

pub fn run(args: &[&str]) -> String {
    match args[0] {
        "left" => {
            let len: usize = args[1].parse().unwrap();
            match catch(|| PeerHandler::verif_left(len)) {
                Ok(v) if v.is_empty() => "-".into(),
                Ok(v) => v.iter().map(|(b, l)| format!("{}:{}", b, l)).collect::<Vec<_>>().join(","),
                Err(()) => "P".into(),
            }
        }
        "hand" => op_hand(args[1], args[2].parse().unwrap(), args[3]),
        "stats" => op_stats(args[1]),
        "fullq" => op_fullq(args[1].parse().unwrap(), args[2].parse().unwrap()),
        "reconn" => op_reconn(args[1].parse().unwrap()),
        "name" => {
            // the piece file name the implementation derives from a listed hash
            let h = unhex(args[1]);
            let mut a = [0u8; 20];
            a.copy_from_slice(&h);
            hash_to_string(&a) + ".piece"
        }
        "mreq" => crate::sess::op_mreq(args[1], args[2], args[3].parse().unwrap()),
        "minit" => crate::sess::op_minit(args[1]),
        "e2e" => crate::e2e02::run(args),
        _ => panic!("unknown handler op"),
    }
}

// ---------------------------------------------------------------------------------------------
// Script generation

const INFO: &str = "x0707070707070707070707070707070707070707";

fn rand_id(r: &mut Rng) -> String {
    hex(&(0..20).map(|_| b'A' + (r.below(26) as u8)).collect::<Vec<u8>>())
}

fn piece_len(r: &mut Rng) -> usize {
    *r.pick(&[1usize, 100, 16383, 16384, 16385, 20000, 32768, 32769, 40000, 49152, 5 * 16384 + 7])
}

struct Shadow {
    idx: usize,
    len: usize,
    blocks: Vec<(usize, usize)>,
    next: usize,
    outstanding: Vec<(usize, usize)>,
}

fn blocks_of(len: usize) -> Vec<(usize, usize)> {
    let mut v = vec![];
    let mut b = 0;
    while b < len {
        v.push((b, std::cmp::min(16384, len - b)));
        b += 16384;
    }
    v
}

fn new_shadow(idx: usize, len: usize) -> Shadow {
    let blocks = blocks_of(len);
    let n = std::cmp::min(2, blocks.len());
    Shadow { idx, len, outstanding: blocks[..n].to_vec(), next: n, blocks }
}

fn finish_reply(r: &mut Rng, np: usize, sh: &mut Option<Shadow>) -> String {
    match r.below(10) {
        0..=4 => {
            let (i, l) = (r.below(np as u64) as usize, piece_len(r));
            let good = r.chance(9, 10);
            *sh = Some(new_shadow(i, l));
            format!("Q{},{},{}", i, l, if good { "good" } else { "bad" })
        }
        5 | 6 => {
            *sh = None;
            "Ni".into()
        }
        7 => {
            *sh = None;
            "Pk".into()
        }
        _ => {
            *sh = None;
            "Ig".into()
        }
    }
}

/// flavor: which property the script stresses ("C20", "C08", "C09", "C10", "C11", "C01")
pub fn gen_script(r: &mut Rng, flavor: &str) -> String {
    let np = 2 + r.below(9) as usize;
    let outgoing = r.chance(1, 3);
    let expected_id = rand_id(r);
    let mode = if outgoing { format!("out:{}", expected_id) } else { "in".to_string() };
    let bf_bytes = (np + 7) / 8;
    let mut evs: Vec<String> = vec![];
    let mut sh: Option<Shadow> = None;
    if outgoing {
        evs.push(format!("s>B{}", hex(&r.bytes(bf_bytes))));
    }
    // handshake phase
    let hs_valid = |id: &str| format!("f:hs,{},{}", INFO, id);
    let early = flavor == "C08" && r.chance(1, 2);
    if early {
        // frames before any handshake
        for _ in 0..1 + r.below(3) {
            evs.push(match r.below(6) {
                0 => format!("f:bf,{}>Sui", hex(&r.bytes(bf_bytes))),
                1 => "f:in".into(),
                2 => format!("f:rq,{},0,16>L{},64,present", r.below(np as u64), r.below(np as u64)),
                3 => "f:un>Ig".into(),
                4 => "f:ka".into(),
                _ => format!("h{}>Ig", r.below(np as u64)),
            });
        }
    }
    if outgoing && (flavor == "C11" || flavor == "C01" || flavor == "C10") && r.chance(1, 2) {
        // pieces completed on other connections after our handshake and bitfield went out, before the peer's arrive
        for _ in 0..1 + r.below(3) {
            evs.push(format!("h{}>Ig", r.below(np as u64)));
        }
    }
    // C20: a third of the connections stay silent from the start (no handshake ever arrives)
    let silent_start = flavor == "C20" && r.chance(1, 3);
    let hs_kind = if flavor == "C08" { r.below(6) } else if silent_start { 5 } else { 0 };
    let peer_id = if outgoing { expected_id.clone() } else { rand_id(r) };
    if flavor == "C08" && hs_kind == 2 {
        // a handshake whose protocol string is wrong in exactly one byte (the first, one in the middle, the last): it is not
        // a handshake of this protocol, whatever info-hash it carries
        let mut raw = vec![19u8];
        raw.extend_from_slice(b"BitTorrent protocol");
        let pos = *r.pick(&[1usize, 2, 10, 18, 19]);
        raw[pos] ^= 0x20;
        raw.extend_from_slice(&[0u8; 8]);
        raw.extend_from_slice(&[7u8; 20]);
        raw.extend_from_slice(&unhex(&peer_id));
        evs.push(format!("x:{}", hex(&raw)));
    }
    match hs_kind {
        2 if flavor == "C08" => {}
        0 | 1 | 2 => {
            evs.push(format!("{}>B{}", hs_valid(&peer_id), hex(&r.bytes(bf_bytes))));
            if !outgoing && (flavor == "C11" || flavor == "C01") && r.chance(1, 3) {
                // a piece completed on another connection just while our Init was answered
                evs.push(format!("H{}>Ig", r.below(np as u64)));
            }
        }
        3 => evs.push(format!("f:hs,{},{}>B{}", hex(&r.bytes(20)), peer_id, hex(&r.bytes(bf_bytes)))),
        4 => evs.push(format!("{}>B{}", hs_valid(&rand_id(r)), hex(&r.bytes(bf_bytes)))),
        _ => {} // no handshake at all
    }
    let mut last_served: Option<(usize, usize)> = None;
    if flavor == "C09" && r.coin() {
        evs.push("f:in".into());
    }
    if (flavor == "C01" || flavor == "C10") && hs_kind == 0 && r.chance(1, 120) {
        // a piece larger than any single write the runtime does in one go (tokio's file buffer is 2 MiB), served in order
        let l = 2 * 1024 * 1024 + 16384 * (1 + r.below(3) as usize) + r.below(16384) as usize;
        let i = r.below(np as u64) as usize;
        evs.push(format!("f:un>I{},{},good", i, l));
        let blocks = blocks_of(l);
        for (k, (b, bl)) in blocks.iter().enumerate() {
            let rep = if k + 1 == blocks.len() { "Ni" } else { "Ig" };
            evs.push(format!("f:pb,{},{},{},{}>{}", i, l, b, bl, rep));
        }
        sh = None;
    }
    if flavor == "C20" && !silent_start && hs_kind == 0 && r.chance(1, 4) {
        // keep-alives that trickle in byte by byte: however the bytes are spread over the intervals, nothing but keep-alives
        // arrives (and an incomplete one is nothing at all)
        let mut pend = 0usize;
        for _ in 0..6 + r.below(24) {
            if r.coin() {
                evs.push(format!("t{}", r.pick(&[40u64, 100, 119, 120, 121, 130])));
            } else {
                let k = 1 + r.below(3) as usize;
                evs.push(format!("p:{}", k));
                pend = (pend + k) % 4;
            }
        }
        if pend != 0 {
            evs.push(format!("p:{}", 4 - pend));
        }
        evs.push("t130".to_string());
        evs.push("t130".to_string());
    }
    if flavor == "C20" && !silent_start && r.chance(1, 4) {
        // assigned a piece, then silent; the piece is completed elsewhere between two ticks and another one handed out
        let (i, l) = (r.below(np as u64) as usize, piece_len(r));
        let j = (i + 1) % np;
        evs.push(format!("f:un>I{},{},good", i, l));
        evs.push(format!("t{}", r.pick(&[120u64, 240, 300])));
        evs.push(format!("h{}>Q{},{},good", i, j, l));
        sh = Some(new_shadow(j, l));
        for _ in 0..4 {
            evs.push(format!("t{}", r.pick(&[60u64, 120, 121])));
        }
    }
    let steps = 3 + r.below(25) as usize;
    for _ in 0..steps {
        let roll = r.below(100);
        let w = |lo: u64, hi: u64| roll >= lo && roll < hi;
        let ev: String = match flavor {
            "C20" => {
                if silent_start && w(0, 80) {
                    // nothing but the timer (and, rarely below, keep-alives) before any handshake
                    format!("t{}", r.pick(&[30u64, 60, 119, 120, 121, 240]))
                } else if silent_start && w(80, 90) {
                    format!("h{}>Ig", r.below(np as u64))
                } else if silent_start {
                    "f:ka".into()
                } else if w(0, 50) {
                    format!("t{}", r.pick(&[1u64, 30, 59, 60, 61, 119, 120, 121, 239, 240, 360]))
                } else if w(50, 65) {
                    "f:ka".into()
                } else if w(65, 72) {
                    "f:in".into()
                } else if w(72, 79) {
                    "f:ni>Ig".into()
                } else if w(79, 86) {
                    "f:ch".into()
                } else if w(86, 92) {
                    format!("f:hv,{}>Ig", r.below(np as u64))
                } else if w(92, 95) {
                    format!("f:cn,{},0,16", r.below(np as u64))
                } else if w(95, 98) {
                    // a piece completed on another connection: held back while the peer chokes us, whatever the timer does;
                    // if it is the piece this connection is fetching, the manager hands out another one - to a peer that
                    // may have been silent for a long time (its inactivity count is not the manager's business)
                    match &sh {
                        Some(cur) if r.chance(2, 3) => {
                            let idx = cur.idx;
                            let (i, l) = ((idx + 1 + r.below(np as u64 - 1) as usize) % np, piece_len(r));
                            sh = Some(new_shadow(i, l));
                            format!("h{}>Q{},{},good", idx, i, l)
                        }
                        _ => format!("h{}>Ig", r.below(np as u64)),
                    }
                } else if r.coin() {
                    "f:un>Ig".into()
                } else {
                    // the peer unchokes us and is given a piece - and may say nothing more
                    let (i, l) = (r.below(np as u64) as usize, piece_len(r));
                    sh = Some(new_shadow(i, l));
                    format!("f:un>I{},{},good", i, l)
                }
            }
            "C11" => {
                if w(0, 45) {
                    format!("h{}>{}", r.below(np as u64), finish_reply(r, np, &mut sh))
                } else if w(45, 60) {
                    "f:ch".into()
                } else if w(60, 80) {
                    format!("f:un>{}", if r.coin() { "Ig".to_string() } else { finish_reply(r, np, &mut sh).replace("Pk", "Ig") })
                } else if w(80, 85) {
                    "oc".into()
                } else if w(85, 90) {
                    "ou".into()
                } else if w(90, 95) {
                    format!("t{}", r.pick(&[60u64, 120]))
                } else {
                    format!("{}>B{}", hs_valid(&peer_id), hex(&r.bytes(bf_bytes)))
                }
            }
            "C14" => {
                // own-state broadcasts in every combination with the peer's declared interest
                if w(0, 28) {
                    "ou".into()
                } else if w(28, 48) {
                    "oc".into()
                } else if w(48, 56) {
                    "o-".into()
                } else if w(56, 72) {
                    "f:in".into()
                } else if w(72, 82) {
                    "f:ni>Ig".into()
                } else if w(82, 90) {
                    format!("f:bf,{}>S{}{}", hex(&r.bytes(bf_bytes)), if r.coin() { 'u' } else { '-' }, if r.coin() { 'i' } else { 'n' })
                } else if w(90, 95) {
                    format!("h{}>Ig", r.below(np as u64))
                } else {
                    "t60".into()
                }
            }
            "C09" => {
                if w(0, 12) && last_served.is_some() {
                    // the piece that was loaded last is asked for again (whatever happened in between: choke, unchoke,
                    // lost interest): a block inside it, the manager's answer either way
                    let (idx, plen) = last_served.unwrap();
                    let begin = *r.pick(&[0usize, 16, plen / 2]);
                    let rep = if r.coin() { "Ig".to_string() } else { format!("L{},{},present", idx, plen) };
                    format!("f:rq,{},{},{}>{}", idx, begin, 16.min(plen - begin), rep)
                } else if w(0, 60) {
                    let idx = r.below(np as u64 + 1) as usize;
                    let plen = *r.pick(&[64usize, 100, 16384, 20000]);
                    if idx < np {
                        last_served = Some((idx, plen));
                    }
                    let begin = *r.pick(&[0u64, 1, 16, plen as u64 - 1, plen as u64, plen as u64 + 1, 4294967290, 4294967295, 2147483648]);
                    let len = *r.pick(&[0u64, 1, 16, 64, 16384, 16385, 4294967295, 10, 6]);
                    let rep = match r.below(5) {
                        0 => "Ig".to_string(),
                        1 => format!("L{},{},absent", idx, plen),
                        _ => format!("L{},{},present", idx, plen),
                    };
                    format!("f:rq,{},{},{}>{}", idx, begin, len, rep)
                } else if w(60, 72) {
                    "oc".into()
                } else if w(72, 80) {
                    "ou".into()
                } else if w(80, 85) {
                    "o-".into()
                } else if w(85, 90) {
                    "f:in".into()
                } else if w(90, 94) {
                    format!("f:bf,{}>S{}{}", hex(&r.bytes(bf_bytes)), if r.coin() { 'u' } else { '-' }, if r.coin() { 'i' } else { 'n' })
                } else if w(94, 98) {
                    // the peer serves us a (one-block) piece and then asks for that very piece: what we downloaded on this
                    // connection is no licence to upload it here - the manager decides (it says no, or lets the task load it)
                    let i = r.below(np as u64) as usize;
                    evs.push(format!("f:un>Q{},100,good", i));
                    evs.push(format!("f:pb,{},100,0,100>Ig", i));
                    last_served = Some((i, 100));
                    let rep = if r.coin() { "Ig".to_string() } else { format!("L{},100,present", i) };
                    format!("f:rq,{},0,16>{}", i, rep)
                } else {
                    "t60".into()
                }
            }
            _ => {
                // download flows: C10 / C01 / C08 (after the handshake)
                let answer = sh.is_some() && w(0, 55);
                if answer {
                    let s = sh.as_mut().unwrap();
                    let k = r.below(12);
                    if k < 8 && !s.outstanding.is_empty() {
                        let j = r.below(s.outstanding.len() as u64) as usize;
                        let (b, l) = s.outstanding.remove(j);
                        if s.next < s.blocks.len() {
                            s.outstanding.push(s.blocks[s.next]);
                            s.next += 1;
                        }
                        let done = s.outstanding.is_empty() && s.next == s.blocks.len();
                        let (idx, plen) = (s.idx, s.len);
                        let corrupt = r.chance(1, 25);
                        // crossed payloads: a valid answer to this request carrying another block's bytes of the piece
                        let crossed: Option<usize> = if r.chance(1, 12) {
                            let srcs: Vec<usize> = s.blocks.iter().filter(|(sb, sl)| *sb != b && *sl >= l).map(|(sb, _)| *sb).collect();
                            if srcs.is_empty() { None } else { Some(*r.pick(&srcs)) }
                        } else {
                            None
                        };
                        let frame = if let Some(src) = crossed {
                            format!("f:px,{},{},{},{},{}", idx, plen, b, l, src)
                        } else if corrupt {
                            format!("f:pc,{},{},{}", idx, b, hex(&r.bytes(l)))
                        } else {
                            format!("f:pb,{},{},{},{}", idx, plen, b, l)
                        };
                        let rep = if done { finish_reply(r, np, &mut sh) } else { "Ig".to_string() };
                        format!("{}>{}", frame, rep)
                    } else if k == 8 {
                        // a block that is not outstanding (duplicate / future / foreign offset)
                        let (b, l) = *r.pick(&s.blocks);
                        format!("f:pb,{},{},{},{}>Ig", s.idx, s.len, b, l)
                    } else if k == 9 && r.coin() && !s.outstanding.is_empty() {
                        // a block of *another* piece with exactly the offset and length of an outstanding request (an answer
                        // that was on its way when the assignment changed): not an answer to anything
                        let (b, l) = *r.pick(&s.outstanding);
                        format!("f:pb,{},{},{},{}>Ig", (s.idx + 1 + r.below(np as u64 - 1) as usize) % np, s.len, b, l)
                    } else if k == 9 {
                        format!("f:pc,{},{},{}>Ig", (s.idx + 1) % np, 0, hex(&r.bytes(16)))
                    } else if k == 10 {
                        let junk = r.bytes_below(40);
                        format!("f:pc,{},{},{}>Ig", s.idx, r.below(s.len as u64 + 10), hex(&junk))
                    } else {
                        let idx = s.idx;
                        format!("h{}>{}", idx, finish_reply(r, np, &mut sh))
                    }
                } else if w(55, 70) || (sh.is_none() && w(0, 30)) {
                    let (i, l) = (r.below(np as u64) as usize, piece_len(r));
                    let good = r.chance(9, 10);
                    let kind = *r.pick(&["Q", "I", "Q", "I", "Ni", "Ig"]);
                    if kind == "Q" || kind == "I" {
                        sh = Some(new_shadow(i, l));
                        format!("f:un>{}{},{},{}", kind, i, l, if good { "good" } else { "bad" })
                    } else {
                        sh = None;
                        format!("f:un>{}", kind)
                    }
                } else if w(70, 76) {
                    "f:ch".into()
                } else if w(76, 82) {
                    let i = r.below(np as u64 + 1) as usize;
                    if r.coin() && sh.is_none() {
                        let l = piece_len(r);
                        sh = Some(new_shadow(i % np, l));
                        format!("f:hv,{}>I{},{},good", i, i % np, l)
                    } else {
                        format!("f:hv,{}>{}", i, if r.coin() { "In" } else { "Ig" })
                    }
                } else if w(82, 86) {
                    format!("h{}>{}", r.below(np as u64), finish_reply(r, np, &mut sh))
                } else if w(86, 89) {
                    let n = if r.chance(9, 10) { bf_bytes } else { bf_bytes + 1 };
                    format!("f:bf,{}>S{}{}", hex(&r.bytes(n)), if r.coin() { 'u' } else { '-' }, if r.coin() { 'i' } else { 'n' })
                } else if w(89, 91) {
                    format!("t{}", r.pick(&[10u64, 120]))
                } else if w(91, 92) {
                    // the peer's own timer: a keep-alive in the middle of whatever is going on
                    "f:ka".into()
                } else if w(92, 94) {
                    "e".into()
                } else if w(94, 96) {
                    format!("x:x{}", *r.pick(&["0000000200", "00010001051122", "0000000300", "0000000506"]))
                } else if w(96, 98) {
                    format!("f:ni>{}", if r.coin() { "Pk" } else { "Ig" })
                } else {
                    format!("{}>B{}", hs_valid(&peer_id), hex(&r.bytes(bf_bytes)))
                }
            }
        };
        // a block request that reaches the task in two segments (cut after 1..16 of its 17 bytes): same frame, same answer
        let ev = if flavor == "C09" && ev.starts_with("f:rq,") && r.chance(1, 3) {
            format!("g{}:{}", 1 + r.below(16), &ev[2..])
        } else {
            ev
        };
        evs.push(ev);
    }
    // x: events must be fatal for the frame decoder; "0000000109" is an unknown id (skipped) → replace
    let mode = if (flavor == "C01" || flavor == "C10") && r.chance(1, 3) {
        format!("{}-{}", if r.chance(1, 4) { "d" } else if r.chance(1, 3) { "v" } else { "s" }, mode)
    } else {
        mode
    };
    format!("hand {} {} {}", mode, np, evs.join(";"))
}

pub fn gen(r: &mut Rng, n: usize, flavor: &str) -> Vec<String> {
    let mut out: Vec<String> = vec![];
    if flavor == "C10" {
        // the pure tiling function on boundary and random lengths
        for len in [0usize, 1, 2, 16383, 16384, 16385, 32767, 32768, 32769, 49152, 81927, 262144, 262145] {
            out.push(format!("left {}", len));
        }
        for _ in 0..(n / 4) {
            let len = match r.below(3) {
                0 => r.below(70000) as usize,
                1 => 16384 * (r.below(20) as usize) + (r.below(3) as usize),
                _ => r.below(1 << 21) as usize,
            };
            out.push(format!("left {}", len));
        }
    }
    if flavor == "C01" {
        // "assembled": three end-to-end downloads (real session, extraction included); two of them with every piece at
        // exactly one peer and a slow peer, so that a fast peer is dismissed while pieces are still being fetched
        for l in crate::e2e02::gen(r, 10) {
            if l.ends_with(" 2") || l.ends_with(" 3") || out.len() < 1 {
                out.push(l);
            }
        }
    }
    if flavor == "C01" {
        // the whole client in closed loop: real manager and real connection tasks, replies not scripted (theorem T6)
        for _ in 0..(n / 16) {
            out.push(crate::sysloop::gen_sys(r));
        }
    }
    if flavor == "C01" {
        // piece file names: bytes with a zero high or low digit, letters, extremes
        for k in 0..16 {
            let mut h = r.bytes(20);
            let special = [0x00u8, 0x0a, 0xa0, 0xff, 0x09, 0x90, 0x10, 0x01];
            for j in 0..(1 + k % 5) {
                let pos = r.below(20) as usize;
                h[pos] = special[(k + j) % special.len()];
            }
            out.push(format!("name {}", hex(&h)));
        }
    }
    if flavor == "C20" {
        // silent connections whose end falls into a moment when the manager is busy (its command channel full)
        for (fill, drain) in [(355u64, 365u64), (0, 400), (359, 361), (300, 1000)] {
            out.push(format!("fullq {} {}", fill, drain));
        }
    }
    if flavor == "C08" {
        // a connection the client opened, lost after a valid session: nothing without a handshake afterwards either
        out.push("reconn 2800".to_string());
        // connections made to the real Session's listener: from an unrelated address, and from the address of a
        // tracker-listed peer that is still queued as a candidate
        out.push("accept i".to_string());
        // ... and when the client already has its fill of connections it has no interest in: no further one is taken
        out.push("accept u".to_string());
    }
    if flavor == "C08" {
        // "the peer id the tracker announced for that address": the (address, id) pairs read from tracker replies —
        // entries with unusable ids or addresses in front of good ones, so that a pairing slip shows
        for _ in 0..(n / 4) {
            out.push(format!("resp {}", hex(&crate::tr19::gen_reply(r))));
        }
    }
    if flavor == "C11" {
        // the whole client in closed loop (an announcement leaves only for a piece with a verified file) and the connection
        // bookkeeping that keeps one task per peer record
        for _ in 0..(n / 25) {
            out.push(crate::sysloop::gen_sys(r));
        }
        out.extend(crate::sess::gen_cand(r, n / 25));
    }
    if flavor == "C11" {
        // the manager's side: the bitfield computed at Init for random status vectors (incl. Reserved pieces)
        for _ in 0..(n / 5) {
            out.push(crate::sess::gen_minit(r));
        }
    }
    if flavor == "C09" {
        // the manager's side of an upload: its answer to RecvRequest for every flag combination
        for _ in 0..(n / 4) {
            out.push(crate::sess::gen_mreq(r));
        }
    }
    while out.len() < n {
        // C11: a third of the scripts are download flows (a completed piece is what gets announced: the order of the
        // store and of PieceDone, which makes the manager broadcast the announcement, is part of the property)
        let fl = if flavor == "C11" && out.len() % 3 == 2 { "C01" } else { flavor };
        out.push(gen_script(r, fl));
    }
    out.truncate(n.max(14));
    out
}

/// `fullq <fill at s> <drain at s>`: a connection on which nothing ever arrives, and a manager that is busy: its command
/// channel (capacity 2 here) is full from `fill` on and is drained at `drain`. The task must still report its end
/// (`KillReq`) - the only way the manager learns that the connection is gone and releases its state.
fn op_fullq(fill_at: u64, drain_at: u64) -> String {
    let r = catch(|| {
        let rt = tokio::runtime::Builder::new_current_thread().enable_all().start_paused(true).build().unwrap();
        rt.block_on(async move {
            let (cmd_tx, mut cmd_rx) = mpsc::channel::<PeerCmd>(2);
            let (_broad_tx, broad_rx) = broadcast::channel::<BroadCmd>(8);
            let (ours, theirs) = tokio::io::duplex(1 << 16);
            let filler = cmd_tx.clone();
            let mut handler = PeerHandler::new(ADDR.to_string(), [1u8; 20], None, [7u8; 20], 4, cmd_tx, broad_rx);
            let task = tokio::spawn(async move { handler.verif_run_mem(theirs).await });
            let mut now = 0u64;
            let mut step_to = |t: u64, now: &mut u64| {
                let d = t.saturating_sub(*now);
                *now = t.max(*now);
                d
            };
            let d = step_to(fill_at, &mut now);
            tokio::time::sleep(std::time::Duration::from_secs(d)).await;
            for _ in 0..2 {
                let _ = filler.try_send(PeerCmd::RecvChoke { addr: "10.9.9.9:1".to_string() });
            }
            let d = step_to(drain_at, &mut now);
            tokio::time::sleep(std::time::Duration::from_secs(d)).await;
            // the manager catches up
            let mut kill = false;
            let deadline = tokio::time::Instant::now() + std::time::Duration::from_secs(30);
            loop {
                match tokio::time::timeout_at(deadline, cmd_rx.recv()).await {
                    Ok(Some(PeerCmd::KillReq { .. })) => {
                        kill = true;
                        break;
                    }
                    Ok(Some(_)) => continue,
                    _ => break,
                }
            }
            for _ in 0..20 {
                tokio::task::yield_now().await;
            }
            let finished = task.is_finished();
            drop(ours);
            format!("kill={} finished={}", if kill { 'y' } else { 'n' }, if finished { 'y' } else { 'n' })
        })
    });
    r.unwrap_or_else(|_| "P".into())
}

/// `stats <ops ','-separated: d<n> u<n> x t>`: the statistics of a real connection task (no connection needed) driven
/// through its own `update_*` methods and its timer handler `timeout_sync_stats`; per `t` what the manager channel
/// received: `-` or `<download rate|n>:<upload rate|n>:<unexpected blocks>`.
fn op_stats(ops: &str) -> String {
    let r = catch(|| {
        let rt = tokio::runtime::Builder::new_current_thread().enable_all().build().unwrap();
        rt.block_on(async {
            let (cmd_tx, mut cmd_rx) = mpsc::channel::<PeerCmd>(4096);
            let (_broad_tx, broad_rx) = broadcast::channel::<BroadCmd>(8);
            let mut handler = PeerHandler::new(ADDR.to_string(), [1u8; 20], None, [7u8; 20], 4, cmd_tx, broad_rx);
            let mut out: Vec<String> = vec![];
            for op in ops.split(',') {
                let (c, rest) = op.split_at(1);
                let n: usize = rest.parse().unwrap_or(0);
                let kind = match c {
                    "d" => 0u8,
                    "u" => 1,
                    "x" => 2,
                    _ => 3,
                };
                if handler.verif_stats_script(&[(kind, n)]).await.is_err() {
                    out.push("E".into());
                    break;
                }
                if kind == 3 {
                    out.push(match cmd_rx.try_recv() {
                        Ok(PeerCmd::SyncStats { downloaded_rate, uploaded_rate, unexpected_blocks, .. }) => format!(
                            "{}:{}:{}",
                            downloaded_rate.map(|v| v.to_string()).unwrap_or("n".into()),
                            uploaded_rate.map(|v| v.to_string()).unwrap_or("n".into()),
                            unexpected_blocks
                        ),
                        Ok(_) => "?".into(),
                        Err(_) => "-".into(),
                    });
                }
            }
            if out.is_empty() { "-".to_string() } else { out.join(",") }
        })
    });
    r.unwrap_or_else(|_| "P".into())
}

/// Statistics scripts: 1..8 intervals, in each some downloaded / uploaded amounts (block sizes, zero, large values
/// whose two-interval sum stays below 2^32) and unexpected blocks.
pub fn gen_stats(r: &mut Rng) -> String {
    let mut ops: Vec<String> = vec![];
    let intervals = 1 + r.below(8);
    for _ in 0..intervals {
        for _ in 0..r.below(5) {
            let amount = *r.pick(&[0u64, 1, 100, 16384, 16384, 16384, 65536, 1 << 20, 1 << 30, (1u64 << 31) - 1]);
            match r.below(5) {
                0 | 1 => ops.push(format!("d{}", amount.min(1 << 29))),
                2 | 3 => ops.push(format!("u{}", amount.min(1 << 29))),
                _ => ops.push("x".into()),
            }
        }
        ops.push("t".into());
    }
    format!("stats {}", ops.join(","))
}

/// `reconn <wait ms>`: the real `PeerHandler::run_incoming` (a connection the client opens to a peer the tracker listed)
/// over loopback TCP with a scripted manager. The peer completes a valid session (handshake, Interested, one request,
/// which the manager lets the task serve), then closes the connection. Whatever the client does next, a connection on
/// which no handshake has validated must not carry piece data: should the client connect to the address again, the party
/// answering there sends Interested and a request without any handshake.
/// → `first=<y|n> kill=<y|n> second=<y|n> piece2=<bytes of piece data on the second connection>`
fn op_reconn(wait_ms: u64) -> String {
    use crate::wire::M;
    static COUNTER: std::sync::atomic::AtomicUsize = std::sync::atomic::AtomicUsize::new(0);
    let n = COUNTER.fetch_add(1, std::sync::atomic::Ordering::SeqCst);
    let base = std::env::current_dir().unwrap();
    let dir = base.join(format!("reconn_{}_{}", std::process::id(), n));
    std::fs::create_dir_all(&dir).unwrap();
    std::env::set_current_dir(&dir).unwrap();
    let r = catch(|| {
        let rt = tokio::runtime::Builder::new_current_thread().enable_all().build().unwrap();
        rt.block_on(async move {
            let plen = 16384usize;
            let h0 = piece_hash(0, plen, true);
            std::fs::write(hash_to_string(&h0) + ".piece", content(0, plen)).unwrap();
            let listener = tokio::net::TcpListener::bind("127.0.0.1:0").await.unwrap();
            let addr = listener.local_addr().unwrap().to_string();
            let info_hash = [7u8; 20];
            let own_id = *b"-VF0001-000000000000";
            let peer_id = [0x50u8; 20];
            let (cmd_tx, mut cmd_rx) = mpsc::channel::<PeerCmd>(256);
            let (_btx, brx) = broadcast::channel::<BroadCmd>(64);
            let mut handler = PeerHandler::new(addr.clone(), own_id, Some(peer_id), info_hash, 2, cmd_tx, brx);
            let task = tokio::spawn(async move { handler.run_incoming().await });
            let mut killed = false;
            // the scripted manager: we own piece 0 and have this peer unchoked
            let answer = |cmd: PeerCmd, killed: &mut bool| match cmd {
                PeerCmd::Init { resp_ch, .. } => {
                    let raw = [0u8, 0, 0, 2, 5, 0x80];
                    let mut crs = Cursor::new(&raw[..]);
                    if let Ok(Frame::Bitfield(bf)) = Frame::parse(&mut crs) {
                        let _ = resp_ch.send(InitCmd::SendBitfield { bitfield: bf });
                    }
                }
                PeerCmd::RecvRequest { piece_index, resp_ch, .. } => {
                    let _ = resp_ch.send(RequestCmd::LoadAndSendPiece { piece_index, piece_hash: piece_hash(piece_index, plen, true) });
                }
                PeerCmd::RecvNotInterested { resp_ch, .. } => {
                    let _ = resp_ch.send(NotInterestedCmd::Ignore);
                }
                PeerCmd::RecvUnchoke { resp_ch, .. } => {
                    let _ = resp_ch.send(UnchokeCmd::Ignore);
                }
                PeerCmd::RecvHave { resp_ch, .. } => {
                    let _ = resp_ch.send(HaveCmd::Ignore);
                }
                PeerCmd::RecvBitfield { resp_ch, .. } => {
                    let _ = resp_ch.send(BitfieldCmd::SendState { with_am_unchoked: true, am_interested: false });
                }
                PeerCmd::PieceDone { resp_ch, .. } | PeerCmd::PieceCancel { resp_ch, .. } => {
                    let _ = resp_ch.send(PieceCmd::Ignore);
                }
                PeerCmd::KillReq { .. } => *killed = true,
                _ => {}
            };
            // read from `s` for `ms`, answering manager commands meanwhile; returns the bytes of piece data seen
            async fn listen(
                s: &mut tokio::net::TcpStream,
                cmd_rx: &mut mpsc::Receiver<PeerCmd>,
                ms: u64,
                answer: &dyn Fn(PeerCmd, &mut bool),
                killed: &mut bool,
                skip: usize,
            ) -> usize {
                let deadline = tokio::time::Instant::now() + std::time::Duration::from_millis(ms);
                let mut buf: Vec<u8> = vec![];
                let mut tmp = [0u8; 65536];
                loop {
                    tokio::select! {
                        r = s.read(&mut tmp) => match r {
                            Ok(0) | Err(_) => break,
                            Ok(n) => buf.extend_from_slice(&tmp[..n]),
                        },
                        c = cmd_rx.recv() => match c { Some(c) => answer(c, killed), None => break },
                        _ = tokio::time::sleep_until(deadline) => break,
                    }
                }
                // frames after the client's own 68-byte handshake
                let mut piece_bytes = 0usize;
                let mut rest = if buf.len() >= skip { buf[skip..].to_vec() } else { vec![] };
                loop {
                    let mut crs = Cursor::new(&rest[..]);
                    match Frame::parse(&mut crs) {
                        Ok(f) => {
                            let n = crs.position() as usize;
                            if let Frame::Piece(p) = &f {
                                piece_bytes += p.block_length();
                            }
                            rest.drain(..n);
                        }
                        Err(_) => break,
                    }
                }
                piece_bytes
            }
            // connection 1: a valid session
            let mut first = 0usize;
            if let Ok(Ok((mut s1, _))) = tokio::time::timeout(std::time::Duration::from_secs(3), listener.accept()).await {
                let _ = s1.write_all(&impl_data(&M::Hs(info_hash.to_vec(), peer_id.to_vec()))).await;
                let _ = s1.write_all(&impl_data(&M::In)).await;
                let _ = s1.write_all(&impl_data(&M::Rq(0, 0, 16384))).await;
                first = listen(&mut s1, &mut cmd_rx, 700, &answer, &mut killed, 68).await;
                drop(s1);
            }
            // does the client come back?
            let mut second = false;
            let mut piece2 = 0usize;
            let deadline = tokio::time::Instant::now() + std::time::Duration::from_millis(wait_ms);
            loop {
                tokio::select! {
                    a = listener.accept() => {
                        if let Ok((mut s2, _)) = a {
                            second = true;
                            // no handshake from this side
                            let _ = s2.write_all(&impl_data(&M::In)).await;
                            let _ = s2.write_all(&impl_data(&M::Rq(0, 0, 16384))).await;
                            piece2 = listen(&mut s2, &mut cmd_rx, 1200, &answer, &mut killed, 68).await;
                        }
                        break;
                    }
                    c = cmd_rx.recv() => match c { Some(c) => answer(c, &mut killed), None => break },
                    _ = tokio::time::sleep_until(deadline) => break,
                }
            }
            task.abort();
            format!(
                "first={} kill={} second={} piece2={}",
                if first > 0 { "y" } else { "n" },
                if killed { "y" } else { "n" },
                if second { "y" } else { "n" },
                piece2
            )
        })
    });
    std::env::set_current_dir(&base).unwrap();
    let _ = std::fs::remove_dir_all(&dir);
    r.unwrap_or_else(|_| "P".into())
}
