//! C02: the real `Session::run` end to end against a loopback tracker and scripted honest peers.
//! Runs in a child process (the session's progress view writes to stdout; the listening port is fixed).
use crate::meta::{sha1, torrent};
use crate::mi::pattern;
use crate::tr::serve_one;
use crate::util::*;
use rdest::verif::hash_to_string;
use rdest::Metainfo;
use std::io::{Read, Write};
use std::sync::atomic::{AtomicBool, AtomicUsize, Ordering};
use std::sync::Arc;

static PANICS: AtomicUsize = AtomicUsize::new(0);

#[derive(Clone)]
struct PeerPlan {
    pieces: Vec<bool>,
    /// close the connection after this many `Piece` messages (None = honest: stays until told to stop)
    drop_after: Option<usize>,
    /// close in the middle of the last `Piece` message
    drop_mid: bool,
    seed: u64,
    /// answer every request only after this delay (a slow but honest peer)
    slow_ms: u64,
    /// choke us now and then after a block, and unchoke again a moment later (honest peers may do that)
    chokes: bool,
    /// choke us right after the first block and unchoke 150 ms later, while the other peers go on serving
    choke_first: bool,
    /// a leecher: declares interest in us after its bitfield (and stays connected like every honest peer)
    interested: bool,
    /// answers the client's handshake only after this delay (a peer that is slow to accept)
    late_ms: u64,
    /// pieces it has but leaves out of its bitfield and announces with `Have` when the first request arrives
    have_later: Vec<usize>,
    /// unchokes us at once, before we could be interested, and announces `have_later` with `Have` a moment afterwards
    eager: bool,
}

fn msg(id: u8, payload: &[u8]) -> Vec<u8> {
    let mut v = ((payload.len() + 1) as u32).to_be_bytes().to_vec();
    v.push(id);
    v.extend_from_slice(payload);
    v
}

fn bitfield(pieces: &[bool]) -> Vec<u8> {
    let mut bytes = vec![0u8; (pieces.len() + 7) / 8];
    for (i, p) in pieces.iter().enumerate() {
        if *p {
            bytes[i / 8] |= 0x80 >> (i % 8);
        }
    }
    msg(5, &bytes)
}

fn write_segmented(s: &mut std::net::TcpStream, data: &[u8], r: &mut Rng) -> bool {
    let mut pos = 0;
    while pos < data.len() {
        let n = match r.below(4) {
            0 => 1,
            1 => 1 + r.below(7) as usize,
            2 => 1 + r.below(2000) as usize,
            _ => data.len(),
        }
        .min(data.len() - pos);
        if s.write_all(&data[pos..pos + n]).is_err() {
            return false;
        }
        let _ = s.flush();
        pos += n;
        if r.chance(1, 3) {
            std::thread::sleep(std::time::Duration::from_micros(200));
        }
    }
    true
}

/// One scripted peer: accept, handshake, bitfield, unchoke on interest, serve requests with the true data.
fn run_peer(
    listener: std::net::TcpListener,
    plan: PeerPlan,
    id: [u8; 20],
    info_hash: [u8; 20],
    content: Arc<Vec<u8>>,
    pl: usize,
    stop: Arc<AtomicBool>,
    served: Arc<AtomicUsize>,
) {
    // every connection to this address is served the same way (the client normally opens one)
    listener.set_nonblocking(true).ok();
    loop {
        match listener.accept() {
            Ok((s, _)) => {
                let (plan, content, stop, served) = (plan.clone(), content.clone(), stop.clone(), served.clone());
                std::thread::spawn(move || serve_conn(s, plan, id, info_hash, content, pl, stop, served));
            }
            Err(_) if !stop.load(Ordering::SeqCst) => std::thread::sleep(std::time::Duration::from_millis(2)),
            Err(_) => return,
        }
    }
}

fn serve_conn(
    mut s: std::net::TcpStream,
    plan: PeerPlan,
    id: [u8; 20],
    info_hash: [u8; 20],
    content: Arc<Vec<u8>>,
    pl: usize,
    stop: Arc<AtomicBool>,
    served: Arc<AtomicUsize>,
) {
    let mut r = Rng::new(plan.seed);
    s.set_nonblocking(false).ok();
    s.set_nodelay(true).ok();
    s.set_read_timeout(Some(std::time::Duration::from_millis(50))).ok();
    let mut hs = [0u8; 68];
    let mut got = 0;
    while got < 68 {
        match s.read(&mut hs[got..]) {
            Ok(0) => return,
            Ok(n) => got += n,
            Err(_) if !stop.load(Ordering::SeqCst) => continue,
            Err(_) => return,
        }
    }
    if plan.late_ms > 0 {
        std::thread::sleep(std::time::Duration::from_millis(plan.late_ms));
    }
    let mut reply = vec![19u8];
    reply.extend_from_slice(b"BitTorrent protocol");
    reply.extend_from_slice(&[0u8; 8]);
    reply.extend_from_slice(&info_hash);
    reply.extend_from_slice(&id);
    let mut advertised = plan.pieces.clone();
    for i in plan.have_later.iter() {
        advertised[*i] = false;
    }
    let mut announced_later = plan.have_later.is_empty();
    if !write_segmented(&mut s, &reply, &mut r) || !write_segmented(&mut s, &bitfield(&advertised), &mut r) {
        return;
    }
    if plan.drop_after == Some(0) && !plan.drop_mid {
        return;
    }
    if plan.interested && !write_segmented(&mut s, &msg(2, &[]), &mut r) {
        return;
    }
    let mut eager_unchoked = false;
    if plan.eager {
        if !write_segmented(&mut s, &msg(1, &[]), &mut r) {
            return;
        }
        eager_unchoked = true;
        std::thread::sleep(std::time::Duration::from_millis(100));
        for i in plan.have_later.iter() {
            if !write_segmented(&mut s, &msg(4, &(*i as u32).to_be_bytes()), &mut r) {
                return;
            }
        }
        announced_later = true;
    }
    let mut buf: Vec<u8> = vec![];
    let mut reorder = plan.seed % 3 == 0 && plan.drop_after.is_none();
    let mut reorder_again = false;
    let mut unchoked = eager_unchoked;
    let mut sent = 0usize;
    let mut tmp = [0u8; 65536];
    loop {
        if stop.load(Ordering::SeqCst) {
            return;
        }
        match s.read(&mut tmp) {
            Ok(0) => return,
            Ok(n) => buf.extend_from_slice(&tmp[..n]),
            Err(e) if e.kind() == std::io::ErrorKind::WouldBlock || e.kind() == std::io::ErrorKind::TimedOut => {
                // a silent peer is dropped by the client: say something now and then
                if r.chance(1, 40) && s.write_all(&[0, 0, 0, 0]).is_err() {
                    return;
                }
                continue;
            }
            Err(_) => return,
        }
        loop {
            if buf.len() < 4 {
                break;
            }
            let len = u32::from_be_bytes([buf[0], buf[1], buf[2], buf[3]]) as usize;
            if buf.len() < 4 + len {
                break;
            }
            // an honest peer may answer pipelined requests in any order: one peer in three serves the younger of two
            // buffered requests first
            if reorder && len == 13 && buf[4] == 6 && buf.len() >= 34 && buf[17..21] == [0, 0, 0, 13] && buf[21] == 6 {
                let first: Vec<u8> = buf.drain(..17).collect();
                let second: Vec<u8> = buf.drain(..17).collect();
                let rest = std::mem::take(&mut buf);
                buf.extend_from_slice(&second);
                buf.extend_from_slice(&first);
                buf.extend_from_slice(&rest);
                reorder = false; // swap this pair once, then look again at the next request
                reorder_again = true;
            }
            let frame: Vec<u8> = buf.drain(..4 + len).collect();
            if len == 0 {
                continue;
            }
            match frame[4] {
                2 => {
                    // interested: an honest peer eventually unchokes
                    if !unchoked {
                        if r.coin() {
                            std::thread::sleep(std::time::Duration::from_millis(r.below(20)));
                        }
                        if !write_segmented(&mut s, &msg(1, &[]), &mut r) {
                            return;
                        }
                        unchoked = true;
                    }
                }
                6 if len == 13 => {
                    let index = u32::from_be_bytes([frame[5], frame[6], frame[7], frame[8]]) as usize;
                    let begin = u32::from_be_bytes([frame[9], frame[10], frame[11], frame[12]]) as usize;
                    let length = u32::from_be_bytes([frame[13], frame[14], frame[15], frame[16]]) as usize;
                    if !unchoked || index >= plan.pieces.len() || !plan.pieces[index] {
                        continue;
                    }
                    if !announced_later {
                        announced_later = true;
                        for i in plan.have_later.iter() {
                            if !write_segmented(&mut s, &msg(4, &(*i as u32).to_be_bytes()), &mut r) {
                                return;
                            }
                        }
                    }
                    if plan.slow_ms > 0 {
                        std::thread::sleep(std::time::Duration::from_millis(plan.slow_ms));
                    }
                    let start = index * pl + begin;
                    let end = (start + length).min(content.len());
                    if start > end {
                        continue;
                    }
                    let mut payload = (index as u32).to_be_bytes().to_vec();
                    payload.extend_from_slice(&(begin as u32).to_be_bytes());
                    payload.extend_from_slice(&content[start..end]);
                    let m = msg(7, &payload);
                    if plan.drop_mid && plan.drop_after == Some(sent) {
                        let _ = s.write_all(&m[..m.len() / 2]);
                        return;
                    }
                    if !write_segmented(&mut s, &m, &mut r) {
                        return;
                    }
                    sent += 1;
                    served.fetch_add(1, Ordering::SeqCst);
                    if reorder_again && sent % 2 == 0 {
                        reorder = true;
                        reorder_again = false;
                    }
                    if plan.choke_first && sent == 1 {
                        if !write_segmented(&mut s, &msg(0, &[]), &mut r) {
                            return;
                        }
                        std::thread::sleep(std::time::Duration::from_millis(150));
                        if !write_segmented(&mut s, &msg(1, &[]), &mut r) {
                            return;
                        }
                    } else if plan.chokes && plan.drop_after.is_none() && r.chance(1, 3) {
                        // Choke, and a little later Unchoke ("eventually unchokes")
                        if !write_segmented(&mut s, &msg(0, &[]), &mut r) {
                            return;
                        }
                        std::thread::sleep(std::time::Duration::from_millis(5 + r.below(30)));
                        if !write_segmented(&mut s, &msg(1, &[]), &mut r) {
                            return;
                        }
                    }
                    if plan.drop_after == Some(sent) && !plan.drop_mid {
                        return;
                    }
                }
                _ => {}
            }
        }
    }
}

fn tracker_reply(entries: &[(u16, [u8; 20])]) -> Vec<u8> {
    let mut b = b"d8:intervali1800e5:peersl".to_vec();
    for (p, id) in entries {
        b.extend_from_slice(b"d2:ip9:127.0.0.17:peer id20:");
        b.extend_from_slice(id);
        b.extend_from_slice(format!("4:porti{}ee", p).as_bytes());
    }
    b.extend_from_slice(b"ee");
    b
}

/// Child process body: `child-e2e02 <seed> <pl> <lens> <honest> <droppers> <stay>`; one `E2E …` line on stderr.
pub fn child(seed: u64, pl: usize, lens: &str, honest: usize, droppers: usize, mode: u32) -> ! {
    // mode: 0 = one honest peer leaves once everything is stored, 1 = everybody stays,
    //       2/3 = the same with every piece at exactly one peer and the first peer slow,
    //       4 = every peer has everything; the first one chokes us after its first block for 150 ms (then as 0)
    //       5 = a crowd of leechers: every piece at exactly one peer, every peer interested in us, everybody stays
    //       6 = a slow seeder and late, fast twins: the first peer has everything and answers slowly, every other peer has
    //           exactly one piece, answers at once but is slow to accept the connection; the last piece is at the seeder only;
    //           everybody stays (the seeder loses the race for the piece it was asked first and must go on with another)
    //       7 = an eager seeder: the only peer; an empty bitfield, Unchoke at once, and only then Have for every piece
    let crowd = mode == 5;
    let twin = mode == 6;
    let eager = mode == 7;
    let stay = mode == 1 || mode == 3 || crowd || twin || eager;
    let disjoint = mode == 2 || mode == 3 || crowd;
    let choke_race = mode == 4;
    let chokes = seed % 3 == 0;
    std::panic::set_hook(Box::new(|_| {
        PANICS.fetch_add(1, Ordering::SeqCst);
    }));
    let lock_path = std::env::var("VERIF_PORT_LOCK").unwrap_or_else(|_| "port6881.lock".into());
    let lock = std::fs::OpenOptions::new().create(true).write(true).open(&lock_path).expect("lock file");
    lock.lock().expect("flock");
    let mut r = Rng::new(seed);
    let lens: Vec<usize> = lens.split(',').map(|x| x.parse().unwrap()).collect();
    let total: usize = lens.iter().sum();
    let content = Arc::new(pattern(total, seed));
    let npieces = (total + pl - 1) / pl;
    let files: Vec<(usize, Vec<u8>)> = lens.iter().enumerate().map(|(k, l)| (*l, format!("f{}", k).into_bytes())).collect();
    let tl = std::net::TcpListener::bind("127.0.0.1:0").expect("bind tracker");
    let url = format!("http://127.0.0.1:{}/announce", tl.local_addr().unwrap().port());
    // the torrent builder has a fixed announce URL: splice in the tracker's, on the byte level
    let base = torrent(b"out", pl, &files, &content, true);
    let needle = b"20:http://127.0.0.1:1/a";
    let at = base.windows(needle.len()).position(|w| w == needle).expect("announce");
    let mut doc = base[..at].to_vec();
    doc.extend_from_slice(format!("{}:{}", url.len(), url).as_bytes());
    doc.extend_from_slice(&base[at + needle.len()..]);
    let m = Metainfo::from_bencode(&doc).expect("metainfo");
    let info_hash = *m.info_hash();

    // distribution of pieces: every piece is held by at least one honest peer
    let mut plans: Vec<PeerPlan> = vec![];
    let mut own: Vec<Vec<bool>> = vec![vec![false; npieces]; honest];
    for i in 0..npieces {
        if twin {
            own[0][i] = true;
            if i + 1 < honest && i + 1 < npieces {
                own[i + 1][i] = true;
            }
            continue;
        }
        if disjoint {
            own[i % honest][i] = true;
            continue;
        }
        if choke_race {
            for h in 0..honest {
                own[h][i] = true;
            }
            continue;
        }
        own[r.below(honest as u64) as usize][i] = true;
        for h in 0..honest {
            if r.chance(1, 3) {
                own[h][i] = true;
            }
        }
    }
    for h in 0..honest {
        let slow_ms = if (disjoint && !crowd || twin) && h == 0 { 150 } else { 0 };
        plans.push(PeerPlan { pieces: own[h].clone(), drop_after: None, drop_mid: false, seed: r.next(), slow_ms, chokes, choke_first: choke_race && h == 0, interested: crowd, late_ms: if twin && h > 0 { 120 } else { 0 }, have_later: vec![], eager: false });
    }
    for _ in 0..droppers {
        let pieces: Vec<bool> = (0..npieces).map(|_| r.coin()).collect();
        plans.push(PeerPlan { pieces, drop_after: Some(r.below(3) as usize), drop_mid: r.coin(), seed: r.next(), slow_ms: 0, chokes: false, choke_first: false, interested: false, late_ms: 0, have_later: vec![], eager: false });
    }
    if eager {
        for p in plans.iter_mut() {
            p.have_later = (0..npieces).filter(|i| p.pieces[*i]).collect();
            p.eager = true;
            p.chokes = false;
        }
    }
    r.shuffle(&mut plans);
    let stop = Arc::new(AtomicBool::new(false));
    let served = Arc::new(AtomicUsize::new(0));
    let mut entries = vec![];
    let mut stops = vec![];
    for (i, plan) in plans.into_iter().enumerate() {
        let l = std::net::TcpListener::bind("127.0.0.1:0").unwrap();
        let mut id = [0u8; 20];
        id.copy_from_slice(format!("-FAKE0-{:013}", i).as_bytes());
        entries.push((l.local_addr().unwrap().port(), id));
        let my_stop = if plan.drop_after.is_none() { Arc::new(AtomicBool::new(false)) } else { stop.clone() };
        if plan.drop_after.is_none() {
            stops.push(my_stop.clone());
        }
        let (c, sv) = (content.clone(), served.clone());
        std::thread::spawn(move || run_peer(l, plan, id, info_hash, c, pl, my_stop, sv));
    }
    // one run in three: the tracker lists every peer twice (the second entry must not become a second connection)
    if seed % 3 == 0 {
        let again = entries.clone();
        entries.extend(again);
    }
    let reply = tracker_reply(&entries);
    std::thread::spawn(move || loop {
        if serve_one(&tl, "200 OK", &reply).is_none() {
            return;
        }
    });
    let session_done = Arc::new(AtomicBool::new(false));
    let sd = session_done.clone();
    std::thread::spawn(move || {
        let rt = tokio::runtime::Builder::new_multi_thread().worker_threads(2).enable_all().build().unwrap();
        rt.block_on(async move {
            let mut session = rdest::Session::new(m, *b"-VERIF-0000000000002");
            session.run().await;
        });
        sd.store(true, Ordering::SeqCst);
    });

    // Wait for the output files (or until time is up). When every piece has been stored and the scenario says so,
    // one honest peer leaves (the others stay and keep serving).
    let t0 = std::time::Instant::now();
    let limit = std::time::Duration::from_secs(20);
    let piece_names: Vec<String> = content.chunks(pl).map(|c| hash_to_string(&sha1(c)) + ".piece").collect();
    let out_path = |k: usize| if lens.len() > 1 { format!("out/f{}", k) } else { format!("f{}", k) };
    let file_state = |k: usize, pos: usize, l: usize| match std::fs::read(out_path(k)) {
        Ok(d) if d == content[pos..pos + l] => 'y',
        Ok(_) => 'x',
        Err(_) => '-',
    };
    let files_state = || {
        let mut pos = 0;
        let mut res = vec![];
        for (k, l) in lens.iter().enumerate() {
            res.push(file_state(k, pos, *l));
            pos += l;
        }
        res
    };
    let mut t_pieces = 0u128;
    let mut left = false;
    loop {
        let fs = files_state();
        if fs.iter().all(|c| *c == 'y') || t0.elapsed() > limit || session_done.load(Ordering::SeqCst) {
            break;
        }
        if t_pieces == 0 && (piece_names.iter().all(|n| std::path::Path::new(n).exists()) || fs.iter().any(|c| *c != '-')) {
            t_pieces = t0.elapsed().as_millis().max(1);
        }
        if t_pieces != 0 && !stay && !left {
            if let Some(s) = stops.first() {
                s.store(true, Ordering::SeqCst);
            }
            left = true;
        }
        std::thread::sleep(std::time::Duration::from_millis(10));
    }
    // let a running extraction finish its last write
    std::thread::sleep(std::time::Duration::from_millis(60));
    let mut pos = 0;
    let mut digests = vec![];
    for (k, l) in lens.iter().enumerate() {
        digests.push(match std::fs::read(out_path(k)) {
            Ok(d) => hex(&sha1(&d)),
            Err(_) => "missing".to_string(),
        });
        pos += l;
    }
    let _ = pos;
    eprintln!(
        "E2E files={} panics={} session={} served={} ms={}",
        digests.join(","),
        PANICS.load(Ordering::SeqCst),
        if session_done.load(Ordering::SeqCst) { "ended" } else { "alive" },
        served.load(Ordering::SeqCst),
        t0.elapsed().as_millis()
    );
    std::process::exit(0)
}

/// `e2e <seed> <pl> <lens> <honest> <droppers> <stay>`
fn op_e2e(args: &[&str]) -> String {
    let exe = std::env::current_exe().expect("exe");
    static COUNTER: AtomicUsize = AtomicUsize::new(0);
    let n = COUNTER.fetch_add(1, Ordering::SeqCst);
    let dir = std::env::current_dir().unwrap().join(format!("e2e02_{}_{}", std::process::id(), n));
    std::fs::create_dir_all(&dir).unwrap();
    let lock = std::env::var("VERIF_PORT_LOCK").unwrap_or_else(|_| "/verif/.scratch/port6881.lock".into());
    let mut a = vec!["child-e2e02"];
    a.extend_from_slice(args);
    let out = std::process::Command::new(exe)
        .args(&a)
        .current_dir(&dir)
        .env("VERIF_PORT_LOCK", lock)
        .stdout(std::process::Stdio::null())
        .stderr(std::process::Stdio::piped())
        .output();
    let _ = std::fs::remove_dir_all(&dir);
    match out {
        Ok(o) => {
            let err = String::from_utf8_lossy(&o.stderr).to_string();
            match err.lines().find(|l| l.starts_with("E2E ")) {
                Some(l) => l[4..].to_string(),
                None => format!("child-failed {}", err.lines().last().unwrap_or("").replace(' ', "_")),
            }
        }
        Err(_) => "spawn-failed".into(),
    }
}

pub fn run(args: &[&str]) -> String {
    match args[0] {
        "e2e" => op_e2e(&args[1..]),
        _ => panic!("unknown C02 op"),
    }
}

pub fn gen(r: &mut Rng, n: usize) -> Vec<String> {
    let mut out = vec![];
    for k in 0..n {
        // scenario families that matter for the bookkeeping, then free mixtures
        let family = k % 9;
        if family == 8 {
            // an eager seeder (mode 7): Unchoke before anything is on offer, the pieces announced with Have afterwards
            let pl = *r.pick(&[16usize, 16384, 20000]);
            let npieces = 1 + r.below(4) as usize;
            let total = pl * npieces - r.below(pl as u64 / 2) as usize;
            out.push(format!("e2e {} {} {} 1 0 7", r.below(1 << 30), pl, total));
            continue;
        }
        if family == 7 {
            // a piece count that is a multiple of eight (the bitfield has no spare bits), one or two honest peers that have
            // the last pieces
            let pl = *r.pick(&[16usize, 100, 16384]);
            let npieces = *r.pick(&[8usize, 16, 8]);
            let total = pl * npieces - r.below(pl as u64) as usize;
            let lens_s = if r.coin() { total.to_string() } else { format!("{},{}", total / 2, total - total / 2) };
            out.push(format!("e2e {} {} {} {} 0 {}", r.below(1 << 30), pl, lens_s, 1 + r.below(2), r.below(2)));
            continue;
        }
        if family == 6 {
            // a slow seeder and late, fast twins (mode 6): 4..5 pieces of several blocks, one twin per piece but the last
            let pl = *r.pick(&[20000usize, 40000]);
            let npieces = 4 + r.below(2) as usize;
            let total = pl * npieces - r.below(pl as u64 / 2) as usize;
            out.push(format!("e2e {} {} {} {} 0 6", r.below(1 << 30), pl, total, npieces));
            continue;
        }
        if family == 5 {
            // a crowd of leechers: more listed peers than the client connects to at once, every piece at exactly one of
            // them, all of them interested in us and staying connected to the end
            let pl = *r.pick(&[16usize, 100, 16384]);
            let honest = *r.pick(&[2usize, 5, 11, 12, 13, 15]);
            let npieces = honest + r.below(3) as usize;
            let total = pl * npieces - r.below(pl as u64) as usize;
            let lens_s = if r.coin() { total.to_string() } else { format!("{},{}", total / 3, total - total / 3) };
            out.push(format!("e2e {} {} {} {} 0 5", r.below(1 << 30), pl, lens_s, honest));
            continue;
        }
        let pl = match family {
            1 => *r.pick(&[16usize, 100, 16384, 20000]),
            2 => *r.pick(&[20000usize, 40000]), // several blocks per piece
            _ => *r.pick(&[5usize, 16, 100, 16384, 20000, 40000]),
        };
        let nf = 1 + r.below(4) as usize;
        let max_total = match family {
            4 => 3 * pl,      // a few pieces, each at exactly one peer, the first peer slow: a fast peer is dismissed early
            1 => 3 * pl,      // no more pieces than peers: everything is Reserved at once
            2 => pl,          // a single piece wanted from every peer (end game duplicates)
            3 => 12 * pl,     // more pieces than the end-game limit
            _ => {
                if pl < 1000 { 12 * pl } else { 6 * pl }
            }
        };
        let mut lens: Vec<usize> = (0..nf)
            .map(|_| match r.below(5) {
                0 => 0,
                1 => pl.min(max_total / nf),
                2 => r.below(pl as u64) as usize % (max_total / nf + 1),
                _ => r.below((max_total / nf) as u64 + 1) as usize,
            })
            .collect();
        if r.chance(1, 2) {
            // a small file strictly inside a piece: it neither starts on the piece's first byte nor reaches its end
            let a = pl / 2 + r.below((pl / 8) as u64 + 1) as usize;
            let b = 1 + r.below((pl / 4).max(1) as u64) as usize;
            let rest = max_total.saturating_sub(a + b);
            let c = if rest > 0 { 1 + r.below(rest as u64) as usize } else { 0 };
            lens = vec![a, b, c];
        }
        if family == 3 {
            // at least 11 pieces
            lens[0] = lens[0].max(10 * pl + 1);
        }
        if lens.iter().sum::<usize>() == 0 {
            lens[0] = pl + 1;
        }
        let lens_s = lens.iter().map(|x| x.to_string()).collect::<Vec<_>>().join(",");
        let (honest, droppers) = match family {
            1 => (3, 1 + r.below(2)),
            2 => (2 + r.below(2), 0),
            3 => (1 + r.below(2), r.below(2)),
            _ => (1 + r.below(3), r.below(3)),
        };
        let stay = r.chance(1, 3);
        let mode = match (family, stay) {
            (2, _) => 4,
            (4, false) => 2,
            (4, true) => 3,
            (_, false) => 0,
            (_, true) => 1,
        };
        let honest = if family == 4 { honest.max(2) } else { honest };
        out.push(format!("e2e {} {} {} {} {} {}", r.below(1 << 30), pl, lens_s, honest, droppers, mode));
    }
    out
}
