//! The whole client in closed loop (C01 `sys`): the REAL manager (`Session`, its commands handled one at a time exactly as
//! its event loop does) and REAL connection tasks (`PeerHandler` over in-memory streams) talking to each other through
//! the real channels — the manager's replies are not scripted, they are what `handle_peer_cmd` answers. The harness
//! plays the remote peers (frames fed to the streams) and the event loop (it takes every command off the manager's
//! channel and hands it to the manager), recording for every command the reply that went back to the task.
//!
//! `sys <npieces> <piece length> <tie-seed> <events ';'-separated>`; events: `a<k>` a new incoming connection,
//! `f<k>:<frame tokens>` a frame from peer k (notation of the `hand` op), `e<k>` peer k closes its stream.
//! Per event: `<log>~<statuses>~<peer records>~<frames written per connection>~<piece files written>`.
use crate::hand::{content, piece_hash, sha1};
use crate::sess::{addr_of, statuses_str, torrent_bytes};
use crate::util::*;
use crate::wire::{frame_toks, impl_data, m_of_toks};
use rdest::verif::*;
use rdest::{Metainfo, Session};
use std::collections::HashMap;
use std::io::Cursor;
use tokio::io::{AsyncReadExt, AsyncWriteExt};
use tokio::sync::oneshot;

pub const PLACEHOLDER: &str = "x0707070707070707070707070707070707070707";

struct Conn {
    peer: tokio::io::DuplexStream,
    rbuf: Vec<u8>,
    out: Vec<String>,
}

fn k_of(addr: &str) -> usize {
    addr.split(':').next().unwrap().rsplit('.').next().unwrap().parse::<usize>().unwrap() - 1
}

fn req_tok(r: &ReqData, plen: usize, with_interested: bool) -> String {
    let good = r.piece_length == plen && r.piece_hash == piece_hash(r.piece_index, plen, true);
    format!("{}{},{},{}", if with_interested { 'I' } else { 'Q' }, r.piece_index, r.piece_length, if good { "good" } else { "bad" })
}

/// Hand one command to the manager the way the event loop does, with a reply channel of our own in between, so that the
/// reply can be recorded before it is passed on to the task. → (connection, command token, reply token)
async fn relay(s: &mut Session, cmd: PeerCmd, plen: usize) -> (usize, String, String) {
    macro_rules! via {
        ($addr:expr, $tok:expr, $mk:expr, $resp_ch:expr, $show:expr) => {{
            let k = k_of(&$addr);
            let (tx, rx) = oneshot::channel();
            let handled = s.verif_handle_peer_cmd($mk(tx)).await;
            let reply_tok = match rx.await {
                Ok(reply) => {
                    let t: String = $show(&reply);
                    let _ = $resp_ch.send(reply);
                    t
                }
                Err(_) => if handled.is_err() { "E".to_string() } else { "noreply".to_string() },
            };
            (k, $tok, reply_tok)
        }};
    }
    match cmd {
        PeerCmd::Init { addr, peer_id, resp_ch } => {
            let a = addr.clone();
            via!(a, format!("c=init:{}", hex(&peer_id)), |tx| PeerCmd::Init { addr: addr.clone(), peer_id, resp_ch: tx }, resp_ch,
                |r: &InitCmd| match r { InitCmd::SendBitfield { bitfield } => format!("B{}", hex(&bitfield.data()[5..])) })
        }
        PeerCmd::RecvChoke { addr } => {
            let k = k_of(&addr);
            let _ = s.verif_handle_peer_cmd(PeerCmd::RecvChoke { addr }).await;
            (k, "c=choke".into(), "-".into())
        }
        PeerCmd::RecvInterested { addr } => {
            let k = k_of(&addr);
            let _ = s.verif_handle_peer_cmd(PeerCmd::RecvInterested { addr }).await;
            (k, "c=interested".into(), "-".into())
        }
        PeerCmd::RecvUnchoke { addr, resp_ch } => {
            let a = addr.clone();
            via!(a, "c=unchoke".to_string(), |tx| PeerCmd::RecvUnchoke { addr: addr.clone(), resp_ch: tx }, resp_ch, |r: &UnchokeCmd| match r {
                UnchokeCmd::SendInterestedAndRequest(d) => req_tok(d, plen, true),
                UnchokeCmd::SendRequest(d) => req_tok(d, plen, false),
                UnchokeCmd::SendNotInterested => "Ni".to_string(),
                UnchokeCmd::Ignore => "Ig".to_string(),
            })
        }
        PeerCmd::RecvNotInterested { addr, resp_ch } => {
            let a = addr.clone();
            via!(a, "c=notinterested".to_string(), |tx| PeerCmd::RecvNotInterested { addr: addr.clone(), resp_ch: tx }, resp_ch,
                |r: &NotInterestedCmd| match r {
                    NotInterestedCmd::PrepareKill => "Pk".to_string(),
                    NotInterestedCmd::Ignore => "Ig".to_string(),
                })
        }
        PeerCmd::RecvHave { addr, piece_index, resp_ch } => {
            let a = addr.clone();
            via!(a, format!("c=have:{}", piece_index), |tx| PeerCmd::RecvHave { addr: addr.clone(), piece_index, resp_ch: tx }, resp_ch,
                |r: &HaveCmd| match r {
                    HaveCmd::SendInterestedAndRequest(d) => req_tok(d, plen, true),
                    HaveCmd::SendInterested => "In".to_string(),
                    HaveCmd::Ignore => "Ig".to_string(),
                })
        }
        PeerCmd::RecvBitfield { addr, bitfield, resp_ch } => {
            let a = addr.clone();
            let payload = hex(&bitfield.data()[5..]);
            let mut bf = Some(bitfield);
            via!(a, format!("c=bitfield:{}", payload), |tx| PeerCmd::RecvBitfield { addr: addr.clone(), bitfield: bf.take().unwrap(), resp_ch: tx },
                resp_ch, |r: &BitfieldCmd| match r {
                    BitfieldCmd::SendState { with_am_unchoked, am_interested } =>
                        format!("S{}{}", if *with_am_unchoked { 'u' } else { '-' }, if *am_interested { 'i' } else { 'n' }),
                })
        }
        PeerCmd::RecvRequest { addr, piece_index, resp_ch } => {
            let a = addr.clone();
            via!(a, format!("c=request:{}", piece_index), |tx| PeerCmd::RecvRequest { addr: addr.clone(), piece_index, resp_ch: tx }, resp_ch,
                |r: &RequestCmd| match r {
                    RequestCmd::LoadAndSendPiece { piece_index, .. } => format!("L{},{},present", piece_index, plen),
                    RequestCmd::Ignore => "Ig".to_string(),
                })
        }
        PeerCmd::PieceDone { addr, resp_ch } => {
            let a = addr.clone();
            via!(a, "c=piecedone".to_string(), |tx| PeerCmd::PieceDone { addr: addr.clone(), resp_ch: tx }, resp_ch, |r: &PieceCmd| match r {
                PieceCmd::SendRequest(d) => req_tok(d, plen, false),
                PieceCmd::SendNotInterested => "Ni".to_string(),
                PieceCmd::PrepareKill => "Pk".to_string(),
                PieceCmd::Ignore => "Ig".to_string(),
            })
        }
        PeerCmd::PieceCancel { addr, resp_ch } => {
            let a = addr.clone();
            via!(a, "c=piececancel".to_string(), |tx| PeerCmd::PieceCancel { addr: addr.clone(), resp_ch: tx }, resp_ch, |r: &PieceCmd| match r {
                PieceCmd::SendRequest(d) => req_tok(d, plen, false),
                PieceCmd::SendNotInterested => "Ni".to_string(),
                PieceCmd::PrepareKill => "Pk".to_string(),
                PieceCmd::Ignore => "Ig".to_string(),
            })
        }
        PeerCmd::SyncStats { addr, downloaded_rate, uploaded_rate, unexpected_blocks } => {
            let k = k_of(&addr);
            let _ = s.verif_handle_peer_cmd(PeerCmd::SyncStats { addr, downloaded_rate, uploaded_rate, unexpected_blocks }).await;
            (k, "stats".into(), "-".into())
        }
        PeerCmd::KillReq { addr, reason } => {
            let k = k_of(&addr);
            let normal = reason == "End job normally";
            let _ = s.verif_handle_peer_cmd(PeerCmd::KillReq { addr, reason }).await;
            (k, if normal { "kill".into() } else { "killE".into() }, "-".into())
        }
    }
}

fn flush_frames(c: &mut Conn) {
    loop {
        let mut crs = Cursor::new(&c.rbuf[..]);
        match Frame::parse(&mut crs) {
            Ok(f) => {
                let n = crs.position() as usize;
                c.out.push(format!("w={}", frame_toks(&f).join(",")));
                c.rbuf.drain(..n);
            }
            Err(rdest::Error::Incomplete(_)) => break,
            Err(_) => {
                c.out.push(format!("w=GARBAGE:{}", hex(&c.rbuf)));
                c.rbuf.clear();
                break;
            }
        }
    }
}

fn snap_peers(s: &mut Session) -> String {
    let mut v: Vec<(usize, String)> = s
        .verif_peers()
        .iter()
        .map(|(addr, p)| {
            let k = k_of(addr);
            (
                k,
                format!(
                    "{}:{}:{}{}{}",
                    k,
                    match p.piece_index {
                        Some(i) => i.to_string(),
                        None => "-".into(),
                    },
                    if p.choked { 'c' } else { 'u' },
                    if p.am_interested { 'I' } else { 'n' },
                    if p.interested { 'i' } else { 'n' }
                ),
            )
        })
        .collect();
    v.sort();
    if v.is_empty() { "-".to_string() } else { v.into_iter().map(|x| x.1).collect::<Vec<_>>().join(",") }
}

pub fn op_sys(np: usize, plen: usize, tie_seed: u64, script: &str) -> String {
    static COUNTER: std::sync::atomic::AtomicUsize = std::sync::atomic::AtomicUsize::new(0);
    let n = COUNTER.fetch_add(1, std::sync::atomic::Ordering::SeqCst);
    let base = std::env::current_dir().unwrap();
    let dir = base.join(format!("sys_{}_{}", std::process::id(), n));
    std::fs::create_dir_all(&dir).unwrap();
    std::env::set_current_dir(&dir).unwrap();
    set_tie_break_seed(Some(tie_seed));
    let events: Vec<String> = script.split(';').map(|s| s.to_string()).collect();
    let r = catch(|| {
        let rt = tokio::runtime::Builder::new_current_thread().enable_all().max_blocking_threads(1).build().unwrap();
        rt.block_on(async move {
            let hashes: Vec<[u8; 20]> = (0..np).map(|i| piece_hash(i, plen, true)).collect();
            let m = Metainfo::from_bencode(&torrent_bytes(&hashes, plen as u64, (np * plen) as u64, "http://127.0.0.1:1/a")).expect("torrent");
            let info_hash = *m.info_hash();
            let own_id = *b"-VF0001-000000000000";
            let mut session = Session::new(m, own_id);
            let mut conns: HashMap<usize, Conn> = HashMap::new();
            let mut files: HashMap<String, Vec<u8>> = HashMap::new();
            let mut results: Vec<String> = vec![];
            for ev in events.iter() {
                let (c, rest) = ev.split_at(1);
                let (kstr, arg) = match rest.split_once(':') {
                    Some((k, a)) => (k, a),
                    None => (rest, ""),
                };
                let k: usize = kstr.parse().expect("connection number");
                match c {
                    "a" => {
                        let (ours, theirs) = tokio::io::duplex(1 << 22);
                        let mut handler =
                            PeerHandler::new(addr_of(k), own_id, None, info_hash, np, session.verif_peer_tx(), session.verif_subscribe());
                        let job = tokio::spawn(async move { handler.verif_run_mem(theirs).await });
                        session.verif_add_peer_with_job(addr_of(k), None, job);
                        conns.insert(k, Conn { peer: ours, rbuf: vec![], out: vec![] });
                    }
                    "f" => {
                        let toks: Vec<&str> = arg.split(',').collect();
                        let bytes = if toks[0] == "pb" {
                            let (idx, pl, begin, len): (usize, usize, usize, usize) =
                                (toks[1].parse().unwrap(), toks[2].parse().unwrap(), toks[3].parse().unwrap(), toks[4].parse().unwrap());
                            let cnt = content(idx, pl);
                            Piece::new(idx, begin, cnt[begin..begin + len].to_vec()).data()
                        } else if toks[0] == "hs" {
                            // scripts name the torrent by the harness-wide placeholder hash; the session's real one goes on the wire
                            let ih = if toks[1] == PLACEHOLDER { format!("x{}", &hex(&info_hash)[1..]) } else { toks[1].to_string() };
                            impl_data(&m_of_toks(&["hs", &ih, toks[2]]))
                        } else {
                            impl_data(&m_of_toks(&toks))
                        };
                        if let Some(cn) = conns.get_mut(&k) {
                            let _ = cn.peer.write_all(&bytes).await;
                        }
                    }
                    "e" => {
                        if let Some(cn) = conns.get_mut(&k) {
                            let _ = cn.peer.shutdown().await;
                        }
                    }
                    _ => panic!("bad sys event {}", ev),
                }
                // run everything until it is quiet: tasks, the manager's inbox, the file operations
                let mut log: Vec<String> = vec![];
                let mut quiet = 0;
                let mut rounds = 0;
                let mut hang = false;
                while quiet < 5 && rounds < 600 {
                    let mut progress = false;
                    for _ in 0..8 {
                        tokio::task::yield_now().await;
                    }
                    let _ = tokio::task::spawn_blocking(|| ()).await;
                    for _ in 0..8 {
                        tokio::task::yield_now().await;
                    }
                    let mut buf = [0u8; 65536];
                    for (_, cn) in conns.iter_mut() {
                        loop {
                            let n = tokio::select! {
                                biased;
                                r = cn.peer.read(&mut buf) => r.unwrap_or(0),
                                _ = std::future::ready(()) => 0,
                            };
                            if n == 0 {
                                break;
                            }
                            progress = true;
                            cn.rbuf.extend_from_slice(&buf[..n]);
                        }
                        flush_frames(cn);
                    }
                    loop {
                        let cmd = tokio::select! {
                            biased;
                            c = session.verif_recv_peer_cmd() => c,
                            _ = std::future::ready(()) => None,
                        };
                        let cmd = match cmd {
                            Some(c) => c,
                            None => break,
                        };
                        progress = true;
                        match tokio::time::timeout(std::time::Duration::from_millis(3000), relay(&mut session, cmd, plen)).await {
                            Ok((k, ctok, rtok)) => {
                                if ctok != "stats" {
                                    log.push(format!("{}:{}>{}", k, ctok, rtok));
                                }
                            }
                            Err(_) => {
                                hang = true;
                                break;
                            }
                        }
                    }
                    if hang {
                        break;
                    }
                    if progress {
                        quiet = 0;
                    } else {
                        quiet += 1;
                    }
                    rounds += 1;
                }
                if hang {
                    results.push("HANG".into());
                    break;
                }
                // piece files written during this event
                let mut names: Vec<String> = std::fs::read_dir(".")
                    .unwrap()
                    .filter_map(|e| e.ok())
                    .map(|e| e.file_name().to_string_lossy().to_string())
                    .filter(|n| n.ends_with(".piece"))
                    .collect();
                names.sort();
                let mut fl: Vec<String> = vec![];
                for n in names {
                    let data = std::fs::read(&n).unwrap_or_default();
                    if files.get(&n) != Some(&data) {
                        fl.push(format!("{}:{}:{}", n.trim_end_matches(".piece").to_lowercase(), hex(&sha1(&data)), data.len()));
                        files.insert(n, data);
                    }
                }
                let mut ks: Vec<usize> = conns.keys().cloned().collect();
                ks.sort();
                let mut wr: Vec<String> = vec![];
                for k in ks {
                    let cn = conns.get_mut(&k).unwrap();
                    if !cn.out.is_empty() {
                        let real = format!("x{}", &hex(&info_hash)[1..]);
                        let toks: Vec<String> = cn.out.iter().map(|t| t.replace(&real, PLACEHOLDER)).collect();
                        wr.push(format!("{}={}", k, toks.join("/")));
                        cn.out.clear();
                    }
                }
                let dash = |v: Vec<String>| if v.is_empty() { "-".to_string() } else { v.join("+") };
                results.push(format!(
                    "{}~{}~{}~{}~{}",
                    dash(log),
                    statuses_str(&session.verif_statuses().clone()),
                    snap_peers(&mut session),
                    dash(wr),
                    dash(fl)
                ));
            }
            results.join(";")
        })
    });
    set_tie_break_seed(None);
    std::env::set_current_dir(&base).unwrap();
    let _ = std::fs::remove_dir_all(&dir);
    r.unwrap_or_else(|_| "P".into())
}

/// Closed-loop scripts, generated against the live system: connections come and go, peers send handshakes, bitfields,
/// (un)chokes, interest, Haves, and answer the block requests the client really sent them — in and out of order, now and
/// then with corrupt data — so that pieces complete on several connections, end-game duplicates get cancelled, and
/// reservations move between peers.
pub fn gen_sys(r: &mut Rng) -> String {
    // one script in four is a duel: one or two pieces, several peers that have everything — end game, the same piece
    // fetched on several connections, the losers cancelled
    let duel = r.chance(1, 4);
    // one in six of the others is a recall: far from the end game a peer that offers a single piece unchokes us twice in
    // a row — the second Unchoke finds nothing new for it (its piece is still reserved), the manager takes the piece
    // back and answers SendNotInterested — and only then answers the requests it got after the first
    let recall = !duel && r.chance(1, 6);
    let np = if duel { 1 + r.below(2) as usize } else if recall { 11 + r.below(2) as usize } else { *r.pick(&[1usize, 2, 3, 4, 6, 11, 12]) };
    let plen = if duel { *r.pick(&[100usize, 20000]) } else if recall { *r.pick(&[20000usize, 40000]) } else { *r.pick(&[100usize, 100, 20000, 40000]) };
    let tie = r.next() % 1_000_000;
    let max_conns = if duel { 2 + r.below(2) as usize } else { 1 + r.below(4) as usize };
    let steps = 6 + r.below(34) as usize;
    let mut evs: Vec<String> = vec![];
    // shadow: per connection the requests written to it and not answered yet, whether it is there, handshaken
    let mut outstanding: HashMap<usize, Vec<(usize, usize, usize)>> = HashMap::new();
    let mut shaken: HashMap<usize, bool> = HashMap::new();
    let mut alive: Vec<usize> = vec![];
    let mut next_conn = 0usize;
    // a duel starts with everybody connected, advertising everything and unchoking us
    let mut preface: Vec<String> = vec![];
    if duel {
        for k in 0..max_conns {
            preface.push(format!("a{}", k));
            preface.push(format!("f{}:hs,{},{}", k, PLACEHOLDER, hex(&[0x41 + k as u8; 20])));
            preface.push(format!("f{}:bf,{}", k, hex(&vec![0xffu8 << ((8 - np % 8) % 8); (np + 7) / 8])));
            preface.push(format!("f{}:un", k));
        }
        preface.reverse();
    }
    // one in eight of the rest is an orphan: far from the end game a peer that never sent a bitfield (we keep it choked)
    // announces a piece with Have, unchokes us, is asked for the piece - and is gone (or sends a corrupt block)
    let orphan = !duel && !recall && np >= 11 && r.chance(1, 3);
    if orphan {
        let i = r.below(np as u64);
        preface.push("a0".to_string());
        preface.push(format!("f0:hs,{},{}", PLACEHOLDER, hex(&[0x41u8; 20])));
        preface.push(format!("f0:hv,{}", i));
        preface.push("f0:un".to_string());
        if r.coin() {
            preface.push("e0".to_string());
        } else {
            preface.push(format!("f0:pc,{},0,{}", i, hex(&r.bytes(plen.min(64)))));
            if plen > 64 {
                preface.push("e0".to_string());
            }
        }
        preface.reverse();
    }
    if recall {
        let bit = r.below(np as u64) as usize;
        let mut bytes = vec![0u8; (np + 7) / 8];
        bytes[bit / 8] |= 0x80 >> (bit % 8);
        preface.push("a0".to_string());
        preface.push(format!("f0:hs,{},{}", PLACEHOLDER, hex(&[0x41u8; 20])));
        preface.push(format!("f0:bf,{}", hex(&bytes)));
        preface.push("f0:un".to_string());
        if r.coin() {
            preface.push("f0:in".to_string());
        }
        preface.push("f0:un".to_string());
        preface.reverse();
    }
    for _ in 0..steps + preface.len() {
        let roll = r.below(100);
        let mut ev: String;
        let fresh: Vec<usize> = alive.iter().cloned().filter(|k| !shaken[k]).collect();
        let answerable: Vec<usize> = alive.iter().cloned().filter(|k| !outstanding[k].is_empty()).collect();
        if alive.is_empty() || ((roll < 8 || duel && roll < 40) && alive.len() < max_conns) {
            ev = format!("a{}", next_conn);
            alive.push(next_conn);
            outstanding.insert(next_conn, vec![]);
            shaken.insert(next_conn, false);
            next_conn += 1;
        } else if !fresh.is_empty() && roll < 70 {
            let k = fresh[0];
            ev = format!("f{}:hs,{},{}", k, PLACEHOLDER, hex(&[0x41 + k as u8; 20]));
            shaken.insert(k, true);
        } else if !answerable.is_empty() && roll < 62 {
            let k = *r.pick(&answerable);
            let v = outstanding.get_mut(&k).unwrap();
            let j = r.below(v.len() as u64) as usize;
            let (idx, b, l) = v.remove(j);
            ev = if r.chance(1, 30) {
                format!("f{}:pc,{},{},{}", k, idx, b, hex(&r.bytes(l.min(64))))
            } else {
                format!("f{}:pb,{},{},{},{}", k, idx, plen, b, l)
            };
        } else {
            let k = *r.pick(&alive);
            ev = match roll % 20 {
                0..=5 => {
                    let dens = if duel { 100 } else { *r.pick(&[30u64, 60, 100]) };
                    let bits: Vec<bool> = (0..np).map(|_| r.below(100) < dens).collect();
                    let mut bytes = vec![0u8; (np + 7) / 8];
                    for (i, b) in bits.iter().enumerate() {
                        if *b {
                            bytes[i / 8] |= 0x80 >> (i % 8);
                        }
                    }
                    // spare bits of the last byte set now and then: what lies behind the last piece is nobody's business
                    if np % 8 != 0 && r.chance(1, 3) {
                        let last = bytes.len() - 1;
                        bytes[last] |= (r.next() as u8) & (0xffu8 >> (np % 8));
                    }
                    format!("f{}:bf,{}", k, hex(&bytes))
                }
                6..=10 => format!("f{}:un", k),
                11 | 12 => format!("f{}:ch", k),
                13 => format!("f{}:in", k),
                14 => format!("f{}:ni", k),
                // now and then an index just behind the last piece (or far behind): the task must end the connection,
                // the manager must never see it
                15 | 16 => {
                    let i = if r.chance(1, 5) { *r.pick(&[np as u64, np as u64 + 1, 0xffff_ffff]) } else { r.below(np as u64) };
                    format!("f{}:hv,{}", k, i)
                }
                17 => format!("f{}:ka", k),
                18 => format!("e{}", k),
                _ => format!("f{}:un", k),
            };
        }
        if let Some(p) = preface.pop() {
            ev = p;
            if let Some(k) = ev.strip_prefix('a') {
                let k: usize = k.parse().unwrap();
                if !alive.contains(&k) {
                    alive.push(k);
                    outstanding.insert(k, vec![]);
                    shaken.insert(k, false);
                    next_conn = next_conn.max(k + 1);
                }
            } else if ev.contains(":hs,") {
                let k: usize = ev[1..].split(':').next().unwrap().parse().unwrap();
                shaken.insert(k, true);
            }
        }
        evs.push(ev.clone());
        // observe what the client did
        let out = op_sys(np, plen, tie, &evs.join(";"));
        if out == "P" || out.ends_with("HANG") {
            break;
        }
        let last = out.rsplit(';').next().unwrap().to_string();
        let f: Vec<&str> = last.split('~').collect();
        if f.len() != 5 {
            break;
        }
        // connections that ended
        for e in f[0].split('+') {
            if let Some((k, rest)) = e.split_once(':') {
                if rest.starts_with("kill") {
                    let k: usize = k.parse().unwrap();
                    alive.retain(|x| *x != k);
                }
            }
        }
        // requests written, cancels
        if f[3] != "-" {
            for part in f[3].split('+') {
                let (k, toks) = part.split_once('=').unwrap();
                let k: usize = k.parse().unwrap();
                for t in toks.split('/') {
                    let t = t.trim_start_matches("w=");
                    let v: Vec<&str> = t.split(',').collect();
                    if v[0] == "rq" && v.len() == 4 {
                        if let Some(o) = outstanding.get_mut(&k) {
                            o.push((v[1].parse().unwrap(), v[2].parse().unwrap(), v[3].parse().unwrap()));
                        }
                    }
                }
            }
        }
        // a choke voids what was asked (the client asks again after the next unchoke); keep it simple: forget
        if ev.ends_with(":ch") || ev.ends_with(":un") && false {
            let k: usize = ev[1..].split(':').next().unwrap().parse().unwrap();
            if let Some(o) = outstanding.get_mut(&k) {
                if r.coin() {
                    o.clear();
                }
            }
        }
        if alive.is_empty() && next_conn >= max_conns {
            break;
        }
    }
    format!("sys {} {} {} {}", np, plen, tie, evs.join(";"))
}
