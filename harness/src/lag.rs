//! C02 `lag <pieces> <late after>`: two honest seeders over in-memory streams and the real `Session` with two real
//! connection tasks. F offers every piece but the last, E is the only holder of the last piece. Both tasks are created
//! (and subscribed to the manager's broadcast channel) at the start, as `spawn_peer_handler` does, but E's transport
//! becomes ready late - a slow TCP connect - only after F has delivered `late after` pieces: more `SendHave` broadcasts
//! than the channel retains when that is above 32. The download must still complete, byte-identical.
use crate::meta::sha1;
use crate::util::*;
use rdest::verif::*;
use rdest::{Metainfo, Session};
use std::time::Duration;
use tokio::io::{AsyncReadExt, AsyncWriteExt, DuplexStream};

const PL: usize = 64;

fn content(total: usize) -> Vec<u8> {
    let mut state: u32 = 0x2545_F491;
    (0..total)
        .map(|_| {
            state = state.wrapping_mul(1_664_525).wrapping_add(1_013_904_223);
            (state >> 24) as u8
        })
        .collect()
}

fn torrent(name: &str, data: &[u8]) -> Vec<u8> {
    let pieces: Vec<u8> = data.chunks(PL).flat_map(|c| sha1(c).to_vec()).collect();
    let mut t = vec![];
    t.extend_from_slice(b"d8:announce22:http://127.0.0.1:1/ann4:infod6:lengthi");
    t.extend_from_slice(data.len().to_string().as_bytes());
    t.extend_from_slice(b"e4:name");
    t.extend_from_slice(format!("{}:{}", name.len(), name).as_bytes());
    t.extend_from_slice(b"12:piece lengthi");
    t.extend_from_slice(PL.to_string().as_bytes());
    t.extend_from_slice(b"e6:pieces");
    t.extend_from_slice(format!("{}:", pieces.len()).as_bytes());
    t.extend_from_slice(&pieces);
    t.extend_from_slice(b"ee");
    t
}

/// Honest seeder: handshake, bitfield; Unchoke as soon as the client is Interested; every Request answered correctly.
async fn honest_peer(mut stream: DuplexStream, info_hash: [u8; 20], peer_id: [u8; 20], have: Vec<bool>, data: Vec<u8>) {
    let mut handshake = [0u8; 68];
    if stream.read_exact(&mut handshake).await.is_err() {
        return;
    }
    let mut out = vec![19u8];
    out.extend_from_slice(b"BitTorrent protocol");
    out.extend_from_slice(&[0u8; 8]);
    out.extend_from_slice(&info_hash);
    out.extend_from_slice(&peer_id);
    let mut bits = vec![0u8; (have.len() + 7) / 8];
    for (idx, present) in have.iter().enumerate() {
        if *present {
            bits[idx / 8] |= 0x80 >> (idx % 8);
        }
    }
    out.extend_from_slice(&((1 + bits.len()) as u32).to_be_bytes());
    out.push(5);
    out.extend_from_slice(&bits);
    // Interested: a peer that would also like to download, so the client keeps the connection when it needs nothing more
    out.extend_from_slice(&[0, 0, 0, 1, 2]);
    if stream.write_all(&out).await.is_err() {
        return;
    }
    loop {
        let mut len = [0u8; 4];
        if stream.read_exact(&mut len).await.is_err() {
            return;
        }
        let len = u32::from_be_bytes(len) as usize;
        if len == 0 {
            continue;
        }
        let mut msg = vec![0u8; len];
        if stream.read_exact(&mut msg).await.is_err() {
            return;
        }
        match msg[0] {
            2 => {
                if stream.write_all(&[0, 0, 0, 1, 1]).await.is_err() {
                    return;
                }
            }
            6 if msg.len() == 13 => {
                let field = |i: usize| u32::from_be_bytes([msg[1 + 4 * i], msg[2 + 4 * i], msg[3 + 4 * i], msg[4 + 4 * i]]) as usize;
                let (index, begin, length) = (field(0), field(1), field(2));
                let from = index * PL + begin;
                if index >= have.len() || !have[index] || from + length > data.len() {
                    continue;
                }
                let mut out = vec![];
                out.extend_from_slice(&((9 + length) as u32).to_be_bytes());
                out.push(7);
                out.extend_from_slice(&(index as u32).to_be_bytes());
                out.extend_from_slice(&(begin as u32).to_be_bytes());
                out.extend_from_slice(&data[from..from + length]);
                if stream.write_all(&out).await.is_err() {
                    return;
                }
            }
            _ => (),
        }
    }
}

pub fn op_lag(np: usize, late_after: usize) -> String {
    static COUNTER: std::sync::atomic::AtomicUsize = std::sync::atomic::AtomicUsize::new(0);
    let n = COUNTER.fetch_add(1, std::sync::atomic::Ordering::SeqCst);
    let base = std::env::current_dir().unwrap();
    let dir = base.join(format!("lag_{}_{}", std::process::id(), n));
    std::fs::create_dir_all(&dir).unwrap();
    std::env::set_current_dir(&dir).unwrap();
    let total = (np - 1) * PL + 23;
    let data = content(total);
    let name = "lag.bin";
    let r = catch(|| {
        let rt = tokio::runtime::Builder::new_current_thread().enable_all().build().unwrap();
        rt.block_on(async {
            let metainfo = Metainfo::from_bencode(&torrent(name, &data)).expect("metainfo");
            let info_hash = *metainfo.info_hash();
            let own_id = *b"-RD0001-OWNOWNOWNOWN";
            let mut session = Session::new(metainfo, own_id);
            let fast = ("10.0.0.1:6881".to_string(), *b"-XX0001-FASTFASTFAST");
            let essential = ("10.0.0.2:6881".to_string(), *b"-XX0001-ESSENTIALESS");
            let mut have_fast = vec![true; np];
            have_fast[np - 1] = false;
            let mut have_essential = vec![false; np];
            have_essential[np - 1] = true;
            let (gate_tx, gate_rx) = tokio::sync::oneshot::channel::<()>();
            let mut gate_tx = Some(gate_tx);
            for ((addr, peer_id), have, gate) in vec![(fast.clone(), have_fast, None), (essential.clone(), have_essential, Some(gate_rx))] {
                let (ours, theirs) = tokio::io::duplex(1 << 16);
                tokio::spawn(honest_peer(theirs, info_hash, peer_id, have, data.clone()));
                let mut handler =
                    PeerHandler::new(addr.clone(), own_id, Some(peer_id), info_hash, np, session.verif_peer_tx(), session.verif_subscribe());
                let job = tokio::spawn(async move {
                    if let Some(gate) = gate {
                        let _ = gate.await;
                    }
                    handler.verif_run_mem(ours).await
                });
                session.verif_add_peer_with_job(addr, Some(peer_id), job);
            }
            let mut killed = "-".to_string();
            let outcome = tokio::time::timeout(Duration::from_secs(12), async {
                loop {
                    let have = session.verif_statuses().iter().filter(|s| **s == Status::Have).count();
                    if have == np {
                        return;
                    }
                    if have >= late_after {
                        if let Some(gate) = gate_tx.take() {
                            let _ = gate.send(());
                        }
                    }
                    let cmd = match session.verif_recv_peer_cmd().await {
                        Some(c) => c,
                        None => return,
                    };
                    if let PeerCmd::KillReq { addr, reason } = &cmd {
                        // an honest, interested peer is not given up; remember it and let the manager go on
                        if killed == "-" {
                            killed = format!("{}:{}", addr, reason.replace(' ', "_"));
                        }
                    }
                    if session.verif_handle_peer_cmd(cmd).await.is_err() {
                        killed = "manager-error".into();
                        return;
                    }
                }
            })
            .await;
            let have = session.verif_statuses().iter().filter(|s| **s == Status::Have).count();
            let mut file = "missing";
            if outcome.is_ok() && have == np {
                for _ in 0..100 {
                    match std::fs::read(name) {
                        Ok(d) if d == data => {
                            file = "ok";
                            break;
                        }
                        Ok(d) if d.len() == data.len() => file = "differs",
                        _ => {}
                    }
                    tokio::time::sleep(Duration::from_millis(30)).await;
                }
            }
            format!("have={}/{} killed={} hang={} file={}", have, np, killed, if outcome.is_err() { 'y' } else { 'n' }, file)
        })
    });
    std::env::set_current_dir(&base).unwrap();
    let _ = std::fs::remove_dir_all(&dir);
    r.unwrap_or_else(|_| "P".into())
}
