//! C18 / C19: tracker request URL, real announce over loopback HTTP, tracker reply parsing.
use crate::util::*;
use rdest::verif::*;
use rdest::{Metainfo, TrackerClient};
use std::io::{Read, Write};

fn base_metainfo(total: u64) -> Metainfo {
    let doc = format!("d8:announce1:A4:infod6:lengthi{}e4:name1:N12:piece lengthi16384e6:pieces0:ee", total);
    Metainfo::from_bencode(doc.as_bytes()).expect("base metainfo")
}

fn hash20(h: &[u8]) -> [u8; 20] {
    let mut a = [0u8; 20];
    a.copy_from_slice(&h[..20]);
    a
}

/// `url <announce> <hash>` → what `create_url` returns.
fn op_url(announce: &[u8], hash: &[u8]) -> String {
    let m = base_metainfo(1).verif_with(String::from_utf8(announce.to_vec()).expect("utf-8 announce"), hash20(hash));
    match catch(|| TrackerClient::verif_create_url(&m)) {
        Ok(u) => hex(u.as_bytes()),
        Err(()) => "P".into(),
    }
}

/// One HTTP exchange on the listener: returns (request target, Host header); answers with `body`.
pub fn serve_one(listener: &std::net::TcpListener, status: &str, body: &[u8]) -> Option<(Vec<u8>, Vec<u8>)> {
    listener.set_nonblocking(true).ok()?;
    let deadline = std::time::Instant::now() + std::time::Duration::from_secs(8);
    let mut s = loop {
        match listener.accept() {
            Ok((s, _)) => break s,
            Err(_) if std::time::Instant::now() < deadline => std::thread::sleep(std::time::Duration::from_millis(2)),
            Err(_) => return None,
        }
    };
    s.set_nonblocking(false).ok()?;
    s.set_read_timeout(Some(std::time::Duration::from_secs(5))).ok()?;
    let mut buf = vec![];
    let mut tmp = [0u8; 4096];
    while !buf.windows(4).any(|w| w == b"\r\n\r\n") {
        let n = s.read(&mut tmp).ok()?;
        if n == 0 {
            break;
        }
        buf.extend_from_slice(&tmp[..n]);
    }
    let head = String::from_utf8_lossy(&buf).to_string();
    let mut lines = head.split("\r\n");
    let first = lines.next()?.to_string();
    let target = first.split(' ').nth(1)?.as_bytes().to_vec();
    let method_ok = first.starts_with("GET ");
    let host = lines
        .filter_map(|l| {
            let (k, v) = l.split_once(':')?;
            if k.eq_ignore_ascii_case("host") { Some(v.trim().as_bytes().to_vec()) } else { None }
        })
        .next()
        .unwrap_or_default();
    let _ = write!(s, "HTTP/1.1 {}\r\nContent-Length: {}\r\nConnection: close\r\n\r\n", status, body.len());
    let _ = s.write_all(body);
    let _ = s.flush();
    if method_ok { Some((target, host)) } else { Some((b"NOT-GET".to_vec(), host)) }
}

/// `req <url suffix> <hash> <peer id> <total>`: the real `TrackerClient::run` against a loopback HTTP listener;
/// announce URL = `http://127.0.0.1:<port>` + suffix. → `<port> <request target> <Host header>`
fn op_req(suffix: &[u8], hash: &[u8], peer_id: &[u8], total: u64) -> String {
    let listener = std::net::TcpListener::bind("127.0.0.1:0").expect("bind");
    let port = listener.local_addr().unwrap().port();
    let announce = format!("http://127.0.0.1:{}{}", port, String::from_utf8(suffix.to_vec()).expect("utf-8 suffix"));
    let m = base_metainfo(total).verif_with(announce, hash20(hash));
    let mut id = [0u8; 20];
    id.copy_from_slice(&peer_id[..20]);
    let server = std::thread::spawn(move || serve_one(&listener, "200 OK", b"d8:intervali1800e5:peerslee"));
    let rt = tokio::runtime::Builder::new_current_thread().enable_all().build().unwrap();
    let got = rt.block_on(async move {
        let (tx, mut rx) = tokio::sync::mpsc::channel::<TrackerCmd>(8);
        let mut client = TrackerClient::new(&id, m, tx);
        let task = tokio::spawn(async move { client.run().await });
        let r = tokio::time::timeout(std::time::Duration::from_secs(10), rx.recv()).await;
        task.abort();
        match r {
            Ok(Some(TrackerCmd::TrackerResp(_))) => "resp",
            Ok(Some(TrackerCmd::Fail(_))) => "fail",
            _ => "timeout",
        }
    });
    drop(rt);
    match server.join() {
        Ok(Some((target, host))) => format!("{} {} {} {}", got, port, hex(&target), hex(&host)),
        _ => format!("{} {} noreq -", got, port),
    }
}

/// `sreq <suffix> <hash> <peer id> <piece length> <total> <owned bits>`: the announce the real `Session` makes when its last
/// connection is lost and no candidate is left (`handle_kill_req` → `spawn_tracker`), with some pieces already owned.
fn op_sreq(suffix: &[u8], hash: &[u8], peer_id: &[u8], plen: u64, total: u64, bits: &str) -> String {
    let listener = std::net::TcpListener::bind("127.0.0.1:0").expect("bind");
    let port = listener.local_addr().unwrap().port();
    let announce = format!("http://127.0.0.1:{}{}", port, String::from_utf8(suffix.to_vec()).expect("utf-8 suffix"));
    let np = ((total + plen - 1) / plen) as usize;
    let mut doc = format!("d8:announce1:A4:infod6:lengthi{}e4:name1:N12:piece lengthi{}e6:pieces{}:", total, plen, 20 * np).into_bytes();
    doc.extend(std::iter::repeat(b'h').take(20 * np));
    doc.extend_from_slice(b"ee");
    let m = Metainfo::from_bencode(&doc).expect("sreq metainfo").verif_with(announce, hash20(hash));
    let mut id = [0u8; 20];
    id.copy_from_slice(&peer_id[..20]);
    let server = std::thread::spawn(move || serve_one(&listener, "200 OK", b"d8:intervali1800e5:peerslee"));
    let bits: Vec<bool> = bits.chars().map(|c| c == '1').collect();
    let rt = tokio::runtime::Builder::new_current_thread().enable_all().build().unwrap();
    let got = rt.block_on(async move {
        let mut s = rdest::Session::new(m, id);
        for (i, st) in s.verif_statuses().iter_mut().enumerate() {
            if bits.get(i).copied().unwrap_or(false) {
                *st = Status::Have;
            }
        }
        let addr = "127.0.0.1:7001".to_string();
        s.verif_add_peer(addr.clone(), None);
        let r = tokio::time::timeout(
            std::time::Duration::from_secs(5),
            s.verif_handle_peer_cmd(PeerCmd::KillReq { addr, reason: "harness".to_string() }),
        )
        .await;
        if r.is_err() {
            return "hang";
        }
        // let the tracker task make its announce
        for _ in 0..900 {
            if !s.verif_tracker_job_held() || s.verif_tracker_job().as_ref().map(|j| j.is_finished()).unwrap_or(true) {
                break;
            }
            tokio::time::sleep(std::time::Duration::from_millis(10)).await;
        }
        if let Some(j) = s.verif_tracker_job().take() {
            j.abort();
        }
        "resp"
    });
    drop(rt);
    match server.join() {
        Ok(Some((target, host))) => format!("{} {} {} {}", got, port, hex(&target), hex(&host)),
        _ => format!("{} {} noreq -", got, port),
    }
}

pub fn run18(args: &[&str]) -> String {
    if args[0] == "sreq" {
        return op_sreq(&unhex(args[1]), &unhex(args[2]), &unhex(args[3]), args[4].parse().unwrap(), args[5].parse().unwrap(), args[6]);
    }
    match args[0] {
        "url" => op_url(&unhex(args[1]), &unhex(args[2])),
        "req" => op_req(&unhex(args[1]), &unhex(args[2]), &unhex(args[3]), args[4].parse().unwrap()),
        _ => panic!("unknown C18 op"),
    }
}

fn gen_hash(r: &mut Rng) -> Vec<u8> {
    const SPECIAL: [u8; 16] = [0, b'&', b'%', b'+', b'=', b' ', b'#', b'?', b'/', 0x7f, 0x80, 0xff, b'*', b'~', b'"', b'\''];
    match r.below(4) {
        0 => r.bytes(20),
        1 => (0..20).map(|_| *r.pick(&SPECIAL)).collect(),
        2 => {
            // one byte value everywhere, or a run of consecutive byte values
            let b = r.next() as u8;
            if r.coin() { vec![b; 20] } else { (0..20).map(|i| b.wrapping_add(i)).collect() }
        }
        _ => {
            let mut h = b"AZaz09-._*0123456789".to_vec();
            let i = r.below(20) as usize;
            h[i] = r.next() as u8;
            h
        }
    }
}

const SUFFIXES: [&str; 12] = [
    "", "/", "/announce", "/a/b/announce.php", "/announce?key=1", "/announce?k=v&x=y", "/announce?", "/a?passkey=abc%20def",
    "?k=v", "/announce?a=1&b=2&c=3", "/x.y-z_~/ann", "/announce?k=a+b",
];

/// An announce-URL tail with a generated query: keys that are, contain, or are contained in the client's own parameter
/// names (a tracker's `passport=`, `transport=`, `cleft=` must not be mistaken for `port=` / `left=`), repeated keys, empty values.
fn gen_suffix(r: &mut Rng) -> String {
    if r.chance(1, 2) {
        return r.pick(&SUFFIXES).to_string();
    }
    const KEYS: [&str; 22] = [
        "key", "passkey", "k", "passport", "transport", "cleft", "xevent", "prevent", "numwant", "port", "left", "info_hash",
        "peer_id", "uploaded", "downloaded", "event", "compact", "a", "peer", "id", "por", "eft",
    ];
    // (a blank inside the URL: percent-encoded on the wire by the `url` crate; tabs and line ends are *removed* by URL
    // parsing itself and are left out)
    const VALS: [&str; 8] = ["1", "abc123", "a+b", "abc%20def", "", "tcp", "0", "John Doe"];
    let path = *r.pick(&["/announce", "/a/b/announce.php", "", "/ann", "/my tracker/announce"]);
    let n = 1 + r.below(3);
    let q: Vec<String> = (0..n).map(|_| format!("{}={}", r.pick(&KEYS), r.pick(&VALS))).collect();
    format!("{}?{}", path, q.join("&"))
}

pub fn gen18(r: &mut Rng, n: usize, thorough: bool) -> Vec<String> {
    let mut out = vec![];
    let req_every = if thorough { 20 } else { 25 };
    for k in 0..n {
        let hash = gen_hash(r);
        if k % req_every == 7 {
            // client ids: plain, Azureus style, and (valid UTF-8) ids with characters that must be escaped exactly once
            let id: Vec<u8> = match r.below(4) {
                0 => (0..20).map(|_| *r.pick(b"ABCXYZabcxyz0123456789")).collect(),
                1 => b"-RD0100-a1~b2!c3 d4$".to_vec(),
                2 => (0..20).map(|_| *r.pick(b"Az09-._~!$&'()*+,;=:@/? %#[]")).collect(),
                _ => "rdest-\u{e9}\u{e9}\u{e9}\u{e9}\u{e9}\u{e9}\u{e9}".as_bytes().to_vec(),
            };
            let total = *r.pick(&[0u64, 1, 16384, 700_000_000, u32::MAX as u64 + 1, (1u64 << 62) + 3]);
            out.push(format!("req {} {} {} {}", hex(gen_suffix(r).as_bytes()), hex(&hash), hex(&id), total));
            if k % (2 * req_every) == 7 {
                // ... and the announce the Session itself makes later in its life, some pieces already owned (the last, short
                // one among them or not)
                let plen = *r.pick(&[32u64, 16384]);
                let np = 2 + r.below(4);
                let total2 = plen * np - r.below(plen);
                // (with everything owned there is nothing to announce for)
                let missing = r.below(np);
                let bits: String = (0..np).map(|i| if i != missing && r.coin() { '1' } else { '0' }).collect();
                out.push(format!("sreq {} {} {} {} {} {}", hex(gen_suffix(r).as_bytes()), hex(&hash), hex(&id), plen, total2, bits));
            }
        } else {
            let hosts = ["http://127.0.0.1:8000", "http://tracker.example.org", "https://t.example:443", "http://[::1]:6969", "udp://t.example:80"];
            let announce = format!("{}{}", r.pick(&hosts), gen_suffix(r));
            out.push(format!("url {} {}", hex(announce.as_bytes()), hex(&hash)));
        }
    }
    out
}
