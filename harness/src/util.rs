//! Shared helpers: deterministic PRNG (splitmix64), hex, panic capture.

pub struct Rng(pub u64);

impl Rng {
    pub fn new(seed: u64) -> Rng {
        Rng(seed ^ 0x9E37_79B9_7F4A_7C15)
    }
    pub fn next(&mut self) -> u64 {
        self.0 = self.0.wrapping_add(0x9E37_79B9_7F4A_7C15);
        let mut z = self.0;
        z = (z ^ (z >> 30)).wrapping_mul(0xBF58_476D_1CE4_E5B9);
        z = (z ^ (z >> 27)).wrapping_mul(0x94D0_49BB_1331_11EB);
        z ^ (z >> 31)
    }
    /// uniform in 0..n (n > 0)
    pub fn below(&mut self, n: u64) -> u64 {
        self.next() % n
    }
    pub fn range(&mut self, lo: u64, hi: u64) -> u64 {
        lo + self.below(hi - lo + 1)
    }
    pub fn coin(&mut self) -> bool {
        self.next() & 1 == 1
    }
    pub fn chance(&mut self, num: u64, den: u64) -> bool {
        self.below(den) < num
    }
    pub fn pick<'a, T>(&mut self, xs: &'a [T]) -> &'a T {
        &xs[self.below(xs.len() as u64) as usize]
    }
    /// `n` random bytes with `n` drawn uniformly below `bound`.
    pub fn bytes_below(&mut self, bound: u64) -> Vec<u8> {
        let n = self.below(bound) as usize;
        self.bytes(n)
    }
    pub fn bytes(&mut self, n: usize) -> Vec<u8> {
        (0..n).map(|_| self.next() as u8).collect()
    }
    pub fn shuffle<T>(&mut self, xs: &mut Vec<T>) {
        for i in (1..xs.len()).rev() {
            let j = self.below(i as u64 + 1) as usize;
            xs.swap(i, j);
        }
    }
    /// Boundary-biased u32.
    pub fn u32b(&mut self) -> u32 {
        const B: [u32; 14] = [
            0, 1, 2, 16383, 16384, 16385, 65535, 65536, 65537, 0x7fff_ffff, 0x8000_0000,
            0xffff_fffe, 0xffff_ffff, 255,
        ];
        match self.below(3) {
            0 => *self.pick(&B),
            1 => self.below(64) as u32,
            _ => self.next() as u32,
        }
    }
}

pub fn hex(b: &[u8]) -> String {
    let mut s = String::with_capacity(1 + 2 * b.len());
    s.push('x');
    for x in b {
        s.push_str(&format!("{:02x}", x));
    }
    s
}

pub fn unhex(s: &str) -> Vec<u8> {
    let s = s.strip_prefix('x').expect("hex token must start with x");
    (0..s.len() / 2)
        .map(|i| u8::from_str_radix(&s[2 * i..2 * i + 2], 16).expect("bad hex"))
        .collect()
}

/// Run `f`, mapping a panic to `Err(())`. The default panic hook is silenced by `main`.
pub fn catch<T>(f: impl FnOnce() -> T) -> Result<T, ()> {
    std::panic::catch_unwind(std::panic::AssertUnwindSafe(f)).map_err(|_| ())
}
