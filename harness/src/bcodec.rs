//! C15 / C16: `BDecoder::from_array`, `BEncoder`.
use crate::util::*;
use rdest::verif::BEncoder;
use rdest::{BDecoder, BValue};
use std::collections::HashMap;

pub fn val_str(v: &BValue) -> String {
    match v {
        BValue::Int(i) => format!("i{}", i),
        BValue::ByteStr(s) => format!("s{}", &hex(s)[1..]),
        BValue::List(l) => format!("l({})", l.iter().map(val_str).collect::<Vec<_>>().join(",")),
        BValue::Dict(d) => {
            let mut kv: Vec<(&Vec<u8>, &BValue)> = d.iter().collect();
            kv.sort_by(|a, b| a.0.cmp(b.0));
            format!(
                "d({})",
                kv.iter().map(|(k, v)| format!("{}={}", &hex(k)[1..], val_str(v))).collect::<Vec<_>>().join(",")
            )
        }
    }
}

pub fn vals_str(vs: &[BValue]) -> String {
    if vs.is_empty() {
        "ok".into()
    } else {
        format!("ok {}", vs.iter().map(val_str).collect::<Vec<_>>().join("|"))
    }
}

pub fn impl_decode(data: &[u8]) -> String {
    match catch(|| BDecoder::from_array(data)) {
        Err(()) => "P".into(),
        Ok(Ok(vs)) => vals_str(&vs),
        Ok(Err(_)) => "err".into(),
    }
}

/// parse the value string back (for `rt` replays)
fn parse_val(s: &[u8], pos: &mut usize) -> BValue {
    let c = s[*pos];
    *pos += 1;
    match c {
        b'i' => {
            let start = *pos;
            while *pos < s.len() && (s[*pos] == b'-' || s[*pos].is_ascii_digit()) {
                *pos += 1;
            }
            BValue::Int(std::str::from_utf8(&s[start..*pos]).unwrap().parse().unwrap())
        }
        b's' => {
            let start = *pos;
            while *pos < s.len() && s[*pos].is_ascii_hexdigit() {
                *pos += 1;
            }
            BValue::ByteStr(unhex(&format!("x{}", std::str::from_utf8(&s[start..*pos]).unwrap())))
        }
        b'l' => {
            *pos += 1; // (
            let mut items = vec![];
            while s[*pos] != b')' {
                if s[*pos] == b',' {
                    *pos += 1;
                }
                items.push(parse_val(s, pos));
            }
            *pos += 1;
            BValue::List(items)
        }
        b'd' => {
            *pos += 1;
            let mut m = HashMap::new();
            while s[*pos] != b')' {
                if s[*pos] == b',' {
                    *pos += 1;
                }
                let start = *pos;
                while s[*pos] != b'=' {
                    *pos += 1;
                }
                let k = unhex(&format!("x{}", std::str::from_utf8(&s[start..*pos]).unwrap()));
                *pos += 1;
                let v = parse_val(s, pos);
                m.insert(k, v);
            }
            *pos += 1;
            BValue::Dict(m)
        }
        _ => panic!("bad value string"),
    }
}

pub fn encode_value(v: &BValue) -> Vec<u8> {
    let mut e = BEncoder::new();
    match v {
        BValue::Int(i) => e.add_int(*i),
        BValue::ByteStr(b) => e.add_byte_str(b.as_slice()),
        BValue::List(l) => e.add_list(l),
        BValue::Dict(d) => e.add_dict(d),
    };
    e.encode().clone()
}

pub fn run15(args: &[&str]) -> String {
    match args[0] {
        "rt" => {
            let v = parse_val(args[1].as_bytes(), &mut 0);
            match catch(|| encode_value(&v)) {
                Ok(enc) => format!("{} {}", hex(&enc), impl_decode(&enc)),
                Err(()) => "P".into(),
            }
        }
        // re-encode the decoding of a document
        "re" => {
            let doc = unhex(args[1]);
            match catch(|| BDecoder::from_array(&doc)) {
                Ok(Ok(vs)) => {
                    let mut out = vec![];
                    for v in vs.iter() {
                        out.extend(encode_value(v));
                    }
                    format!("ok {}", hex(&out))
                }
                Ok(Err(_)) => "err".into(),
                Err(()) => "P".into(),
            }
        }
        _ => panic!("unknown C15 op"),
    }
}

pub fn run16(args: &[&str]) -> String {
    match args[0] {
        "dec" => impl_decode(&unhex(args[1])),
        _ => panic!("unknown C16 op"),
    }
}

const TRICKY: [&[u8]; 12] = [b"", b":", b"e", b"i", b"l", b"d", b"-", b"0", b"1:a", b"i0e", b"le", b"de"];

pub fn gen_value(r: &mut Rng, depth: u32) -> BValue {
    let k = if depth == 0 { r.below(2) } else { r.below(5) };
    match k {
        0 => BValue::Int(match r.below(5) {
            0 => *r.pick(&[0i64, 1, -1, 9, 10, -10, i64::MAX, i64::MIN, i64::MAX - 1, i64::MIN + 1, 2147483648, -2147483649]),
            1 => r.below(1000) as i64 - 500,
            2 => {
                // around every power of ten (where the number of digits changes), either sign
                let k = 1 + r.below(18) as u32;
                let v = 10i64.pow(k) + r.below(5) as i64 - 3;
                if r.coin() { v } else { -v }
            }
            _ => r.next() as i64,
        }),
        1 => BValue::ByteStr(match r.below(4) {
            0 => r.pick(&TRICKY).to_vec(),
            1 => r.bytes_below(4),
            2 => (0..r.below(12)).map(|_| *r.pick(&[b'0', b'1', b':', b'e', b'i', b'l', b'd', b'-', b'a'])).collect(),
            _ => r.bytes_below(40),
        }),
        2 | 3 => BValue::List((0..r.below(4)).map(|_| gen_value(r, depth - 1)).collect()),
        _ => {
            let mut m = HashMap::new();
            for _ in 0..r.below(4) {
                // keys that are prefixes of one another now and then
                let k: Vec<u8> = match r.below(3) {
                    0 => b"ab"[..r.below(3) as usize].to_vec(),
                    1 => r.bytes_below(3),
                    _ => r.pick(&TRICKY).to_vec(),
                };
                m.insert(k, gen_value(r, depth - 1));
            }
            BValue::Dict(m)
        }
    }
}

pub fn gen15(r: &mut Rng, n: usize) -> Vec<String> {
    let mut out = vec![];
    for k in 0..n {
        if k % 10 == 0 {
            // the codec is a function of its input alone: rejected documents decoded in between (errors raised deep inside
            // open lists and dictionaries) must leave no trace on the round trips that follow
            let depth = 3 + r.below(6) as usize;
            let mut bad: Vec<u8> = vec![];
            for j in 0..depth {
                bad.extend_from_slice(if j % 2 == 0 { b"l" } else { b"d1:k" });
            }
            bad.extend_from_slice(*r.pick(&[&b"5:ab"[..], b"x", b"i-0e", b"1x", b"i1"]));
            out.push(format!("dec {}", hex(&bad)));
        }
        let depth = 1 + (r.below(5) as u32);
        let v = gen_value(r, depth);
        if k % 3 == 2 {
            // canonical document: the encoding of one or two values, decoded and re-encoded
            let mut doc = encode_value(&v);
            if r.coin() {
                doc.extend(encode_value(&gen_value(r, 2)));
            }
            out.push(format!("re {}", hex(&doc)));
        } else {
            out.push(format!("rt {}", val_str(&v)));
        }
    }
    out
}

const ALPHA: [u8; 10] = [b'0', b'1', b'9', b'i', b'l', b'd', b'e', b':', b'-', b'a'];

pub fn gen16(r: &mut Rng, n: usize, thorough: bool) -> Vec<String> {
    let mut out = vec![];
    // exhaustive over the delimiter-rich alphabet up to a length bound
    let max_len = if thorough { 6 } else { 4 };
    for len in 0..=max_len {
        let total = 10usize.pow(len as u32);
        for idx in 0..total {
            let mut s = Vec::with_capacity(len);
            let mut x = idx;
            for _ in 0..len {
                s.push(ALPHA[x % 10]);
                x /= 10;
            }
            out.push(format!("dec {}", hex(&s)));
        }
    }
    // length prefixes and integers at the limits of usize / i64 (a prefix above isize::MAX must be an error, not a panic)
    for doc in [
        &b"18446744073709551615:"[..], b"18446744073709551616:", b"18446744073709551614:ab", b"9223372036854775808:",
        b"9223372036854775809:x", b"l9223372036854775808:abce", b"d9223372036854775808:abi1ee", b"99999999999999999999:a",
        b"00000000000000000000000002:ab", b"i9223372036854775807e", b"i9223372036854775808e", b"i-9223372036854775808e",
        b"i-9223372036854775809e", b"i-0e", b"i-00e", b"i00e", b"li-0ee", b"d1:ai-0ee", b"i-e", b"i--1e", b"i1-e",
    ] {
        out.push(format!("dec {}", hex(doc)));
    }
    // dictionaries that repeat a key with different values ("key order and uniqueness are not enforced": well-formed; the
    // values returned are the document's - the later entry of a key replaces the earlier one, as everywhere in the client)
    for doc in [
        &b"d1:ai1e1:ai2ee"[..], b"d0:le0:i0ee", b"d1:k1:x1:k1:y1:k1:ze", b"ld1:ai1e1:bi2e1:ai3eee", b"d1:ad1:bi1e1:bi2ee1:ai5ee",
        b"d1:ai1e1:bi2e1:ale1:bdee", b"d4:infoi1e4:infoi2ee",
    ] {
        out.push(format!("dec {}", hex(doc)));
    }
    for _ in 0..40 {
        let keys: [&[u8]; 4] = [b"a", b"", b"info", b"k"];
        let k = *r.pick(&keys);
        let mut doc = vec![b'd'];
        for j in 0..2 + r.below(2) {
            let key = if j == 1 && r.coin() { *r.pick(&keys) } else { k };
            doc.extend_from_slice(format!("{}:", key.len()).as_bytes());
            doc.extend_from_slice(key);
            doc.extend(encode_value(&gen_value(r, 1)));
        }
        doc.push(b'e');
        out.push(format!("dec {}", hex(&doc)));
    }
    // deeply nested well-formed values (lists, dictionaries, mixed), closed and with one terminator missing
    for depth in [1usize, 2, 31, 32, 33, 63, 64, 65, 66, 100, 128, 129, 200, 300] {
        let lists = [vec![b'l'; depth], vec![b'e'; depth]].concat();
        let mut dicts = b"d1:k".repeat(depth);
        dicts.extend_from_slice(b"i7e");
        dicts.extend(vec![b'e'; depth]);
        let mut mixed: Vec<u8> = vec![];
        for k in 0..depth {
            mixed.extend_from_slice(if k % 2 == 0 { b"l" } else { b"d1:x" });
        }
        mixed.extend_from_slice(b"0:");
        mixed.extend(vec![b'e'; depth]);
        for d in [lists, dicts, mixed] {
            out.push(format!("dec {}", hex(&d)));
            out.push(format!("dec {}", hex(&d[..d.len() - 1])));
        }
    }
    // random longer strings over the alphabet, truncations and one-byte mutations of valid documents
    while out.len() < n.max(11_300) {
        match r.below(6) {
            4 => {
                // a well-formed document followed by bytes a lenient reader would drop (line ends, blanks, NUL, BOM):
                // not well-formed any more
                let mut doc = encode_value(&gen_value(r, 3));
                let tails: [&[u8]; 9] = [b"\n", b"\r\n", b" ", b"\t", b"\0", b"\x0c", b"\n\n", b"\xef\xbb\xbf", b"\r"];
                if r.chance(1, 4) {
                    let mut d = r.pick(&tails).to_vec();
                    d.extend_from_slice(&doc);
                    doc = d;
                } else {
                    doc.extend_from_slice(*r.pick(&tails[..]));
                }
                out.push(format!("dec {}", hex(&doc)));
            }
            5 => {
                // a well-formed document whose last (or only) value is a byte string ending in such bytes
                let tails: [&[u8]; 7] = [b"\n", b"\r\n", b" ", b"a\n", b"\t\x0c", b"\0", b"x \r\n"];
                let t = r.pick(&tails);
                let mut doc = if r.coin() { encode_value(&gen_value(r, 2)) } else { vec![] };
                doc.extend_from_slice(format!("{}:", t.len()).as_bytes());
                doc.extend_from_slice(t);
                out.push(format!("dec {}", hex(&doc)));
            }
            0 => {
                let len = 5 + r.below(8) as usize;
                let s: Vec<u8> = (0..len).map(|_| *r.pick(&ALPHA)).collect();
                out.push(format!("dec {}", hex(&s)));
            }
            1 => {
                let doc = encode_value(&gen_value(r, 3));
                let cut = r.below(doc.len() as u64 + 1) as usize;
                out.push(format!("dec {}", hex(&doc[..cut])));
            }
            2 => {
                let mut doc = encode_value(&gen_value(r, 3));
                if !doc.is_empty() {
                    let k = r.below(doc.len() as u64) as usize;
                    doc[k] = if r.coin() { *r.pick(&ALPHA) } else { r.next() as u8 };
                }
                out.push(format!("dec {}", hex(&doc)));
            }
            _ => {
                let mut doc = encode_value(&gen_value(r, 3));
                doc.extend(encode_value(&gen_value(r, 2)));
                out.push(format!("dec {}", hex(&doc)));
            }
        }
    }
    out
}
