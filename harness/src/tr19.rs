//! C19: tracker replies (part 1) and the real Session against a scripted loopback tracker (part 2).
use crate::tr::serve_one;
use crate::util::*;
use rdest::verif::*;
use rdest::{Metainfo, TrackerClient};
use std::io::{Read, Write};

fn resp_err_tag(e: &rdest::Error) -> String {
    match e {
        rdest::Error::TrackerRespFail(r) => format!("TrackerRespFail:{}", hex(r.as_bytes())),
        other => {
            let s = format!("{:?}", other);
            if s.starts_with("Decode") {
                "Decode".into()
            } else {
                s.replace("(\"", ":").replace("\")", "").replace(' ', "_")
            }
        }
    }
}

/// `resp x<body>` → `err <kind>` | `ok <addr=id,…|->`
fn op_resp(body: &[u8]) -> String {
    match catch(|| rdest::TrackerResp::from_bencode(body)) {
        Err(()) => "P".into(),
        Ok(Err(e)) => format!("err {}", resp_err_tag(&e)),
        Ok(Ok(r)) => match catch(|| r.peers()) {
            Err(()) => "P".into(),
            Ok(ps) => {
                let v: Vec<String> = ps.iter().map(|(a, id)| format!("{}={}", hex(a.as_bytes()), hex(id))).collect();
                format!("ok {}", if v.is_empty() { "-".to_string() } else { v.join(",") })
            }
        },
    }
}

// ---------------------------------------------------------------------------------------------------------------
// Part 2 runs in a child process: the session's progress view writes to stdout, and the listening port is fixed.

fn tracker_reply(ports: &[u16]) -> Vec<u8> {
    let mut b = b"d8:intervali1800e5:peersl".to_vec();
    for (i, p) in ports.iter().enumerate() {
        b.extend_from_slice(b"d2:ip9:127.0.0.17:peer id20:");
        // peer ids are arbitrary bytes (Azureus style: a readable prefix, then random bytes)
        b.extend_from_slice(b"-FK0100-");
        b.extend_from_slice(&[0xff, 0xfe, 0x80, 0x00, 0xc3, 0x28, 0xed, 0xa0, 0x80, 0x9f, 0x0a, i as u8]);
        b.extend_from_slice(format!("4:porti{}ee", p).as_bytes());
    }
    b.extend_from_slice(b"ee");
    b
}

fn handshake(info_hash: &[u8; 20], id: &[u8; 20]) -> Vec<u8> {
    let mut v = vec![19u8];
    v.extend_from_slice(b"BitTorrent protocol");
    v.extend_from_slice(&[0u8; 8]);
    v.extend_from_slice(info_hash);
    v.extend_from_slice(id);
    v
}

/// Child process body. Prints one line `E2E …` on stderr and exits.
pub fn child_e2e19(k: usize, kinds: &str, npeers: usize) -> ! {
    use std::sync::atomic::{AtomicUsize, Ordering};
    use std::sync::Arc;
    let lock_path = std::env::var("VERIF_PORT_LOCK").unwrap_or_else(|_| "port6881.lock".into());
    let lock = std::fs::OpenOptions::new().create(true).write(true).open(&lock_path).expect("lock file");
    lock.lock().expect("flock");
    let tl = std::net::TcpListener::bind("127.0.0.1:0").expect("bind tracker");
    let tport = tl.local_addr().unwrap().port();
    let fakes: Vec<std::net::TcpListener> = (0..npeers).map(|_| std::net::TcpListener::bind("127.0.0.1:0").unwrap()).collect();
    let ports: Vec<u16> = fakes.iter().map(|l| l.local_addr().unwrap().port()).collect();
    let url = format!("http://127.0.0.1:{}/announce", tport);
    let doc = format!(
        "d8:announce{}:{}4:infod6:lengthi16e4:name1:N12:piece lengthi16e6:pieces20:AAAAABBBBBCCCCCDDDDDee",
        url.len(),
        url
    );
    let m = Metainfo::from_bencode(doc.as_bytes()).expect("metainfo");
    let info_hash = *m.info_hash();
    let requests = Arc::new(AtomicUsize::new(0));
    let good_sent = Arc::new(AtomicUsize::new(0));
    let kinds: Vec<char> = kinds.chars().collect();
    let (req2, good2, ports2) = (requests.clone(), good_sent.clone(), ports.clone());
    std::thread::spawn(move || {
        for i in 0..k {
            let kind = kinds[i % kinds.len()];
            let r = match kind {
                'h' => serve_one(&tl, "500 Internal Server Error", b"oops"),
                'g' => serve_one(&tl, "200 OK", b"this is not bencode"),
                'n' => serve_one(&tl, "200 OK", b"d14:failure reason2:\xff\xfee"),
                'c' => {
                    // transport fault: accept and close without an answer
                    tl.set_nonblocking(false).ok();
                    tl.accept().ok().map(|(s, _)| {
                        drop(s);
                        (vec![], vec![])
                    })
                }
                _ => serve_one(&tl, "200 OK", b"d14:failure reason4:nopee"),
            };
            if r.is_none() {
                return;
            }
            req2.fetch_add(1, Ordering::SeqCst);
        }
        if serve_one(&tl, "200 OK", &tracker_reply(&ports2)).is_some() {
            req2.fetch_add(1, Ordering::SeqCst);
            good2.store(1, Ordering::SeqCst);
        }
    });
    std::thread::spawn(move || {
        let rt = tokio::runtime::Builder::new_multi_thread().worker_threads(2).enable_all().build().unwrap();
        rt.block_on(async move {
            let mut session = rdest::Session::new(m, *b"-VERIF-0000000000001");
            session.run().await;
        });
    });
    let t0 = std::time::Instant::now();
    // Probe: while announces are failing, does the manager take a new connection?
    let mut responsive = "-".to_string();
    if k >= 2 {
        while requests.load(Ordering::SeqCst) < 1 && t0.elapsed().as_secs() < 10 {
            std::thread::sleep(std::time::Duration::from_millis(5));
        }
        std::thread::sleep(std::time::Duration::from_millis(250));
        responsive = "n".into();
        if let Ok(mut s) = std::net::TcpStream::connect("127.0.0.1:6881") {
            let _ = s.set_read_timeout(Some(std::time::Duration::from_millis(if k >= 3 { 2200 } else { 1400 })));
            let _ = s.write_all(&handshake(&info_hash, b"-PROBE-0000000000001"));
            let mut buf = [0u8; 68];
            if s.read_exact(&mut buf).is_ok() && buf[0] == 19 && buf[28..48] == info_hash {
                responsive = "y".into();
            }
            // was the good reply still outstanding when the answer came?
            if good_sent.load(Ordering::SeqCst) == 1 {
                responsive.push_str("-late");
            }
        }
    }
    // Wait for the good reply, then for the connections to the listed peers.
    while good_sent.load(Ordering::SeqCst) == 0 && t0.elapsed().as_secs() < (k as u64 + 15) {
        std::thread::sleep(std::time::Duration::from_millis(10));
    }
    let deadline = std::time::Instant::now() + std::time::Duration::from_secs(4);
    let mut contacted = vec![false; npeers];
    for l in &fakes {
        l.set_nonblocking(true).ok();
    }
    while std::time::Instant::now() < deadline && contacted.iter().any(|c| !c) && good_sent.load(Ordering::SeqCst) == 1 {
        for (i, l) in fakes.iter().enumerate() {
            if !contacted[i] {
                if let Ok((mut s, _)) = l.accept() {
                    s.set_nonblocking(false).ok();
                    let _ = s.set_read_timeout(Some(std::time::Duration::from_millis(1500)));
                    let mut buf = [0u8; 68];
                    contacted[i] = s.read_exact(&mut buf).is_ok() && buf[0] == 19 && buf[28..48] == info_hash;
                }
            }
        }
        std::thread::sleep(std::time::Duration::from_millis(5));
    }
    eprintln!(
        "E2E good={} requests={} responsive={} contacted={}/{}",
        good_sent.load(Ordering::SeqCst),
        requests.load(Ordering::SeqCst),
        responsive,
        contacted.iter().filter(|c| **c).count(),
        npeers
    );
    std::process::exit(0)
}

/// Child process body of `C08 accept`: the real `Session::run` with its listener. The tracker lists twelve peers: the first
/// is an address nobody listens on (it stays queued as a candidate, the other eleven fill the connection slots: they accept
/// and keep the connection open without a word). Two connections are then made *to* the client: one from an unrelated
/// port, one from the queued candidate's own address. On each: how many bytes arrive before anything was sent (there must
/// be none), and what the client answers to a handshake (a foreign info-hash on the first, a valid one on the second).
pub fn child_acc08(interesting: bool) -> ! {
    use std::sync::atomic::{AtomicUsize, Ordering};
    use std::sync::Arc;
    let lock_path = std::env::var("VERIF_PORT_LOCK").unwrap_or_else(|_| "port6881.lock".into());
    let lock = std::fs::OpenOptions::new().create(true).write(true).open(&lock_path).expect("lock file");
    lock.lock().expect("flock");
    let tl = std::net::TcpListener::bind("127.0.0.1:0").expect("bind tracker");
    let tport = tl.local_addr().unwrap().port();
    // the candidate's address: a port that is free now and that we connect *from* later
    let cand_port = {
        let l = std::net::TcpListener::bind("127.0.0.1:0").unwrap();
        l.local_addr().unwrap().port()
    };
    let fakes: Vec<std::net::TcpListener> = (0..11).map(|_| std::net::TcpListener::bind("127.0.0.1:0").unwrap()).collect();
    let mut ports: Vec<u16> = vec![cand_port];
    ports.extend(fakes.iter().map(|l| l.local_addr().unwrap().port()));
    let url = format!("http://127.0.0.1:{}/announce", tport);
    let doc = format!(
        "d8:announce{}:{}4:infod6:lengthi16e4:name1:N12:piece lengthi16e6:pieces20:AAAAABBBBBCCCCCDDDDDee",
        url.len(),
        url
    );
    let m = Metainfo::from_bencode(doc.as_bytes()).expect("metainfo");
    let info_hash = *m.info_hash();
    let good_sent = Arc::new(AtomicUsize::new(0));
    let (good2, ports2) = (good_sent.clone(), ports.clone());
    std::thread::spawn(move || {
        if serve_one(&tl, "200 OK", &tracker_reply(&ports2)).is_some() {
            good2.store(1, Ordering::SeqCst);
        }
    });
    // the eleven listed peers that are there: accept, read the client's handshake, say nothing, keep the connection
    let held = Arc::new(std::sync::Mutex::new(Vec::<std::net::TcpStream>::new()));
    let contacted = Arc::new(AtomicUsize::new(0));
    for (j, l) in fakes.into_iter().enumerate() {
        let (held, contacted) = (held.clone(), contacted.clone());
        std::thread::spawn(move || {
            if let Ok((mut s, _)) = l.accept() {
                let mut buf = [0u8; 68];
                let _ = s.set_read_timeout(Some(std::time::Duration::from_secs(5)));
                if s.read_exact(&mut buf).is_ok() {
                    // answer as the listed peer (its id as in `tracker_reply`) and offer the only piece: the client is
                    // interested in us, so we do not count against its limit of uninteresting connections
                    let mut id = b"-FK0100-".to_vec();
                    id.extend_from_slice(&[0xff, 0xfe, 0x80, 0x00, 0xc3, 0x28, 0xed, 0xa0, 0x80, 0x9f, 0x0a, (j + 1) as u8]);
                    let mut ida = [0u8; 20];
                    ida.copy_from_slice(&id);
                    let mut reply = handshake(&info_hash, &ida);
                    reply.extend_from_slice(&[0, 0, 0, 2, 5, 0x80]);
                    // (in the other variant the listed peers stay silent: eleven connections the client has no interest in -
                    // it then takes no further incoming connection at all)
                    if !interesting || s.write_all(&reply).is_ok() {
                        contacted.fetch_add(1, Ordering::SeqCst);
                    }
                }
                held.lock().unwrap().push(s);
            }
        });
    }
    std::thread::spawn(move || {
        let rt = tokio::runtime::Builder::new_multi_thread().worker_threads(2).enable_all().build().unwrap();
        rt.block_on(async move {
            let mut session = rdest::Session::new(m, *b"-VERIF-0000000000001");
            session.run().await;
        });
    });
    let t0 = std::time::Instant::now();
    while (good_sent.load(Ordering::SeqCst) == 0 || contacted.load(Ordering::SeqCst) < 11) && t0.elapsed().as_secs() < 60 {
        std::thread::sleep(std::time::Duration::from_millis(10));
    }
    // one connection to the client: bytes before we say anything, then bytes after our handshake
    let probe = |from: Option<u16>, hs: Vec<u8>| -> String {
        let rt = tokio::runtime::Builder::new_current_thread().enable_all().build().unwrap();
        rt.block_on(async move {
            use tokio::io::{AsyncReadExt, AsyncWriteExt};
            let sock = tokio::net::TcpSocket::new_v4().unwrap();
            let _ = sock.set_reuseaddr(true);
            if let Some(p) = from {
                if sock.bind(format!("127.0.0.1:{}", p).parse().unwrap()).is_err() {
                    return "nobind".to_string();
                }
            }
            let mut s = match tokio::time::timeout(std::time::Duration::from_secs(3), sock.connect("127.0.0.1:6881".parse().unwrap())).await {
                Ok(Ok(s)) => s,
                _ => return "noconnect".to_string(),
            };
            let mut buf = vec![0u8; 4096];
            let pre = match tokio::time::timeout(std::time::Duration::from_millis(700), s.read(&mut buf)).await {
                Ok(Ok(n)) => n as i64,
                Ok(Err(_)) => -1,
                Err(_) => 0,
            };
            if s.write_all(&hs).await.is_err() {
                return format!("pre{}-nowrite", pre);
            }
            let mut got: Vec<u8> = vec![];
            loop {
                // (generous: the answer ends the wait, a closed connection too; only a silent open one costs the time)
                match tokio::time::timeout(std::time::Duration::from_millis(6000), s.read(&mut buf)).await {
                    Ok(Ok(0)) => break,
                    Ok(Ok(n)) => got.extend_from_slice(&buf[..n]),
                    _ => break,
                }
                if got.len() >= 68 + 6 {
                    break;
                }
            }
            format!("pre{}-post{}", pre, hex(&got[..got.len().min(68)]))
        })
    };
    let mut foreign = info_hash;
    foreign[0] ^= 0xff;
    // (the candidate's address first: a connection that ends makes the client take the next candidate from the queue)
    let cand = probe(Some(cand_port), handshake(&info_hash, b"-PROBE-0000000000002"));
    let plain = probe(None, handshake(&foreign, b"-PROBE-0000000000001"));
    eprintln!(
        "E2E good={} contacted={} hash={} plain={} cand={}",
        good_sent.load(Ordering::SeqCst),
        contacted.load(Ordering::SeqCst),
        hex(&info_hash),
        plain,
        cand
    );
    std::process::exit(0)
}

/// `accept`: spawn the child above and report its `E2E` line.
fn op_accept(variant: &str) -> String {
    let exe = std::env::current_exe().expect("exe");
    static COUNTER: std::sync::atomic::AtomicUsize = std::sync::atomic::AtomicUsize::new(0);
    let n = COUNTER.fetch_add(1, std::sync::atomic::Ordering::SeqCst);
    let dir = std::env::current_dir().unwrap().join(format!("acc08_{}_{}", std::process::id(), n));
    std::fs::create_dir_all(&dir).unwrap();
    let lock = std::env::var("VERIF_PORT_LOCK").unwrap_or_else(|_| "/verif/.scratch/port6881.lock".into());
    let out = std::process::Command::new(exe)
        .args(["child-acc08", variant])
        .current_dir(&dir)
        .env("VERIF_PORT_LOCK", lock)
        .stdout(std::process::Stdio::null())
        .stderr(std::process::Stdio::piped())
        .output();
    let _ = std::fs::remove_dir_all(&dir);
    match out {
        Ok(o) => {
            let err = String::from_utf8_lossy(&o.stderr).to_string();
            match err.lines().find(|l| l.starts_with("E2E ")) {
                Some(l) => l[4..].to_string(),
                None => format!("child-failed {}", err.lines().last().unwrap_or("").replace(' ', "_")),
            }
        }
        Err(_) => "spawn-failed".into(),
    }
}

/// `retry <k>`: the real `TrackerClient::run` against a loopback tracker that fails `k` announces in a row (HTTP error,
/// garbage body, failure reason, dropped connection, in turn) and then answers well - under tokio's paused clock, so a
/// run of hours of retries takes a moment. Reports the failures reported to the manager and whether the good reply came.
fn op_retry(k: usize) -> String {
    let listener = std::net::TcpListener::bind("127.0.0.1:0").expect("bind");
    let port = listener.local_addr().unwrap().port();
    let url = format!("http://127.0.0.1:{}/a", port);
    let doc = format!(
        "d8:announce{}:{}4:infod6:lengthi16e4:name1:N12:piece lengthi16e6:pieces20:AAAAABBBBBCCCCCDDDDDee",
        url.len(),
        url
    );
    let m = Metainfo::from_bencode(doc.as_bytes()).expect("metainfo");
    let served = std::sync::Arc::new(std::sync::atomic::AtomicUsize::new(0));
    let served2 = served.clone();
    let server = std::thread::spawn(move || {
        for i in 0..k {
            let r = match i % 4 {
                0 => serve_one(&listener, "503 Service Unavailable", b"busy"),
                1 => serve_one(&listener, "200 OK", b"<html>not bencode</html>"),
                2 => serve_one(&listener, "200 OK", b"d14:failure reason4:nopee"),
                _ => {
                    listener.set_nonblocking(false).ok();
                    listener.accept().ok().map(|(s, _)| {
                        drop(s);
                        (vec![], vec![])
                    })
                }
            };
            if r.is_none() {
                return;
            }
            served2.fetch_add(1, std::sync::atomic::Ordering::SeqCst);
        }
        if serve_one(&listener, "200 OK", &tracker_reply(&[6881])).is_some() {
            served2.fetch_add(1, std::sync::atomic::Ordering::SeqCst);
        }
    });
    let r = catch(|| {
        let rt = tokio::runtime::Builder::new_current_thread().enable_all().start_paused(true).build().unwrap();
        rt.block_on(async move {
            let (tx, mut rx) = tokio::sync::mpsc::channel::<TrackerCmd>(1024);
            let mut client = TrackerClient::new(b"-VERIF-0000000000001", m, tx);
            let task = tokio::spawn(async move { client.run().await });
            let mut fails = 0usize;
            let mut got = "none";
            // no tokio timer of our own (under the paused clock it would fire as soon as the runtime waits for a socket): the
            // guard against a hang is a thread on the real clock
            let (wd_tx, mut wd_rx) = tokio::sync::oneshot::channel::<()>();
            std::thread::spawn(move || {
                std::thread::sleep(std::time::Duration::from_secs(90));
                let _ = wd_tx.send(());
            });
            loop {
                tokio::select! {
                    cmd = rx.recv() => match cmd {
                        Some(TrackerCmd::Fail(_)) => fails += 1,
                        Some(TrackerCmd::TrackerResp(_)) => {
                            got = "resp";
                            break;
                        }
                        None => break,
                    },
                    _ = &mut wd_rx => {
                        got = "hang";
                        break;
                    }
                }
            }
            let ended = task.is_finished();
            task.abort();
            format!("fails={} got={} task={}", fails, got, if ended && got != "resp" { "dead" } else { "ok" })
        })
    });
    let out = r.unwrap_or_else(|_| "P".into());
    drop(server);
    format!("{} served={}", out, served.load(std::sync::atomic::Ordering::SeqCst))
}

/// `e2e <k> <kinds> <npeers>`: spawn the child and report its `E2E` line.
fn op_e2e(k: &str, kinds: &str, npeers: &str) -> String {
    let exe = std::env::current_exe().expect("exe");
    static COUNTER: std::sync::atomic::AtomicUsize = std::sync::atomic::AtomicUsize::new(0);
    let n = COUNTER.fetch_add(1, std::sync::atomic::Ordering::SeqCst);
    let dir = std::env::current_dir().unwrap().join(format!("e2e19_{}_{}", std::process::id(), n));
    std::fs::create_dir_all(&dir).unwrap();
    let lock = std::env::var("VERIF_PORT_LOCK").unwrap_or_else(|_| "/verif/.scratch/port6881.lock".into());
    let out = std::process::Command::new(exe)
        .args(["child-e2e19", k, kinds, npeers])
        .current_dir(&dir)
        .env("VERIF_PORT_LOCK", lock)
        .stdout(std::process::Stdio::null())
        .stderr(std::process::Stdio::piped())
        .output();
    let _ = std::fs::remove_dir_all(&dir);
    match out {
        Ok(o) => {
            let err = String::from_utf8_lossy(&o.stderr).to_string();
            match err.lines().find(|l| l.starts_with("E2E ")) {
                Some(l) => l[4..].to_string(),
                None => format!("child-failed {}", err.lines().last().unwrap_or("").replace(' ', "_")),
            }
        }
        Err(_) => "spawn-failed".into(),
    }
}

pub fn run19(args: &[&str]) -> String {
    match args[0] {
        "resp" => op_resp(&unhex(args[1])),
        "e2e" => op_e2e(args[1], args[2], args[3]),
        "accept" => op_accept(args.get(1).copied().unwrap_or("i")),
        "retry" => op_retry(args[1].parse().unwrap()),
        "fetch" => op_fetch(args[1].parse().unwrap(), &unhex(args[2])),
        "respawn" => op_respawn(args[1].parse().unwrap(), args[2].parse().unwrap()),
        _ => panic!("unknown C19 op"),
    }
}

/// `fetch <status> <body>`: one announce of the real `TrackerClient::run` answered on the loopback with that status and
/// body; what the task tells the manager first → `resp ok <peers>` | `fail`.
fn op_fetch(status: u16, body: &[u8]) -> String {
    let listener = std::net::TcpListener::bind("127.0.0.1:0").expect("bind");
    let port = listener.local_addr().unwrap().port();
    let doc = format!(
        "d8:announce{}:http://127.0.0.1:{}/a4:infod6:lengthi16e4:name1:N12:piece lengthi16e6:pieces20:AAAAABBBBBCCCCCDDDDDee",
        format!("http://127.0.0.1:{}/a", port).len(),
        port
    );
    let m = Metainfo::from_bencode(doc.as_bytes()).expect("metainfo");
    let reason = match status {
        200 => "OK",
        201 => "Created",
        202 => "Accepted",
        400 => "Bad Request",
        403 => "Forbidden",
        404 => "Not Found",
        500 => "Internal Server Error",
        _ => "Service Unavailable",
    };
    let status_line = format!("{} {}", status, reason);
    let body2 = body.to_vec();
    let server = std::thread::spawn(move || serve_one(&listener, &status_line, &body2));
    let rt = tokio::runtime::Builder::new_current_thread().enable_all().build().unwrap();
    let got = rt.block_on(async move {
        let (tx, mut rx) = tokio::sync::mpsc::channel::<TrackerCmd>(8);
        let mut client = TrackerClient::new(b"-VERIF-0000000000001", m, tx);
        let task = tokio::spawn(async move { client.run().await });
        let r = tokio::time::timeout(std::time::Duration::from_secs(10), rx.recv()).await;
        task.abort();
        match r {
            Ok(Some(TrackerCmd::TrackerResp(resp))) => match catch(|| resp.peers()) {
                Err(()) => "resp P".to_string(),
                Ok(ps) => {
                    let v: Vec<String> = ps.iter().map(|(a, id)| format!("{}={}", hex(a.as_bytes()), hex(id))).collect();
                    format!("resp ok {}", if v.is_empty() { "-".to_string() } else { v.join(",") })
                }
            },
            Ok(Some(TrackerCmd::Fail(_))) => "fail".to_string(),
            _ => "timeout".to_string(),
        }
    });
    drop(rt);
    match server.join() {
        Ok(Some(_)) => got,
        _ => "noreq".to_string(),
    }
}

pub fn gen_reply(r: &mut Rng) -> Vec<u8> {
    use crate::mi::T;
    let bad_utf8: [&[u8]; 4] = [b"\xff", b"a\x80", b"\xc0\xaf", b"\xed\xa0\x80"];
    let mut top: Vec<(Vec<u8>, usize, T)> = vec![];
    let mode = r.below(14);
    // interval
    match mode {
        0 => {}
        1 => top.push((b"interval".to_vec(), 0, T::i(-1))),
        2 => top.push((b"interval".to_vec(), 0, T::s(b"1800"))),
        _ => top.push((b"interval".to_vec(), 0, T::i(*r.pick(&[0i128, 1, 1800, (1 << 63) - 1])))),
    }
    // failure reason
    match mode {
        3 if r.coin() => {
            // a long reason in a language that needs multi-byte characters (or with bytes that are not UTF-8 at all), the
            // characters straddling every round byte offset
            let unit: &[u8] = *r.pick(&["ż".as_bytes(), "€".as_bytes(), "𝄞".as_bytes(), b"\xff", b"a\xc3"]);
            let mut text: Vec<u8> = vec![b'x'; r.below(4) as usize];
            while text.len() < 100 + r.below(400) as usize {
                text.extend_from_slice(unit);
            }
            top.push((b"failure reason".to_vec(), 0, T::s(&text)))
        }
        3 => top.push((b"failure reason".to_vec(), 0, T::s(b"torrent not registered"))),
        4 => top.push((b"failure reason".to_vec(), 0, T::s(*r.pick(&bad_utf8)))),
        5 => top.push((b"failure reason".to_vec(), 0, T::i(5))),
        _ => {}
    }
    // peers
    if mode != 6 {
        let n = r.below(6);
        let mut l = vec![];
        for _ in 0..n {
            let ips: [&[u8]; 6] = [b"127.0.0.1", b"10.0.0.7", b"::1", b"host.example", b"", "zażółć".as_bytes()];
            let mut e: Vec<(Vec<u8>, usize, T)> = vec![];
            let defect = r.below(30);
            match defect {
                0 => {}
                1 => e.push((b"ip".to_vec(), 0, T::i(1))),
                2 => e.push((b"ip".to_vec(), 0, T::s(*r.pick(&bad_utf8)))),
                _ => e.push((b"ip".to_vec(), 0, T::s(*r.pick(&ips)))),
            }
            match defect {
                3 => {}
                4 => e.push((b"peer id".to_vec(), 0, T::s(&r.bytes(19)))),
                5 => e.push((b"peer id".to_vec(), 0, T::s(&r.bytes(21)))),
                6 => e.push((b"peer id".to_vec(), 0, T::i(20))),
                _ => e.push((b"peer id".to_vec(), 0, T::s(&r.bytes(20)))),
            }
            match defect {
                7 => {}
                8 => e.push((b"port".to_vec(), 0, T::i(-1))),
                9 => e.push((b"port".to_vec(), 0, T::s(b"6881"))),
                _ => e.push((b"port".to_vec(), 0, T::i(*r.pick(&[0i128, 1, 6881, 65535, 65536, 1 << 40])))),
            }
            if defect == 10 {
                l.push(T::i(7));
            } else if defect == 11 {
                l.push(T::List(vec![T::Dict(e)]));
            } else {
                if r.coin() {
                    r.shuffle(&mut e);
                }
                l.push(T::Dict(e));
            }
        }
        if mode == 7 {
            top.push((b"peers".to_vec(), 0, T::s(&r.bytes(12)))); // compact form: not supported, must not panic
        } else {
            top.push((b"peers".to_vec(), 0, T::List(l)));
        }
    }
    if r.chance(1, 3) {
        top.push((b"complete".to_vec(), 0, T::i(3)));
    }
    if r.coin() {
        top.sort_by(|a, b| a.0.cmp(&b.0));
    } else {
        r.shuffle(&mut top);
    }
    let mut out = vec![];
    if mode == 8 {
        T::i(1).render(&mut out);
    }
    if mode == 9 {
        // a failing dictionary in front of a good one
        T::Dict(vec![(b"failure reason".to_vec(), 0, T::s(b"first"))]).render(&mut out);
    }
    T::Dict(top).render(&mut out);
    if mode == 10 {
        let cut = r.below(out.len() as u64 + 1) as usize;
        out.truncate(cut);
    }
    if mode == 12 || mode == 13 {
        // a byte string whose length prefix cannot be backed by data (nor allocated), as the value of one more key of the
        // reply dictionary (aligned with the grammar: a prefix that an allocator is actually asked for would abort the process
        // instead of unwinding, so the number must stay intact)
        if out.last() == Some(&b'e') {
            out.pop();
        }
        out.extend_from_slice(if mode == 12 { b"3:zzz18446744073709551615:abc" } else { b"3:zzz9223372036854775808:" });
    }
    if mode == 11 {
        let n = r.below(10) as usize;
        out = (0..n).map(|_| *r.pick(&[b'd', b'e', b'l', b'i', b'1', b'5', b':', b'p', b'-'])).collect();
    }
    out
}

pub fn gen19(r: &mut Rng, n: usize, thorough: bool) -> Vec<String> {
    let mut out = vec![];
    // what the manager does with a good reply and when it announces again (connection bookkeeping, model Swarm/Cand)
    out.extend(crate::sess::gen_cand(r, if thorough { n / 40 } else { n / 25 }));
    // runs of failed announces "of any length before the first success": long ones under the paused clock
    for k in [1usize, 5, 130, 70 + r.below(200) as usize] {
        out.push(format!("retry {}", k));
    }
    for k in 0..n {
        if !thorough && (k == 7 || k == 8) {
            // connections lost (no candidate left) while the tracker task is still retrying; one good announce only
            out.push(["respawn 2 1", "respawn 3 2"][k - 7].to_string());
        } else if thorough && (5..12).contains(&k) {
            out.push(["respawn 1 1", "respawn 2 1", "respawn 2 2", "respawn 3 1", "respawn 3 3", "respawn 5 2", "respawn 2 4"][k - 5].to_string());
        } else if !thorough && k == 5 {
            out.push("e2e 3 gfh 2".to_string());
        } else if !thorough && k == 6 {
            // a failure reason and nothing else going on (no probe, no peer): the next announce must still come
            out.push("e2e 1 f 1".to_string());
        } else if thorough && k < 5 {
            // the last one: more failed announces than the command channel holds (about 70 s of real time)
            out.push(["e2e 0 g 3", "e2e 1 f 1", "e2e 3 cnh 2", "e2e 2 fg 12", "e2e 67 gfhn 1"][k].to_string());
        } else if k % 16 == 15 {
            // the same replies through a real HTTP exchange (status, body bytes) into the client task
            let status = *r.pick(&[200u16, 200, 200, 200, 200, 201, 202, 400, 403, 404, 500, 503]);
            let mut body = gen_reply(r);
            if r.chance(2, 3) {
                // mostly replies that parse (their peer ids are random bytes)
                for _ in 0..6 {
                    if matches!(catch(|| rdest::TrackerResp::from_bencode(&body)), Ok(Ok(_))) {
                        break;
                    }
                    body = gen_reply(r);
                }
            }
            out.push(format!("fetch {} {}", status, hex(&body)));
        } else {
            out.push(format!("resp {}", hex(&gen_reply(r))));
        }
    }
    out
}

/// `respawn <kills> <good_at>`: the real manager (no event loop; commands handled one at a time exactly as the loop
/// does) loses `kills` connections while it has no candidate left, so `handle_kill_req` asks for a new announce each
/// time; the loopback tracker answers request number `good_at` (1-based) with a good reply and every other request
/// with a failure. The manager must take the good reply and return to its loop although announces keep failing.
/// → `resp=<y|n> manager=<free|blocked> held=<y|n>`
fn op_respawn(kills: usize, good_at: usize) -> String {
    use std::sync::atomic::{AtomicBool, AtomicUsize, Ordering};
    use std::sync::Arc;
    let listener = std::net::TcpListener::bind("127.0.0.1:0").expect("bind");
    let port = listener.local_addr().unwrap().port();
    let url = format!("http://127.0.0.1:{}/a", port);
    let doc = format!(
        "d8:announce{}:{}4:infod6:lengthi16e4:name1:N12:piece lengthi16e6:pieces20:AAAAABBBBBCCCCCDDDDDee",
        url.len(),
        url
    );
    let m = Metainfo::from_bencode(doc.as_bytes()).expect("metainfo");
    let stop = Arc::new(AtomicBool::new(false));
    let nreq = Arc::new(AtomicUsize::new(0));
    let (stop2, nreq2) = (stop.clone(), nreq.clone());
    let nreq = nreq.clone();
    let server = std::thread::spawn(move || {
        while !stop2.load(Ordering::SeqCst) {
            let n = nreq2.load(Ordering::SeqCst) + 1;
            let r = if n == good_at {
                serve_one(&listener, "200 OK", b"d8:intervali1800e5:peerslee")
            } else {
                serve_one(&listener, "200 OK", b"d14:failure reason9:too oftene")
            };
            if r.is_some() {
                nreq2.fetch_add(1, Ordering::SeqCst);
            }
        }
    });
    let rt = tokio::runtime::Builder::new_current_thread().enable_all().build().unwrap();
    let out = rt.block_on(async move {
        let mut session = rdest::Session::new(m, *b"-VERIF-0000000000001");
        for i in 0..kills {
            let cmd = PeerCmd::KillReq { addr: format!("10.9.9.{}:1", i + 1), reason: "gone".to_string() };
            // handling a lost connection must not wait for anything either
            if tokio::time::timeout(std::time::Duration::from_millis(3000), session.verif_handle_peer_cmd(cmd)).await.is_err() {
                return "resp=y manager=blocked held=y later=0".to_string();
            }
            // let the new task send its first announce before the next connection is lost
            tokio::time::sleep(std::time::Duration::from_millis(150)).await;
        }
        let t0 = std::time::Instant::now();
        let mut got_resp = false;
        let mut blocked = false;
        while t0.elapsed().as_secs() < 8 {
            let cmd = match tokio::time::timeout(std::time::Duration::from_millis(500), session.verif_recv_tracker_cmd()).await {
                Ok(Some(c)) => c,
                _ => continue,
            };
            let is_resp = matches!(cmd, TrackerCmd::TrackerResp(_));
            let handled = tokio::time::timeout(std::time::Duration::from_millis(3500), session.verif_handle_tracker_cmd(cmd)).await;
            if handled.is_err() {
                blocked = true;
                break;
            }
            if is_resp {
                got_resp = true;
                break;
            }
        }
        // once the reply has been taken nobody should be announcing any more
        let before = nreq.load(Ordering::SeqCst);
        if got_resp {
            tokio::time::sleep(std::time::Duration::from_millis(1600)).await;
        }
        let later = nreq.load(Ordering::SeqCst) - before;
        format!(
            "resp={} manager={} held={} later={}",
            if got_resp || blocked { "y" } else { "n" },
            if blocked { "blocked" } else { "free" },
            if session.verif_tracker_job_held() { "y" } else { "n" },
            later.min(1)
        )
    });
    stop.store(true, std::sync::atomic::Ordering::SeqCst);
    drop(rt);
    let _ = std::net::TcpStream::connect(("127.0.0.1", port));
    let _ = server.join();
    out
}
