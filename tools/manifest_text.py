"""Level text / notes per property for MANIFEST.json."""
KERNEL = "Lean 4.33 kernel + axioms {propext, Classical.choice, Quot.sound}; constants translator; correspondence harness/driver (differential testing, not proof); "
TEXT = {
    "C07": {
        "level": "Kernel-checked theorems for all field values and all payloads: encode = BEP3 layout (T1), parse(encode m ++ rest) = (m, |encode m|) (T2), "
                 "be32 inverse (T3), bitfield round trip / byte count / bit position for every piece count (T4), id table (T5). The model is tied to the Rust "
                 "serialisers and Frame::parse by a differential run on thousands of generated messages.",
        "note": KERNEL + "modelled not verified: Vec/slice/u32 conversions of Rust std.",
        "technique": "Lean 4 proof (round-trip / algebraic law) + generated constants + differential correspondence",
    },
}
NOT_APPLICABLE_REASON = {}
