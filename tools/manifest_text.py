"""Level text / notes per property for MANIFEST.json."""
KERNEL = "Lean 4.33 kernel + axioms {propext, Classical.choice, Quot.sound}; constants translator; correspondence harness/driver (differential testing, not proof); "
TEXT = {
    "C02": {
        "level": "PARTIAL. Kernel-checked on the composed models: (T1) for every geometry and content, a store whose entries have the torrent's hashes "
                 "(C01's guarantee) yields, under an explicit no-collision hypothesis, exactly the content slices as output files (C03 lifted to any verified "
                 "store); (T2) in every reachable state of the manager model - any history of any number of peers, every shuffle outcome - a piece that is "
                 "not owned and is offered by a connected peer is never stuck: a Reserved piece has a live, unchoked peer that was really asked for it and "
                 "whose completion lowers the number of missing pieces; a Missing piece is answered with a request when the offering peer unchokes, and "
                 "completing that lowers the number; (T3) no event raises the number of missing pieces, which is 0 exactly when all are owned; "
                 "(T4) in every reachable state extraction has been started iff every piece is owned; (T5, connection bookkeeping model: candidates, "
                 "spawn_peer_handler, try_next_candidate, handle_kill_req, spawn_tracker) in every reachable state no address a tracker ever listed is "
                 "forgotten (queued, or a connection task was started, or dropped because that address was connected), every dry peer or lost connection "
                 "takes the next candidate while pieces are missing, and a lost connection with no candidate left leaves a tracker task held. "
                 "(T7, closed loop of the real task model and the manager model, whole-client model SysReach) for every geometry (any number of pieces, any positive piece lengths), every content and every chooser meeting C13's guarantee there is an execution - one honest seeder connects, offers everything, unchokes us and answers every request in order with the real bytes - in which the task requests every block of every assigned piece exactly once in order, ends each piece with exactly its bytes, finds the hash equal, stores and reports it, the manager marks it owned and assigns the chooser's next pick, until every piece is owned and (C01.T6) stored under its listed hash with data of that hash (honest_answers_complete_the_piece, round_some/round_none for every chooser answer, seeder_completes by induction on the pieces not owned). Not proved: that the real runtime takes these steps (fairness, sockets, timers) and that several peers' traffic interleaves benignly beyond the bookkeeping theorems - observed by end-to-end runs of the real Session.",
        "note": KERNEL + "the liveness half is a possibility-of-progress theorem about the manager model plus monotonicity, not a fairness proof of the tokio "
                "runtime; the handler-level block exchange is covered by C10/C01/C06 separately; e2e runs: 14 per quick check, 700 in the thorough tier; the manager model under T2/T3 is tied by manager event histories (25 per e2e run), the connection bookkeeping model under T5 by histories with tracker replies, failures and KillReq on the real Session (5 per e2e run; T5 evaluated on the implementation's snapshots first).",
        "technique": "Lean 4 proof (composition of C01/C03/C12/C13 models: verified-store refinement; progress measure over reachable manager states) + end-to-end differential runs of the real session",
    },
    "C19": {
        "level": "Part 1, kernel-checked for every reply dictionary: without failure reason, with integer interval >= 0 and a peers list, the result is "
                 "in listed order exactly the well-formed entries (UTF-8 ip, 20-byte id, port >= 0) rendered ip:port, and every kept entry is well-formed "
                 "(T2); a byte-string failure reason - UTF-8 or not - makes the reply a failure (T3). Part 2, kernel-checked on the retry-protocol model "
                 "(tracker task, bounded channel of any capacity > 0, manager, JoinHandle) for every number k of failed announces and every interleaving: "
                 "the manager never waits for a retrying tracker (invariant by induction over reachable states), no deadlock before the peers are "
                 "contacted, every step decreases a measure, so every maximal execution has at most 9k+6 steps and ends with the peers contacted (T4); "
                 "for the code as it was (join after every command) the model exhibits the blocked manager at k = 1 and a deadlock at "
                 "k = CHANNEL_SIZE + 2 (decide). Part 2b/3 (T5, T6): handling a good reply in any manager state contacts the last 11 - k candidates "
                 "(k = peers we are interested in), each has a connection afterwards, the rest stay queued in order; with any number of lost "
                 "connections that ask for a new announce, any pattern of failing and succeeding announces and any interleaving, the manager never "
                 "awaits a tracker task that is still retrying and at most one task announces (invariant over the multi-task model); the code as it "
                 "was is refuted (second tracker task replaces the held handle, manager blocked through every schedule in which that task keeps failing). "
                 "One answered announce (HTTP status, body bytes) hands the manager exactly that reply or counts as a "
                 "failed announce (exchange theorems), tied by real loopback exchanges of TrackerClient::run. Totality of reply parsing is observed on "
                 "the real parser (no panic on any generated body).",
        "note": KERNEL + "PARTIAL for part 2: the retry model is hand-abstracted from tokio's spawn/mpsc/JoinHandle semantics and is tied to the real "
                "Session::run only by end-to-end runs against a scripted loopback tracker (one per quick run, five in the thorough tier incl. 67 failures); "
                "real-time scheduling, reqwest and the OS are not modelled.",
        "technique": "Lean 4 proof (decision logic for replies; invariant + variant function over all interleavings of an abstract protocol) + differential correspondence incl. end-to-end session runs",
    },
    "C18": {
        "level": "Kernel-checked for every announce URL (with or without a query), every hash / peer id byte string, port and total length: "
                 "percent-decoding the escaped info-hash gives back exactly the bytes - all 256 byte values, by kernel enumeration (T1); the escaped text "
                 "contains only letters, digits, * - . _ + %, never & = ? (T2); the request URL keeps everything before the first '?' of the announce URL "
                 "(T3); the decoded query pairs are the announce URL's own pairs in order, then info_hash = the hash, peer_id, port, uploaded, downloaded, "
                 "left = total length, event, numwant (T4). Tied to create_url (hook) and to the real TrackerClient::run over loopback HTTP (request "
                 "target and Host header).",
        "note": KERNEL + "outside the model, observed by the loopback requests: URL parsing/normalisation in the url crate, reqwest's extend_pairs and "
                "request line; announce URLs with a fragment are not considered.",
        "technique": "Lean 4 proof (round trip by induction + 256-value kernel enumeration; split/append lemmas for query pairs) + differential correspondence incl. real HTTP announce",
    },
    "C05": {
        "level": "Kernel-checked: for every accepted document the hashed bytes are raw_info of the very top-level dictionary (the first that parses) "
                 "from which the other fields are read (T1); on every well-formed document - any number of complete values in front, the dictionary written "
                 "as any sequence of entries in any key order, keys and strings with any legal length prefix (leading zeros), nested dictionaries with keys "
                 "spelled 'info', repeated keys, arbitrary data behind - raw_info returns exactly the value text of the (last) entry whose key is 'info' "
                 "(T2, by induction over the concrete syntax Txt and over the entry list); hence other keys, their order, nesting, encodings and "
                 "trailing data do not change the hashed bytes (T3). SHA-1 is outside the model: the check compares SHA-1 of the model span with "
                 "Metainfo::info_hash() and with the span recorded by the document generator on every case.",
        "note": KERNEL + "SHA-1 (sha1_smol) is trusted and cross-checked against the driver's own SHA-1 on every case; documents ending inside a container "
                "(recorded finding C16-F1) have no terminated info value - the span then runs to the end of the data.",
        "technique": "Lean 4 proof (inductive concrete syntax; skip_value/raw_info consume exactly one value text, by induction) + differential correspondence with generator-known spans",
    },
    "C17": {
        "level": "Kernel-checked: every accepted metainfo's announce, name, piece length, ordered piece hashes (20-byte chunks, concatenating to the "
                 "'pieces' string) and ordered file list are what a top-level dictionary of the decoded document says, with 0 < piece length, total length "
                 "< 2^64, UTF-8 fields (T2); hence total_length() does not overflow, piece_length(i) is defined for every valid index and equals the C03 "
                 "geometry, file_piece_ranges() is defined - accessor arithmetic modelled with an explicit panic outcome (T3); for every name, tracker "
                 "URL and content the document create_file writes parses back to that name, length, piece length and the SHA-1 of each chunk in order, "
                 "sha1 an arbitrary 20-byte function (T4, via the C15 round trip). Totality (no panic on any byte string) is what the correspondence "
                 "check observes on the real parser; the model is a total function whose decoder recursion has proved-sufficient fuel (C16).",
        "note": KERNEL + "modelled: String::from_utf8 as the Unicode table 3-7 validator (tied by non-UTF-8 cases); u64/usize arithmetic of the accessors "
                "with debug-profile overflow = panic; std::fs in create_file is exercised for real (temporary directory), not modelled.",
        "technique": "Lean 4 proof (field-by-field refinement to dictionary lookups; arithmetic side conditions; encode/decode round trip) + differential correspondence incl. real create_file",
    },
    "C03": {
        "level": "Kernel-checked for every piece length > 0, every list of file lengths (zero-length files, files inside one piece, any alignment) and every "
                 "content: the bytes extract_files writes for each file are exactly the slice of the concatenated content at the file's offset, in its declared "
                 "length (T2: extractImpl = extractSpec; key lemma extractOne_slice by arithmetic on piece_pos and induction over the whole-piece loop); for every "
                 "torrent whose piece count matches its total length the per-piece lengths sum to the total, each stored piece has piece_length(i) bytes and the "
                 "pieces concatenate to the content (T1). Tied to the real Metainfo/Extractor: real extraction in a scratch directory compared byte for byte.",
        "note": KERNEL + "modelled: the piece store as slices of the content (what C01 guarantees about the piece files); std::fs read/seek/write as array "
                "operations; file creation/paths are C04's subject.",
        "technique": "Lean 4 proof (slice algebra + induction over pieces and over the file list; arithmetic on div/mod) + differential correspondence on real extraction",
    },
    "C04": {
        "level": "Kernel-checked for every name and every path byte string (absolute, '..', '.', empty components, any nesting): the output path consists of "
                 "plain components only, so it and every directory prefix created on the way stay inside the download directory (T1), multi-file paths lie under "
                 "the sanitised torrent name (T2), no '..', '.', or empty component survives (T3), and the joined string handed to the OS reads back as exactly "
                 "those components and is relative (T4). Tied to the real code twice: file_piece_ranges' paths compared component-wise with the model, and real "
                 "extraction in a jail directory with a recursive listing of everything created.",
        "note": KERNEL + "outside the model: the OS resolving a relative path of plain components to nested entries; symbolic links already present in the "
                "download directory; non-Unix path syntax. 'Multi-file' = more than one file, as in the implementation.",
        "technique": "Lean 4 proof (lexical path walk; induction over component lists; split/join round trip) + differential correspondence and filesystem oracle on real extraction",
    },
    "C06": {
        "level": "Kernel-checked theorems for every byte string and every segmentation: consumed counts stay inside the buffer (T1, no advance past the end), "
                 "run [] chunks = decodeAll (flatten chunks) for all chunkings (T2), frames complete in the received prefix are emitted before the next read and "
                 "nothing decodable is retained (T3), retained buffer < 4 + MAX_FRAME_SIZE at every read (T4), impossible length / oversize / bad protocol string "
                 "are fatal as soon as the header is present and every stream ends with a terminal event (T5). Tied to Frame::parse, parse_frame and the real "
                 "recv_frame loop (in-memory stream with exact cuts, all single cuts of short streams, and real loopback TCP).",
        "note": KERNEL + "assumed: tokio read_buf cancel-safety/ordering; size of one OS read; the hook's in-memory branch of recv_frame mirrors the socket branch "
                "(the socket branch is exercised separately over loopback TCP). Task termination on a fatal receive error (select! arm) is checked with the handler properties.",
        "technique": "Lean 4 proof (prefix-stability lemmas + induction over read chunks; refinement to greedy decodeAll) + differential correspondence",
    },
    "C12": {
        "level": "Kernel-checked for every history of events the connection tasks can emit (choke, unchoke, interest changes, have, bitfield, piece done / "
                 "cancelled, disconnect; repeated, out of order, interleaved over any number of peers) and EVERY value of the random piece choice: the manager "
                 "never panics (T5), Have is absorbing (T1), a piece is Reserved(n) only with n >= 1 and an unchoked connected peer that was actually asked for "
                 "it (T2), hence it stops being Reserved with the last such peer (T3), and requests name only advertised, lacking pieces (T4). Invariant proved "
                 "preserved by every step and lifted by induction over the history. And kernel-checked for the WHOLE CLIENT (Props/C12Whole: any number of connection tasks and the manager in closed loop, "
                 "any interleaving, any peer input, nothing assumed about which commands arrive when): the invariant holds in every reachable state (T6), a Reserved piece has a live connection task, not choked by its peer, "
                 "whose piece_rx is that piece (T7), without such a task a piece is not Reserved (T8), and no command a live task sends makes the manager panic (T9: assignments for PieceDone/PieceCancel and the Have index bound derived from the task model; T11 over the closed loop in which tasks are created with the torrent's piece count: the index bound of Have, the decodability and length of a passed-on bitfield (to_vec of validated bytes) and the tasks' piece count are all derived, no premise about which commands arrive when). Tied to the real Session by command histories compared after every command and by closed-loop runs of the real manager with real connection tasks.",
        "note": KERNEL + "the connection task's piece_rx discipline is part of the model (rx field) and is tied to the real task by the handler-level checks; "
                "assumed: live connections have distinct addresses; mpsc delivery is FIFO per task.",
        "technique": "Lean 4 proof (state invariant by induction over event histories; accounting lemma for release/reserve) + differential correspondence on command histories",
    },
    "C13": {
        "level": "Kernel-checked for all status vectors, peer sets, advertised sets and ALL shuffle outcomes (any permutation of the candidate list): a pick is "
                 "eligible and of minimal availability among eligible pieces (T1); none is picked iff nothing is eligible (T2); END_GAME_LIMIT = 10 from the "
                 "generated constant. The implementation's random answers (8 per state) are checked for membership in the proved admissible set. "
                 "T4: on every path on which the manager hands out a request (Unchoke, Have, piece stored, piece cancelled) the piece is the chooser's "
                 "answer, so T1/T2 cover every pick (the Have path did not consult the chooser on the unchanged tree: refuted by "
                 "old_have_path_pick_not_rarest, found, repaired in /repo); every pick of the manager histories is judged by the same `admissible`.",
        "note": KERNEL + "the model's own insertion sort stands for slice::sort_by (only sortedness+permutation are used in the proof); shuffle = arbitrary permutation.",
        "technique": "Lean 4 proof (decision logic over all permutations; sortedness + permutation lemmas) + admissibility check of the implementation's answers",
    },
    "C14": {
        "level": "Kernel-checked for all histories (connects, disconnects, interest changes, bitfield arrivals, admissible rotations) and an arbitrary slot "
                 "limit: regular unchoked <= MAX_UNCHOKED and optimistic <= MAX_OPTIMISTIC in every reachable state (T1, invariant by induction over the "
                 "history; constants <= 10 / <= 1 by decide); after every rotation slot holders are interested, no interested peer with a strictly better rate "
                 "than a slot holder stays choked, uninterested peers are choked, for any tie order (T2); the broadcast am_choked_map has an entry exactly for "
                 "the peers whose flag changed, with the new value (T3); the timer handler (round counter, wait-until-every-peer-reported-rates gate, rate "
                 "selection by seeder state, optimistic candidate) is either no change or an admissible rotation, so T1/T2 hold at every tick "
                 "(T1_tick_keeps_slot_bounds, T2_tick_postcondition); on the connection task's side every own-state broadcast is put on the wire as exactly "
                 "the matching Choke/Unchoke/nothing, for every script (C14_trace, monitor P14); each peer's view agrees with the client's - after every admissible history every connected peer was last told exactly the choke flag on record (T5_peer_view_agrees: the messages are those of the bitfield reply and of the rotation's map); the measured rate is, from the second statistics interval "
                 "on, the mean of the bytes moved in the last two intervals, the first interval reports nothing (T4, statistics model, below 2^32 bytes per "
                 "queue). Tied to the real Session by command histories incl. real timer ticks with rates delivered as SyncStats commands, compared "
                 "after every operation; to the real connection task by broadcast scripts and by statistics scripts through its own timer handler.",
        "note": KERNEL + "modelled: HashMap iteration order = arbitrary permutation (the rotation theorem quantifies over every rate-sorted order); "
                "assumed: broadcast delivery to every connection task (channel capacity), see DESIGN.md.",
        "technique": "Lean 4 proof (invariant by induction over operation histories + loop lemmas; trace monitor proved sound for all scripts; interval invariant of the statistics queue) + differential correspondence on command histories, task scripts and statistics scripts",
    },
    "C01": {
        "level": "Kernel-checked for the WHOLE CLIENT in closed loop (T6, model Swarm/Loop): any number of connection tasks and the manager, every reply a "
                 "task consumes being the manager's answer to the command it sent, connections added at any time, steps interleaved arbitrarily, any "
                 "inputs, every chooser outcome: in every reachable state, for a piece i the manager treats as owned some task has written a piece file "
                 "while fetching piece i, named by the hash the torrent lists for i, with data hashing to exactly that value; on the way: the manager's "
                 "record of every live connection mirrors its task (allLinked_reach), tasks are told the listed hashes (allListed_reach), PieceDone only "
                 "while assigned (T6b). Piece file names determine the hash (T5). And kernel-checked for EVERY script of one connection task - frames of any kind (corrupt, duplicate, overlapping, unrequested, truncated "
                 "blocks), broadcasts, manager replies, ticks, stream ends (C01_trace, monitor P01 proved sound by induction over the script): a piece "
                 "file is written only under the name of the hash listed for the piece the connection was asked to download, only with contents hashing "
                 "to exactly that value; PieceDone is reported only immediately after such a store and every store is reported; plus the local theorems "
                 "T1 (only a block answering an outstanding request can complete a piece), T2 (hash mismatch: nothing written, task ends) and, in the "
                 "manager model, T3: a piece becomes owned only by pieceDone of the peer it is assigned to (all event kinds). sha1 is a parameter. The "
                 "same monitor runs on the implementation's trace of every generated script.",
        "note": KERNEL + "the closed-loop model takes tokio's atomicity of command+reply per connection (the task blocks on its reply channel) and treats a "
                "broadcast as an input like any other (its delay and loss are outside); it is tied to the code through its two halves (task scripts, manager "
                "histories) and by `sys` runs: the real Session with several real connection tasks, every command, reply and store replayed through the "
                "product of the two models, T6 and the Have oracle evaluated on every step; file system (atomic rename), external modification of piece files and SHA-1 collisions outside.",
        "technique": "Lean 4 proof (closed-loop product of task and manager models: link invariant by induction over all interleavings; trace monitor proved sound for all scripts; case analysis of every handler) + the same monitor on implementation traces + differential correspondence",
    },
    "C11": {
        "level": "Kernel-checked for the WHOLE CLIENT with the broadcast channel in the loop (T4: any number of connection tasks and the manager in closed "
                 "loop, a task handling SendHave i only after the manager broadcast it, broadcasts delayed or lost, every input, interleaving and chooser "
                 "outcome): every Have any task has ever written was broadcast by the manager before, and for an index of the torrent that piece is owned "
                 "and a piece file named by its listed hash with data hashing to it was written by a task fetching that piece (invariant over reachable "
                 "states, using the C11 monitor's soundness per step, T2, C12's absorbing Have and C01.T6). And kernel-checked "
                 "for EVERY script of frames, broadcasts, manager replies, timer ticks and stream ends (C11_trace, by the trace-monitor "
                 "soundness lemma and a case analysis of every handler): a Have is written only in reaction to the manager's SendHave - at once when the "
                 "peer does not choke us, otherwise held back and written first, in broadcast order, at the next Unchoke, leaving none - and the only "
                 "bitfield ever written is the one the manager computed at Init; the init bitfield has bit i set iff piece i is owned when Init is handled, "
                 "spare bits zero, for every status vector (T1, via the C07 bit-position theorem); the manager broadcasts SendHave i only in the step that "
                 "marks i owned (T2). The same monitor P11 is evaluated on the implementation's trace of every generated script.",
        "note": KERNEL + "a lagging receiver loses announcements (tokio broadcast): that only removes Have frames, it cannot add one; T4's model takes the "
                "atomicity of command+reply per connection as C01's closed loop does; an index outside the torrent is never assigned (C13.T1), T4 states "
                "ownership for indices of the torrent.",
        "technique": "Lean 4 proof (whole-client invariant by induction over all interleavings of tasks, manager and broadcast channel; trace monitor proved sound for all scripts by induction over the script; local theorems about SendHave / Unchoke / Init) + the same monitor on implementation traces + differential correspondence",
    },
    "C10": {
        "level": "Kernel-checked for EVERY script of one connection task from a fresh connection (C10_trace, monitor P10 proved sound by induction over the "
                 "script, with the invariant that a piece is in progress only after the handshake): all Request frames written between an assignment and "
                 "the completion or cancellation of the piece name that piece and are, in order, the tiles (k*16384, min(16384, len-k*16384)), each exactly "
                 "once; two are pipelined at the assignment; every accepted block is followed by exactly one further request while tiles remain; the piece "
                 "is stored and reported exactly at the accepted block that leaves nothing outstanding and nothing unrequested; blocks that do not answer "
                 "an outstanding request cause nothing. Plus T1 for every piece length and block size: the tiles are non-empty, at most B long, contiguous "
                 "from 0 and their lengths sum to the piece length. The same monitor runs on the implementation's trace of every generated script.",
        "note": KERNEL + "the piece length handed to the task is Metainfo::piece_length(i) (C03/C17); a peer that answers with a shorter block than requested is "
                "outside (the block is then not 'accepted': it matches no outstanding (begin, length) pair).",
        "technique": "Lean 4 proof (arithmetic tiling theorem; trace monitor proved sound for all scripts by induction, relation between the monitor's record and PieceRx) + the same monitor on implementation traces + differential correspondence",
    },
    "C09": {
        "level": "Kernel-checked for the WHOLE CLIENT with the disk in the loop (T5, Props/C09Whole: any number of connection tasks and the manager in closed loop, "
                 "the file a task loads being what was last stored under that name, the manager answering RecvRequest with LoadAndSendPiece only for an owned "
                 "piece with its listed hash; every input, interleaving and chooser outcome): every block of piece data (index, begin, block) any task has ever "
                 "sent is the range at begin of data whose hash is the one the torrent lists for that piece, of a piece the client owns and for which a verified "
                 "piece file was written (invariant over reachable states: what is stored hashes to its name - from the C01 monitor per step; a loaded piece is "
                 "good - from the C09 monitor per step, the gate and the disk; C12's absorbing Have; C01.T6). And kernel-checked for all (index, begin, length) in N^3 (so in particular all of u32^3, with begin+length computed without wrap-around) and all "
                 "scripts of requests, choke/unchoke broadcasts and other traffic: the task's trace satisfies the monitor P09 (C09_trace) — per request either no "
                 "piece data, or exactly one Piece with the same index and offset carrying bytes [begin, begin+length) of the piece loaded at the last consult of "
                 "the manager, length <= PIECE_BLOCK_SIZE (= 16384 by decide), range inside the piece; the manager is consulted again after every Choke sent; no "
                 "other input produces piece data; the model has no panic outcome and the harness reports a task panic as a violation.",
        "note": KERNEL + "the manager's side (load only for owned pieces of an unchoked peer) is Peer::handle_request, stated as load_only_if_unchoked_and_owned "
                "and exercised by the manager histories of C12/C14; the stored bytes are the verified ones (C01).",
        "technique": "Lean 4 proof (trace monitor proved sound for all scripts; case characterisation of handle_request) + differential correspondence",
    },
    "C08": {
        "level": "Kernel-checked for every script of frames (any handshake, arriving at any point of any history), broadcasts, ticks and stream ends, on "
                 "incoming and outgoing connections: the task's trace satisfies the monitor P08 (C08_trace) — own handshake carries the torrent's info-hash and "
                 "own id and is the first thing written; a handshake with another info-hash or peer id is answered with nothing, ends the task and nothing is "
                 "written afterwards; an incoming connection gets no write in reaction to any frame before a handshake validated; piece data is written only "
                 "after a valid handshake. P08 is also evaluated on the implementation's trace.",
        "note": KERNEL + "the manager forgetting the peer after KillReq is the kill step of the manager model (C12); a wrong protocol string is a decode error (C06).",
        "technique": "Lean 4 proof (trace monitor proved sound for all scripts; case analysis of handle_handshake) + differential correspondence",
    },
    "C15": {
        "level": "Kernel-checked by mutual structural induction over values, lists and dictionaries of any nesting: decode(encode v ++ rest) = v followed by "
                 "decode(rest), hence decode(encode v) = [v] for every well-formed value and every sequence (T1; full i64 range, arbitrary binary strings, empty "
                 "containers, prefix keys), for the implementation's grammar and for the strict grammar (the output is well-formed bencode); integers are written in "
                 "shortest decimal form, strings length-prefixed without leading zeros (natDec lemmas), keys in ascending order (T2); re-encoding the decoding of a "
                 "canonical document reproduces it byte for byte (T3). decimal to_string/parse are modelled (natDec/decToNat) and compared with Rust on every run.",
        "note": KERNEL + "HashMap modelled as an ascending duplicate-free association list (mkDict = repeated insert); Rust recursion depth (stack) outside.",
        "technique": "Lean 4 proof (mutual structural induction; decimal and take_while lemmas; fuel-independence) + differential correspondence",
    },
    "C16": {
        "level": "Kernel-checked for every byte string: the decoder model is a total function whose fuel (|input|+1) never runs out (T1), every input accepted by the "
                 "strict grammar is accepted with the same values (T2), and whatever the decoder accepts the strict grammar accepts with the same values unless the input "
                 "ends inside a list or dictionary (T3_soundness_partial). The full soundness statement is refuted for the current code by the witness 'l' "
                 "(C16_soundness_full_refuted): recorded finding F1, reported as KNOWN-FINDING; any acceptance outside that class is a VIOLATION. Tied by exhaustive "
                 "enumeration over a delimiter-rich alphabet plus truncations/mutations.",
        "note": KERNEL + "partial by the recorded finding F1 (cannot be repaired: a pinned test depends on it); the strict grammar is the decoder with the EOF-closes-container "
                "case removed, its relation to the encoder is C15.T2; stack overflow on deep nesting is outside the model.",
        "technique": "Lean 4 proof (induction on fuel relating implementation and strict grammar; fuel sufficiency) + exhaustive small-alphabet differential run",
    },
    "C20": {
        "level": "Kernel-checked for every script of frames, broadcasts and timer ticks: the observable trace of the connection-task model satisfies the "
                 "keep-alive predicate P20 (C20_trace): each tick writes exactly one KeepAlive unless KEEP_ALIVE_LIMIT ticks have passed since the last "
                 "non-keep-alive frame, in which case that tick closes the task; nothing is emitted after the end. Declarative corollaries: closed at tick "
                 "LIMIT+1 <= 3 of silence (T1), never closed while a real message arrives per interval (T2), one KeepAlive per surviving tick (T3); interval = 120 s "
                 "from the generated constant. Release, kernel-checked for the WHOLE CLIENT (T5, Props/C20Whole: closed loop of any number of connection tasks and the manager): after the closing tick of a silent "
                 "connection the task has ended, the manager has no record of it, and no piece stays Reserved unless another live, unchoked connection is fetching it. "
                 "Tied to the real task under tokio's paused clock; P20 is also evaluated on the implementation's trace.",
        "note": KERNEL + "release of the peer record and reservation on KillReq is the kill step of the manager model (C12), composed with the task model in the closed loop (T4, T5). Assumed: tokio interval semantics; "
                "a blocked socket write starves the timer (runtime behaviour outside the model).",
        "technique": "Lean 4 proof (trace predicate proved for all scripts by induction, via frame-preservation lemmas) + differential correspondence under a virtual clock",
    },
    "C07": {
        "level": "Kernel-checked theorems for all field values and all payloads: encode = BEP3 layout (T1), parse(encode m ++ rest) = (m, |encode m|) (T2), "
                 "be32 inverse (T3), bitfield round trip / byte count / bit position for every piece count (T4), id table (T5). T6: whatever sequence of well-formed messages is emitted one after the other, the receive loop decodes exactly that sequence from the concatenated bytes and retains nothing (with C06.T2: for every segmentation). The model is tied to the Rust "
                 "serialisers and Frame::parse by a differential run on thousands of generated messages.",
        "note": KERNEL + "modelled not verified: Vec/slice/u32 conversions of Rust std.",
        "technique": "Lean 4 proof (round-trip / algebraic law) + generated constants + differential correspondence",
    },
}
NOT_APPLICABLE_REASON = {}
