#!/usr/bin/env python3
"""Writes /verif/MANIFEST.json from tools/propcfg.py (claimed checks) and the list of all property ids."""
import json, os, sys
ROOT = os.path.dirname(os.path.dirname(os.path.abspath(__file__)))
sys.path.insert(0, os.path.join(ROOT, "tools"))
from propcfg import PROPS
from manifest_text import TEXT, NOT_APPLICABLE_REASON

ids = [json.loads(l)["id"] for l in open(os.path.join(ROOT, "properties.jsonl")) if l.strip()]
hooks_commits = []
try:
    import subprocess
    out = subprocess.run(["git", "-C", "/repo", "log", "--format=%H %s"], capture_output=True, text=True).stdout
    hooks_commits = [l.split()[0] for l in out.splitlines() if "verif hook" in l]
except Exception:
    pass

checks = []
for pid in ids:
    if pid not in PROPS:
        continue
    t = TEXT[pid]
    checks.append({
        "property_id": pid,
        "quick_cmd": "./check %s --tier quick" % pid,
        "thorough_cmd": "./check %s --tier thorough" % pid,
        "evidence_file": "/verif/evidence/%s.json" % pid,
        "replay_cmd_template": "./check %s --replay {path}" % pid,
        "engine": "lean4-proof+correspondence",
        "level_claimed": {"category": "proof", "text": t["level"], "design_ref": "DESIGN.md §5 " + pid},
        "level_note": t["note"],
        "technique": t["technique"],
    })

manifest = {
    "version": 1,
    "setup_cmd": "python3 tools/gen_constants.py && (cd lean && lake build) && (cd harness && cp /repo/Cargo.lock Cargo.lock && CARGO_NET_OFFLINE=true cargo build --offline)",
    "hooks": {
        "guard": "cargo feature `verif` (#[cfg(feature = \"verif\")])",
        "enable": "harness/Cargo.toml depends on rdest = { path = \"/repo\", features = [\"verif\"] }",
        "baseline_off_cmd": "cd /repo && cargo test --workspace --no-fail-fast --offline --lib --bins --tests",
        "source_commits": hooks_commits,
        "add_only": True,
    },
    "engines": [{
        "name": "lean4-proof+correspondence",
        "path": "/verif/check",
        "serves_properties": [c["property_id"] for c in checks],
        "kind_free_text": "Lean 4 theorems about a hand-written executable model (lean/RdestModel), constants regenerated from the Rust "
                          "source on every run (tools/gen_constants.py), model tied to the code by a differential correspondence run "
                          "(harness/ = Rust, real crate with feature verif; lean/Driver = compiled model + property oracle)",
    }],
    "checks": checks,
    "not_applicable": [{"property_id": pid, "reason": NOT_APPLICABLE_REASON.get(pid, "not yet claimed: model and theorems for this property are still being built (see DESIGN.md §7)")}
                       for pid in ids if pid not in PROPS],
    "notes": "Every check regenerates the constants, rebuilds the theorem module and the driver with lake, audits axioms, rebuilds the "
             "harness against /repo's working tree and runs the correspondence. Known findings: /verif/known_findings.json.",
}
json.dump(manifest, open(os.path.join(ROOT, "MANIFEST.json"), "w"), indent=1)
print("MANIFEST.json: %d checks, %d not_applicable" % (len(checks), len(manifest["not_applicable"])))
