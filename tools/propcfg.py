"""Per-property configuration of ./check (case counts per tier, Lean theorem modules, notes for evidence)."""

STD_ASSUME_PURE = [
    "the hand-written Lean model corresponds to the Rust code only as far as the differential run of this check exercised it",
    "Rust std (Vec, slices, integer conversions on a 64-bit target) behaves as modelled",
]

PROPS = {
    "C02": {
        "lean_modules": ["RdestModel.Props.C02", "RdestModel.Props.C02Run"],
        "cases": {"quick": 27, "thorough": 702},
        "rule": "cases = end-to-end runs (the count in `cases`) plus 25 manager histories per run: the C12 event histories on the real Session "
                "(connect, bitfield, have, choke/unchoke, interest, PieceDone, PieceCancel, kill; end game and normal mode), compared step by step "
                "with the manager model that T2/T3 are proved on, with T3 (the number of pieces not owned never increases) evaluated on the "
                "implementation's own snapshots; plus 5 connection-bookkeeping histories per run (`cand`: tracker replies listing 0..15 peers incl. "
                "connected, queued and repeated ones and more than eleven, tracker failures, harness-added incoming connections, bitfields that offer "
                "nothing, unchoke/done/cancel, KillReq through the real handle_kill_req; candidates, peer records, tracker-handle flag compared after "
                "every command with the model Swarm/Cand, T5 evaluated on the implementation's snapshots first); every end-to-end case is one run of the real Session::run in a child process (scratch directory, loopback tracker, fixed port 6881 "
                "behind a lock file): piece length in {5,16,100,16384,20000,40000}, 1..4 files with lengths in {0, pl, <pl, random} (total up to 12 "
                "pieces), content a function of the seed; 1..3 honest peers among which every piece is spread (each piece at one random peer plus "
                "1/3 chance at each other), 0..2 extra peers with random pieces that disconnect after 0..2 blocks or in the middle of a Piece message; "
                "peers write with random segmentation (1 byte .. whole message) and unchoke after a random delay; in 2/3 of the runs one honest peer "
                "leaves once all pieces are stored, in 1/3 everybody stays; one run in six is a crowd of 2..15 leechers (every piece at exactly one of "
                "them, all interested in us, all staying: more listed peers than the client connects to at once), one in seven a slow seeder with late, fast twins (the seeder has everything and answers slowly, every other peer has exactly one piece, is slow to accept the connection and then answers at once; the last piece is at the seeder only: the seeder loses the race for the piece it was asked first, is cancelled and must go on with another), one in eight a torrent of 8 or 16 pieces (a bitfield without spare bits); observed: SHA-1 of every output file (compared with the model's "
                "extractSpec of the content), panics of any task (panic hook), the session still running; distinct = distinct argument lines"
                + " Twenty-four runs per quick check over eight families."
                + " Plus three `lag` runs: the real Session and two real connection tasks over in-memory streams, the only holder of the last piece ready only after 33-35 of 36-65 pieces are stored (more announcements than the broadcast channel retains) or early (control).",
        "assumptions": STD_ASSUME_PURE + ["liveness on the real runtime is observed, not proved: tokio scheduling, TCP, reqwest, timers and the OS are outside the model",
                                           "SHA-1 collision freedom on the torrent's pieces is an explicit hypothesis of T1",
                                           "peers that stay connected without serving what they were asked for are outside the property's hypothesis (honest or disconnecting)",
                                           "port 6881 is free on the machine (runs are serialised by a lock file)"],
    },
    "C03": {
        "lean_modules": ["RdestModel.Props.C03"],
        "cases": {"quick": 2000, "thorough": 100000},
        "rule": "random geometries: piece length in {1} U {1..40} U {16384}, 1..8 files with lengths in {0, pl-1, pl, pl+1, <pl, <3pl} (biased to the "
                "boundaries, several files inside one piece, zero-length files), random content; the harness writes the correct piece files into a "
                "scratch directory, runs the real extractor (ex) and returns every output file's bytes; geo = pieces_num, total_length, "
                "piece_length(i) for every i and file_piece_ranges; compared with extractImpl/pieceLength (correspondence) and with extractSpec = "
                "content slices (oracle); distinct = distinct argument lines"
                + " A third of the extractions (`exs`) run in a directory that already holds longer versions of the output files.",
        "assumptions": STD_ASSUME_PURE + ["the piece files hold the verified pieces (C01); std::fs read/seek/write behave as a byte array"],
    },
    "C04": {
        "lean_modules": ["RdestModel.Props.C04"],
        "cases": {"quick": 1500, "thorough": 60000},
        "rule": "names and paths built from the parts {a, b, .., ., '', c.txt, ..., ..a, a.., ' ', x/y, non-ASCII, -}, random strings over {a . /}, "
                "leading '/', '../' prefixes and absolute paths pointing into a canary directory next to the download directory; paths = the output "
                "paths computed by file_piece_ranges (component-wise) vs the model; exq = real extraction inside <jail>/cwd, the jail sitting 24 directories below a per-case scratch directory, followed by a "
                "recursive listing of the whole scratch directory: anything outside <jail>/cwd/ is a violation; single- and multi-file torrents; distinct = distinct lines",
        "assumptions": STD_ASSUME_PURE + ["symlinks already present in the download directory and non-Unix path syntax are outside",
                                           "'multi-file' means more than one file (the implementation places a one-element files list directly in the download directory)"],
    },
    "C05": {
        "lean_modules": ["RdestModel.Props.C05"],
        "cases": {"quick": 2500, "thorough": 80000},
        "rule": "metainfo documents built from a syntax tree with control over the exact encoding: canonical, shuffled key order inside info and at top "
                "level, leading-zero length prefixes (also on the key 'info' itself), binary strings, extra top-level keys whose values are dictionaries "
                "with a key spelled 'info' (before and after the real one in byte order), values in front of the dictionary (ints, the string 'info', "
                "lists holding dictionaries with an 'info' key, dictionaries with a non-dictionary 'info'), a second 'info' key, data after the "
                "dictionary; the generator records the byte span of the real info value; compared: generator span = model span (rawInfo), "
                "Metainfo::info_hash() = SHA-1 (Lean implementation) of that span; accept/reject and error kind vs the model; distinct = distinct documents"
                + " Top-level values spelled `info` in front of and behind the real entry.",
        "assumptions": STD_ASSUME_PURE + ["SHA-1 itself is outside the model (sha1_smol vs the driver's own SHA-1 are compared on every case)",
                                           "documents that end inside a list or dictionary (finding C16-F1) have no terminated info value; the span then runs to the end of the data"],
    },
    "C17": {
        "lean_modules": ["RdestModel.Props.C17"],
        "cases": {"quick": 3000, "thorough": 100000},
        "rule": "documents: valid single-/multi-file metainfo with extra keys (40%), one deliberate defect out of 14 per field (missing, wrong type, "
                "negative, zero, 2^63-1, 2^63, non-UTF-8, pieces not divisible by 20, length+files, neither, file lengths summing past u64, malformed "
                "file entries) (30%), top-level defects (10%), truncations and byte mutations (10%), random strings over the bencode alphabet (10%); "
                "every accepted metainfo: all fields via the verif_fields hook and the public accessors, every accessor called under catch_unwind for "
                "the first 40 and last 3 piece indices; every 40th case runs the real create_file on a file of length {0,1,20,PL-1,PL,PL+1,2PL+5} "
                "and compares the written .torrent byte for byte with the model's createTorrent and parses it back; distinct = distinct argument lines",
        "assumptions": STD_ASSUME_PURE + ["64-bit usize (the casts u64 -> usize in the accessors are the identity)",
                                           "debug-profile arithmetic (overflow panics), as in the test suite"],
    },
    "C06": {
        "lean_modules": ["RdestModel.Props.C06"],
        "cases": {"quick": 5000, "thorough": 150000},
        "rule": "byte streams = 1..6 elements drawn from {valid message (all 11 kinds, boundary fields), unknown id with body, keep-alive, "
                "known id with impossible length, handshake look-alike with one corrupted byte, oversize length, id 84 without handshake "
                "prefix, garbage}, optionally truncated; ops: pf = feed + one parse_frame (vs model parseFrame); st = in-memory stream cut "
                "exactly at the given points, next chunk written only when recv_frame is pending (vs model run, oracle decodeAll of the "
                "concatenation, retained-buffer list vs model and < 65540); every single cut point of streams <= 48 bytes; tcp = same over a "
                "real loopback TcpStream (socket branch of recv_frame); distinct = distinct argument lines"
                + " Half of the loopback-TCP cases (`tcps`) poll `recv_frame` inside a `select!` next to a 3 ms timer while the stream arrives in parts (the way the connection task polls it).",
        "assumptions": STD_ASSUME_PURE + [
            "tokio read_buf is cancel-safe and delivers bytes in order; one OS read appends at most the spare capacity on top of the retained prefix",
            "the in-memory stream branch of recv_frame added by the hook mirrors the socket branch; the socket branch itself is exercised by the tcp op",
        ],
    },
    "C12": {
        "lean_modules": ["RdestModel.Props.C12", "RdestModel.Props.C12Whole"],
        "cases": {"quick": 1500, "thorough": 60000},
        "rule": "n/100 cases are closed-loop runs (`sys`, as in C01: real manager and real connection tasks, events produced by the tasks themselves, not "
                "scripted); command histories (4..45 events, 1..4 peers, 3..14 pieces on both sides of END_GAME_LIMIT) on the real Session through the hooks: add "
                "peer+bitfield, choke, unchoke, interested, not-interested, have, bitfield, piece done, piece cancel, kill — repeated and out of "
                "order, but only events a connection task can emit (done/cancel need an active piece_rx, tracked from the replies; PrepareKill is "
                "followed by the kill); after EVERY command reply + full snapshot (statuses; per peer piece_index, choked, am_interested, "
                "interested) are compared with the model; the implementation's random pick is read from the reply and checked admissible (C13); "
                "oracle on the implementation's own snapshot: Have absorbing, every Reserved has an unchoked peer asked for it, requests name "
                "advertised+lacking pieces, no panic; distinct = distinct histories"
                + " The closed-loop `sys` runs include a `recall` family (far from the end game a peer offering one piece unchokes twice, then serves the old requests); oracle (v): a reply that reveals that the chooser answered nothing is a violation when an eligible piece exists.",
        "assumptions": STD_ASSUME_PURE + ["addresses of live connections are distinct (a reconnect from the same ip:port before the old KillReq is handled is outside the model)",
                                           "the connection task clears piece_rx exactly as modelled (tied by the handler-level checks C01/C10)"],
    },
    "C13": {
        "lean_modules": ["RdestModel.Props.C13"],
        "cases": {"quick": 4000, "thorough": 150000},
        "rule": "random manager states: 3..40 pieces with status mixes in four regimes (mostly missing .. nearly done, and exactly 9/10/11 non-Have "
                "pieces around END_GAME_LIMIT), 1..6 peers with random advertised sets of density 10..95%, a target peer; the real "
                "Session::choose_piece_index is called 8 times per state (different shuffles); every answer must lie in the admissible set of the "
                "theorem (eligible and of minimal availability; none iff nothing eligible); distinct = distinct argument lines"
                + " Oracle (v) on the manager histories: a reply that reveals that the chooser answered nothing (after Unchoke, Have from a peer we are not interested in, Bitfield, piece stored/cancelled, NotInterested) is a violation when an eligible piece exists."
                + " Half of the chooser cases (`chb`) deliver the advertised sets as Bitfield messages of the connections; piece counts that are multiples of eight.",
        "assumptions": STD_ASSUME_PURE + ["rand's shuffle returns a permutation (any permutation is covered by the theorem)",
                                           "'being fetched from another peer' is read as the manager's own Reserved bookkeeping (its truthfulness is C12)"],
    },
    "C14": {
        "lean_modules": ["RdestModel.Props.C14"],
        "cases": {"quick": 1500, "thorough": 40000},
        "rule": "operation histories (5..80 ops) on the real Session through the hooks: add peer (up to 25 live), interested / not-interested, "
                "bitfield (real RecvBitfield command, reply observed), kill, timer tick = the real timeout_change_conn_state with a given round, seeder "
                "flag and per-peer rates (pairwise distinct, some not reported yet; broadcast observed; every admissible optimistic pick tried by the "
                "model; one history in eight is a full house of waiting peers plus fresh unchoked connections without rates), "
                "rotation = change_conn_state with generated rate vectors (ties "
                "included, random vector order) and an admissible new_optimistic choice read from the implementation's own snapshot; after EVERY "
                "op the full snapshot (am_choked, interested, optimistic per peer), for rotations also the sorted order and the broadcast "
                "am_choked_map, are compared with the model; oracle T1 (slot bounds) on every snapshot, T2/T3 on every rotation; "
                "distinct = distinct histories"
                + " Rotation ticks run with all-owned, nothing-owned, end-game (nothing Missing, something Reserved) and mixed statuses; view oracle: outside a rotation the choke flag on record changes only together with the Unchoke that answers this peer's bitfield."
                + " Every third address of a history is a seeder (complete bitfield), every third offers nothing.",
        "assumptions": STD_ASSUME_PURE + ["broadcast channel never overflows (each connection task sees every SendOwnState), see DESIGN.md C11/C14",
                                           "new_optimistic_peers returns at most MAX_OPTIMISTIC peers, each currently choked and interested (read off the code: choose() of that filtered list)"],
    },
    "C01": {
        "lean_modules": ["RdestModel.Props.C01"],
        "cases": {"quick": 400, "thorough": 12000},
        "rule": "n/16 cases are CLOSED-LOOP runs (`sys`): the real manager (commands handled one at a time as its event loop does) and 1..4 real connection tasks over "
                "in-memory streams, connected by the real channels - replies are what handle_peer_cmd answers, not scripted; the harness plays the remote "
                "peers (handshakes, bitfields, (un)chokes, interest, Haves, answers to the block requests the client really sent - in and out of order, "
                "now and then corrupt - closes; a quarter are duels: one or two pieces, several peers with everything: end game, losers cancelled) and "
                "records per event the commands handled with the reply that went back, statuses, peer records, frames written per connection, piece "
                "files written; the driver replays the event on the joint model (hstep with the reply from mstep, Swarm/Loop) following the logged order of "
                "manager commands, and first evaluates T6 on the implementation's own data (an owned piece has a file named by its listed hash holding data "
                "with that hash); three cases are end-to-end downloads of the real session incl. extraction (the C02 scenario generator: every piece at exactly one peer, one slow peer, so a fast peer is dismissed while pieces are still Reserved), output files compared by SHA-1 with the content slices; scripts for the real connection task (in-memory stream, scratch working directory): assignments with correct and with deliberately wrong "
                "listed hashes, blocks correct / corrupt / duplicated / overlapping / unrequested / mis-indexed / truncated, several pieces per "
                "connection, cancellation by broadcast, disconnect at any point; observed: every *.piece file written (name, SHA-1 recomputed by the "
                "harness, length), PieceDone commands, termination; monitor P01 on the implementation's and the model's trace; manager side by the "
                "C12 histories; distinct = distinct scripts"
                + " Added in rounds 6/7 of the seeded evaluation: a third of the task scripts run in a download directory that already holds a stale, partial file under the name of every piece being fetched; now and then a piece of more than 2 MiB is served in order (the stored length and hash are observed from the file); blocks of another piece at exactly the offset and length of an outstanding request."
                + " Round 8: every fourth of those scripts has a *directory* in the way instead (the store fails: the task must end without reporting the piece); in the closed-loop runs every bitfield a task writes is judged like a Have (a set bit needs a verified piece file).",
        "assumptions": STD_ASSUME_PURE + ["external modification of *.piece files and SHA-1 collisions are outside; sha1 is a parameter of every theorem"],
    },
    "C11": {
        "lean_modules": ["RdestModel.Props.C11"],
        "cases": {"quick": 400, "thorough": 12000},
        "rule": "a fifth of the cases are minit = the bitfield the real manager answers Init with (Peer::handle_init) for random status vectors incl. Reserved pieces and piece counts around multiples of 8, compared with initBitfield and with the bit-position oracle; scripts for the real connection task: random interleavings of SendHave broadcasts (also for the piece being downloaded), Choke / "
                "Unchoke frames, handshake position, SendOwnState; observed: order and content of Have / Bitfield frames; monitor P11 on the "
                "implementation's and the model's trace; the manager's init bitfield is compared in the C12/C14 histories; distinct = distinct scripts",
        "assumptions": STD_ASSUME_PURE + ["the broadcast channel (capacity 32) never overflows: a task blocked in a socket write can lag and lose SendHave (runtime condition outside the model)"],
    },
    "C10": {
        "lean_modules": ["RdestModel.Props.C10"],
        "cases": {"quick": 400, "thorough": 12000},
        "rule": "(a) PieceRx::left on boundary lengths {0,1,2,B-1,B,B+1,2B-1,2B,2B+1,3B,5B+7,16B,16B+1} and random lengths up to 2 MiB vs the model and "
                "the tiling predicate; (b) scripts for the real connection task: assignments (unchoke / have / piece-done / cancel replies) of pieces "
                "of length {1,100,B-1,B,B+1,20000,2B,2B+1,40000,3B,5B+7}, blocks answered in random order, duplicated, withheld, foreign index or "
                "offset, corrupt payload, cancellation by a broadcast Have, chokes; Request frames observed on the in-memory stream; the monitor P10 "
                "evaluated on the implementation's trace and on the model's trace; distinct = distinct lines"
                + " Added in rounds 6/7: stale piece files in the download directory, a piece of more than 2 MiB now and then, blocks of another piece at exactly the offset and length of an outstanding request."
                + " Round 8: where every block of the script's piece was the real one and the implementation ends the connection instead of storing it, that is a violation of its own (piece not completed at its last outstanding block).",
        "assumptions": STD_ASSUME_PURE + ["piece length handed to the task is Metainfo::piece_length(i) (C03)"],
    },
    "C09": {
        "lean_modules": ["RdestModel.Props.C09", "RdestModel.Props.C09Whole"],
        "cases": {"quick": 400, "thorough": 12000},
        "rule": "scripts for the real connection task: after the handshake, block requests with index in/out of range, begin in "
                "{0,1,16,len-1,len,len+1,2^31,2^32-6,2^32-1}, length in {0,1,6,10,16,64,16384,16385,2^32-1} against stored pieces of 64..20000 bytes; "
                "manager replies load(present/absent file)/ignore; interleaved Choke/Unchoke broadcasts, repeated requests for the loaded piece, "
                "switches to another piece; per event outputs compared with the model; a quarter of the cases are mreq = the real manager's answer to "
                "RecvRequest (Peer::handle_request) for random statuses, all 16 combinations of the four choke/interest flags and indices in and out "
                "of range, compared with managerAnswersLoad; the monitor P09 of the theorem evaluated on the "
                "implementation's trace; a panic of the task is a violation; distinct = distinct scripts"
                + " Plus choking-policy histories on the real Session (those of C14, incl. repeated bitfields and block requests), read with C14's model and view oracle: the choke state on record is the one the peer was told.",
        "assumptions": STD_ASSUME_PURE + ["the manager answers LoadAndSendPiece only for owned pieces of an unchoked peer (Peer::handle_request, modelled in the manager model)",
                                           "the piece file holds the verified bytes (C01)"],
    },
    "C08": {
        "lean_modules": ["RdestModel.Props.C08"],
        "cases": {"quick": 400, "thorough": 12000},
        "rule": "scripts for the real connection task (in-memory stream, scripted manager): incoming and outgoing connections; frames before any "
                "handshake (bitfield, interested, request, unchoke, keep-alive, broadcast have); handshakes that are valid, carry another "
                "info-hash, another peer id, are repeated or absent; then ordinary traffic incl. requests for stored pieces; per event outputs "
                "compared with the model; the predicate P08 of the theorem evaluated on the implementation's own trace; distinct = distinct scripts"
                + " Added: `reconn` (the real run_incoming over loopback TCP: valid session, disconnect, no piece data without a handshake on any later connection) and `accept` (the real Session::run with its listener: eleven interesting listed peers fill the slots, the first listed stays queued; connections made to the client from the queued candidate's own address and from an unrelated one: bytes before the peer's handshake, answer to a foreign and to a valid handshake)."
                + " `accept u`: the variant in which the client already has its fill of connections it has no interest in.",
        "assumptions": STD_ASSUME_PURE + ["a wrong protocol string is a decode error (C06); the manager forgets the peer on KillReq (kill step, C12)"],
    },
    "C15": {
        "lean_modules": ["RdestModel.Props.C15"],
        "cases": {"quick": 5000, "thorough": 150000},
        "rule": "random values of depth <= 5: integers over the full i64 range with boundary set {0,+-1,9,10,i64::MIN,i64::MAX,+-2^31}, binary strings "
                "incl. ones made of ':' 'e' 'i' 'l' 'd' '-' and digits, empty containers, dictionary keys that are prefixes of one another; per case "
                "encode (BEncoder) then decode (BDecoder) compared with the model and with the round-trip oracle; every third case: a canonical "
                "document (encoding of 1-2 values) decoded and re-encoded must be reproduced byte for byte; distinct = distinct argument lines",
        "assumptions": STD_ASSUME_PURE + ["recursion depth of the Rust encoder/decoder on pathologically deep values (stack) is outside the model"],
    },
    "C16": {
        "lean_modules": ["RdestModel.Props.C16"],
        "cases": {"quick": 12000, "thorough": 1200000},
        "rule": "EXHAUSTIVE over all strings over the alphabet {0 1 9 i l d e : - a} up to length 4 (quick; 6 in thorough = 1.1 M strings), plus random "
                "strings of length 5..12 over that alphabet, truncations at a random position and single-byte mutations of valid documents; "
                "BDecoder::from_array result (accept/reject and the decoded values) compared with the strict grammar (oracle) and the implementation "
                "model; inputs inside the recorded class EofInsideContainer are reported as KNOWN-FINDING; distinct = distinct inputs"
                + " Directed and generated dictionaries that repeat a key (the later entry replaces the earlier one).",
        "assumptions": STD_ASSUME_PURE + ["stack overflow on nesting depth ~10^4+ is an abort, not a Rust panic, and is outside the model"],
    },
    "C18": {
        "lean_modules": ["RdestModel.Props.C18"],
        "cases": {"quick": 2500, "thorough": 40000},
        "rule": "hashes: random, drawn from {NUL & % + = space # ? / 0x7f 0x80 0xff * ~ quotes}, one byte value repeated or a run of 20 consecutive "
                "values (all 256 values occur), plain alphanumerics with one random byte; announce URLs = 5 scheme/host forms x 12 suffixes (no path, "
                "paths, one or several query pairs, empty query, escaped and '+' query values); url = create_url (hook) compared with the model and "
                "with the oracle 'base unchanged, decoded query pairs = announce pairs then info_hash = the 20 bytes'; every 25th case (20th in the "
                "thorough tier) req = the real TrackerClient::run against a loopback HTTP listener: request target and Host header compared with "
                "the model's requestUrl (incl. peer_id, port = PORT, left = total length) and the same oracle; distinct = distinct argument lines"
                + " Announce queries are generated (keys that are, contain or are contained in the client's own parameter names); `sreq`: the announce the real Session makes after its last connection is lost, with pieces already owned (`left` = the total length or the bytes of the pieces not owned).",
        "assumptions": STD_ASSUME_PURE + ["the url and reqwest crates (URL parsing, extend_pairs, HTTP/1.1 request line) are outside the model; the loopback "
                                           "requests observe them for the generated announce forms",
                                           "announce URLs without fragment ('#') and with a syntactically valid query"],
    },
    "C19": {
        "shrink_iters": 40, "shrink_cands": 12,
        "lean_modules": ["RdestModel.Props.C19"],
        "cases": {"quick": 2500, "thorough": 60000},
        "rule": "replies built from a syntax tree: interval missing/negative/wrong type/0..2^63-1; failure reason as UTF-8 string, non-UTF-8 string, "
                "integer; peers missing, compact string form, list of 0..5 entries each with one of 14 defects (ip/peer id/port missing, wrong type, "
                "non-UTF-8 ip, 19- and 21-byte ids, negative port, ports 0..2^40, non-dictionary entries, nested list) in shuffled key order; a value or "
                "a failing dictionary in front; truncations; random strings over the bencode alphabet; compared: error kind or the ordered "
                "(address:port, id) list of TrackerResp::peers() with the model; one case in sixteen is `fetch`: the real TrackerClient::run answered on "
                "the loopback with a status in {200,201,202,400,403,404,500,503} and such a body (two thirds parse; peer ids are random bytes), the "
                "first command the task sends to the manager compared with exchange(status, body). n/25 cases are connection-bookkeeping histories "
                "(`cand`, as in C02: what handle_tracker_cmd does with a reply in any manager state, T5); two cases (seven in the thorough tier) are "
                "`respawn`: the real manager loses 1..5 connections with no candidate left while its tracker task retries against a loopback tracker "
                "that answers exactly one announce well and refuses all others - the manager must take the reply without waiting (T6), no announce "
                "may follow. One case per run (four in the thorough tier: k = 0, 1, 3 and 12 "
                "listed peers) is e2e: the real Session::run in a child process against a loopback tracker that fails k times (HTTP 500, garbage, failure "
                "reason, non-UTF-8 reason, connection closed) before a good reply; observed: number of announces, whether a new connection to the "
                "listening port gets its handshake answered while announces fail, and handshakes arriving at the listed fake peers; compared with "
                "the retry model's prediction (manager free in every state, run ends contacted); distinct = distinct argument lines"
                + " Reply bodies with length prefixes that cannot be backed by data nor allocated; `cand` histories include a crowd family (12-14 interesting peers before a reply)."
                + " Long failure reasons of multi-byte characters and of bytes that are not UTF-8.",
        "assumptions": STD_ASSUME_PURE + ["part 2 (retry protocol) is a hand-abstracted model of tokio::spawn / mpsc / JoinHandle semantics; its only tie to "
                                           "the runtime is the e2e run (real time, 1 s per failed announce), so T4 is partial with respect to the real scheduler",
                                           "port 6881 is free on the machine (runs are serialised by a lock file)"],
    },
    "C20": {
        "lean_modules": ["RdestModel.Props.C20", "RdestModel.Props.C20Whole"],
        "cases": {"quick": 400, "thorough": 12000},
        "rule": "scripts for the REAL connection task (PeerHandler over an in-memory stream, scripted manager, tokio paused clock, current-thread "
                "runtime): handshake, then 3..28 events drawn from timer advances {1,30,59,60,61,119,120,121,239,240,360 s} and frames of all "
                "kinds (keep-alive, interested, not-interested, choke, have, cancel, unchoke) so that silence falls at the start, in the middle and "
                "at the end; incoming and outgoing connections; per event the frames written, commands sent and the termination are compared "
                "with the model, and the keep-alive predicate P20 (the one the theorem is about) is evaluated on the implementation's own trace; "
                "distinct = distinct scripts"
                + " Added: pieces assigned to connections that then fall silent, cancel-and-reassign between ticks, and `fullq`: silent connections whose closing tick falls into a moment when the manager's command channel is full (it must still be told)."
                + " Keep-alives that trickle in byte by byte across the ticks (`p:` events).",
        "assumptions": STD_ASSUME_PURE + ["tokio timers fire in order under the paused clock; a task blocked in a socket write does not poll its timer (outside the model)",
                                           "messages with unknown ids are dropped below the task and do not count as activity"],
    },
    "C07": {
        "lean_modules": ["RdestModel.Props.C07"],
        "cases": {"quick": 6000, "thorough": 200000},
        "rule": "messages of all eleven kinds with boundary-biased u32 fields (0,1,2^14±1,2^16±1,2^31,2^32-1) and payload sizes "
                "{0,1,16383,16384,65527,65528,random}; per case one of: serialise (impl bytes vs model `encode` vs BEP3 `layoutSpec`), "
                "serialise+trailing bytes+`Frame::parse` (vs `parseImpl`, oracle = same message and exact consumed length), "
                "bit vector -> `from_vec` -> `to_vec` (vs model, oracle = round trip and bit position); distinct = distinct argument lines"
                + " Added: every message kind through the real receive path in two segments (`st`); `snd`: `Connection::send_msg` on a loopback socket with the smallest buffers the OS grants and a remote that starts reading late - the received stream must be the concatenation of the model's encodings; `tcps`: a 16 KiB Piece and small messages arriving in parts while the receive is polled inside `select!`.",
        "assumptions": STD_ASSUME_PURE + ["`usize -> u32` truncation in the `new()` constructors is outside the property's u32 quantifier"],
    },
}

# what round 9 of the seeded evaluation added to the generators and oracles (DESIGN.md §8)
_ROUND9 = {
    "C01": "orphan families in the closed-loop runs (a connection is dropped while its piece is Reserved): a piece must not stay Reserved with no connection fetching it; a SendHave broadcast that arrives while the connection's Init is still being answered (`H` events).",
    "C02": "mode 7 of the end-to-end runs: an eager seeder that unchokes before it has announced anything and announces its pieces with Have afterwards; `lag` lines (a connection whose transport becomes ready after more broadcasts than the channel retains).",
    "C03": "`exg`: extraction with piece lengths beyond the client's own default of 256 KiB (262145, 300000, 524288) and files that take more than that out of one piece, incl. an empty file; output files reported by SHA-1 and length.",
    "C08": "handshakes whose protocol string is wrong in exactly one byte (first, middle, last) on the task scripts.",
    "C10": "keep-alives interleaved with the blocks of a download.",
    "C11": "`H` events: a SendHave broadcast while the connection's Init is being answered.",
    "C12": "bitfields with spare bits set, piece counts that are multiples of 8; an error returned by the manager's command handler counts as a panic of the manager; oracle (v): nothing picked although an eligible piece exists.",
    "C14": "a timer tick that changes a choke flag without any broadcast is a T3 violation.",
    "C15": "integers around every power of ten up to 10^19 and dictionaries with duplicate keys.",
    "C17": "udp:// and wss:// announce URLs, BEP12 announce-list decoys, an `info` key nested as a value.",
    "C18": "announce URLs with blanks and with query keys that contain the client's own parameter names; `sreq`: the request the real session sends.",
    "C19": "`retry <k>`: k tracker failures in a row under a real-clock watchdog (k in {1,5,130,random}); replies whose length prefixes cannot be backed by the data (as values of an extra key); long multi-byte failure reasons.",
}
for _k, _v in _ROUND9.items():
    PROPS[_k]["rule"] += " Round 9: " + _v

# round 10 (DESIGN.md §8)
_ROUND10 = {
    "C01": "task scripts in mode `v-`: the verified piece (stored by another connection in end game) lies under the name of the piece being fetched; a file the task removes is reported, a store of identical bytes is seen by the inode.",
    "C10": "mode `v-` as for C01.",
    "C02": "every second free end-to-end geometry has a small file strictly inside a piece (neither starting on its first byte nor reaching its end).",
    "C09": "every third block request reaches the task in two segments (cut after 1..16 of its 17 bytes).",
    "C12": "closed-loop runs: Haves for pieces on and behind the end of the torrent (np, np+1, 2^32-1), 16 fixed cases with piece counts 1, 3, 8, 9.",
}
for _k, _v in _ROUND10.items():
    PROPS[_k]["rule"] += " Round 10: " + _v
