"""Per-property configuration of ./check (case counts per tier, Lean theorem modules, notes for evidence)."""

STD_ASSUME_PURE = [
    "the hand-written Lean model corresponds to the Rust code only as far as the differential run of this check exercised it",
    "Rust std (Vec, slices, integer conversions on a 64-bit target) behaves as modelled",
]

PROPS = {
    "C07": {
        "lean_modules": ["RdestModel.Props.C07"],
        "cases": {"quick": 6000, "thorough": 200000},
        "rule": "messages of all eleven kinds with boundary-biased u32 fields (0,1,2^14±1,2^16±1,2^31,2^32-1) and payload sizes "
                "{0,1,16383,16384,65527,65528,random}; per case one of: serialise (impl bytes vs model `encode` vs BEP3 `layoutSpec`), "
                "serialise+trailing bytes+`Frame::parse` (vs `parseImpl`, oracle = same message and exact consumed length), "
                "bit vector -> `from_vec` -> `to_vec` (vs model, oracle = round trip and bit position); distinct = distinct argument lines",
        "assumptions": STD_ASSUME_PURE + ["`usize -> u32` truncation in the `new()` constructors is outside the property's u32 quantifier"],
    },
}
