#!/usr/bin/env python3
"""Render seeded/RESULTS.md from the evaluation log written by tools/eval_seeded.sh (/tmp/mut/results2.tsv)."""
import json, glob, collections, sys, os
srcs = sys.argv[1:] if len(sys.argv) > 1 else ["/tmp/mut/results3.tsv"]
rows = []
for src in srcs:   # later files override earlier ones (re-evaluation after a check was strengthened)
    rows += [l.rstrip("\n").split("\t") for l in open(src)]
by = collections.OrderedDict()
for r in rows:
    if len(r) >= 4:
        by.setdefault(r[0], collections.OrderedDict())[r[1]] = (r[2], r[3])
out = ["# Seeded changes and the checks that report them", "",
       "Each change was written by a fresh sub-agent that saw only the property's text and its own scratch worktree of /repo;",
       "each compiles (with and without `--features verif`) and passes the 71 tests. `tools/eval_seeded.sh` applies the patch to a",
       "scratch worktree, points a scratch copy of /verif at it and runs the quick checks of the property and of the related",
       "properties. `VIOLATION` = reported with a concrete failing input (replay); `tie` = reported as a broken proof obligation or",
       "correspondence without a failing input (`no-failing-input-found`); `-` = not reported.", "",
       "| change | property | what was changed | own check | other checks run |", "|---|---|---|---|---|"]
missed = []
for lab in sorted(by):
    d = by[lab]
    prop = lab.split("-")[0]
    meta = {}
    try:
        meta = json.load(open(os.path.join(os.path.dirname(__file__), "..", "seeded", lab, "meta.json")))
    except Exception:
        pass
    def verdict(p):
        if p not in d: return "not run"
        rc, o = d[p]
        if rc == "0": return "-"
        return "tie" if "no-failing-input-found" in o and o.count("VIOLATION") == o.count("no-failing-input-found") else "VIOLATION"
    own = verdict(prop)
    if own in ("-", "not run"): missed.append(lab)
    others = ", ".join("%s: %s" % (p, verdict(p)) for p in d if p != prop and p != "BASE")
    out.append("| %s | %s | %s | %s | %s |" % (lab, prop, meta.get("summary", "").replace("|", "/")[:160], own, others))
out += ["", "Not reported by the property's own check: " + (", ".join(missed) if missed else "none") + "."]
open(os.path.join(os.path.dirname(__file__), "..", "seeded", "RESULTS.md"), "w").write("\n".join(out) + "\n")
print("\n".join(out[-3:]))
