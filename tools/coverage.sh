#!/bin/bash
# How much of /repo/src do the correspondence runs reach?  (development aid, not part of any check)
# Builds the harness with source-based coverage on the nightly toolchain in a scratch copy under /tmp/cov, runs every
# property's quick generator once and prints per-file line coverage of the rdest sources plus the lines never executed.
set -e
B=$(ls -d /root/.rustup/toolchains/nightly-x86_64-unknown-linux-gnu/lib/rustlib/*/bin | head -1)
rm -rf /tmp/cov; mkdir -p /tmp/cov/run /tmp/cov/prof
rsync -a --exclude target /verif/harness/ /tmp/cov/harness/
(cd /tmp/cov/harness && LLVM_PROFILE_FILE=/tmp/cov/prof/build-%p-%m.profraw RUSTFLAGS="-C instrument-coverage" CARGO_NET_OFFLINE=true cargo +nightly build --offline >/dev/null 2>&1)
cd /tmp/cov/run
for p in C01 C02 C03 C04 C05 C06 C07 C08 C09 C10 C11 C12 C13 C14 C15 C16 C17 C18 C19 C20; do
  n=$(python3 -c "import sys; sys.path.insert(0,'/verif/tools'); import propcfg; print(propcfg.PROPS['$p']['cases']['quick'])")
  LLVM_PROFILE_FILE=/tmp/cov/prof/h-%p-%m.profraw VERIF_PORT_LOCK=/verif/.scratch/port6881.lock \
    /tmp/cov/harness/target/debug/harness gen $p 1 $n quick >/dev/null 2>&1 || true
done
$B/llvm-profdata merge -sparse /tmp/cov/prof/h-*.profraw -o /tmp/cov/all.profdata
$B/llvm-cov report /tmp/cov/harness/target/debug/harness -instr-profile=/tmp/cov/all.profdata \
  --ignore-filename-regex='(registry|rustc|harness/src|library)' | awk 'NR>2 {printf "%-34s lines=%-5s missed=%-4s %s\n", $1, $8, $9, $10}'
for f in $(ls /repo/src/*.rs /repo/src/*/*.rs); do
  $B/llvm-cov show /tmp/cov/harness/target/debug/harness -instr-profile=/tmp/cov/all.profdata $f 2>/dev/null \
    | grep -E "^ +[0-9]+\| +0\|" | grep -vE "\|\s*0\|\s*[})]*\s*$" | sed "s#^#$(basename $f): #"
done
rm -rf /tmp/cov
