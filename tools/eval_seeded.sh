#!/bin/bash
# Evaluate seeded changes against the checks WITHOUT touching /repo: a scratch copy of /verif under /tmp/verif_eval
# is pointed (VERIF_REPO + harness path dependency) at a scratch worktree /tmp/mut/eval of /repo, the patch is applied
# there, and the quick checks are run.  Usage: tools/eval_seeded.sh <patch.diff> <label> [props...]
# Result lines are appended to $RESULTS:  label <TAB> property <TAB> rc <TAB> last verdict line
set -u
PATCH=$1; LABEL=$2; shift 2
PROPS=${@:-"C01 C02 C03 C04 C05 C06 C07 C08 C09 C10 C11 C12 C13 C14 C15 C16 C17 C18 C19 C20"}
EVAL=${SEED_EVAL:-/tmp/mut/eval}
RESULTS=${SEED_RESULTS:-/tmp/mut/results3.tsv}
COPY=${SEED_COPY:-/tmp/verif_eval}
if [ ! -d $EVAL ]; then git -C /repo worktree add --detach $EVAL HEAD -q; fi
if [ ! -d $COPY ]; then
  mkdir -p $COPY
  rsync -a --exclude .git --exclude .scratch --exclude replays --exclude evidence /verif/ $COPY/
  sed -i "s#path = \"/repo\"#path = \"$EVAL\"#" $COPY/harness/Cargo.toml
  mkdir -p $COPY/evidence
fi
# keep the copy's machinery in sync with /verif (sources only)
rsync -a --exclude .git --exclude .scratch --exclude replays --exclude evidence --exclude target --exclude .lake --exclude Cargo.toml /verif/ $COPY/
git -C $EVAL checkout -q -- . && git -C $EVAL clean -fdq -e target
# the patches were written against commit 3ea956c; later fix: commits are included when the patch still applies
BASE=$(git -C /repo rev-parse HEAD)
git -C $EVAL checkout -q --detach $BASE
if ! git -C $EVAL apply "$PATCH" 2>/dev/null; then
  BASE=${SEED_BASE:-3ea956c}
  git -C $EVAL checkout -q --detach $BASE
  if ! git -C $EVAL apply "$PATCH"; then echo -e "$LABEL\t-\tAPPLY-FAILED\t-" >> $RESULTS; exit 1; fi
fi
echo -e "$LABEL\tBASE\t0\t$BASE" >> $RESULTS
for p in $PROPS; do
  out=$(cd $COPY && VERIF_REPO=$EVAL timeout 1800 ./check $p 2>&1 | tail -n 3 | tr '\n' ' ' | cut -c1-400)
  rc=$(echo "$out" | grep -c VIOLATION)
  echo -e "$LABEL\t$p\t$rc\t$out" >> $RESULTS
done
git -C $EVAL checkout -q -- .
