#!/usr/bin/env python3
"""Translator: constant items of /repo/src/**/*.rs  ->  lean/RdestModel/Gen/Constants.lean

Evaluates `const NAME: T = <expr>;` items where <expr> is built from integer literals, names of other
constants (bare, `Self::X`, `Type::X`), `+ - *`, parentheses, `as T`, byte-string literals `b"…"`,
`X.len()` and `X[i]`.  Anything outside that grammar, or a required constant that is missing, is a hard
error (exit 2): the tie to the source is then broken and the caller reports it; there are no defaults.
"""
import re, sys, os

REPO = os.environ.get("VERIF_REPO", "/repo")

# (lean name, file, scope-type or None, rust const name)
WANTED = [
    ("HASH_SIZE", "constants.rs", None, "HASH_SIZE"),
    ("PEER_ID_SIZE", "constants.rs", None, "PEER_ID_SIZE"),
    ("PIECE_BLOCK_SIZE", "constants.rs", None, "PIECE_BLOCK_SIZE"),
    ("PIECE_LENGTH", "constants.rs", None, "PIECE_LENGTH"),
    ("PORT", "constants.rs", None, "PORT"),
    ("MAX_FRAME_SIZE", "constants.rs", None, "MAX_FRAME_SIZE"),
    ("MSG_LEN_SIZE", "constants.rs", None, "MSG_LEN_SIZE"),
    ("MSG_ID_POS", "constants.rs", None, "MSG_ID_POS"),
    ("MSG_ID_SIZE", "constants.rs", None, "MSG_ID_SIZE"),
    ("MAX_NOT_INTERESTED", "constants.rs", None, "MAX_NOT_INTERESTED"),
    ("MAX_OPTIMISTIC_ROUNDS", "constants.rs", None, "MAX_OPTIMISTIC_ROUNDS"),
    ("MAX_OPTIMISTIC", "constants.rs", None, "MAX_OPTIMISTIC"),
    ("MAX_UNCHOKED", "constants.rs", None, "MAX_UNCHOKED"),
    ("END_GAME_LIMIT", "session.rs", None, "END_GAME_LIMIT"),
    ("CHANNEL_SIZE", "session.rs", None, "CHANNEL_SIZE"),
    ("BROADCAST_CHANNEL_SIZE", "session.rs", None, "BROADCAST_CHANNEL_SIZE"),
    ("CHANGE_STATE_INTERVAL_SEC", "session.rs", None, "CHANGE_STATE_INTERVAL_SEC"),
    ("KEEP_ALIVE_LIMIT", "peer_handler.rs", None, "KEEP_ALIVE_LIMIT"),
    ("KEEP_ALIVE_INTERVAL_SEC", "peer_handler.rs", None, "KEEP_ALIVE_INTERVAL_SEC"),
    ("STATS_INTERVAL_SEC", "peer_handler.rs", None, "STATS_INTERVAL_SEC"),
    ("MAX_STATS_QUEUE_SIZE", "peer_handler.rs", None, "MAX_STATS_QUEUE_SIZE"),
    ("TRACKER_DELAY_MS", "tracker_client.rs", None, "DELAY_MS"),
    ("CHOKE_ID", "messages/choke.rs", "Choke", "ID"),
    ("CHOKE_LEN", "messages/choke.rs", "Choke", "LEN"),
    ("UNCHOKE_ID", "messages/unchoke.rs", "Unchoke", "ID"),
    ("UNCHOKE_LEN", "messages/unchoke.rs", "Unchoke", "LEN"),
    ("INTERESTED_ID", "messages/interested.rs", "Interested", "ID"),
    ("INTERESTED_LEN", "messages/interested.rs", "Interested", "LEN"),
    ("NOT_INTERESTED_ID", "messages/not_interested.rs", "NotInterested", "ID"),
    ("NOT_INTERESTED_LEN", "messages/not_interested.rs", "NotInterested", "LEN"),
    ("HAVE_ID", "messages/have.rs", "Have", "ID"),
    ("HAVE_LEN", "messages/have.rs", "Have", "LEN"),
    ("BITFIELD_ID", "messages/bitfield.rs", "Bitfield", "ID"),
    ("BITFIELD_BITS_IN_BYTE", "messages/bitfield.rs", "Bitfield", "BITS_IN_BYTE"),
    ("BITFIELD_BYTE_MASK", "messages/bitfield.rs", "Bitfield", "BYTE_MASK"),
    ("REQUEST_ID", "messages/request.rs", "Request", "ID"),
    ("REQUEST_LEN", "messages/request.rs", "Request", "LEN"),
    ("PIECE_ID", "messages/piece.rs", "Piece", "ID"),
    ("PIECE_MIN_LEN", "messages/piece.rs", "Piece", "MIN_LEN"),
    ("CANCEL_ID", "messages/cancel.rs", "Cancel", "ID"),
    ("CANCEL_LEN", "messages/cancel.rs", "Cancel", "LEN"),
    ("KEEP_ALIVE_LEN", "messages/keep_alive.rs", "KeepAlive", "LEN"),
    ("KEEP_ALIVE_FULL_SIZE", "messages/keep_alive.rs", "KeepAlive", "FULL_SIZE"),
    ("HANDSHAKE_PROTOCOL_ID", "messages/handshake.rs", "Handshake", "PROTOCOL_ID"),
    ("HANDSHAKE_RESERVED_SIZE", "messages/handshake.rs", "Handshake", "RESERVED_SIZE"),
    ("HANDSHAKE_ID_FROM_PROTOCOL", "messages/handshake.rs", "Handshake", "ID_FROM_PROTOCOL"),
    ("HANDSHAKE_LEN", "messages/handshake.rs", "Handshake", "LEN"),
    ("HANDSHAKE_FULL_SIZE", "messages/handshake.rs", "Handshake", "FULL_SIZE"),
]


class TieError(Exception):
    pass


def strip_comments(src):
    src = re.sub(r"//[^\n]*", "", src)
    src = re.sub(r"/\*.*?\*/", "", src, flags=re.S)
    return src


CONST_RE = re.compile(r"\bconst\s+([A-Z][A-Z0-9_]*)\s*:")


def load_consts(path):
    src = strip_comments(open(path).read())
    out = {}
    for m in CONST_RE.finditer(src):
        i = m.end()
        # type: up to the first '=' (types here never contain '=')
        eq = src.find("=", i)
        if eq < 0:
            continue
        j, depth, in_str = eq + 1, 0, False
        while j < len(src):
            c = src[j]
            if in_str:
                if c == "\\":
                    j += 1
                elif c == '"':
                    in_str = False
            elif c == '"':
                in_str = True
            elif c in "([":
                depth += 1
            elif c in ")]":
                depth -= 1
            elif c == ";" and depth == 0:
                break
            j += 1
        out[m.group(1)] = src[eq + 1:j].strip()
    return out


TOK = re.compile(r"""\s*(?:
    (?P<bstr>b"(?:[^"\\]|\\.)*") |
    (?P<num>0b[01_]+|0x[0-9a-fA-F_]+|[0-9][0-9_]*(?:u8|u16|u32|u64|usize|i32|i64)?) |
    (?P<path>[A-Za-z_][A-Za-z0-9_]*(?:::[A-Za-z_][A-Za-z0-9_]*)*) |
    (?P<op>\.len\(\)|[-+*()\[\]&])
)""", re.X)


def tokenize(s):
    pos, toks = 0, []
    while pos < len(s):
        if s[pos:].strip() == "":
            break
        m = TOK.match(s, pos)
        if not m:
            raise TieError("cannot tokenize %r at %d" % (s, pos))
        pos = m.end()
        kind = m.lastgroup
        toks.append((kind, m.group(kind)))
    return toks


class Ev:
    def __init__(self, local, glob, name):
        self.local, self.glob, self.name = local, glob, name
        self.depth = 0

    def lookup(self, path):
        base = path.split("::")[-1]
        own = self.name.split("::")[-1]
        bare_self_reference = "::" not in path and base == own
        if base in self.local and not bare_self_reference:
            return Ev(self.local, self.glob, self.name.split("::")[0] + "::" + base).eval_str(self.local[base])
        if base in self.glob:
            return Ev(self.glob, {}, base).eval_str(self.glob[base])
        raise TieError("unknown name %s while evaluating %s" % (path, self.name))

    def eval_str(self, s):
        self.depth += 1
        if self.depth > 50:
            raise TieError("cyclic constant " + self.name)
        toks = tokenize(s)
        v, i = self.expr(toks, 0)
        if i != len(toks):
            raise TieError("trailing tokens in %r (%s)" % (s, self.name))
        self.depth -= 1
        return v

    def expr(self, t, i):
        v, i = self.term(t, i)
        while i < len(t) and t[i] == ("op", "+") or i < len(t) and t[i] == ("op", "-"):
            op = t[i][1]
            w, i = self.term(t, i + 1)
            v = v + w if op == "+" else v - w
        return v, i

    def term(self, t, i):
        v, i = self.cast(t, i)
        while i < len(t) and t[i] == ("op", "*"):
            w, i = self.cast(t, i + 1)
            v = v * w
        return v, i

    def cast(self, t, i):
        v, i = self.post(t, i)
        while i + 1 < len(t) and t[i] == ("path", "as") and t[i + 1][0] == "path":
            i += 2
        return v, i

    def post(self, t, i):
        v, i = self.atom(t, i)
        while i < len(t):
            if t[i] == ("op", ".len()"):
                if not isinstance(v, bytes):
                    raise TieError(".len() of non-bytes in " + self.name)
                v = len(v); i += 1
            elif t[i] == ("op", "["):
                idx, j = self.expr(t, i + 1)
                if j >= len(t) or t[j] != ("op", "]"):
                    raise TieError("missing ] in " + self.name)
                v = v[idx]; i = j + 1
            else:
                break
        return v, i

    def atom(self, t, i):
        if i >= len(t):
            raise TieError("unexpected end in " + self.name)
        k, s = t[i]
        if k == "num":
            s2 = re.sub(r"(u8|u16|u32|u64|usize|i32|i64)$", "", s).replace("_", "")
            return int(s2, 0), i + 1
        if k == "bstr":
            body = s[2:-1]
            return body.encode("latin1").decode("unicode_escape").encode("latin1"), i + 1
        if k == "op" and s == "(":
            v, j = self.expr(t, i + 1)
            if j >= len(t) or t[j] != ("op", ")"):
                raise TieError("missing ) in " + self.name)
            return v, j + 1
        if k == "op" and s == "&":
            return self.atom(t, i + 1)
        if k == "path":
            return self.lookup(s), i + 1
        raise TieError("unexpected token %r in %s" % (s, self.name))


def generate():
    src = os.path.join(REPO, "src")
    glob = load_consts(os.path.join(src, "constants.rs"))
    lines = [
        "namespace Rdest.Gen",
        "",
    ]
    values = {}
    for lean_name, rel, _scope, rust_name in WANTED:
        path = os.path.join(src, rel)
        if not os.path.exists(path):
            raise TieError("source file missing: " + rel)
        local = load_consts(path)
        if rust_name not in local:
            raise TieError("constant %s not found in %s" % (rust_name, rel))
        v = Ev(local, glob, rel + "::" + rust_name).eval_str(local[rust_name])
        values[lean_name] = v
        if isinstance(v, bytes):
            lines.append("def %s : List UInt8 := [%s]" % (lean_name, ", ".join(str(b) for b in v)))
            lines.append("@[simp] theorem %s_val : %s = [%s] := rfl" % (lean_name, lean_name, ", ".join(str(b) for b in v)))
        else:
            if v < 0:
                raise TieError("negative constant " + lean_name)
            lines.append("def %s : Nat := %d" % (lean_name, v))
            lines.append("@[simp] theorem %s_val : %s = %d := rfl" % (lean_name, lean_name, v))
    lines += ["", "end Rdest.Gen", ""]
    return "\n".join(lines), values


if __name__ == "__main__":
    args = [a for a in sys.argv[1:] if not a.startswith("--")]
    out = args[0] if args else os.path.join(os.path.dirname(os.path.abspath(__file__)), "..", "lean", "RdestModel", "Gen", "Constants.lean")
    try:
        text, values = generate()
    except TieError as e:
        print("TIE-BROKEN gen_constants: %s" % e)
        sys.exit(2)
    old = open(out).read() if os.path.exists(out) else None
    if old != text:
        os.makedirs(os.path.dirname(out), exist_ok=True)
        open(out, "w").write(text)
    if "--print" in sys.argv:
        for k, v in values.items():
            print(k, v)
