import RdestModel.Gen.Constants
import RdestModel.Bytes
