import Driver.Wire
import Driver.Swarm
namespace Driver
open Rdest Rdest.Swarm

def c13 (args res : List String) : Verdict :=
  -- `chb`: the same question, the advertised sets having reached the session as Bitfield messages
  let args := match args with | "chb" :: t => "ch" :: t | a => a
  match args, res with
  | ["ch", sts, peers, target], [answers] =>
    match parseStatuses sts, target.toNat? with
    | some st, some t =>
      let ps : List Pieces := (peers.splitOn ";").map bitsOfString
      let tgt := ps.getD t []
      let answers := (answers.splitOn ",").map (fun a => if a = "-" then (some none : Option (Option Nat)) else a.toNat?.map some)
      if answers.any (·.isNone) then
        if res = ["P"] then vProp "panic" "ch" else vBad (joinToks args)
      else
        let ans := answers.filterMap id
        let endGame := decide (stillMissing st < Rdest.Gen.END_GAME_LIMIT)
        let nElig := ((List.range st.length).filter (fun j => decide (eligible st ps tgt j))).length
        let tag := (if endGame then "endgame" else "normal") ++
          (if nElig = 0 then "-none" else if nElig = 1 then "-one" else "-many") ++
          (if ans.eraseDups.length > 1 then "-tiebreak-seen" else "")
        -- the model of the nondeterministic function is its admissible set (theorems T1/T2 + admissible_iff)
        match ans.find? (fun r => !admissible st ps tgt r) with
        | some bad =>
          let clause := match bad with
            | none => "T2-none-although-eligible-exists"
            | some i => if decide (eligible st ps tgt i) then "T1-not-rarest" else "T1-not-eligible"
          vProp clause tag
        | none => vOk tag
    | _, _ => vBad (joinToks args)
  | _, ["P"] => vProp "panic" "ch"
  | _, _ => vBad (joinToks args)

end Driver
