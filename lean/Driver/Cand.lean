import Driver.C12
import RdestModel.Swarm.Cand
namespace Driver
open Rdest Rdest.Swarm Rdest.Gen
open Rdest.Swarm.Book (bkstep cinit CEv)

def candsTok (l : List Nat) : String := if l.isEmpty then "-" else ".".intercalate (l.map toString)

def parseCands (t : String) : List Nat := if t = "-" then [] else (t.splitOn ".").filterMap (·.toNat?)

structure CandSnap where
  reply : String
  st : List Status
  peers : List ImplPeer
  interested : Nat           -- peers we are interested in (flag `I`)
  extracted : Bool
  cands : List Nat
  held : Bool

def parseCandSnap (out : String) : Option CandSnap :=
  match out.splitOn "|" with
  | [reply, stS, psS, xS, cS, hS] =>
    let amInt := if psS = "-" then 0 else ((psS.splitOn ",").filter fun e =>
      match e.splitOn ":" with
      | [_, _, fl] => fl.toList.getD 1 'n' = 'I'
      | _ => false).length
    some { reply := reply, st := (parseStatuses stS).getD [], peers := parseImplPeers psS, interested := amInt,
           extracted := xS = "x", cands := parseCands cS, held := hS = "y" }
  | _ => none

/-- C02/C19: histories of the connection bookkeeping (`cand <np> <tie-seed> <ops>`). The statements of T5 (Props/C02,
    Props/C19) are evaluated on the implementation's own snapshots first; then every snapshot is compared with the
    model (`bkstep`). -/
def c02cand (args res : List String) : Verdict :=
  match args, res with
  | [nps, _tieSeed, ops], [outs] =>
    match nps.toNat? with
    | none => vBad "npieces"
    | some np =>
    let opl := ops.splitOn ";"
    let outl := outs.splitOn ";"
    let limit := MAX_UNCHOKED + MAX_OPTIMISTIC
    -- prev: the implementation's previous snapshot; seen: every address the implementation ever had a record for;
    -- listed: every address listed so far
    let rec go : List String → List String → Book.CState → Option CandSnap → List Nat → List Nat → Nat → Option Verdict
      | [], _, _, _, _, _, _ => none
      | _ :: _, [], _, _, _, _, _ => some (vBad "fewer outputs than ops")
      | op :: ops, out :: outs, c, prev, seen, listed, k =>
        let ch := op.toList.headD ' '
        let rest := String.ofList (op.toList.drop 1)
        let (aS, argS) := match rest.splitOn ":" with
          | [a, b] => (a, b)
          | _ => (rest, "")
        let s := c.x.m
        -- enabledness (the property's quantifier): an event no connection task can emit in this state is not a history
        -- of the client (a shrinker or generator slip), whatever the implementation does with it
        let a? := aS.toNat?
        let p := a?.bind (findPeer s ·)
        let enabled : Bool := match ch with
          | 'T' => true
          | 'F' => true
          | 'K' => a?.isSome
          | 'a' => a?.isSome && p.isNone
          | 'd' => (p.bind (·.rx)).isSome
          | 'x' => match p.bind (·.rx) with | some y => s.statuses.getD y .missing = .have | none => false
          | 'h' => p.isSome && (match argS.toNat? with | some i => decide (i < np) | none => false)
          | 'b' => p.isSome && (bitsOfString argS).length = np
          | _ => p.isSome
        if !enabled then some { text := s!"unrealizable-history op {op}", tag := "unrealizable" } else
        if out = "PANIC" then some (vProp "v-manager-panic" s!"op-{ch}") else
        if out = "HANG" then some (vProp "v-manager-hangs" s!"op-{ch}") else
        match parseCandSnap out with
        | none => some (vBad out)
        | some snap =>
        let prevCands := (prev.map (·.cands)).getD []
        let prevInterested := (prev.map (·.interested)).getD 0
        let implConnected (a : Nat) : Bool := snap.peers.any (·.addr = a)
        let implComplete : Bool := decide (stillMissing snap.st = 0)
        let seen' := seen ++ (snap.peers.map (·.addr))
        let a := a?.getD 0
        let target := (findPeer s a).map (·.pieces) |>.getD []
        let allPieces := s.peers.map (·.pieces)
        let stAtChoice : List Status := match ch with
          | 'd' => match (findPeer s a).bind (·.pieceIndex) with | some y => modifyAt s.statuses y (fun _ => .have) | none => s.statuses
          | 'x' => match (findPeer s a).bind (·.pieceIndex) with | some y => modifyAt s.statuses y decr | none => s.statuses
          | _ => s.statuses
        let haveIdx : Nat := (argS.toNat?).getD 0
        let piecesAtChoice : List Pieces := match ch with
          | 'b' => s.peers.map (fun p => if p.addr = a then bitsOfString argS else p.pieces)
          | 'h' => s.peers.map (fun p => if p.addr = a then p.pieces.set haveIdx true else p.pieces)
          | _ => allPieces
        let tgtAtChoice : Pieces := if ch = 'b' then bitsOfString argS else if ch = 'h' then target.set haveIdx true else target
        let noneOk := admissible stAtChoice piecesAtChoice tgtAtChoice none
        let someElig : Option Nat := (List.range np).find? (fun j => decide (eligible stAtChoice piecesAtChoice tgtAtChoice j))
        let reply := snap.reply
        let replyIdx : Option Nat := if reply.startsWith "R" then (reply.drop 2).toString.toNat? else none
        let chosen : Option Nat := match replyIdx with
          | some i => some i
          | none => if ch = 'b' then (if reply = "BI" then someElig else none)
                    else if ch = 'h' ∧ reply = "In" then someElig
                    else if noneOk then none else someElig
        let listedNow : List Nat := if ch = 'T' then parseCands rest else []
        let ev : Option CEv := match ch with
          | 'T' => some (.trackerResp listedNow)
          | 'F' => some .trackerFail
          | 'K' => some (.peer (.kill a))
          | 'a' => some (.peer (.add a np))
          | 'c' => some (.peer (.choke a))
          | 'u' => some (.peer (.unchoke a chosen))
          | 'i' => some (.peer (.interested a))
          | 'n' => some (.peer (.notInterested a chosen))
          | 'h' => argS.toNat?.map (fun i => .peer (.have a i chosen))
          | 'b' => some (.peer (.bitfield a (bitsOfString argS) chosen))
          | 'd' => some (.peer (.pieceDone a chosen))
          | 'x' => some (.peer (.pieceCancel a chosen))
          | _ => none
        match ev with
        | none => some (vBad op)
        | some ev =>
        let listed' := listed ++ listedNow
        -- T5 (C19): a reply contacts the last `limit - interested` of the queued and listed addresses
        let all := prevCands ++ listedNow
        let n := limit - prevInterested
        let t5reply : Option String :=
          if ch ≠ 'T' then none
          else if snap.cands ≠ all.take (all.length - n) then some "T5-reply-candidates-left-queued-differ"
          else if (all.drop (all.length - n)).any (fun b => !implConnected b) then some "T5-reply-listed-peer-not-contacted"
          else if snap.held then some "T5-reply-tracker-handle-not-released"
          else none
        -- T5b (C02): a dry peer / a lost connection brings the next candidate
        let dry : Bool := ch = 'K' || ((ch = 'u' || ch = 'd' || ch = 'x') && reply = "Ni") || (ch = 'b' && reply = "Bn")
        let t5dry : Option String :=
          if dry && !implComplete then
            match prevCands.getLast? with
            | some b =>
              if snap.cands ≠ prevCands.dropLast then some "T5b-next-candidate-not-taken"
              else if !implConnected b then some "T5b-next-candidate-not-contacted"
              else none
            | none => if ch = 'K' && !snap.held then some "T5c-no-reannounce-with-no-candidate-left" else none
          else none
        -- T5a (C02): nothing listed is forgotten
        let t5known : Option String :=
          if listed'.any (fun b => !(snap.cands.contains b) && !(seen'.contains b)) then some "T5a-listed-peer-forgotten" else none
        match t5reply, t5dry, t5known with
        | some cl, _, _ => some (vProp cl s!"op-{ch}")
        | _, some cl, _ => some (vProp cl s!"op-{ch}")
        | _, _, some cl => some (vProp cl s!"op-{ch}")
        | none, none, none =>
        match bkstep true c ev with
        | none => some (vDiff "model-panics" out s!"op-{ch}")
        | some (c', r) =>
          let modelReply := if ch = 'b' then (if chosen.isSome then "BI" else "Bn") else replyTok r
          let model := s!"{modelReply}|{statusesTok c'.x.m.statuses}|{mpeersTok c'.x.m.peers}|{if c'.x.extracted then "x" else "-"}|{candsTok c'.cands}|{if c'.trackerHeld then "y" else "n"}"
          if model ≠ out then some (vDiff s!"op-{ch}-step{k}" model s!"op-{ch}")
          else go ops outs c' (some snap) seen' listed' (k + 1)
    match go opl outl (cinit np false) none [] [] 0 with
    | some v => v
    | none =>
      let has (chr : Char) := opl.any (fun o => o.toList.headD ' ' = chr)
      let many := opl.any (fun o => o.toList.headD ' ' = 'T' && (o.splitOn ".").length > 11)
      vOk s!"cand{if many then "-more-than-eleven-listed" else ""}{if has 'K' then "-kill" else ""}{if has 'd' then "-done" else ""}{if has 'F' then "-fail" else ""}"
  | _, _ => vBad (joinToks args)

end Driver
