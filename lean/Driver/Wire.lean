import Driver.Util
import RdestModel.Wire.Frame
namespace Driver
open Rdest Rdest.Wire

def msgToToks : Msg → List String
  | .handshake h p => ["hs", toHex h, toHex p]
  | .keepAlive => ["ka"]
  | .choke => ["ch"]
  | .unchoke => ["un"]
  | .interested => ["in"]
  | .notInterested => ["ni"]
  | .haveP i => ["hv", toString i]
  | .bitfield bs => ["bf", toHex bs]
  | .request i b l => ["rq", toString i, toString b, toString l]
  | .piece i b blk => ["pc", toString i, toString b, toHex blk]
  | .cancel i b l => ["cn", toString i, toString b, toString l]

def msgOfToks : List String → Option Msg
  | ["hs", h, p] => do return .handshake (← parseHex h) (← parseHex p)
  | ["ka"] => some .keepAlive
  | ["ch"] => some .choke
  | ["un"] => some .unchoke
  | ["in"] => some .interested
  | ["ni"] => some .notInterested
  | ["hv", i] => do return .haveP (← i.toNat?)
  | ["bf", b] => do return .bitfield (← parseHex b)
  | ["rq", i, b, l] => do return .request (← i.toNat?) (← b.toNat?) (← l.toNat?)
  | ["pc", i, b, blk] => do return .piece (← i.toNat?) (← b.toNat?) (← parseHex blk)
  | ["cn", i, b, l] => do return .cancel (← i.toNat?) (← b.toNat?) (← l.toNat?)
  | _ => none

def parseOutToks : ParseOut → List String
  | .frame m n => ["F", toString n] ++ msgToToks m
  | .skip n => ["S", toString n]
  | .incomplete => ["I"]
  | .fatal => ["X"]

/-- Verdict for one line: (`ok` | `diff …` | `prop …`, coverage tag). -/
structure Verdict where
  text : String
  tag : String := ""

def vOk (tag : String) : Verdict := { text := "ok", tag }
def vDiff (what : String) (model : String) (tag : String) : Verdict := { text := s!"diff {what} model={model}", tag }
def vProp (clause : String) (tag : String) : Verdict := { text := s!"prop {clause}", tag }
def vBad (line : String) : Verdict := { text := s!"bad-line {line}", tag := "bad" }

def msgKind : Msg → String
  | .handshake .. => "hs" | .keepAlive => "ka" | .choke => "ch" | .unchoke => "un"
  | .interested => "in" | .notInterested => "ni" | .haveP .. => "hv" | .bitfield .. => "bf"
  | .request .. => "rq" | .piece .. => "pc" | .cancel .. => "cn"

/-- C07 lines. The property oracles are evaluated on the implementation's own output first (a failing oracle is a
    violation whether or not the model agrees); only then is the model compared (correspondence). -/
def c07 (args res : List String) : Verdict :=
  match args with
  | "enc" :: m =>
    match msgOfToks m, res with
    | some msg, [r] =>
      let tag := "enc-" ++ msgKind msg
      let model := toHex (encode msg)
      if toHex (layoutSpec msg) ≠ r then vProp "T1-emitted-bytes-are-not-the-BEP3-layout" tag
      else if r ≠ model then vDiff "encode" model tag
      else vOk tag
    | _, _ => vBad (joinToks args)
  | ["snd", nS, lenS, _] =>
    -- the stream a slow reader receives from `send_msg` on a real socket: the concatenation of the encodings
    match nS.toNat?, lenS.toNat? with
    | some n, some len =>
      let block (k : Nat) : Bytes := (List.range len).map fun j => ((k * 31 + j * 7 + 3) % 251).toUInt8
      let stream : Bytes := (List.range n).flatMap fun k => encode (.piece k 0 (block k)) ++ encode (.haveP k)
      let fnv : Nat := stream.foldl (fun h b => ((h ^^^ b.toNat) * 0x100000001b3) % 18446744073709551616) 0xcbf29ce484222325
      let hexd := String.ofList ((Nat.toDigits 16 fnv))
      let pad := String.ofList (List.replicate (16 - hexd.length) '0') ++ hexd
      let model := [s!"len={stream.length}", s!"fnv={pad}"]
      if res = ["P"] then vProp "T1-send-panics" "snd"
      else if res ≠ model then vProp "T1-emitted-stream-is-not-the-concatenation-of-the-encodings" "snd"
      else vOk "snd"
    | _, _ => vBad (joinToks args)
  | ["rt", m, rest] =>
    -- round trip: impl parsed `data(m) ++ rest`; res = impl parse outcome
    match msgOfToks (m.splitOn ","), parseHex rest with
    | some msg, some restB =>
      let buf := encode msg ++ restB
      let model := parseOutToks (parseImpl buf)
      let tag := "rt-" ++ msgKind msg
      let n := (encode msg).length
      let within := decide (n ≤ 4 + Rdest.Gen.MAX_FRAME_SIZE) || msgKind msg = "hs"
      if within ∧ res ≠ parseOutToks (.frame msg n) then vProp "T2-layout-does-not-decode-to-the-same-message" tag
      else if res ≠ model then vDiff "parse" (joinToks model) tag
      else vOk (if within then tag else tag ++ "-oversize")
    | _, _ => vBad (joinToks args)
  | ["bits", n, bits] =>
    match n.toNat? with
    | some n =>
      let bs := bitsOfString bits
      let packed := fromVec bs
      let back := toVec packed n
      let model := [toHex packed, match back with | some v => stringOfBits v | none => "err"]
      let tag := if n % 8 = 0 then "bits-aligned" else "bits-unaligned"
      -- oracles on the implementation's packed bytes and decoded bits
      let implPacked := (res.head?.bind parseHex)
      let implBack := res.getD 1 "?"
      let posBad : Bool := match implPacked with
        | some pk => (List.range bs.length).any (fun i => specBit pk i ≠ bs.getD i false) ||
                     decide (pk.length ≠ (bs.length + 7) / 8)
        | none => true
      if n = bs.length ∧ implBack ≠ stringOfBits bs then vProp "T4-bitfield-does-not-round-trip" tag
      else if n = bs.length ∧ posBad = true then vProp "T4-bit-position-or-payload-length" tag
      else if res ≠ model then vDiff "bitfield" (joinToks model) tag
      else vOk tag
    | none => vBad (joinToks args)
  | _ => vBad (joinToks args)

end Driver
