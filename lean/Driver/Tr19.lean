import Driver.Wire
import RdestModel.Tracker.Resp
import RdestModel.Tracker.Retry
import RdestModel.Tracker.Respawn
import RdestModel.Gen.Constants
namespace Driver
open Rdest Rdest.Bencode Rdest.Meta Rdest.Tracker

def rErrTok : RErr → String
  | .decode => "Decode"
  | .bencodeMissing => "TrackerBEncodeMissing"
  | .dataMissing => "TrackerDataMissing"
  | .respFail (some r) => "TrackerRespFail:" ++ toHex r
  | .respFail none => "TrackerRespFail:*"
  | .badInterval => "TrackerRespFail:" ++ toHex "interval".toUTF8.toList
  | .incorrectOrMissing .interval => "TrackerIncorrectOrMissing:interval"
  | .incorrectOrMissing .peers => "TrackerIncorrectOrMissing:peers"

def respTok (r : Except RErr RespM) : String :=
  match r with
  | .error e => "err " ++ rErrTok e
  | .ok m =>
    let ps := peerAddrs m
    "ok " ++ (if ps.isEmpty then "-" else ",".intercalate (ps.map fun p => toHex p.1 ++ "=" ++ toHex p.2))

/-- Is the reply one dictionary that carries a byte-string failure reason? (Bodies with several top-level values are
    outside the tracker protocol; for them only the correspondence with the model is checked.) -/
def carriesFailure (body : Bytes) : Bool :=
  match decodeImpl body with
  | some [.dict d] => match dictGet d kFailure with
    | some (.str _) => true
    | _ => false
  | _ => false

/-- Deterministic scheduler over the retry model: returns (contacted, manager free in every state, steps). -/
def runRetry (joinOnFail : Bool) (cap : Nat) : Nat → Retry.St → Bool → Nat → Bool × Bool × Nat
  | 0, s, free, n => (s.contacted, free, n)
  | fuel + 1, s, free, n =>
    let free' := free && Retry.managerFree s
    match [Retry.Label.recv, .joined, .attempt, .send, .wake].findSome? (fun l => Retry.step joinOnFail cap s l) with
    | some s' => runRetry joinOnFail cap fuel s' free' (n + 1)
    | none => (s.contacted, free', n)

open Rdest.Tracker.Respawn in
/-- The scenario of the `respawn` op on the model (`guard = true`): `kills` lost connections with no candidate left,
    then the only live tracker task fails `goodAt - 1` announces and succeeds; the manager takes every command.
    Returns (manager free in every state, handle held at the end, tasks still announcing at the end). -/
def runRespawn (kills goodAt : Nat) : Bool × Bool × Nat :=
  let cap := Rdest.Gen.CHANNEL_SIZE
  -- the harness session is not running its loop: no tracker task before the first lost connection
  let s0 : St := ⟨[], none, [], none, 0⟩
  let sched : List Label :=
    List.replicate kills .lost ++
    (List.replicate (goodAt - 1) [Label.attempt 0 false, .send 0, .recv, .wake 0]).flatten ++
    [.attempt 0 true, .send 0, .recv, .joined]
  let rec go : List Label → St → Bool → Bool × Bool × Nat
    | [], s, free => (free && managerFree s, s.held.isSome, live s)
    | l :: ls, s, free =>
      match step true cap s l with
      | some s' => go ls s' (free && managerFree s)
      | none => (false, s.held.isSome, 1000 + ls.length)
  go sched s0 true

def c19 (args res : List String) : Verdict :=
  match args with
  | ["resp", bodyH] =>
    match parseHex bodyH with
    | none => vBad bodyH
    | some body =>
      let model := respFromBencode body
      let implOut := joinToks res
      let tag := match model with
        | .ok m => s!"reply-ok-{min m.peers.length 3}peers"
        | .error e => "reply-" ++ (match e with | .respFail _ => "failure-reason" | .badInterval => "bad-interval" | other => rErrTok other)
      if implOut = "P" then vProp "T1-reply-parsing-panics" tag
      else if carriesFailure body ∧ implOut.startsWith "ok" then vProp "T3-failure-reason-not-reported-as-failure" tag
      else
        let modelOut := respTok model
        let same := modelOut = implOut ∨ (modelOut = "err TrackerRespFail:*" ∧ implOut.startsWith "err TrackerRespFail:")
        if same then vOk tag
        else if implOut.startsWith "ok" ∧ modelOut.startsWith "ok" then vProp "T2-peers-differ-from-the-listed-well-formed-entries" tag
        else vDiff "reply" modelOut tag
  | ["fetch", statusS, bodyH] =>
    -- one real HTTP exchange on the loopback: status and body served, what the client task tells the manager observed
    match statusS.toNat?, parseHex bodyH with
    | some status, some body =>
      let implOut := joinToks res
      let model := exchange status body
      let tag := s!"fetch-{status}-{match model with | some m => s!"resp-{min m.peers.length 3}peers" | none => "fail"}"
      if implOut = "timeout" ∨ implOut = "noreq" then vBad ("loopback exchange did not run: " ++ implOut)
      else if statusSuccess status ∧ carriesFailure body ∧ implOut.startsWith "resp" then vProp "T3-failure-reason-not-reported-as-failure" tag
      else
        let modelOut := match model with
          | some m => "resp " ++ respTok (.ok m)
          | none => "fail"
        if modelOut = implOut then vOk tag
        else if model.isSome ∧ implOut = "fail" then vProp "T2-well-formed-reply-reported-as-failed-announce" tag
        else if model.isSome ∧ implOut.startsWith "resp" then vProp "T2-peers-differ-from-the-listed-well-formed-entries" tag
        else vDiff "fetch" modelOut tag
    | _, _ => vBad (joinToks args)
  | ["respawn", killsS, goodS] =>
    -- connections lost while a tracker task is retrying; the tracker answers one announce well and fails all others
    match killsS.toNat?, goodS.toNat? with
    | some kills, some goodAt =>
      let tag := s!"respawn-kills{min kills 3}-good-at-{min goodAt 3}"
      let get (key : String) : String := (res.filterMap fun t => if t.startsWith (key ++ "=") then some ((t.drop (key.length + 1)).toString) else none).headD "?"
      let (mFree, mHeld, mLive) := runRespawn kills goodAt
      if kills = 0 ∨ goodAt = 0 then vBad "respawn needs a lost connection and a good announce"
      else if get "resp" ≠ "y" then vBad ("the loopback tracker's good reply did not arrive: " ++ joinToks res)
      else if get "manager" = "blocked" then vProp "T6-manager-waits-for-a-tracker-task-that-is-still-retrying" tag
      else
        let model := s!"manager={if mFree then "free" else "blocked"} held={if mHeld then "y" else "n"} later={mLive}"
        let impl := s!"manager={get "manager"} held={get "held"} later={get "later"}"
        if model = impl then vOk tag else vDiff "respawn" model tag
    | _, _ => vBad (joinToks args)
  | ["retry", kS] =>
    -- k failed announces, then a good one (T4: every maximal execution of the retry model ends with the peers contacted, for
    -- every k): the task reports k failures and then the reply
    match kS.toNat? with
    | some k =>
      let get (key : String) : String := (res.filterMap fun t => if t.startsWith (key ++ "=") then some ((t.drop (key.length + 1)).toString) else none).headD "?"
      let tag := s!"retry-{if k ≥ 100 then "long" else "short"}"
      if res.head? = some "P" then vProp "T4-tracker-task-panics" tag
      else if get "task" = "dead" then vProp s!"T4-tracker-task-died-after-{get "fails"}-failed-announces" tag
      else if get "got" ≠ "resp" then vProp s!"T4-good-announce-never-answered-after-{get "fails"}-failures" tag
      else if get "fails" ≠ toString k then vDiff "retry-failures-reported" (toString k) tag
      else vOk tag
    | none => vBad (joinToks args)
  | ["accept", variant] =>
    -- connections made *to* the real Session (its listener): nothing is written before the peer's handshake, a foreign
    -- info-hash is answered with nothing, a valid handshake with the client's own (BEP 3 layout from the wire model)
    let get (key : String) : String := (res.filterMap fun t => if t.startsWith (key ++ "=") then some ((t.drop (key.length + 1)).toString) else none).headD "?"
    if res.head? = some "spawn-failed" ∨ res.head? = some "child-failed" then vBad ("accept harness could not run: " ++ joinToks res)
    else if get "good" ≠ "1" ∨ get "contacted" ≠ "11" then vBad ("accept scenario not set up: " ++ joinToks res)
    else
      let ownId : Bytes := "-VERIF-0000000000001".toUTF8.toList
      let expected : String := match parseHex (get "hash") with
        | some h => "pre0-post" ++ toHex (Rdest.Wire.encode (.handshake h ownId))
        | none => "?"
      if !((get "plain").startsWith "pre0-") ∨ !((get "cand").startsWith "pre0-") then
        vProp "P08-incoming-connection-written-to-before-its-handshake" "accept"
      else if variant = "u" then
        -- MAX_NOT_INTERESTED connections without interest: the listener takes no more (whoever connects gets nothing)
        if get "plain" ≠ "pre0-postx" ∨ get "cand" ≠ "pre0-postx" then vDiff "accept-beyond-the-limit" "pre0-postx" "accept-full"
        else vOk "accept-full"
      else if get "plain" ≠ "pre0-postx" then vProp "P08-foreign-info-hash-answered" "accept"
      else if get "cand" ≠ expected then vDiff "accept-valid-handshake-reply" expected "accept"
      else vOk "accept"
  | ["e2e", kS, _, nS] =>
    match kS.toNat?, nS.toNat? with
    | some k, some n =>
      let tag := s!"e2e-k{min k 4}"
      let slots := Rdest.Gen.MAX_UNCHOKED + Rdest.Gen.MAX_OPTIMISTIC
      let (mContacted, mFree, _) := runRetry false Rdest.Gen.CHANNEL_SIZE (9 * k + 7) (Retry.init k) true 0
      let get (key : String) : String := (res.filterMap fun t => if t.startsWith (key ++ "=") then some ((t.drop (key.length + 1)).toString) else none).headD "?"
      if res.head? = some "spawn-failed" ∨ res.head? = some "child-failed" then vBad ("e2e harness could not run: " ++ joinToks res)
      else if !(mContacted && mFree) then vDiff "retry-model" "model-run-does-not-end-contacted" tag
      else if get "good" ≠ "1" then vProp "T4-good-announce-never-answered" tag
      else if get "requests" ≠ toString (k + 1) then vDiff "requests" (toString (k + 1)) tag
      else if get "responsive" = "n" then vProp "T4-manager-does-not-serve-connections-while-announces-fail" tag
      else
        -- the fake peers hang up after the handshake, so the session goes on to the next candidates
        -- (C02 T5_every_candidate_gets_its_turn): at least the first `slots` are contacted, possibly all
        let enough : Bool := match (get "contacted").splitOn "/" with
          | [a, b] => (match a.toNat?, b.toNat? with
            | some a, some b => b == n && a ≥ min n slots && a ≤ n
            | _, _ => false)
          | _ => false
        if !enough then vProp s!"T4-listed-peers-not-contacted-{get "contacted"}" tag
        else vOk tag
    | _, _ => vBad (joinToks args)
  | _ => vBad (joinToks args)

end Driver
