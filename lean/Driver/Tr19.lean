import Driver.Wire
import RdestModel.Tracker.Resp
import RdestModel.Tracker.Retry
import RdestModel.Gen.Constants
namespace Driver
open Rdest Rdest.Bencode Rdest.Meta Rdest.Tracker

def rErrTok : RErr → String
  | .decode => "Decode"
  | .bencodeMissing => "TrackerBEncodeMissing"
  | .dataMissing => "TrackerDataMissing"
  | .respFail (some r) => "TrackerRespFail:" ++ toHex r
  | .respFail none => "TrackerRespFail:*"
  | .badInterval => "TrackerRespFail:" ++ toHex "interval".toUTF8.toList
  | .incorrectOrMissing .interval => "TrackerIncorrectOrMissing:interval"
  | .incorrectOrMissing .peers => "TrackerIncorrectOrMissing:peers"

def respTok (r : Except RErr RespM) : String :=
  match r with
  | .error e => "err " ++ rErrTok e
  | .ok m =>
    let ps := peerAddrs m
    "ok " ++ (if ps.isEmpty then "-" else ",".intercalate (ps.map fun p => toHex p.1 ++ "=" ++ toHex p.2))

/-- Is the reply one dictionary that carries a byte-string failure reason? (Bodies with several top-level values are
    outside the tracker protocol; for them only the correspondence with the model is checked.) -/
def carriesFailure (body : Bytes) : Bool :=
  match decodeImpl body with
  | some [.dict d] => match dictGet d kFailure with
    | some (.str _) => true
    | _ => false
  | _ => false

/-- Deterministic scheduler over the retry model: returns (contacted, manager free in every state, steps). -/
def runRetry (joinOnFail : Bool) (cap : Nat) : Nat → Retry.St → Bool → Nat → Bool × Bool × Nat
  | 0, s, free, n => (s.contacted, free, n)
  | fuel + 1, s, free, n =>
    let free' := free && Retry.managerFree s
    match [Retry.Label.recv, .joined, .attempt, .send, .wake].findSome? (fun l => Retry.step joinOnFail cap s l) with
    | some s' => runRetry joinOnFail cap fuel s' free' (n + 1)
    | none => (s.contacted, free', n)

def c19 (args res : List String) : Verdict :=
  match args with
  | ["resp", bodyH] =>
    match parseHex bodyH with
    | none => vBad bodyH
    | some body =>
      let model := respFromBencode body
      let implOut := joinToks res
      let tag := match model with
        | .ok m => s!"reply-ok-{min m.peers.length 3}peers"
        | .error e => "reply-" ++ (match e with | .respFail _ => "failure-reason" | .badInterval => "bad-interval" | other => rErrTok other)
      if implOut = "P" then vProp "T1-reply-parsing-panics" tag
      else if carriesFailure body ∧ implOut.startsWith "ok" then vProp "T3-failure-reason-not-reported-as-failure" tag
      else
        let modelOut := respTok model
        let same := modelOut = implOut ∨ (modelOut = "err TrackerRespFail:*" ∧ implOut.startsWith "err TrackerRespFail:")
        if same then vOk tag
        else if implOut.startsWith "ok" ∧ modelOut.startsWith "ok" then vProp "T2-peers-differ-from-the-listed-well-formed-entries" tag
        else vDiff "reply" modelOut tag
  | ["fetch", statusS, bodyH] =>
    -- one real HTTP exchange on the loopback: status and body served, what the client task tells the manager observed
    match statusS.toNat?, parseHex bodyH with
    | some status, some body =>
      let implOut := joinToks res
      let model := exchange status body
      let tag := s!"fetch-{status}-{match model with | some m => s!"resp-{min m.peers.length 3}peers" | none => "fail"}"
      if implOut = "timeout" ∨ implOut = "noreq" then vBad ("loopback exchange did not run: " ++ implOut)
      else if statusSuccess status ∧ carriesFailure body ∧ implOut.startsWith "resp" then vProp "T3-failure-reason-not-reported-as-failure" tag
      else
        let modelOut := match model with
          | some m => "resp " ++ respTok (.ok m)
          | none => "fail"
        if modelOut = implOut then vOk tag
        else if model.isSome ∧ implOut = "fail" then vProp "T2-well-formed-reply-reported-as-failed-announce" tag
        else if model.isSome ∧ implOut.startsWith "resp" then vProp "T2-peers-differ-from-the-listed-well-formed-entries" tag
        else vDiff "fetch" modelOut tag
    | _, _ => vBad (joinToks args)
  | ["e2e", kS, _, nS] =>
    match kS.toNat?, nS.toNat? with
    | some k, some n =>
      let tag := s!"e2e-k{min k 4}"
      let slots := Rdest.Gen.MAX_UNCHOKED + Rdest.Gen.MAX_OPTIMISTIC
      let (mContacted, mFree, _) := runRetry false Rdest.Gen.CHANNEL_SIZE (9 * k + 7) (Retry.init k) true 0
      let get (key : String) : String := (res.filterMap fun t => if t.startsWith (key ++ "=") then some ((t.drop (key.length + 1)).toString) else none).headD "?"
      if res.head? = some "spawn-failed" ∨ res.head? = some "child-failed" then vBad ("e2e harness could not run: " ++ joinToks res)
      else if !(mContacted && mFree) then vDiff "retry-model" "model-run-does-not-end-contacted" tag
      else if get "good" ≠ "1" then vProp "T4-good-announce-never-answered" tag
      else if get "requests" ≠ toString (k + 1) then vDiff "requests" (toString (k + 1)) tag
      else if get "responsive" = "n" then vProp "T4-manager-does-not-serve-connections-while-announces-fail" tag
      else if get "contacted" ≠ s!"{min n slots}/{n}" then vProp s!"T4-listed-peers-not-contacted-{get "contacted"}" tag
      else vOk tag
    | _, _ => vBad (joinToks args)
  | _ => vBad (joinToks args)

end Driver
