/- Line-protocol helpers for the correspondence driver (no Mathlib, compiled to a native executable). -/
import RdestModel.Bytes
namespace Driver
open Rdest

def hexVal (c : Char) : Option Nat :=
  if '0' ≤ c ∧ c ≤ '9' then some (c.toNat - '0'.toNat)
  else if 'a' ≤ c ∧ c ≤ 'f' then some (c.toNat - 'a'.toNat + 10)
  else if 'A' ≤ c ∧ c ≤ 'F' then some (c.toNat - 'A'.toNat + 10)
  else none

/-- Parse a token `x<hex digits>` into bytes. -/
def parseHex (tok : String) : Option Bytes :=
  match tok.toList with
  | 'x' :: cs =>
    let rec go : List Char → List UInt8 → Option Bytes
      | [], acc => some acc.reverse
      | [_], _ => none
      | a :: b :: rest, acc =>
        match hexVal a, hexVal b with
        | some x, some y => go rest (UInt8.ofNat (x * 16 + y) :: acc)
        | _, _ => none
    go cs []
  | _ => none

def hexDigit (n : Nat) : Char :=
  if n < 10 then Char.ofNat (48 + n) else Char.ofNat (87 + n)

def toHex (b : Bytes) : String :=
  String.ofList ('x' :: b.flatMap (fun x => [hexDigit (x.toNat / 16), hexDigit (x.toNat % 16)]))

def splitTokens (line : String) : List String :=
  (line.trimAscii.toString.splitOn " ").filter (· ≠ "")

/-- Split a token list at the first `|`. -/
def splitBar (toks : List String) : List String × List String :=
  let l := toks.takeWhile (· ≠ "|")
  let r := (toks.dropWhile (· ≠ "|")).drop 1
  (l, r)

def joinToks (ts : List String) : String := " ".intercalate ts

def bitsOfString (s : String) : List Bool := s.toList.filterMap (fun c => if c = '1' then some true else if c = '0' then some false else none)
def stringOfBits (bs : List Bool) : String := String.ofList ('b' :: bs.map (fun b => if b then '1' else '0'))

end Driver
