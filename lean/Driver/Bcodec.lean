import Driver.Wire
import RdestModel.Bencode.Encode
namespace Driver
open Rdest Rdest.Bencode

def hexNo (b : Bytes) : String := ((toHex b).drop 1).toString

partial def valTok : BValue → String
  | .int i => s!"i{i}"
  | .str s => "s" ++ hexNo s
  | .list items => "l(" ++ ",".intercalate (items.map valTok) ++ ")"
  | .dict es => "d(" ++ ",".intercalate (es.map fun (k, v) => hexNo k ++ "=" ++ valTok v) ++ ")"

def valsTok : Option (List BValue) → String
  | none => "err"
  | some [] => "ok"
  | some vs => "ok " ++ "|".intercalate (vs.map valTok)

/-- Parser for the value-string syntax of the harness (fuel = string length). -/
partial def parseVal (cs : List Char) : Option (BValue × List Char) :=
  match cs with
  | 'i' :: rest =>
    let num := rest.takeWhile (fun c => c = '-' ∨ c.isDigit)
    let rest' := rest.dropWhile (fun c => c = '-' ∨ c.isDigit)
    (String.ofList num).toInt?.map fun i => (.int i, rest')
  | 's' :: rest =>
    let hx := rest.takeWhile (fun c => (hexVal c).isSome)
    let rest' := rest.dropWhile (fun c => (hexVal c).isSome)
    (parseHex (String.ofList ('x' :: hx))).map fun b => (.str b, rest')
  | 'l' :: '(' :: rest =>
    let rec items (cs : List Char) (acc : List BValue) : Option (List BValue × List Char) :=
      match cs with
      | ')' :: r => some (acc.reverse, r)
      | ',' :: r => items r acc
      | _ => match parseVal cs with
        | some (v, r) => items r (v :: acc)
        | none => none
    (items rest []).map fun (vs, r) => (.list vs, r)
  | 'd' :: '(' :: rest =>
    let rec entries (cs : List Char) (acc : List (Bytes × BValue)) : Option (List (Bytes × BValue) × List Char) :=
      match cs with
      | ')' :: r => some (acc.reverse, r)
      | ',' :: r => entries r acc
      | _ =>
        let hx := cs.takeWhile (· ≠ '=')
        match parseHex (String.ofList ('x' :: hx)), (cs.dropWhile (· ≠ '=')) with
        | some k, '=' :: r => match parseVal r with
          | some (v, r') => entries r' ((k, v) :: acc)
          | none => none
        | _, _ => none
    (entries rest []).map fun (es, r) => (.dict (mkDict es), r)
  | _ => none

/-- The class of inputs covered by the recorded finding F1: the implementation's grammar (EOF closes open
    containers) accepts, the strict grammar does not. -/
def eofInsideContainer (doc : Bytes) : Bool := EofInsideContainer doc

def c16 (args res : List String) : Verdict :=
  match args, res with
  | ["dec", h], r :: _ =>
    match parseHex h with
    | none => vBad h
    | some doc =>
      let implOut := joinToks res
      if r = "P" then vProp "T1-decoder-panics" "dec" else
      let model := valsTok (decodeImpl doc)
      let strict := valsTok (decodeStrict doc)
      let tag := if strict = "err" then (if model = "err" then "dec-rejected" else "dec-eof-in-container") else
        (if doc.isEmpty then "dec-empty" else "dec-accepted")
      if implOut ≠ strict then
        -- the property: succeed exactly on well-formed input, with those values
        if implOut = model ∧ eofInsideContainer doc then { text := "known C16-F1-eof-closes-containers", tag := tag }
        else if implOut ≠ "err" ∧ strict = "err" then vProp "T3-accepts-malformed-input" tag
        else if implOut = "err" then vProp "T2-rejects-well-formed-input" tag
        else vProp "T3-wrong-values" tag
      else if implOut ≠ model then vDiff "decode" model tag
      else vOk tag
  | _, _ => vBad (joinToks args)

def c15 (args res : List String) : Verdict :=
  match args, res with
  | ["rt", vs], enc :: dec =>
    match parseVal vs.toList with
    | some (v, []) =>
      if enc = "P" then vProp "encoder-panics" "rt" else
      let menc := encode v
      let mdec := valsTok (decodeImpl menc)
      let tag := match v with | .int _ => "rt-int" | .str _ => "rt-str" | .list _ => "rt-list" | .dict _ => "rt-dict"
      -- oracles on the implementation's own output first: its encoding must decode (strictly) to the value, and be
      -- the canonical text (ascending keys, shortest integers) = the model encoder's output
      let implEnc := parseHex enc
      let strictOfImpl := implEnc.bind decodeStrict
      if joinToks dec ≠ "ok " ++ vs then vProp "T1-decode-of-encode-differs" tag
      else if (strictOfImpl.map valsTok) ≠ some ("ok " ++ vs) then vProp "T2-emitted-text-is-not-a-well-formed-encoding-of-the-value" tag
      else if enc ≠ toHex menc then vProp "T2-emitted-text-is-not-canonical" tag
      else if joinToks dec ≠ mdec then vDiff "decode" mdec tag
      else vOk tag
    | _ => vBad vs
  | ["re", h], r :: rest =>
    match parseHex h with
    | none => vBad h
    | some doc =>
      match decodeImpl doc with
      | none => if r = "err" then vOk "re-rejected" else vDiff "re" "err" "re"
      | some vals =>
        let re := vals.flatMap encode
        let model := "ok " ++ toHex re
        let implOut := joinToks res
        -- the generator only produces canonical documents (encodings): re-encoding must reproduce them
        if implOut ≠ "ok " ++ h then vProp "T3-reencoding-differs-from-canonical-document" "re"
        else if implOut ≠ model then vDiff "re" model "re"
        else vOk "re-canonical"
  | _, _ => vBad (joinToks args)

end Driver
