import Driver.Wire
import Driver.Swarm
import Driver.C14
import RdestModel.Swarm.Manager
namespace Driver
open Rdest Rdest.Swarm

def statusTok : Status → String
  | .missing => "m" | .have => "h" | .reserved n => s!"r{n}"

def statusesTok (l : List Status) : String := if l.isEmpty then "-" else ",".intercalate (l.map statusTok)

def mpeersTok (ps : List MPeer) : String :=
  if ps.isEmpty then "-" else
  ",".intercalate ((sortBy (fun (a b : MPeer) => a.addr < b.addr) ps).map fun p =>
    s!"{p.addr}:{match p.pieceIndex with | some i => toString i | none => "-"}:{if p.choked then 'c' else 'u'}{if p.amInterested then 'I' else 'n'}{if p.interested then 'i' else 'n'}")

def replyTok : Reply → String
  | .request i true => s!"Ri{i}"
  | .request i false => s!"Rq{i}"
  | .sendInterested => "In"
  | .sendNotInterested => "Ni"
  | .prepareKill => "Pk"
  | .ignore => "Ig"
  | .none => "-"

structure ImplPeer where
  addr : Nat
  pieceIndex : Option Nat
  choked : Bool

def parseImplPeers (t : String) : List ImplPeer :=
  if t = "-" then [] else
  (t.splitOn ",").filterMap fun e =>
    match e.splitOn ":" with
    | [k, pi, fl] => k.toNat?.map fun a => { addr := a, pieceIndex := pi.toNat?, choked := fl.toList.headD 'c' = 'c' }
    | _ => none

/-- Property oracle on the implementation's snapshot (I4 of DESIGN/Props.C12: a reservation has a live witness). -/
def noStale (st : List Status) (ps : List ImplPeer) (rx : Nat → Option Nat) : Option String :=
  let bad := (List.range st.length).find? fun i =>
    match st.getD i .missing with
    | .reserved n => n = 0 || !(ps.any fun p => !p.choked && p.pieceIndex = some i && rx p.addr = some i)
    | _ => false
  bad.map fun _ => "reserved-without-an-unchoked-peer-asked-for-it"

def c12core (t4 : Bool) (args res : List String) (c13 : Bool := false) : Verdict :=
  match args, res with
  | ["hist", nps, _tieSeed, ops], [outs] =>
    match nps.toNat? with
    | none => vBad "npieces"
    | some np =>
    let opl := ops.splitOn ";"
    let outl := outs.splitOn ";"
    -- `div`: the first divergence of the bookkeeping snapshot (replies still agreed); the run then goes on with the
    -- model's state, looking for a manager panic on a later event the tasks can still emit
    let rec go : List String → List String → MState → Bool → Nat → Option Verdict → Option Verdict
      | [], _, _, _, _, div => div
      | _ :: _, [], _, _, _, _ => some (vBad "fewer outputs than ops")
      | op :: ops, out :: outs, s, ext, k, div =>
        let c := op.toList.headD ' '
        let rest := String.ofList (op.toList.drop 1)
        let (aS, argS) := match rest.splitOn ":" with
          | [a, b] => (a, b)
          | _ => (rest, "")
        -- only events a connection task can emit in this state are part of the property's quantifier
        let enabled : Bool := match aS.toNat? with
          | none => false
          | some a =>
            let p := findPeer s a
            match c with
            | 'a' => p.isNone
            | 'k' => true
            | 'd' => (p.bind (·.rx)).isSome
            | 'x' => match p.bind (·.rx) with | some y => s.statuses.getD y .missing = .have | none => false
            | 'h' => p.isSome && (match argS.toNat? with | some i => decide (i < np) | none => false)
            | 'b' => p.isSome && (bitsOfString argS).length = np
            | _ => p.isSome
        if !enabled then (match div with | some d => some d | none => some { text := s!"unrealizable-history op {op}", tag := "unrealizable" }) else
        if out = "PANIC" then some (vProp (if div.isSome then "v-manager-panic-after-bookkeeping-diverged" else "v-manager-panic") s!"op-{c}") else
        match aS.toNat?, out.splitOn "|" with
        | some a, [reply, stS, psS, xS] =>
          let implSt := (parseStatuses stS).getD []
          let implPs := parseImplPeers psS
          let target := (findPeer s a).map (·.pieces) |>.getD []
          let allPieces := s.peers.map (·.pieces)
          -- statuses at the moment the implementation calls the chooser
          let stAtChoice : List Status := match c with
            | 'd' => match (findPeer s a).bind (·.pieceIndex) with | some y => modifyAt s.statuses y (fun _ => .have) | none => s.statuses
            | 'x' => match (findPeer s a).bind (·.pieceIndex) with | some y => modifyAt s.statuses y decr | none => s.statuses
            | _ => s.statuses
          -- a Have sets the announced bit before the chooser is consulted
          let haveIdx : Nat := (argS.toNat?).getD 0
          let piecesAtChoice : List Pieces := match c with
            | 'b' => s.peers.map (fun p => if p.addr = a then bitsOfString argS else p.pieces)
            | 'h' => s.peers.map (fun p => if p.addr = a then p.pieces.set haveIdx true else p.pieces)
            | _ => allPieces
          let tgtAtChoice : Pieces := if c = 'b' then bitsOfString argS else if c = 'h' then target.set haveIdx true else target
          let noneOk := admissible stAtChoice piecesAtChoice tgtAtChoice none
          let someElig : Option Nat := (List.range np).find? (fun j => decide (eligible stAtChoice piecesAtChoice tgtAtChoice j))
          let replyIdx : Option Nat := if reply.startsWith "R" then (reply.drop 2).toString.toNat? else none
          let chosen : Option Nat := match replyIdx with
            | some i => some i
            | none => if c = 'b' then (if reply = "BI" then someElig else none)
                      else if c = 'h' ∧ reply = "In" then someElig
                      else if noneOk then none else someElig
          let ev : Option Ev := match c with
            | 'a' => some (.add a np)
            | 'c' => some (.choke a)
            | 'u' => some (.unchoke a chosen)
            | 'i' => some (.interested a)
            | 'n' => some (.notInterested a chosen)
            | 'h' => argS.toNat?.map (.have a · chosen)
            | 'b' => some (.bitfield a (bitsOfString argS) chosen)
            | 'd' => some (.pieceDone a chosen)
            | 'x' => some (.pieceCancel a chosen)
            | 'k' => some (.kill a)
            | _ => none
          match ev with
          | none => some (vBad op)
          | some ev =>
            -- (iv) a request names a piece the peer advertises and the client lacks, chosen admissibly
            let askedBad : Option String := match replyIdx with
              | some i =>
                if admissible stAtChoice piecesAtChoice tgtAtChoice (some i) then none else some "iv-asked-pick-not-admissible"
              | none => none
            -- (v) the reply shows that the chooser answered "nothing" (C13: exactly when no eligible piece exists)
            let notInterestedYet : Bool := ((findPeer s a).map (·.amInterested)).getD true = false
            let revealedNone : Bool := match c with
              | 'u' => replyIdx.isNone
              | 'd' => reply = "Ni" || reply = "Pk"
              | 'x' => reply = "Ni" || reply = "Pk"
              | 'h' => reply = "Ig" && notInterestedYet
              | 'b' => reply = "Bn"
              | 'n' => reply = "Pk"
              | _ => false
            let askedBad : Option String := match askedBad with
              | some cl => some cl
              | none => if revealedNone ∧ ¬ noneOk then some "v-nothing-picked-although-an-eligible-piece-exists" else none
            match askedBad with
            | some cl => some (vProp cl s!"op-{c}")
            | none =>

            -- (i) Have is absorbing
            if (List.range np).any (fun i => s.statuses.getD i .missing = .have && implSt.getD i .missing ≠ .have) then
              some (vProp "i-have-not-absorbing" s!"op-{c}") else
            match mstep s ev with
            | .panic why => some (vDiff s!"model-panics-{why}" out s!"op-{c}")
            | .ok s' r =>
              let rx := fun addr => (s'.peers.find? (·.addr = addr)).bind (·.rx)
              match noStale implSt implPs rx with
              | some cl => some (vProp s!"ii-{cl}" s!"op-{c}")
              | none =>
                let modelReply := if c = 'b' then (if chosen.isSome then "BI" else "Bn") else replyTok r
                -- `files_extracted` (xstep): looked at after a stored piece and after a disconnect
                let ext' := ext || (checksCompletion false ev && decide (stillMissing s'.statuses = 0))
                let model := s!"{modelReply}|{statusesTok s'.statuses}|{mpeersTok s'.peers}|{if ext' then "x" else "-"}"
                -- C02/T4 on the implementation's own snapshot: started iff complete
                if t4 ∧ np > 0 ∧ xS = "x" ∧ stillMissing implSt ≠ 0 then some (vProp "T4-extraction-started-before-every-piece-is-owned" s!"op-{c}") else
                if t4 ∧ np > 0 ∧ xS ≠ "x" ∧ stillMissing implSt = 0 ∧ implSt.length = np then some (vProp "T4-every-piece-owned-but-extraction-not-started" s!"op-{c}") else
                if div.isSome then
                  -- already diverged: go on only while the replies (which drive the tasks) still agree
                  if modelReply ≠ reply then div else go ops outs s' ext' (k + 1) div
                else if model ≠ out then
                  let d := vDiff s!"op-{c}-step{k}" model s!"op-{c}"
                  if modelReply ≠ reply then some d else go ops outs s' ext' (k + 1) (some d)
                else go ops outs s' ext' (k + 1) none
        | _, _ => some (vBad out)
    match go opl outl { statuses := List.replicate np .missing, peers := [] } false 0 none with
    | some v => v
    | none =>
      let has (ch : Char) := opl.any (fun o => o.toList.headD ' ' = ch)
      vOk s!"hist{if has 'd' then "-done" else ""}{if has 'x' then "-cancel" else ""}{if has 'k' then "-kill" else ""}{if np < 10 then "-endgame" else "-normal"}"
  | _, _ => vBad (joinToks args)

def c12 (args res : List String) : Verdict := c12core false args res

/-- The manager histories as C13 reads them: every pick, also the one made on the Have path, is judged by C13's
    `admissible` (eligible and rarest). -/
def c13hist (args res : List String) : Verdict := c12core false args res (c13 := true)

/-- The manager histories as C02 reads them: T3 (the number of pieces not owned never goes up) is evaluated on the
    implementation's own snapshots first; the correspondence with the manager model (on which T2/T3 are proved) is
    the C12 comparison. -/
def c02hist (args res : List String) : Verdict :=
  match res with
  | [outs] =>
    let counts := (outs.splitOn ";").filterMap fun out =>
      match out.splitOn "|" with
      | [_, stS, _, _] => (parseStatuses stS).map stillMissing
      | _ => none
    if (counts.zip (counts.drop 1)).any (fun (a, b) => decide (a < b)) then
      vProp "T3-number-of-missing-pieces-increased" "hist"
    else c12core true ("hist" :: args) res
  | _ => vBad (joinToks args)

end Driver
