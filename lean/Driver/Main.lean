import Std.Data.HashMap
import Driver.Util
import Driver.Wire
import Driver.Conn
import Driver.C13
import Driver.C14
import Driver.C12
import Driver.Hand
import Driver.Bcodec
import Driver.Meta
import Driver.Mi
import Driver.Tr
import Driver.Tr19
import Driver.E2e
import Driver.Cand
import Driver.Sys
open Driver

def dispatch (line : String) : Verdict :=
  let toks := splitTokens line
  let (l, r) := splitBar toks
  match l with
  | "C02" :: "sys" :: args => c01sys args r
  | "C12" :: "sys" :: args => c01sys args r
  | "C12" :: "cand" :: args => c02cand args r
  | "C02" :: "hist" :: args => c02hist args r
  | "C02" :: "cand" :: args => c02cand args r
  | "C02" :: args => c02 args r
  | "C03" :: args => c03 args r
  | "C04" :: args => c04 args r
  | "C05" :: args => c05 args r
  | "C17" :: args => c17 args r
  | "C18" :: args => c18 args r
  | "C19" :: "cand" :: args => c02cand args r
  | "C19" :: args => c19 args r
  | "C06" :: "hand" :: args => handVerdict "C06" ("hand" :: args) r
  | "C06" :: args => c06 args r
  | "C07" :: "st" :: args => c06 ("st" :: args) r
  | "C07" :: "tcps" :: args => c06 ("tcps" :: args) r
  | "C07" :: args => c07 args r
  | "C12" :: args => c12 args r
  | "C15" :: "dec" :: args => c16 ("dec" :: args) r
  | "C15" :: args => c15 args r
  | "C16" :: args => c16 args r
  | "C20" :: args => handVerdict "C20" args r
  | "C08" :: "resp" :: args => c19 ("resp" :: args) r
  | "C08" :: "accept" :: args => c19 ("accept" :: args) r
  | "C08" :: args => handVerdict "C08" args r
  | "C09" :: "hist" :: args => c14 ("hist" :: args) r
  | "C09" :: args => handVerdict "C09" args r
  | "C10" :: args => handVerdict "C10" args r
  | "C11" :: "sys" :: args => c01sys args r
  | "C11" :: "cand" :: args => c02cand args r
  | "C11" :: args => handVerdict "C11" args r
  | "C01" :: "sys" :: args => c01sys args r
  | "C01" :: "e2e" :: rest => c02 ("e2e" :: rest) r
  | "C01" :: args => handVerdict "C01" args r
  | "C13" :: "hist" :: args => c13hist ("hist" :: args) r
  | "C13" :: args => c13 args r
  | "C14" :: "hand" :: args => handVerdict "C14" ("hand" :: args) r
  | "C14" :: "stats" :: args => handVerdict "C14" ("stats" :: args) r
  | "C14" :: args => c14 args r
  | _ => vBad line

partial def loop (h : IO.FS.Stream) (out : IO.FS.Stream) (cov : Std.HashMap String Nat) : IO (Std.HashMap String Nat) := do
  let line ← h.getLine
  if line.isEmpty then return cov
  if line.trimAscii.toString.isEmpty || line.startsWith "#" then
    out.putStrLn "skip"
    loop h out cov
  else
    let v := dispatch line
    out.putStrLn v.text
    loop h out (cov.insert v.tag (cov.getD v.tag 0 + 1))

def main : IO Unit := do
  let stdin ← IO.getStdin
  let stdout ← IO.getStdout
  let cov ← loop stdin stdout {}
  let items := cov.toList.toArray.qsort (fun a b => a.1 < b.1)
  let s := ", ".intercalate (items.toList.map (fun (k, v) => s!"\"{k}\": {v}"))
  stdout.putStrLn ("#coverage {" ++ s ++ "}")
