import Driver.Wire
import Driver.Mi
import RdestModel.Meta.Geometry
import RdestModel.Meta.Path
namespace Driver
open Rdest Rdest.Meta

def natList (s : String) : List Nat := if s = "-" then [] else (s.splitOn ",").filterMap (·.toNat?)

def c03 (args res : List String) : Verdict :=
  -- `exs`: the same extraction in a directory that already holds longer versions of the output files
  let args := match args with | "exs" :: t => "ex" :: t | a => a
  match args, res with
  | ["ex", pls, lens, ch], r :: rest =>
    match pls.toNat?, parseHex ch with
    | some pl, some content =>
      let ls := natList lens
      let spec := extractSpec ls content
      let model := extractImpl pl ls content
      let tag := s!"ex-pl{if pl = 1 then "1" else if pl ≥ 1000 then "big" else "small"}-files{min ls.length 4}" ++
        (if ls.any (· = 0) then "-empty" else "") ++
        (if (ranges pl ls 0).any (fun r => r.1.1 = r.2.1 ∧ r.1.2 ≠ 0) then "-inside-piece" else "")
      if r = "err" ∨ r = "noparse" ∨ r = "P" then vProp s!"T2-extraction-{r}" tag else
      let implFiles := match rest with
        | [fs] => if fs = "-" then [] else fs.splitOn ","
        | _ => []
      let specToks := spec.map toHex
      if implFiles ≠ specToks then vProp "T2-file-contents-differ-from-content-slices" tag
      else if model.map toHex ≠ implFiles then vDiff "extract" (",".intercalate (model.map toHex)) tag
      else vOk tag
    | _, _ => vBad (joinToks args)
  | ["exg", pls, lens, seedS], r :: rest =>
    -- large geometries: content from (length, seed); files compared by SHA-1 and length with the content's slices
    match pls.toNat?, seedS.toNat? with
    | some _, some seed =>
      let ls := natList lens
      let content := patternBytes ls.sum seed
      let spec := (extractSpec ls content).map fun f => s!"{toHex (Rdest.Sha1.sha1 f)}:{f.length}"
      if r = "err" ∨ r = "noparse" ∨ r = "P" then vProp s!"T2-extraction-{r}" "exg" else
      let implFiles := match rest with
        | [fs] => if fs = "-" then [] else fs.splitOn ","
        | _ => []
      if implFiles ≠ spec then vProp "T2-file-contents-differ-from-content-slices" "exg" else vOk "exg"
    | _, _ => vBad (joinToks args)
  | ["geo", pls, lens], _ =>
    match pls.toNat? with
    | some pl =>
      let ls := natList lens
      let total := totalLength ls
      let n := if pl = 0 then 0 else (total + pl - 1) / pl
      let pll := (List.range n).map (pieceLength pl total n)
      let rs := ranges pl ls 0
      let tok := fun (l : List String) => if l.isEmpty then "-" else ",".intercalate l
      let model := s!"n={n} total={total} pl={tok (pll.map toString)} ranges={tok (rs.map fun r => s!"{r.1.1}.{r.1.2}-{r.2.1}.{r.2.2}")}"
      let implOut := joinToks res
      let tag := if total % (max pl 1) = 0 then "geo-aligned" else "geo-remainder"
      if implOut = "P" then vProp "geometry-accessor-panics" tag
      -- T1: the per-piece lengths partition the content
      else if pll.sum ≠ total then vProp "T1-model-piece-lengths-do-not-sum" tag
      else if implOut ≠ model then vDiff "geo" model tag
      else vOk tag
    | none => vBad (joinToks args)
  | _, _ => vBad (joinToks args)

def bytesOfTok (t : String) : Bytes := (parseHex t).getD []

def c04 (args res : List String) : Verdict :=
  match args, res with
  | ["paths", nameH, pathsH], [out] =>
    let name := bytesOfTok nameH
    let paths := (pathsH.splitOn ",").map bytesOfTok
    let multi := decide (paths.length > 1)
    -- a single-file torrent uses the name as its path
    let model := if multi then paths.map (fun p => joinParts (outputParts true name p)) else [joinParts (outputParts false name name)]
    let implPaths := if out = "P" then [] else (out.splitOn ",").map bytesOfTok
    let tag := (if multi then "paths-multi" else "paths-single") ++
      (if (name :: paths).any (fun p => (splitSlash p).any (· = [dot, dot])) then "-dotdot" else "") ++
      (if (name :: paths).any (fun p => p.head? = some slash) then "-absolute" else "")
    if out = "P" then vProp "paths-panic" tag else
    -- oracle: every output path stays inside the start directory and has no root component
    let bad := implPaths.any fun p =>
      let comps := splitSlash p
      comps.contains "<ROOT>".toUTF8.toList || !staysInside comps
    if bad then vProp "T1-output-path-leaves-the-download-directory" tag
    else if multi ∧ implPaths.any (fun p => (splitSlash p).take (normalParts name).length ≠ normalParts name) then
      vProp "T1-multi-file-path-not-under-the-torrent-directory" tag
    else if implPaths ≠ model then vDiff "paths" (",".intercalate (model.map toHex)) tag
    else vOk tag
  | ["exq", _, _], r :: rest =>
    let listing := match rest with
      | [l] => (l.splitOn ",").map bytesOfTok
      | _ => []
    let cwdPrefix := "cwd/".toUTF8.toList
    let outside := listing.filter fun p => p.take 4 ≠ cwdPrefix
    let tag := "exq-" ++ r
    if r = "refused" then vBad (joinToks args)
    else if r = "P" then vProp "extraction-panics" tag
    else if !outside.isEmpty then vProp "T1-created-outside-the-download-directory" tag
    else vOk tag
  | _, _ => vBad (joinToks args)

end Driver
