import Driver.Wire
import RdestModel.Tracker.Url
import RdestModel.Gen.Constants
namespace Driver
open Rdest Rdest.Tracker

def strBytes (s : String) : Bytes := s.toUTF8.toList

def pairsTok (ps : List (Bytes × Bytes)) : String :=
  if ps.isEmpty then "-" else ",".intercalate (ps.map fun p => toHex p.1 ++ "=" ++ toHex p.2)

/-- What the tracker must see: the announce URL's own pairs, then info_hash (and the client's parameters). -/
def expectedPairs (announce hash : Bytes) (extra : List (Bytes × Bytes)) : List (Bytes × Bytes) :=
  (match (splitUrl announce).2 with | some q => parsePairs q | none => []) ++ (sInfoHash, hash) :: extra

/-- Percent-decoding of a request path (the `url` crate writes a raw space of the announce URL as `%20`). -/
def pctDecodeF : Nat → Bytes → Bytes
  | 0, b => b
  | _, [] => []
  | fuel + 1, c :: rest =>
    if c = 37 then
      match rest with
      | a :: b :: rest' =>
        match hexVal? a, hexVal? b with
        | some x, some y => UInt8.ofNat (16 * x + y) :: pctDecodeF fuel rest'
        | _, _ => c :: pctDecodeF fuel rest
      | _ => c :: pctDecodeF fuel rest
    else c :: pctDecodeF fuel rest

def pctDecode (b : Bytes) : Bytes := pctDecodeF b.length b

def hasBlank (b : Bytes) : Bool := b.any fun c => c = 32 || c = 9

def urlTag (announce : Bytes) (hash : Bytes) : String :=
  (match (splitUrl announce).2 with | some q => if q.isEmpty then "empty-query" else "with-query" | none => "no-query") ++
  (if hash.all isUnres then "-plain-hash" else if hash.any (fun b => b = 38 || b = 37 || b = 43 || b = 61 || b = 0 || b ≥ 128) then "-hostile-hash" else "-escaped-hash")

def c18 (args res : List String) : Verdict :=
  match args, res with
  | ["url", annH, hashH], [out] =>
    match parseHex annH, parseHex hashH with
    | some announce, some hash =>
      let tag := "url-" ++ urlTag announce hash
      if out = "P" then vProp "create-url-panics" tag else
      match parseHex out with
      | none => vBad out
      | some url =>
        let model := createUrl announce hash
        let base := (cutAt cQ url).1
        if base ≠ (splitUrl announce).1 then vProp "T3-request-does-not-go-to-the-announce-host-and-path" tag
        else if parsePairs (queryOf url) ≠ expectedPairs announce hash [] then
          vProp "T4-query-does-not-carry-announce-pairs-and-exact-info-hash" tag
        else if url ≠ model then vDiff "url" (toHex model) tag
        else vOk tag
    | _, _ => vBad (joinToks args)
  | ["sreq", sufH, hashH, idH, plenS, totalS, bits], [got, portS, targetH, hostH] =>
    -- the Session's own announce with pieces already owned: the same request; "the number of bytes left" is read as either
    -- the total length (what the client reports throughout) or the bytes of the pieces not owned yet
    match parseHex sufH, parseHex hashH, parseHex idH, plenS.toNat?, totalS.toNat?, portS.toNat? with
    | some suffix, some hash, some peerId, some plen, some total, some port =>
      let announce := strBytes s!"http://127.0.0.1:{port}" ++ suffix
      let tag := "sreq-" ++ urlTag announce hash
      if got ≠ "resp" then vProp s!"announce-not-completed-{got}" tag else
      match parseHex targetH, parseHex hostH with
      | some target, some host =>
        let base := (cutAt cQ suffix).1
        let path := if base.isEmpty then [47] else base
        let np := (total + plen - 1) / plen
        let pieceLen (i : Nat) : Nat := if i + 1 = np then total - plen * (np - 1) else plen
        let owned : Nat := ((List.range np).filter fun i => bits.toList.getD i '0' = '1').foldl (fun a i => a + pieceLen i) 0
        let ps := params peerId Rdest.Gen.PORT total
        let psTrue := ps.map fun (k, v) =>
          if k = sLeft then (k, Rdest.Bencode.natDec (total - owned)) else if k = sDownloaded then (k, Rdest.Bencode.natDec owned) else (k, v)
        let got := parsePairs (queryOf target)
        if host ≠ strBytes s!"127.0.0.1:{port}" then vProp "T3-host-header-is-not-the-announce-host" tag
        else if pctDecode (cutAt cQ target).1 ≠ pctDecode path then vProp "T3-request-path-is-not-the-announce-path" tag
        else if got ≠ expectedPairs announce hash ps ∧ got ≠ expectedPairs announce hash psTrue then
          vProp "T4-query-does-not-carry-announce-pairs-info-hash-peer-id-port-left" tag
        else vOk tag
      | _, _ => vBad (joinToks res)
    | _, _, _, _, _, _ => vBad (joinToks args)
  | ["req", sufH, hashH, idH, totalS], [got, portS, targetH, hostH] =>
    match parseHex sufH, parseHex hashH, parseHex idH, totalS.toNat?, portS.toNat? with
    | some suffix, some hash, some peerId, some total, some port =>
      let announce := strBytes s!"http://127.0.0.1:{port}" ++ suffix
      let tag := "req-" ++ urlTag announce hash
      if got ≠ "resp" then vProp s!"announce-not-completed-{got}" tag else
      match parseHex targetH, parseHex hostH with
      | some target, some host =>
        let url := requestUrl announce hash peerId Rdest.Gen.PORT total
        let base := (cutAt cQ suffix).1
        let path := if base.isEmpty then [47] else base
        let modelTarget := path ++ cQ :: queryOf url
        let ps := params peerId Rdest.Gen.PORT total
        if host ≠ strBytes s!"127.0.0.1:{port}" then vProp "T3-host-header-is-not-the-announce-host" tag
        else if pctDecode (cutAt cQ target).1 ≠ pctDecode path then vProp "T3-request-path-is-not-the-announce-path" tag
        else if parsePairs (queryOf target) ≠ expectedPairs announce hash ps then
          vProp "T4-query-does-not-carry-announce-pairs-info-hash-peer-id-port-left" tag
        -- (an announce URL with blanks is normalised by the `url` crate - outside the model: judged by the oracles only)
        else if !hasBlank announce ∧ target ≠ modelTarget then vDiff "target" (toHex modelTarget) tag
        else vOk tag
      | _, _ => vBad (joinToks res)
    | _, _, _, _, _ => vBad (joinToks args)
  | _, _ => vBad (joinToks args)

end Driver
