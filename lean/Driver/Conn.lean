import Driver.Wire
import RdestModel.Wire.Conn
namespace Driver
open Rdest Rdest.Wire

def evTok : Event → String
  | .frame m => "F:" ++ ",".intercalate (msgToToks m)
  | .closed => "C"
  | .reset => "R"
  | .fatal => "X"

def evsTok (es : List Event) : String := ";".intercalate (es.map evTok)

def natsTok (ns : List Nat) : String := ",".intercalate (ns.map toString)

/-- `cuts` token → chunk list (same convention as the harness: the remainder is the last chunk). -/
def chunksOf (cuts : String) (stream : Bytes) : Option (List Bytes) :=
  let lens : Option (List Nat) := if cuts = "-" then some [] else (cuts.splitOn ",").mapM (·.toNat?)
  match lens with
  | none => none
  | some ls =>
    let rec go : List Nat → Bytes → List Bytes → List Bytes
      | [], s, acc => (if s.isEmpty then acc else s :: acc).reverse
      | n :: ns, s, acc => go ns (s.drop n) (s.take n :: acc)
    some (go ls stream [])

def c06 (args res : List String) : Verdict :=
  match args with
  | ["pf", b] =>
    match parseHex b with
    | none => vBad (joinToks args)
    | some buf =>
      let (model, tag) := match parseFrame buf with
        | .frame m rest => (["F", ",".intercalate (msgToToks m), toString rest.length], "pf-frame-" ++ msgKind m)
        | .needMore rest => (["N", toString rest.length], if rest.length = buf.length then "pf-incomplete" else "pf-skipped-then-incomplete")
        | .fatal => (["X"], "pf-fatal")
      if res = ["P"] then vProp "T1-panic" tag
      else if res ≠ model then
        -- the model is the specification here (theorems T1..T5 are about it): a difference is a property failure
        -- when the implementation stalls (N) where the stream is decidable, or accepts what must be fatal
        match res, model with
        | "N" :: _, "X" :: _ => vProp "T5-stall-on-malformed" tag
        | "N" :: _, "F" :: _ => vProp "T3-complete-frame-not-delivered" tag
        | _, _ => vDiff "parse_frame" (joinToks model) tag
      else vOk tag
  | [kind, cuts, s] =>
    match parseHex s with
    | none => vBad (joinToks args)
    | some stream =>
      match chunksOf cuts stream with
      | none => vBad (joinToks args)
      | some chunks =>
        let spec := evsTok (decodeAll stream)
        let modelEv := evsTok (run [] chunks)
        let ret := retained [] chunks
        let tag := kind ++ "-" ++ (match (decodeAll stream).getLast? with
          | some .closed => "closed" | some .reset => "reset" | some .fatal => "fatal" | _ => "other") ++
          (if chunks.length > 1 then "-split" else "-whole")
        match res with
        | ["P"] => vProp "T1-panic" tag
        | ev :: more =>
          if ev ≠ spec then vProp "T2-events-differ-from-decodeAll" tag
          else if ev ≠ modelEv then vDiff "run" modelEv tag
          else if kind = "st" then
            match more with
            | [r] =>
              let implRet := ((r.drop 2).toString.splitOn ",").filterMap (·.toNat?)
              if implRet.any (fun n => n ≥ 65540) then vProp "T4-buffer-bound" tag
              else if implRet ≠ ret then vDiff "retained" (natsTok ret) tag
              else vOk tag
            | _ => vBad (joinToks args)
          else vOk tag
        | _ => vBad (joinToks args)
  | _ => vBad (joinToks args)

end Driver
