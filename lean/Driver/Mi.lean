import Driver.Wire
import RdestModel.Sha1
import RdestModel.Meta.Parse
import RdestModel.Gen.Constants
namespace Driver
open Rdest Rdest.Meta Rdest.Bencode Rdest.Sha1

def fldName : Fld → String
  | .announce => "announce" | .name => "name" | .info => "info"
  | .pieceLength => "piece_length" | .pieces => "pieces" | .length => "length"

def errTok : MErr → String
  | .decode => "Decode"
  | .bencodeMissing => "MetaBEncodeMissing"
  | .dataMissing => "MetaDataMissing"
  | .conflict => "MetaLenAndFilesConflict"
  | .lenOrFilesMissing => "MetaLenOrFilesMissing"
  | .invalidUtf8 f => "MetaInvalidUtf8:" ++ fldName f
  | .incorrectOrMissing f => "MetaIncorrectOrMissing:" ++ fldName f
  | .invalidU64 f => "MetaInvalidU64:" ++ fldName f
  | .notDivisible => "MetaNotDivisible:pieces"
  | .infoMissing => "InfoMissing"

def filesTok (fs : List MFile) : String :=
  if fs.isEmpty then "-" else ",".intercalate (fs.map fun f => s!"{f.length}:{toHex f.path}")

/-- Are all accessors defined (no overflow, no division by zero) for every valid piece index? -/
def accessorsSafe (m : MetaM) : Bool :=
  (totalLengthM m).isSome && (rangesM m).isSome &&
    (List.range m.pieces.length).all fun i => (pieceLengthM m i).isSome

def fieldsTok (m : MetaM) : String :=
  s!"{toHex m.announce} {toHex m.name} {m.pieceLength} {toHex m.pieces.flatten} {filesTok m.files}"

def miTag (doc : Bytes) (r : Except MErr MetaM) : String :=
  match r with
  | .ok m => "accepted-" ++ (if m.files.length = 1 then "1file" else s!"{min m.files.length 3}files") ++
      (if (decodeImpl doc).map List.length != some 1 then "-multi-toplevel" else "")
  | .error e => "rejected-" ++ errTok e

def c17mi (docH : String) (res : List String) : Verdict :=
  match parseHex docH with
  | none => vBad docH
  | some doc =>
    let model := fromBencodeImpl doc
    let tag := miTag doc model
    match res with
    | ["P"] => vProp "T1-parsing-panics" tag
    | ["err", kind] =>
      (match model with
       | .error e => if errTok e = kind then vOk tag else vDiff "error-kind" (errTok e) tag
       | .ok m => vDiff "accept" ("ok " ++ fieldsTok m) tag)
    | ["ok", ann, name, pl, pieces, files, hash, total, acc] =>
      if acc ≠ "safe" ∨ total = "P" then vProp s!"T3-accessor-panics-on-accepted-metainfo-{acc}" tag else
      (match model with
       | .error e =>
         -- accepted although the model rejects: is what was read at least what the document says?
         let raw : Option (Bytes × Bytes) := ((decodeImpl doc).getD []).findSome? fun v =>
           match v with
           | .dict d =>
             (match dictGet d kAnnounce, infoOf d with
              | some (.str a), some i => (match dictGet i kName with | some (.str n) => some (a, n) | _ => none)
              | _, _ => none)
           | _ => none
         (match raw with
          | some (a, n) =>
            if ann ≠ toHex a ∨ name ≠ toHex n then vProp "T2-accepted-with-fields-that-differ-from-the-document" tag
            else vDiff "accept" ("err " ++ errTok e) tag
          | none => vProp "T2-accepted-without-announce-or-name-in-the-document" tag)
       | .ok m =>
         let implFields := s!"{ann} {name} {pl} {pieces} {files}"
         if implFields ≠ fieldsTok m then vProp "T2-fields-differ-from-the-document" tag
         else if !accessorsSafe m then vDiff "accessor-safety" "model-says-unsafe" tag
         else if some total ≠ (totalLengthM m).map toString then vDiff "total" (toString (totalLengthM m)) tag
         else if hash ≠ toHex (sha1 m.infoSpan) then vDiff "hash" (toHex (sha1 m.infoSpan)) tag
         else vOk tag)
    | _ => vBad (joinToks res)

def patternBytes (len seed : Nat) : Bytes :=
  (List.range len).map fun i => UInt8.ofNat ((((i + seed * 40503) % 2 ^ 64) * 2654435761 % 2 ^ 32) >>> 24)

def c17create (args res : List String) : Verdict :=
  match args with
  | [nameH, trH, lenS, seedS] =>
    match parseHex nameH, parseHex trH, lenS.toNat?, seedS.toNat? with
    | some name, some tracker, some len, some seed =>
      let data := patternBytes len seed
      let pl := Rdest.Gen.PIECE_LENGTH
      let tag := "create-" ++ (if len = 0 then "empty" else if len < pl then "one-piece" else if len % pl = 0 then "aligned" else "many-pieces")
      (match res with
       | ["ok", tH, back] =>
         match parseHex tH with
         | none => vBad tH
         | some t =>
           let model := createTorrent sha1 pl name tracker data
           -- T4: the written torrent parses back to the file's name, length and chunk hashes
           let hashes := (chunks pl data.length data).map sha1
           let nPieces := hashes.length
           (match fromBencodeImpl t with
            | .ok m =>
              if m.name ≠ name ∨ m.files ≠ [⟨len, name⟩] ∨ m.pieces ≠ hashes ∨ m.pieceLength ≠ pl ∨ m.announce ≠ tracker then
                vProp "T4-created-torrent-does-not-describe-the-file" tag
              else if back ≠ s!"{len}:{nPieces}" then vProp "T4-created-torrent-read-back-differs" tag
              else if t ≠ model then vDiff "torrent-bytes" (toHex model) tag
              else vOk tag
            | .error e => vProp s!"T4-created-torrent-does-not-parse-{errTok e}" tag)
       | ["P"] => vProp "T4-create-panics" tag
       | _ => vProp ("T4-create-fails-" ++ joinToks res) tag)
    | _, _, _, _ => vBad (joinToks args)
  | _ => vBad (joinToks args)

def c17 (args res : List String) : Verdict :=
  match args with
  | "mi" :: docH :: _ => c17mi docH res
  | "create" :: rest => c17create rest res
  | _ => vBad (joinToks args)

/-- C05: the reported info-hash is the SHA-1 of the span of the top-level `info` value. -/
def c05 (args res : List String) : Verdict :=
  match args with
  | ["mi", docH, spanH] =>
    match parseHex docH with
    | none => vBad docH
    | some doc =>
      let model := fromBencodeImpl doc
      let nTop := ((decodeImpl doc).map List.length).getD 0
      let tag := (match model with | .ok _ => "accepted" | .error _ => "rejected") ++
        (if nTop > 1 then "-multi-toplevel" else "") ++
        (if (decodeStrict doc).isNone ∧ (decodeImpl doc).isSome then "-eof-closed" else "")
      (match res with
       | ["P"] => vProp "parsing-panics" tag
       | ["err", kind] =>
         (match model with
          | .error e => if errTok e = kind then vOk tag else vDiff "error-kind" (errTok e) tag
          | .ok _ => vDiff "accept" "ok" tag)
       | "ok" :: _ :: _ :: _ :: _ :: _ :: hash :: _ =>
         (match model with
          | .error e => vDiff "accept" ("err " ++ errTok e) tag
          | .ok m =>
            let expected := if spanH = "-" then some m.infoSpan else parseHex spanH
            if expected ≠ some m.infoSpan then
              { text := "unrealizable generator-span-differs-from-model-span model=" ++ toHex m.infoSpan, tag := "bad" }
            else if hash ≠ toHex (sha1 m.infoSpan) then vProp "T1-info-hash-is-not-the-sha1-of-the-top-level-info-value" tag
            else vOk tag)
       | _ => vBad (joinToks res))
  | _ => vBad (joinToks args)

end Driver
