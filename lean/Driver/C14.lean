import Driver.Wire
import RdestModel.Swarm.Choke
namespace Driver
open Rdest Rdest.Swarm

def insertSortedBy (lt : α → α → Bool) (x : α) : List α → List α
  | [] => [x]
  | y :: ys => if lt x y then x :: y :: ys else y :: insertSortedBy lt x ys
def sortBy (lt : α → α → Bool) (l : List α) : List α := l.foldr (insertSortedBy lt) []

def snapTok (s : CState) : String :=
  if s.isEmpty then "-" else
  ",".intercalate ((sortBy (fun (a b : CPeer) => a.addr < b.addr) s).map fun p =>
    s!"{p.addr}{if p.amChoked then 'c' else 'u'}{if p.interested then 'i' else 'n'}{if p.optimistic then 'o' else '-'}")

def mapTok (m : List (Nat × Bool)) : String :=
  ".".intercalate ((sortBy (fun (a b : Nat × Bool) => a.1 < b.1) m).map fun (a, b) => s!"{a}:{if b then 'c' else 'u'}")

def parseSnap (t : String) : Option CState :=
  if t = "-" then some [] else
  (t.splitOn ",").mapM fun e =>
    let ds := e.toList.takeWhile Char.isDigit
    let fl := e.toList.dropWhile Char.isDigit
    match (String.ofList ds).toNat?, fl with
    | some a, [c, i, o] => some { addr := a, amChoked := c = 'c', interested := i = 'i', optimistic := o = 'o' }
    | _, _ => none

/-- Property oracle on an implementation snapshot. -/
def t1Holds (s : CState) : Bool :=
  decide (unchokedNum s ≤ Rdest.Gen.MAX_UNCHOKED) && decide (optimisticNum s ≤ Rdest.Gen.MAX_OPTIMISTIC)

/-- T2 on (rates, newOpt, snapshot after an executed rotation). -/
def t2Holds (rate : Nat → Nat) (newOpt : List Nat) (after : CState) : Bool :=
  after.all (fun p => p.amChoked || newOpt.contains p.addr || p.interested) &&
  after.all (fun q => !(q.interested && q.amChoked && !newOpt.contains q.addr) ||
    after.all (fun p => p.amChoked || newOpt.contains p.addr || decide (rate q.addr ≤ rate p.addr))) &&
  after.all (fun p => p.interested || p.amChoked)

/-- T3: the broadcast map is exactly the set of changes. -/
def t3Holds (before after : CState) (m : List (Nat × Bool)) : Bool :=
  after.all (fun p =>
    match before.find? (·.addr = p.addr) with
    | some b => if b.amChoked ≠ p.amChoked then frameFor m p.addr = some p.amChoked else frameFor m p.addr = none
    | none => true) &&
  m.all (fun e => after.any (·.addr = e.1))

def c14 (args res : List String) : Verdict :=
  match args, res with
  | ["hist", ops], [outs] =>
    if outs = "P" then vProp "panic" "hist" else
    let opl := ops.splitOn ";"
    let outl := outs.splitOn ";"
    if opl.length ≠ outl.length then vBad "length mismatch" else
    let rec go : List (String × String) → CState → Nat → Nat → Option Verdict
      | [], _, _, _ => none
      | (op, out) :: rest, s, nrot, maxPeers =>
        let c := op.toList.headD ' '
        let arg := String.ofList (op.toList.drop 1)
        -- split `PRE[...]snapshot`
        let snapStr := (out.splitOn "]").getLast!
        let fail (v : Verdict) : Option Verdict := some v
        match parseSnap snapStr with
        | none => fail (vBad out)
        | some implSnap =>
          if !t1Holds implSnap then fail (vProp "T1-slot-bound" s!"op-{c}") else
          if c = 'r' then
            match arg.splitOn "/" with
            | [ratesS, optS] =>
              let rates : List (Nat × Nat) := if ratesS.isEmpty then [] else
                (ratesS.splitOn ",").filterMap fun kv => match kv.splitOn "=" with
                  | [k, v] => match k.toNat?, v.toNat? with | some k, some v => some (k, v) | _, _ => none
                  | _ => none
              let newOpt := if optS = "-" then [] else (optS.splitOn ",").filterMap (·.toNat?)
              -- the optimistic pick is the harness's here, and it is made on an earlier run of the prefix: the client's own
              -- random choices at the timer ticks may have gone another way this time. A pick that is not a choked, interested
              -- peer now is outside the property's quantifier (`COp.admissible`; the client itself never makes one: tick
              -- theorems): the history ends here, verified up to this point.
              let pickOk := newOpt.all fun a => match s.find? (·.addr = a) with
                | some p => p.amChoked && p.interested
                | none => false
              if !pickOk then some (vOk "hist-ends-at-an-inadmissible-harness-pick") else
              let rate := fun a => ((rates.find? (·.1 = a)).map (·.2)).getD 0
              -- impl output: R[order][map]snap
              let parts := out.splitOn "]"
              match parts with
              | [o, m, _] =>
                let orderS := String.ofList (o.toList.drop 2)
                let mapS := String.ofList (m.toList.drop 1)
                let order := if orderS.isEmpty then [] else (orderS.splitOn ".").filterMap (·.toNat?)
                let implMap : List (Nat × Bool) := if mapS.isEmpty then [] else
                  (mapS.splitOn ".").filterMap fun e => match e.splitOn ":" with
                    | [k, b] => k.toNat?.map (·, b = "c")
                    | _ => none
                -- the sorted order the implementation reports must be a descending-rate permutation of the peers
                let orderOk := order.length = s.length && s.all (fun p => order.contains p.addr) &&
                  (order.zip (order.drop 1)).all (fun (a, b) => decide (rate a ≥ rate b))
                if !orderOk then fail (vDiff "rotate-order" orderS "rotate") else
                let (s', mm) := rotate Rdest.Gen.MAX_UNCHOKED (reorder s order) newOpt
                if !t2Holds rate newOpt implSnap then fail (vProp "T2-rotation-postcondition" "rotate")
                else if !t3Holds s implSnap implMap then fail (vProp "T3-map-is-not-the-set-of-changes" "rotate")
                else if snapTok s' ≠ snapStr then fail (vDiff "rotate-state" (snapTok s') "rotate")
                else if mapTok mm ≠ mapTok implMap then fail (vDiff "rotate-map" (mapTok mm) "rotate")
                else go rest s' (nrot + 1) (max maxPeers s'.length)
              | _ => fail (vBad out)
            | _ => fail (vBad op)
          else if c = 't' then
            -- one tick of the real timer handler: `t<round>/<seeder>/<k=dl:ul,…>` → `T[round'][-|=map]snap`
            match arg.splitOn "/", out.splitOn "]" with
            | [roundS, seedS, ratesS], [rd, m, _] =>
              let rates : List (Nat × Option Nat × Option Nat) := if ratesS.isEmpty then [] else
                (ratesS.splitOn ",").filterMap fun kv => match kv.splitOn "=" with
                  | [k, v] => match k.toNat?, v.splitOn ":" with
                    | some k, [d, u] => some (k, d.toNat?, u.toNat?)
                    | _, _ => none
                  | _ => none
              let r : Rates := fun a => match rates.find? (·.1 = a) with | some e => e.2 | none => (none, none)
              let seeder := seedS = "1"
              let mS := String.ofList (m.toList.drop 1)
              let implMap : Option (List (Nat × Bool)) := if mS = "-" then none else
                some ((((String.ofList (mS.toList.drop 1)).splitOn ".").filterMap fun e => match e.splitOn ":" with
                  | [k, b] => k.toNat?.map (·, b = "c")
                  | _ => none))
              match roundS.toNat? with
              | none => fail (vBad op)
              | some round =>
                let round' := tickRound Rdest.Gen.MAX_OPTIMISTIC_ROUNDS round
                if (String.ofList (rd.toList.drop 2)).toNat? ≠ some round' then fail (vDiff "tick-round" (toString round') "tick") else
                let rate := tickRate seeder r
                if !tickReady s r then
                  -- the rotation is not carried out: nothing changes, nothing is broadcast
                  if implMap.isSome || snapTok s ≠ snapStr then fail (vDiff "tick-waits-for-rates" (s!"T[{round'}][-]" ++ snapTok s) "tick")
                  else go rest s nrot maxPeers
                else
                  match implMap with
                  | none =>
                    -- no broadcast at all: right only if no choke flag changed (T3 with the empty map)
                    if !t3Holds s implSnap [] then fail (vProp "T3-map-is-not-the-set-of-changes" "tick")
                    else fail (vDiff "tick-carried-out" "a broadcast" "tick")
                  | some im =>
                    let implNewOpt := if round' = 0 then (implSnap.filter (fun p => p.optimistic && !p.amChoked)).map (·.addr) else []
                    if !t2Holds rate implNewOpt implSnap then fail (vProp "T2-rotation-postcondition" "tick")
                    else if !t3Holds s implSnap im then fail (vProp "T3-map-is-not-the-set-of-changes" "tick")
                    else
                      let sorted := sortBy (fun (a b : CPeer) => decide (rate a.addr > rate b.addr)) s
                      let cands := optCandidates s
                      let picks : List (List Nat) := if cands.isEmpty then [[]] else cands.map ([·])
                      let results := picks.filterMap fun pk => (tick Rdest.Gen.MAX_UNCHOKED Rdest.Gen.MAX_OPTIMISTIC_ROUNDS s round r sorted pk).2
                      match results.find? (fun x => snapTok x.1 = snapStr && mapTok x.2 = mapTok im) with
                      | some x => go rest x.1 (nrot + 1) (max maxPeers x.1.length)
                      | none => fail (vDiff "tick-state" (match results.head? with | some x => snapTok x.1 | none => "-") "tick")
            | _, _ => fail (vBad op)
          else
            match arg.toNat? with
            | none => fail (vBad op)
            | some a =>
              let (s', pre) : CState × String := match c with
                | 'a' => (cstep s (.add a), "")
                | 'b' =>
                  let u := match s.find? (·.addr = a) with | some p => bitfieldUnchokes Rdest.Gen.MAX_UNCHOKED s p | none => false
                  (cstep s (.bitfield a), if u then "B[u]" else "B[-]")
                | 'i' => (cstep s (.interested a), "")
                | 'n' => (cstep s (.notInterested a), "")
                | 'k' => (cstep s (.kill a), "")
                | 'q' => (s, "")     -- a block request handled by the manager: the choke/interest state is not its business
                | _ => (s, "?")
              let model := pre ++ snapTok s'
              -- "each regular slot belongs to a peer that declared interest … peers that lost interest are choked": the
              -- interest the manager has on record must be the peer's last declaration (Interested / NotInterested)
              let interestBad := implSnap.any fun p => match s'.find? (·.addr = p.addr) with
                | some q => q.interested != p.interested
                | none => false
              if interestBad then fail (vProp "T2-interest-on-record-differs-from-the-peers-last-declaration" s!"op-{c}") else
              -- "each peer's view agrees with the client's" (T5): outside a rotation the choke flag on record changes only
              -- together with the `Unchoke` that answers this peer's bitfield
              let viewBad := implSnap.any fun p => match s.find? (·.addr = p.addr) with
                | some q => q.amChoked != p.amChoked &&
                    !(c = 'b' && p.addr = a && out.startsWith "B[u]" && q.amChoked && !p.amChoked)
                | none => false
              if viewBad then fail (vProp "T5-choke-state-on-record-changed-without-telling-the-peer" s!"op-{c}") else
              if c = 'b' ∧ (out.startsWith "B[u]") ≠ (pre = "B[u]") ∧ snapTok s' = snapStr then
                fail (vProp "T3-unchoke-frame-does-not-match-state-change" "bitfield")
              else if model ≠ out then fail (vDiff s!"op-{c}" model s!"op-{c}")
              else go rest s' nrot (max maxPeers s'.length)
    match go (opl.zip outl) [] 0 0 with
    | some v => v
    | none =>
      let nrot := (opl.filter (fun o => o.startsWith "r" || o.startsWith "t")).length
      let npeers := (opl.filter (·.startsWith "a")).length
      let ticks := if opl.any (·.startsWith "t") then "-tick" else ""
      vOk s!"hist{ticks}-rot{min nrot 3}-peers{if npeers ≤ 5 then "le5" else if npeers ≤ 10 then "le10" else "gt10"}"
  | _, _ => vBad (joinToks args)

end Driver
