import Driver.Util
import RdestModel.Swarm.Choose
namespace Driver
open Rdest Rdest.Swarm

def parseStatus (t : String) : Option Status :=
  if t = "m" then some .missing
  else if t = "h" then some .have
  else match t.toList with
    | 'r' :: ds => (String.ofList ds).toNat?.map .reserved
    | _ => none

def parseStatuses (s : String) : Option (List Status) :=
  if s = "-" then some [] else (s.splitOn ",").mapM parseStatus

end Driver
