import Driver.Hand
import Driver.C12
import RdestModel.Swarm.Loop
import RdestModel.Swarm.Init
namespace Driver
open Rdest Rdest.Wire Rdest.Swarm Rdest.Swarm.Loop

/-- One entry of the implementation's log: connection, command token, reply token. -/
structure LogE where
  k : Nat
  cmd : String
  reply : String
  deriving Repr, Inhabited

def parseLog (t : String) : Option (List LogE) :=
  if t = "-" then some [] else
  (t.splitOn "+").mapM fun e =>
    match e.splitOn ">" with
    | [l, r] =>
      match l.splitOn ":" with
      | k :: rest => k.toNat?.map fun k => { k := k, cmd := ":".intercalate rest, reply := r }
      | _ => none
    | _ => none

structure SysM where
  m : MState
  tasks : List (Nat × HState)     -- live and dead tasks by connection number
  writes : List (Nat × List String) := []   -- per connection, the frames the model wrote in this event
  files : List String := []      -- piece files the model wrote in this event
  deriving Inhabited

def getTask (S : SysM) (k : Nat) : Option HState := (S.tasks.find? (·.1 = k)).map (·.2)
def setTask (S : SysM) (k : Nat) (t : HState) : SysM := { S with tasks := (k, t) :: S.tasks.filter (·.1 ≠ k) }
def addWrites (S : SysM) (k : Nat) (ws : List String) : SysM :=
  if ws.isEmpty then S else
  match S.writes.find? (·.1 = k) with
  | some (_, old) => { S with writes := (k, old ++ ws) :: S.writes.filter (·.1 ≠ k) }
  | none => { S with writes := (k, ws) :: S.writes }

def replyTokM (plen : Nat) : Reply → String
  | .request c wi => s!"{if wi then "I" else "Q"}{c},{plen},good"
  | .sendInterested => "In"
  | .sendNotInterested => "Ni"
  | .prepareKill => "Pk"
  | .ignore => "Ig"
  | .none => "-"

/-- The manager model handles command `c` of connection `k`; the chooser's answer is whatever makes the model's reply
    the logged one (every outcome of the chooser is a behaviour of the model). `none` = no outcome does. -/
def manage (np plen : Nat) (m : MState) (k : Nat) (c : Cmd) (reply : String) : Option MState :=
  let cands : List (Option Nat) := none :: (List.range np).map some
  let viaEv (mk : Option Nat → Ev) : Option MState :=
    cands.findSome? fun ch => match mstep m (mk ch) with
      | .ok m' r => if replyTokM plen r = reply then some m' else none
      | .panic _ => none
  match c with
  | .init _ => if reply = "B" ++ toHex (initBitfield m.statuses) then some m else none
  | .recvRequest _ => some m
  | .recvChoke => viaEv (fun _ => .choke k)
  | .recvInterested => viaEv (fun _ => .interested k)
  | .recvUnchoke => viaEv (fun ch => .unchoke k ch)
  | .recvNotInterested => viaEv (fun ch => .notInterested k ch)
  | .recvHave i => viaEv (fun ch => .have k i ch)
  | .pieceDone => viaEv (fun ch => .pieceDone k ch)
  | .pieceCancel => viaEv (fun ch => .pieceCancel k ch)
  | .recvBitfield bs =>
    -- `SendState { with_am_unchoked, am_interested }`: interest is the chooser's (some/none), the unchoke flag is C14's
    let bits := (List.range np).map (specBit bs)
    let interested := reply.endsWith "i"
    match mstep m (.bitfield k bits (if interested then some 0 else none)) with
    | .ok m' _ => if reply.startsWith "S" then some m' else none
    | .panic _ => none

/-- Task `k` handles one input (the reply part taken from the log) and the manager model handles its command. Returns the
    new state, the rest of the log, the piece a `SendHave` is broadcast for, and whether the task ended (its `KillReq`
    comes later in the log). -/
def runTask (np plen : Nat) (S : SysM) (k : Nat) (mk : Rep → HIn) (log : List LogE) :
    Except String (SysM × List LogE × Option Nat × Bool) :=
  match getTask S k with
  | none => .ok (S, log, none, false)
  | some t =>
    if !t.alive then .ok (S, log, none, false) else
    let (rep?, _) : Option ParsedReply × Unit := match log with
      | e :: _ => if e.k = k ∧ !(e.cmd.startsWith "kill") then (parseReply e.reply, ()) else (some { rep := .none }, ())
      | [] => (some { rep := .none }, ())
    match rep? with
    | none => .error s!"unparsable reply in the log for connection {k}"
    | some pr =>
    match hstep Sha1.sha1 (diskOf pr.disk) t (mk pr.rep) with
    | none => .error s!"the logged reply does not fit the model task of connection {k}"
    | some (t', outs, e) =>
      let ws := (outs.filterMap fun | .write m => some ("w=" ++ shortMsg m) | _ => none)
      let fs := (outs.filterMap fun | .save h d => some s!"{hexNoX h}:{toHex (Sha1.sha1 d)}:{d.length}" | _ => none)
      let S1 := { (addWrites (setTask S k t') k ws) with files := S.files ++ fs }
      let assignedBefore := (findPeer S.m k).bind (·.pieceIndex)
      -- the command, if any
      let step1 : Except String (SysM × List LogE × Option Nat) :=
        match cmdsOf outs with
        | [] =>
          (match log with
           | e :: _ => if e.k = k ∧ !(e.cmd.startsWith "kill") ∧ !e.cmd.startsWith "c=request" then
               .error s!"connection {k} sent {e.cmd} where the model task sends nothing" else .ok (S1, log, none)
           | [] => .ok (S1, log, none))
        | [c] =>
          (match log with
           | e :: rest =>
             if e.k ≠ k ∨ e.cmd ≠ cmdTok c then .error s!"model task of connection {k} sends {cmdTok c}, the log has {e.k}:{e.cmd}"
             else match manage np plen S1.m k c e.reply with
               | none => .error s!"no chooser outcome makes the manager model answer {e.reply} to {e.cmd} of connection {k}"
               | some m' => .ok ({ S1 with m := m' }, rest, if c = .pieceDone then assignedBefore else none)
           | [] => .error s!"model task of connection {k} sends {cmdTok c}, the log is empty")
        | _ => .error "two commands in one step"
      match step1 with
      | .error x => .error x
      | .ok (S2, log2, bc) => .ok (S2, log2, bc, e.isSome)

/-- After the fed task's own step: the rest of the log in the implementation's order — `PieceCancel`s of the tasks
    that react to the pending `SendHave y`, and the `KillReq`s of the tasks that ended — then the broadcast for everybody
    who has not had it (they only write or buffer the Have). -/
def settle (np plen : Nat) (y? : Option Nat) : Nat → SysM → List LogE → List Nat → List Nat → Except String SysM
  | 0, _, _, _, _ => .error "settle: out of fuel"
  | fuel + 1, S, log, pendingKill, told =>
    match log with
    | e :: rest =>
      if e.cmd.startsWith "kill" then
        if pendingKill.contains e.k then
          match mstep S.m (.kill e.k) with
          | .ok m' _ => settle np plen y? fuel { S with m := m' } rest (pendingKill.filter (· ≠ e.k)) told
          | .panic w => .error s!"model manager panics on kill: {w}"
        else .error s!"KillReq of connection {e.k}, whose model task has not ended"
      else if e.cmd = "c=piececancel" ∧ y?.isSome ∧ !told.contains e.k then
        match runTask np plen S e.k (fun rep => .bcHave (y?.getD 0) rep) log with
        | .error x => .error x
        | .ok (S', log', _, _) => settle np plen y? fuel S' log' pendingKill (e.k :: told)
      else .error s!"commands the model does not produce: {e.k}:{e.cmd}"
    | [] =>
      if !pendingKill.isEmpty then .error s!"model tasks {pendingKill} ended, no KillReq in the log" else
      match y? with
      | none => .ok S
      | some y =>
        let live := (S.tasks.filter (fun p => p.2.alive && !told.contains p.1)).map (·.1)
        (sortBy (fun (a b : Nat) => decide (a < b)) live).foldlM (fun (acc : SysM) k =>
          match runTask np plen acc k (fun rep => .bcHave y rep) [] with
          | .error x => .error x
          | .ok (S', _, _, _) => .ok S') S

def writesTok (ws : List (Nat × List String)) : String :=
  if ws.isEmpty then "-" else
  "+".intercalate ((sortBy (fun (a b : Nat × List String) => decide (a.1 < b.1)) ws).map fun (k, l) => s!"{k}={"/".intercalate l}")

/-- C01 `sys`: the whole client in closed loop, event by event. Oracle first (T6 on the implementation's own data: a
    piece it treats as owned has a piece file named by its listed hash holding data with that hash), then the
    comparison with the joint model (`hstep` ∘ `mstep` as in `Swarm/Loop.lean`). -/
def c01sys (args res : List String) : Verdict :=
  match args, res with
  | [nps, plens, _tie, script], [outs] =>
    match nps.toNat?, plens.toNat? with
    | some np, some plen =>
      if outs = "P" then vProp "a-task-or-the-manager-panicked" "sys" else
      let evl := script.splitOn ";"
      let outl := outs.splitOn ";"
      let listed (i : Nat) : String := hexNoX (pieceHash i plen true)
      -- `div`: the first disagreement with the model; after it only the oracles on the implementation's own data go on
      let rec go : List String → List String → SysM → List String → Nat → Option Verdict → Option Verdict
        | [], _, _, _, _, div => div
        | _ :: _, [], _, _, _, div => if div.isSome then div else some (vBad "fewer outputs than events")
        | ev :: evs, out :: outs, S, seenFiles, n, div =>
          if out = "HANG" then some (vProp "v-manager-hangs" "sys") else
          if out = "P" then some (vProp "a-task-or-the-manager-panicked" "sys") else
          match out.splitOn "~" with
          | [logS, stS, psS, wrS, flS] =>
            -- a command the manager answers with an error: its event loop unwraps every result (`expect`), the client is gone
            if (logS.splitOn "+").any (fun e => e.endsWith ">E") then
              some (vProp "a-task-or-the-manager-panicked" s!"sys-manager-error-ev{min n 9}") else
            let implSt := (parseStatuses stS).getD []
            let newFiles := if flS = "-" then [] else flS.splitOn "+"
            let seen' := seenFiles ++ newFiles
            -- T6 on the implementation's snapshot
            let unowned := (List.range implSt.length).find? fun i =>
              implSt.getD i .missing = .have && !(seen'.any fun f => f.startsWith s!"{listed i}:x{listed i}:")
            if unowned.isSome then some (vProp "T6-piece-treated-as-owned-without-a-verified-piece-file" s!"sys-ev{min n 9}") else
            -- C11 on the implementation's own data: a Have leaves only for a piece with a verified file
            let announced : List Nat := if wrS = "-" then [] else
              (wrS.splitOn "+").flatMap fun part =>
                ((part.splitOn "=").drop 1 |> "=".intercalate |>.splitOn "/").filterMap fun t =>
                  if t.startsWith "w=hv," then (t.drop 5).toString.toNat? else none
            if announced.any (fun i => !(seen'.any fun f => f.startsWith s!"{listed i}:x{listed i}:")) then
              some (vProp "T2-have-announced-for-a-piece-without-a-verified-piece-file" s!"sys-ev{min n 9}") else
            -- C12 on the implementation's snapshot: a piece that is Reserved is the assigned piece of some connected peer
            -- (a piece whose download failed - hash mismatch, lost connection - becomes downloadable again)
            let assigned : List Nat := if psS = "-" then [] else
              (psS.splitOn ",").filterMap fun e => match e.splitOn ":" with
                | [_, idx, _] => idx.toNat?
                | _ => none
            let stale := (List.range implSt.length).find? fun i =>
              (match implSt.getD i .missing with | .reserved _ => true | _ => false) && !assigned.contains i
            if stale.isSome then some (vProp "T3-piece-stays-reserved-with-no-connection-fetching-it" s!"sys-ev{min n 9}") else
            -- ... and the bitfield sent after a handshake marks only such pieces (C01/C11: advertised only when stored)
            let bitfields : List Bytes := if wrS = "-" then [] else
              (wrS.splitOn "+").flatMap fun part =>
                ((part.splitOn "=").drop 1 |> "=".intercalate |>.splitOn "/").filterMap fun t =>
                  if t.startsWith "w=bf," then
                    let h := (t.drop 5).toString
                    parseHex (if h.startsWith "x" then h else "x" ++ h)
                  else none
            let bitSet (bs : Bytes) (i : Nat) : Bool := ((bs.getD (i / 8) 0).toNat / (2 ^ (7 - i % 8))) % 2 = 1
            if bitfields.any (fun bs => (List.range np).any fun i =>
                bitSet bs i && !(seen'.any fun f => f.startsWith s!"{listed i}:x{listed i}:")) then
              some (vProp "T2-bitfield-advertises-a-piece-without-a-verified-piece-file" s!"sys-ev{min n 9}") else
            -- every file written is named by its own data hash
            if newFiles.any (fun f => match f.splitOn ":" with | [nm, dh, _] => "x" ++ nm ≠ dh | _ => true) then
              some (vProp "T1-piece-file-written-with-data-that-does-not-hash-to-its-name" "sys") else
            if div.isSome then go evs outs S seen' (n + 1) div else
            match parseLog logS with
            | none => some (vBad logS)
            | some log =>
            let c := ev.toList.headD ' '
            let rest := String.ofList (ev.toList.drop 1)
            let (kS, arg) := match rest.splitOn ":" with
              | [a] => (a, "")
              | a :: more => (a, ":".intercalate more)
              | [] => ("", "")
            match kS.toNat? with
            | none => some (vBad ev)
            | some k =>
            let S0 : SysM := { S with writes := [], files := [] }
            let stepped : Except String (SysM × List LogE) :=
              match c with
              | 'a' =>
                (match mstep S0.m (.add k np) with
                 | .ok m' _ => .ok ({ (setTask S0 k { infoHash := ourInfoHash, ownId := ourId, piecesNum := np }) with m := m' }, log)
                 | .panic w => .error w)
              | 'f' =>
                (match parseFrameToks arg with
                 | none => .error s!"bad frame {arg}"
                 | some msg =>
                   match runTask np plen S0 k (fun rep => .frame msg rep) log with
                   | .error x => .error x
                   | .ok (S1, log1, y?, ended) =>
                     (settle np plen y? (log1.length + S1.tasks.length + 4) S1 log1 (if ended then [k] else []) (if y?.isSome then [] else [])).map (·, []))
              | 'e' =>
                (match runTask np plen S0 k (fun _ => .eof) log with
                 | .error x => .error x
                 | .ok (S1, log1, _, ended) =>
                   (settle np plen none (log1.length + 4) S1 log1 (if ended then [k] else []) []).map (·, []))
              | _ => .error s!"bad event {ev}"
            match stepped with
            | .error x => go evs outs S seen' (n + 1) (some (vDiff s!"event{n}" x "sys"))
            | .ok (S1, logRest) =>
              if !logRest.isEmpty then go evs outs S seen' (n + 1) (some (vDiff s!"event{n}" s!"commands the model does not produce: {logRest.map (fun e => s!"{e.k}:{e.cmd}")}" "sys")) else
              let model := s!"{statusesTok S1.m.statuses}~{mpeersTok S1.m.peers}~{writesTok S1.writes}~{if S1.files.isEmpty then "-" else "+".intercalate S1.files}"
              let impl := s!"{stS}~{psS}~{wrS}~{flS}"
              if model ≠ impl then go evs outs S seen' (n + 1) (some (vDiff s!"event{n}" model "sys"))
              else go evs outs S1 seen' (n + 1) none
          | _ => if div.isSome then div else some (vBad out)
      match go evl outl { m := { statuses := List.replicate np .missing, peers := [] }, tasks := [] } [] 0 none with
      | some v => v
      | none =>
        let conns := (evl.filter (·.startsWith "a")).length
        let done := (outs.splitOn "c=piecedone").length - 1
        let cancel := (outs.splitOn "c=piececancel").length - 1
        vOk s!"sys-conns{min conns 4}-done{min done 3}-cancel{min cancel 2}"
    | _, _ => vBad (joinToks args)
  | _, _ => vBad (joinToks args)

end Driver
