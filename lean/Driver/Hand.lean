import Driver.Wire
import RdestModel.Swarm.Init
import RdestModel.Swarm.Preds
import RdestModel.Meta.Name
import RdestModel.Swarm.Stats
import RdestModel.Sha1
namespace Driver
open Rdest Rdest.Wire Rdest.Swarm

/-- Deterministic piece content shared with the Rust harness. -/
def contentByte (i k : Nat) : UInt8 := UInt8.ofNat ((i * 131 + k * 7 + k / 256) % 256)
def content (i len : Nat) : Bytes := (List.range len).map (contentByte i)

def pieceHash (i len : Nat) (good : Bool) : Bytes :=
  let h := Sha1.sha1 (content i len)
  if good then h else match h with | b :: rest => (b ^^^ 1) :: rest | [] => []

def hexNoX (b : Bytes) : String := ((toHex b).drop 1).toString

def shortMsg (m : Msg) : String := ",".intercalate (msgToToks m)

def cmdTok : Cmd → String
  | .init pid => s!"c=init:{toHex pid}"
  | .recvChoke => "c=choke"
  | .recvUnchoke => "c=unchoke"
  | .recvInterested => "c=interested"
  | .recvNotInterested => "c=notinterested"
  | .recvHave i => s!"c=have:{i}"
  | .recvBitfield bs => s!"c=bitfield:{toHex bs}"
  | .recvRequest i => s!"c=request:{i}"
  | .pieceDone => "c=piecedone"
  | .pieceCancel => "c=piececancel"

def obsTok : Obs → String
  | .write m => "w=" ++ shortMsg m
  | .cmd c => cmdTok c
  | .saved h d n => s!"s={hexNoX h}:{toHex d}:{n}"

def eventTok (os : List Obs) (ended : Option Bool) : String :=
  let ts := os.map obsTok ++ (match ended with | some true => ["T"] | some false => ["TE"] | none => [])
  if ts.isEmpty then "-" else "/".intercalate ts

def parseCmdTok (t : String) : Option Cmd :=
  match t.splitOn ":" with
  | ["c=choke"] => some .recvChoke
  | ["c=unchoke"] => some .recvUnchoke
  | ["c=interested"] => some .recvInterested
  | ["c=notinterested"] => some .recvNotInterested
  | ["c=piecedone"] => some .pieceDone
  | ["c=piececancel"] => some .pieceCancel
  | ["c=init", h] => (parseHex h).map .init
  | ["c=have", i] => i.toNat?.map .recvHave
  | ["c=bitfield", h] => (parseHex h).map .recvBitfield
  | ["c=request", i] => i.toNat?.map .recvRequest
  | _ => none

def parseObsTok (t : String) : Option Obs :=
  if t.startsWith "w=" then (msgOfToks ((t.drop 2).toString.splitOn ",")).map .write
  else if t.startsWith "c=" then (parseCmdTok t).map .cmd
  else if t.startsWith "s=" then
    match (t.drop 2).toString.splitOn ":" with
    | [name, dh, n] => match parseHex ("x" ++ name), parseHex dh, n.toNat? with
      | some a, some b, some c => some (.saved a b c)
      | _, _, _ => none
    | _ => none
  else none

/-- Parse one event's implementation output into observations and the end marker. -/
def parseEventOut (t : String) : Option (List Obs × Option Bool) :=
  if t = "-" then some ([], none) else
  let toks := t.splitOn "/"
  let ended : Option Bool := if toks.contains "T" then some true else if toks.contains "TE" then some false else none
  let obsToks := toks.filter (fun x => x ≠ "T" ∧ x ≠ "TE")
  (obsToks.mapM parseObsTok).map (·, ended)

structure ParsedReply where
  rep : Rep
  disk : Option (Bytes × Bytes) := none

def nat3 (s : String) : Option (Nat × Nat × String) :=
  match s.splitOn "," with
  | [a, b, c] => match a.toNat?, b.toNat? with | some a, some b => some (a, b, c) | _, _ => none
  | _ => none

def parseReply (t : String) : Option ParsedReply :=
  if t = "-" ∨ t = "" then some { rep := .none }
  else if t = "In" then some { rep := .sendInterested }
  else if t = "Ni" then some { rep := .sendNotInterested }
  else if t = "Pk" then some { rep := .prepareKill }
  else if t = "Ig" then some { rep := .ignore }
  else
    let c := t.toList.headD ' '
    let rest := String.ofList (t.toList.drop 1)
    match c with
    | 'B' => (parseHex rest).map fun b => { rep := .bitfield b }
    | 'Q' | 'I' => (nat3 rest).map fun (i, l, g) =>
        { rep := .req { index := i, length := l, hash := pieceHash i l (g = "good") } (c = 'I') }
    | 'L' => (nat3 rest).map fun (i, l, pr) =>
        let h := pieceHash i l true
        { rep := .load i h, disk := if pr = "present" then some (h, content i l) else none }
    | 'S' => some { rep := .state (rest.startsWith "u") (rest.endsWith "i") }
    | _ => none

inductive SEv where
  | start (r : ParsedReply)
  | frame (m : Msg) (r : ParsedReply)
  | raw (b : Bytes)
  | part (n : Nat)          -- `n` zero bytes: a keep-alive arriving in fragments
  | bcHave (i : Nat) (r : ParsedReply)
  | bcState (e : Option Bool)
  | time (secs : Nat)
  | eof

def parseFrameToks (m : String) : Option Msg :=
  match m.splitOn "," with
  | ["pb", idx, plen, b, l] =>
    match idx.toNat?, plen.toNat?, b.toNat?, l.toNat? with
    | some idx, some plen, some b, some l => some (.piece idx b (((content idx plen).drop b).take l))
    | _, _, _, _ => none
  | ["px", idx, plen, b, l, src] =>
    match idx.toNat?, plen.toNat?, b.toNat?, l.toNat?, src.toNat? with
    | some idx, some plen, some b, some l, some src => some (.piece idx b (((content idx plen).drop src).take l))
    | _, _, _, _, _ => none
  | toks => msgOfToks toks

def parseEv (e : String) : Option SEv :=
  let (body, rt) := match e.splitOn ">" with
    | [b, r] => (b, r)
    | _ => (e, "-")
  match parseReply rt with
  | none => none
  | some r =>
    if body = "s" then some (.start r)
    else if body = "e" then some .eof
    else if body.startsWith "f:" then (parseFrameToks (body.drop 2).toString).map (.frame · r)
    -- `g<cut>:` = the same frame delivered in two segments: the same input for the model
    else if body.startsWith "g" ∧ (body.splitOn ":").length ≥ 2 then
      (parseFrameToks (":".intercalate ((body.splitOn ":").drop 1))).map (.frame · r)
    else if body.startsWith "x:" then (parseHex (body.drop 2).toString).map .raw
    else if body.startsWith "p:" then (body.drop 2).toString.toNat?.map .part
    else if body.startsWith "h" ∨ body.startsWith "H" then (body.drop 1).toString.toNat?.map (.bcHave · r)
    else if body.startsWith "o" then
      some (.bcState (if body = "oc" then some true else if body = "ou" then some false else none))
    else if body.startsWith "t" then (body.drop 1).toString.toNat?.map .time
    else none

/-- Script events → model inputs. Timer advances become `ticks k` from the virtual clock. -/
def toTIn (evs : List SEv) : Option (List TIn) :=
  -- `pend`: zero bytes received that do not make a whole keep-alive yet (the decoder keeps them: C06)
  let rec go : List SEv → Nat → Nat → List TIn → Option (List TIn)
    | [], _, _, acc => some acc.reverse
    | e :: es, now, pend, acc =>
      match e with
      | .start r => go es now pend (.start r.rep :: acc)
      | .frame m r => if pend ≠ 0 then none else go es now pend (.frame m r.rep r.disk :: acc)
      | .raw b => if pend ≠ 0 then none else match parseImpl b with
        | .fatal => go es now pend (.recvErr :: acc)
        | _ => none
      | .part n =>
        -- at most one keep-alive completes per event (the generator sees to it); otherwise nothing happens
        if n = 0 ∨ pend + n ≥ 8 then none
        else if pend + n ≥ 4 then go es now (pend + n - 4) (.frame .keepAlive .none none :: acc)
        else go es now (pend + n) (.ticks 0 :: acc)
      | .bcHave i r => go es now pend (.bcHave i r.rep :: acc)
      | .bcState en => go es now pend (.bcState en :: acc)
      | .eof => go es now pend (.eof :: acc)
      | .time secs =>
        let iv := Rdest.Gen.KEEP_ALIVE_INTERVAL_SEC
        go es (now + secs) pend (.ticks ((now + secs) / iv - now / iv) :: acc)
  go evs 0 0 []

def ourInfoHash : Bytes := List.replicate 20 7
def ourId : Bytes := "-VF0001-000000000000".toUTF8.toList

def initState (mode : String) (np : Nat) : Option HState :=
  let base : HState := { infoHash := ourInfoHash, ownId := ourId, piecesNum := np }
  if mode = "in" then some base
  else if mode.startsWith "out:" then (parseHex (mode.drop 4).toString).map fun pid => { base with peerId := some pid }
  else none

end Driver

namespace Driver
open Rdest Rdest.Wire Rdest.Swarm

/-- The property predicate evaluated on a trace (the same definitions the theorems are about). -/
def propPred (prop : String) (mode : String) (tr : Trace) : Option String :=
  let expected : Option Bytes := if mode.startsWith "out:" then parseHex (mode.drop 4).toString else none
  match prop with
  | "C11" => if !P11 tr then some "P11-have-announcements"
             else if !P01 tr then some "P01-piece-reported-done-(and-so-announced)-without-verified-data-stored-first" else none
  | "C14" => if P14 tr then none else some "P14-own-state-broadcast-not-put-on-the-wire-as-the-matching-message"
  | "C01" => if P01 tr then none else some "P01-only-verified-data-stored"
  | "C10" => if P10 Rdest.Gen.PIECE_BLOCK_SIZE tr then none else some "P10-request-tiling"
  | "C09" => if P09 Rdest.Gen.PIECE_BLOCK_SIZE tr then none else some "P09-upload-discipline"
  | "C08" => if !P08 ourInfoHash ourId expected tr then some "P08-handshake-gate"
             else if !P08h ourInfoHash ourId expected tr then some "P08-have-announced-before-a-handshake-validated" else none
  | "C20" => if P20 Rdest.Gen.KEEP_ALIVE_LIMIT 0 tr then none else some "P20-keepalive-discipline"
  | "C06" => if P06 tr then none else some "T5-receive-error-does-not-end-the-task"
  | _ => none

/-- The tiling a piece of length `len` must be requested in (T1 of C10), as an executable predicate. -/
def tilingOk (B len : Nat) (blocks : List (Nat × Nat)) : Bool :=
  let rec go : List (Nat × Nat) → Nat → Bool
    | [], pos => pos == len
    | (b, l) :: rest, pos => b == pos && decide (0 < l) && decide (l ≤ B) && (rest.isEmpty || l == B) && go rest (pos + l)
  go blocks 0

def handVerdict (prop : String) (args res : List String) : Verdict :=
  match args, res with
  | ["left", lenS], [out] =>
    match lenS.toNat? with
    | none => vBad "left"
    | some len =>
      if out = "P" then vProp "left-panics" "left" else
      let blocks : List (Nat × Nat) := if out = "-" then [] else
        (out.splitOn ",").filterMap fun t => match t.splitOn ":" with
          | [b, l] => match b.toNat?, l.toNat? with | some b, some l => some (b, l) | _, _ => none
          | _ => none
      let model := leftImpl len
      let tag := if len % Rdest.Gen.PIECE_BLOCK_SIZE = 0 then "left-multiple" else "left-remainder"
      if !tilingOk Rdest.Gen.PIECE_BLOCK_SIZE len blocks then vProp "T1-blocks-do-not-tile-the-piece" tag
      else if blocks ≠ model then vDiff "left" (toString model) tag
      else vOk tag
  | ["fullq", fillS, drainS], kill :: fin :: _ =>
    -- a silent connection and a busy manager (full command channel): the model's task ends at the closing tick
    -- (`T4_closing_tick_ends_the_task`) and its `KillReq` is what lets the manager forget it (`T4_closed_connection_is_forgotten`)
    match fillS.toNat?, drainS.toNat? with
    | some _, some drain =>
      let interval := Rdest.Gen.KEEP_ALIVE_INTERVAL_SEC
      let closesAt := (Rdest.Gen.KEEP_ALIVE_LIMIT + 1) * interval
      if kill = "P" then vProp "task-panicked" "fullq"
      else if drain + 30 < closesAt then vBad "fullq drains before the connection is due to close"
      else if kill ≠ "kill=y" then vProp "T4-closed-connection-not-reported-to-the-manager" "fullq"
      else if fin ≠ "finished=y" then vProp "T4-closing-tick-does-not-end-the-task" "fullq"
      else vOk "fullq"
    | _, _ => vBad (joinToks args)
  | ["stats", opsS], [out] =>
    -- the task's statistics and timer handler vs `runStats`; oracle (T4 of C14): first interval reports nothing, every
    -- later one the mean of the last two intervals
    let ops : List StatOp := (opsS.splitOn ",").filterMap fun t =>
      match t.toList with
      | 'd' :: r => (String.ofList r).toNat?.map StatOp.down
      | 'u' :: r => (String.ofList r).toNat?.map StatOp.up
      | ['x'] => some StatOp.unexpected
      | ['t'] => some StatOp.tick
      | _ => none
    if ops.length ≠ (opsS.splitOn ",").length then vBad opsS else
    if out = "P" then vProp "statistics-panic" "stats" else
    let q := Rdest.Gen.MAX_STATS_QUEUE_SIZE
    let rep (x : Option (Option Nat × Option Nat × Nat)) : String := match x with
      | none => "-"
      | some (d, u, x) => s!"{match d with | some v => toString v | none => "n"}:{match u with | some v => toString v | none => "n"}:{x}"
    let model := ",".intercalate ((runStats q {} ops).map rep)
    -- the oracle, computed from the script alone: per interval the (down, up, unexpected) totals
    let totals : List (Nat × Nat × Nat) := (ops.foldl (fun (acc : List (Nat × Nat × Nat) × (Nat × Nat × Nat)) op =>
      match op with
      | .down n => (acc.1, (acc.2.1 + n, acc.2.2.1, acc.2.2.2))
      | .up n => (acc.1, (acc.2.1, acc.2.2.1 + n, acc.2.2.2))
      | .unexpected => (acc.1, (acc.2.1, acc.2.2.1, acc.2.2.2 + 1))
      | .tick => (acc.1 ++ [acc.2], (0, 0, 0))) ([], (0, 0, 0))).1
    let spec : List String := totals.zipIdx.map fun (w, k) =>
      if k = 0 then "-" else
        let p := totals.getD (k - 1) (0, 0, 0)
        s!"{(w.1 + p.1) / 2}:{(w.2.1 + p.2.1) / 2}:{w.2.2}"
    let tag := s!"stats-{min totals.length 4}-intervals"
    if out ≠ ",".intercalate spec ∧ q = 2 then vProp "T4-reported-rate-is-not-the-mean-of-the-last-two-intervals" tag
    else if out ≠ model then vDiff "stats" model tag
    else vOk tag
  | ["reconn", _], res =>
    -- the model: a connection task lives for one connection (`eof` ends it, its KillReq follows); nothing is ever
    -- written on a connection before a handshake validated on it
    let get (key : String) : String := (res.filterMap fun t => if t.startsWith (key ++ "=") then some ((t.drop (key.length + 1)).toString) else none).headD "?"
    if res = ["P"] then vProp "task-panicked" "reconn"
    else if get "piece2" ≠ "0" ∧ get "piece2" ≠ "?" then vProp "P08-piece-data-sent-on-a-connection-without-a-validated-handshake" "reconn"
    else if get "first" ≠ "y" then vDiff "reconn-first-session" "first=y" "reconn"
    else if get "second" ≠ "n" ∨ get "kill" ≠ "y" then vDiff "reconn" "first=y kill=y second=n piece2=0" "reconn"
    else vOk "reconn"
  | ["name", hS], [out] =>
    match parseHex hS with
    | none => vBad hS
    | some h =>
      let model := String.ofList (Rdest.Meta.pieceFileName h)
      if out = "P" then vProp "piece-file-name-panics" "name"
      else if out ≠ model then vDiff "piece-file-name" model "name" else vOk "name"
  | ["minit", sts], [out] =>
    -- the bitfield the manager computes at Init (Peer::handle_init) vs `initBitfield`
    let stl : List Status := if sts = "-" then [] else (sts.splitOn ",").map fun t =>
      if t = "h" then Status.have else if t = "m" then Status.missing else Status.reserved ((t.drop 1).toString.toNat?.getD 1)
    let model := toHex (initBitfield stl)
    let tag := "minit-" ++ (if stl.any (fun x => match x with | .reserved _ => true | _ => false) then "with-reserved" else "plain")
    if out = "P" then vProp "manager-panics-on-init" tag else
    (match parseHex out with
     | none => vBad out
     | some bytes =>
       -- oracle: bit i set exactly for owned pieces, spare bits zero
       if (List.range (bytes.length * 8)).any (fun i => specBit bytes i ≠ decide (stl[i]? = some Status.have)) ∨
          bytes.length ≠ (stl.length + 7) / 8 then vProp "T1-init-bitfield-does-not-mark-exactly-the-owned-pieces" tag
       else if out ≠ model then vDiff "minit" model tag
       else vOk tag)
  | ["mreq", sts, flags, idxS], [out] =>
    -- the manager's answer to RecvRequest (Peer::handle_request) vs `managerAnswersLoad`
    match idxS.toNat? with
    | none => vBad "mreq"
    | some idx =>
      let stl := if sts = "-" then [] else sts.splitOn ","
      let n := stl.length
      let isHave := stl.getD idx "m" = "h"
      let fl := flags.toList
      let amChoked := fl.getD 0 '1' = '1'
      let choked := fl.getD 1 '1' = '1'
      let tag := "mreq-" ++ (if amChoked then "amchoked" else "amunchoked") ++ (if choked then "-choked" else "-unchoked") ++
        (if idx < n then (if isHave then "-have" else "-nothave") else "-outofrange")
      let hashHex := toHex ((List.range 20).map fun k => UInt8.ofNat (idx * 31 + k))
      let model := if managerAnswersLoad amChoked n idx isHave then s!"ld:{idx}:{hashHex}" else "ig"
      if out = "P" then vProp "manager-panics-on-request" tag
      else if out ≠ "ig" ∧ (amChoked ∨ ¬ isHave ∨ idx ≥ n) then vProp "piece-served-to-a-choked-peer-or-not-owned" tag
      else if out ≠ model then vDiff "mreq" model tag
      else vOk tag
  | ["hand", mode, nps, script], [outs] =>
    -- "s-": the harness keeps stale partial files under the names of the pieces being fetched; the task must behave the same
    -- "d-": a directory of the piece file's name is in the way: the store fails, the task must end without reporting the piece
    let storeFails := mode.startsWith "d-"
    -- "v-": what lies there is the verified piece itself (stored by another connection): it must stay
    let mode := if mode.startsWith "s-" ∨ mode.startsWith "d-" ∨ mode.startsWith "v-" then (mode.drop 2).toString else mode
    if outs = "P" ∨ (outs.splitOn "PANIC").length > 1 then vProp "task-panicked" "hand" else
    if (outs.splitOn "gone=").length > 1 then
      (if (outs.splitOn ":verified").length > 1 then vProp "P01-verified-piece-file-deleted-by-a-connection-that-did-not-store-it" "hand-gone"
       else vDiff "hand" "no piece file is ever removed by a connection task" "hand-gone") else
    match nps.toNat?, initState mode (nps.toNat?.getD 0), (script.splitOn ";").mapM parseEv with
    | some _, some st0, some evs =>
      -- a connection we opened starts with its handshake: such scripts begin with the `s` event
      if mode.startsWith "out:" ∧ !(match evs.head? with | some (.start _) => true | _ => false) then
        { text := "unrealizable-script (outgoing connection without start event)", tag := "unrealizable" } else
      match toTIn evs with
      | none => vBad "script-raw-not-fatal"
      | some ins =>
        let outl := outs.splitOn ";"
        if outl.length ≠ ins.length then vBad "length mismatch" else
        match outl.mapM parseEventOut with
        | none => vBad ("unparsable output " ++ outs)
        | some implOuts =>
          let implTrace : Trace := (ins.zip implOuts).map fun (i, (o, e)) => (i, o, e)
          let modelTrace := runTrace Sha1.sha1 st0 ins
          let nsaved := (implOuts.map (fun (o, _) => (savedObs o).length)).sum
          let tag := s!"hand-{if mode = "in" then "in" else "out"}-ev{min (ins.length / 10) 4}-saved{min nsaved 3}"
          -- property oracle on the implementation's own trace
          match propPred prop mode implTrace with
          | some clause => vProp clause tag
          | none =>
            if modelTrace.length ≠ ins.length then vBad s!"script does not fit the model at event {modelTrace.length}" else
            if (propPred prop mode modelTrace).isSome then vDiff "model-trace-violates-predicate" "?" tag else
            let modelToks := modelTrace.map fun (_, o, e) => eventTok o e
            match (modelToks.zip outl).zipIdx.find? (fun ((m, i), _) => m ≠ i) with
            | some ((m, _), k) =>
              -- where the model stores and the disk refuses, the implementation's task ends with an error, stores nothing and
              -- reports nothing (P01 above has checked the rest of its trace); the model has no failing disk
              let mo := (modelTrace.getD k (.eof, [], none)).2.1
              let (io, ie) := implOuts.getD k ([], none)
              if storeFails ∧ !(savedObs mo).isEmpty ∧ (savedObs io).isEmpty ∧ !(cmds io).contains .pieceDone ∧ ie = some false
              then vOk (tag ++ "-store-fails")
              -- every block of the script's piece was the real one (the model, which knows the bytes, stores it here), yet the
              -- implementation ends the connection instead of completing the piece at its last outstanding block
              else if prop = "C10" ∧ !storeFails ∧ !(savedObs mo).isEmpty ∧ (savedObs io).isEmpty ∧ ie.isSome
              then vProp "P10-piece-not-completed-at-its-last-outstanding-block" tag
              else vDiff s!"event{k}" m tag
            | none => vOk tag
    | _, _, _ => vBad (joinToks args)
  | _, _ => vBad (joinToks args)

end Driver
