import Driver.Mi
import Driver.Meta
import RdestModel.Meta.Store
namespace Driver
open Rdest Rdest.Meta Rdest.Sha1

/-- C02: the end-to-end download. The expected output is computed by the model: the content slices of C03. -/
def c02 (args res : List String) : Verdict :=
  match args with
  | ["e2e", seedS, plS, lensS, honestS, droppersS, stayS] =>
    match seedS.toNat?, plS.toNat?, honestS.toNat?, droppersS.toNat? with
    | some seed, some pl, some honest, some droppers =>
      let lens := natList lensS
      let total := lens.sum
      let content := patternBytes total seed
      let expected := (extractSpec lens content).map fun f => toHex (sha1 f)
      let model := (extractImpl pl lens content).map fun f => toHex (sha1 f)
      let tag := s!"e2e-peers{if honest > 11 then 12 else min honest 3}-droppers{min droppers 2}" ++ (if stayS = "5" then "-crowd-of-leechers" else if stayS = "6" then "-slow-seeder-late-twins" else if stayS = "7" then "-eager-seeder" else if stayS = "1" ∨ stayS = "3" then "-stay" else "-leave") ++ (if stayS = "2" ∨ stayS = "3" then "-disjoint-slow" else if stayS = "4" then "-choke-race" else "") ++
        (if lens.length = 1 then "-single" else "-multi") ++ (if lens.any (· = 0) then "-emptyfile" else "")
      let get (key : String) : String := (res.filterMap fun t => if t.startsWith (key ++ "=") then some ((t.drop (key.length + 1)).toString) else none).headD "?"
      if res.head? = some "spawn-failed" ∨ res.head? = some "child-failed" then vBad ("e2e harness could not run: " ++ joinToks res)
      else if model ≠ expected then vDiff "extract-model" "model-differs-from-spec" tag
      else if get "panics" ≠ "0" then vProp s!"a-task-panicked-{get "panics"}" tag
      else if get "session" ≠ "alive" then vProp "session-ended" tag
      else if get "files" = "?" then vProp ("run-failed-" ++ "-".intercalate res) tag
      else
        let files := (get "files").splitOn ","
        if files.any (· = "missing") then vProp "download-did-not-complete-output-file-missing" tag
        else if files ≠ expected then vProp "output-files-differ-from-the-original-content" tag
        else vOk tag
    | _, _, _, _ => vBad (joinToks args)
  | ["lag", npS, lateS] =>
    -- two honest seeders in memory, the only holder of the last piece ready late (T7's run with a second connection whose
    -- task has missed announcements): all pieces owned, nobody given up, the file identical
    let get (key : String) : String := (res.filterMap fun t => if t.startsWith (key ++ "=") then some ((t.drop (key.length + 1)).toString) else none).headD "?"
    let tag := s!"lag-{if lateS.toNat?.getD 0 > 32 then "beyond-the-channel" else "within-the-channel"}"
    if res = ["P"] then vProp "a-task-panicked" tag
    else if get "killed" ≠ "-" then vProp s!"connection-to-an-honest-peer-given-up-{get "killed"}" tag
    else if get "hang" = "y" ∨ get "have" ≠ s!"{npS}/{npS}" then vProp "download-did-not-complete" tag
    else if get "file" ≠ "ok" then vProp "output-file-differs-from-the-original-content" tag
    else vOk tag
  | _ => vBad (joinToks args)

end Driver
