/-
  Model of the path handling of `Metainfo::file_piece_ranges` (src/metainfo.rs): `std::path` on Unix, restricted to
  what the code uses — `Path::components`, and joining of component lists.  Paths are byte strings separated by `/`.
-/
import RdestModel.Bytes
namespace Rdest.Meta
open Rdest

def slash : UInt8 := 47
def dot : UInt8 := 46

/-- Split at `/`. -/
def splitSlash : Bytes → List Bytes
  | [] => [[]]
  | b :: rest =>
    let r := splitSlash rest
    if b = slash then [] :: r
    else match r with
      | [] => [[b]]
      | h :: t => (b :: h) :: t

/-- `Component::Normal` parts of a path: everything except empty components, `.`, `..` (and the root). -/
def isNormal (c : Bytes) : Bool := c ≠ [] && c ≠ [dot] && c ≠ [dot, dot]

/-- The sanitised component list: what `components().filter_map(Normal)` keeps. -/
def normalParts (p : Bytes) : List Bytes := (splitSlash p).filter isNormal

/-- Join components with `/` (`PathBuf::from_iter`). -/
def joinParts : List Bytes → Bytes
  | [] => []
  | [c] => c
  | c :: rest => c ++ slash :: joinParts rest

/-- The output path of one file: for a multi-file torrent under the directory named by the torrent. -/
def outputParts (multi : Bool) (name path : Bytes) : List Bytes :=
  (if multi then normalParts name else []) ++ normalParts path

/-- Lexical walk of a component list starting at depth 0; `none` when it leaves the start directory. -/
def walk : List Bytes → Nat → Option Nat
  | [], d => some d
  | c :: rest, d =>
    if c = [dot, dot] then (if d = 0 then none else walk rest (d - 1))
    else if c = [] ∨ c = [dot] then walk rest d
    else walk rest (d + 1)

/-- A relative path that, followed lexically, stays inside the directory it starts in. -/
def staysInside (parts : List Bytes) : Bool := (walk parts 0).isSome

end Rdest.Meta
