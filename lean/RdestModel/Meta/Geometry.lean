/-
  Model of the piece/file geometry of src/metainfo.rs (`piece_length`, `total_length`, `piece_pos`,
  `file_piece_ranges`) and of `Extractor::extract_files` (src/extractor.rs) over a piece store.
-/
import RdestModel.Bytes
namespace Rdest.Meta
open Rdest

/-- `Metainfo::total_length`. -/
def totalLength (lens : List Nat) : Nat := lens.sum

/-- `Metainfo::piece_length(i)` for a torrent with `n` piece hashes. -/
def pieceLength (pl total n i : Nat) : Nat :=
  if i < n - 1 then pl
  else if total % pl ≠ 0 then total % pl else pl

/-- `piece_pos`: (piece index, offset inside the piece). -/
def piecePos (pl pos : Nat) : Nat × Nat := (pos / pl, pos % pl)

/-- `file_piece_ranges` without the paths: for every file its start and end position. -/
def ranges (pl : Nat) : List Nat → Nat → List ((Nat × Nat) × (Nat × Nat))
  | [], _ => []
  | len :: rest, pos => (piecePos pl pos, piecePos pl (pos + len)) :: ranges pl rest (pos + len)

/-- The verified piece files: piece `i` holds bytes `[i·pl, (i+1)·pl)` of the content (the last one is shorter). -/
def pieceOf (pl : Nat) (content : Bytes) (i : Nat) : Bytes := (content.drop (i * pl)).take pl

/-- The "whole pieces" loop of `extract_files`: pieces `lo .. hi-1`, the first one read from offset `skip`. -/
def wholePieces (pl : Nat) (content : Bytes) (lo hi skip : Nat) : Bytes :=
  ((List.range (hi - lo)).map fun k =>
    if k = 0 then (pieceOf pl content lo).drop skip else pieceOf pl content (lo + k)).flatten

/-- `extract_files` for one file that starts in piece `s` at offset `so` and ends in piece `e` at offset `eo`. -/
def extractAt (pl : Nat) (content : Bytes) (s so e eo : Nat) : Bytes :=
  let whole := wholePieces pl content s e so
  -- last chunk: from the start offset if the file starts in this very piece, else from the piece's first byte
  let from_ := if s = e then so else 0
  let last := if eo > from_ then ((pieceOf pl content e).drop from_).take (eo - from_) else []
  whole ++ last

/-- `extract_files` for one file with range `(start, end)`. -/
def extractOne (pl : Nat) (content : Bytes) (s e : Nat × Nat) : Bytes := extractAt pl content s.1 s.2 e.1 e.2

def extractImpl (pl : Nat) (lens : List Nat) (content : Bytes) : List Bytes :=
  (ranges pl lens 0).map fun r => extractOne pl content r.1 r.2

/-- Specification: file `k` is the slice of the concatenated content at its offset, of its declared length. -/
def extractSpec : List Nat → Bytes → List Bytes
  | [], _ => []
  | len :: rest, content => content.take len :: extractSpec rest (content.drop len)

end Rdest.Meta
