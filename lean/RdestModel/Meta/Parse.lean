/-
  Model of `Metainfo::from_bencode` / `parse` / `find_*` / `calculate_hash` (src/metainfo.rs) on top of the
  decoder model, and of the accessors with their machine arithmetic made explicit.
-/
import RdestModel.Bencode.Impl
import RdestModel.Bencode.Encode
import RdestModel.Meta.Geometry
namespace Rdest.Meta
open Rdest Rdest.Bencode

/-! ### `String::from_utf8` -/

def isCont (b : UInt8) : Bool := 0x80 ≤ b && b ≤ 0xBF

/-- Well-formed UTF-8 (Unicode table 3-7): what `String::from_utf8` accepts. -/
def utf8Valid : Bytes → Bool
  | [] => true
  | b :: rest =>
    if b ≤ 0x7F then utf8Valid rest
    else if 0xC2 ≤ b && b ≤ 0xDF then
      match rest with
      | c1 :: r => isCont c1 && utf8Valid r
      | _ => false
    else if 0xE0 ≤ b && b ≤ 0xEF then
      match rest with
      | c1 :: c2 :: r =>
        (if b = 0xE0 then 0xA0 ≤ c1 && c1 ≤ 0xBF else if b = 0xED then 0x80 ≤ c1 && c1 ≤ 0x9F else isCont c1)
          && isCont c2 && utf8Valid r
      | _ => false
    else if 0xF0 ≤ b && b ≤ 0xF4 then
      match rest with
      | c1 :: c2 :: c3 :: r =>
        (if b = 0xF0 then 0x90 ≤ c1 && c1 ≤ 0xBF else if b = 0xF4 then 0x80 ≤ c1 && c1 ≤ 0x8F else isCont c1)
          && isCont c2 && isCont c3 && utf8Valid r
      | _ => false
    else false

/-! ### Keys -/

def kAnnounce : Bytes := [97, 110, 110, 111, 117, 110, 99, 101]
def kInfo : Bytes := [105, 110, 102, 111]
def kName : Bytes := [110, 97, 109, 101]
def kPieceLength : Bytes := [112, 105, 101, 99, 101, 32, 108, 101, 110, 103, 116, 104]
def kPieces : Bytes := [112, 105, 101, 99, 101, 115]
def kLength : Bytes := [108, 101, 110, 103, 116, 104]
def kFiles : Bytes := [102, 105, 108, 101, 115]
def kPath : Bytes := [112, 97, 116, 104]

/-! ### The parsed metainfo -/

structure MFile where
  length : Nat
  path : Bytes
  deriving Repr, DecidableEq

structure MetaM where
  announce : Bytes
  name : Bytes
  pieceLength : Nat
  pieces : List Bytes
  files : List MFile
  /-- the bytes whose SHA-1 is the info-hash -/
  infoSpan : Bytes
  deriving Repr, DecidableEq

inductive Fld where
  | announce | name | info | pieceLength | pieces | length
  deriving Repr, DecidableEq

inductive MErr where
  | decode                     -- any error of the decoder
  | bencodeMissing
  | dataMissing
  | conflict
  | lenOrFilesMissing
  | invalidUtf8 (f : Fld)
  | incorrectOrMissing (f : Fld)
  | invalidU64 (f : Fld)
  | notDivisible
  | infoMissing
  deriving Repr, DecidableEq

abbrev Dict := List (Bytes × BValue)

def infoOf (d : Dict) : Option Dict :=
  match dictGet d kInfo with
  | some (.dict i) => some i
  | _ => none

/-- `find_length`. -/
def findLength (d : Dict) : Option Nat :=
  match infoOf d with
  | some i =>
    match dictGet i kLength with
    | some (.int n) => if 0 ≤ n then some n.toNat else none
    | _ => none
  | none => none

/-- One element of the `files` list (the three `filter_map`s of `file_list`). -/
def fileOf : BValue → Option MFile
  | .dict d =>
    match dictGet d kLength, dictGet d kPath with
    | some (.int n), some (.str p) => if 0 ≤ n ∧ utf8Valid p then some ⟨n.toNat, p⟩ else none
    | _, _ => none
  | _ => none

/-- `find_files`. -/
def findFiles (d : Dict) : Option (List MFile) :=
  match infoOf d with
  | some i =>
    match dictGet i kFiles with
    | some (.list l) => some (l.filterMap fileOf)
    | _ => none
  | none => none

def findName (d : Dict) : Except MErr Bytes :=
  match infoOf d with
  | some i =>
    match dictGet i kName with
    | some (.str v) => if utf8Valid v then .ok v else .error (.invalidUtf8 .name)
    | _ => .error (.incorrectOrMissing .name)
  | none => .error (.incorrectOrMissing .info)

def findAnnounce (d : Dict) : Except MErr Bytes :=
  match dictGet d kAnnounce with
  | some (.str v) => if utf8Valid v then .ok v else .error (.invalidUtf8 .announce)
  | _ => .error (.incorrectOrMissing .announce)

/-- `find_piece_length`: a `u64`, and not zero (every accessor divides by it). -/
def findPieceLength (d : Dict) : Except MErr Nat :=
  match infoOf d with
  | some i =>
    match dictGet i kPieceLength with
    | some (.int n) => if 0 < n then .ok n.toNat else .error (.invalidU64 .pieceLength)
    | _ => .error (.incorrectOrMissing .pieceLength)
  | none => .error (.incorrectOrMissing .info)

/-- `chunks(HASH_SIZE)`. -/
def chunks (n : Nat) (fuel : Nat) (b : Bytes) : List Bytes :=
  match fuel with
  | 0 => []
  | fuel + 1 => if b.isEmpty then [] else b.take n :: chunks n fuel (b.drop n)

def findPieces (d : Dict) : Except MErr (List Bytes) :=
  match infoOf d with
  | some i =>
    match dictGet i kPieces with
    | some (.str p) => if p.length % 20 ≠ 0 then .error .notDivisible else .ok (chunks 20 p.length p)
    | _ => .error (.incorrectOrMissing .pieces)
  | none => .error (.incorrectOrMissing .info)

/-! ### The info value's bytes: `raw_info` -/

/-- One value skipped; the remaining input. -/
def skipValue (inp : Bytes) : Option Bytes :=
  match inp with
  | [] => none
  | b :: rest =>
    if isDigit b then (parseByteStr b rest).map (·.2)
    else if b = cI then (parseInt rest).map (·.2)
    else if b = cL || b = cD then
      match values true (rest.length + 1) rest true with
      | .ok (_, r) => some r
      | .error _ => none
    else none

def skipN : Nat → Bytes → Option Bytes
  | 0, inp => some inp
  | n + 1, inp => (skipValue inp).bind (skipN n)

/-- The entries of the dictionary, in the order written; the last `info` key wins (as in the `HashMap`). -/
def scanDict : Nat → Bytes → Option Bytes → Option (Option Bytes)
  | 0, _, _ => none
  | _ + 1, [], found => some found
  | fuel + 1, b :: rest, found =>
    if b = cE then some found else
    match parseByteStr b rest with
    | none => none
    | some (key, rest') =>
      match skipValue rest' with
      | none => none
      | some rest'' =>
        let span := rest'.take (rest'.length - rest''.length)
        scanDict fuel rest'' (if key = kInfo then some span else found)

/-- Exact bytes of the value stored under `info` in top-level value number `k` (a dictionary). -/
def rawInfo (doc : Bytes) (k : Nat) : Option Bytes :=
  match skipN k doc with
  | some (b :: rest) => if b = cD then (scanDict (rest.length + 1) rest none).join else none
  | _ => none

/-! ### `parse` and `from_bencode` -/

def sumLens (fs : List MFile) : Nat := (fs.map (·.length)).sum

/-- The file list: the single file named like the torrent, or the `files` list. -/
def filesOf (length : Option Nat) (multi : Option (List MFile)) (name : Bytes) : List MFile :=
  match length with
  | some l => [⟨l, name⟩]
  | none => multi.getD []

/-- Everything `parse` reads from the decoded dictionary, in the order the Rust code evaluates (and fails). -/
structure Fields where
  announce : Bytes
  name : Bytes
  pieceLength : Nat
  pieces : List Bytes
  files : List MFile

def parseFields (d : Dict) : Except MErr Fields :=
  if (findLength d).isSome && (findFiles d).isSome then .error .conflict
  else if (findLength d).isNone && (findFiles d).isNone then .error .lenOrFilesMissing
  else
    match findName d with
    | .error e => .error e
    | .ok name =>
      -- the total length must fit a u64
      if sumLens (filesOf (findLength d) (findFiles d) name) ≥ 2 ^ 64 then .error (.invalidU64 .length) else
      match findAnnounce d with
      | .error e => .error e
      | .ok announce =>
        match findPieceLength d with
        | .error e => .error e
        | .ok pl =>
          match findPieces d with
          | .error e => .error e
          | .ok pieces => .ok ⟨announce, name, pl, pieces, filesOf (findLength d) (findFiles d) name⟩

def parse (doc : Bytes) (k : Nat) (d : Dict) : Except MErr MetaM :=
  match parseFields d with
  | .error e => .error e
  | .ok f =>
    match rawInfo doc k with
    | none => .error .infoMissing
    | some span => .ok ⟨f.announce, f.name, f.pieceLength, f.pieces, f.files, span⟩

/-- The loop of `from_bencode`: the first top-level dictionary that parses; otherwise the last error. -/
def firstOk (doc : Bytes) : List BValue → Nat → Except MErr MetaM → Except MErr MetaM
  | [], _, e => e
  | .dict d :: rest, k, _ =>
    match parse doc k d with
    | .ok m => .ok m
    | .error e' => firstOk doc rest (k + 1) (.error e')
  | _ :: rest, k, e => firstOk doc rest (k + 1) e

def fromBencodeImpl (doc : Bytes) : Except MErr MetaM :=
  match decodeImpl doc with
  | none => .error .decode
  | some [] => .error .bencodeMissing
  | some vs => firstOk doc vs 0 (.error .dataMissing)

/-! ### Accessors with `u64`/`usize` arithmetic: `none` = the Rust code panics (overflow, division by zero) -/

def u64Max : Nat := 2 ^ 64

def totalLengthM (m : MetaM) : Option Nat :=
  m.files.foldl (fun acc f => acc.bind fun a => if a + f.length < u64Max then some (a + f.length) else none) (some 0)

def pieceLengthM (m : MetaM) (i : Nat) : Option Nat :=
  if m.pieces.length = 0 then none          -- `len() - 1` underflows
  else if i < m.pieces.length - 1 then some m.pieceLength
  else match totalLengthM m with
    | none => none
    | some t => if m.pieceLength = 0 then none else some (if t % m.pieceLength ≠ 0 then t % m.pieceLength else m.pieceLength)

/-- `file_piece_ranges` (positions only): `none` if `pos + length` overflows or the piece length is zero. -/
def rangesM (m : MetaM) : Option (List ((Nat × Nat) × (Nat × Nat))) :=
  if m.pieceLength = 0 then (if m.files.isEmpty then some [] else none)
  else if sumLens m.files < u64Max then some (ranges m.pieceLength (m.files.map (·.length)) 0) else none

/-! ### `create_file` -/

/-- The document `create_file` writes for a file called `name` with content `data` (`sha1` is a parameter). -/
def createTorrent (sha1 : Bytes → Bytes) (pieceLen : Nat) (name tracker data : Bytes) : Bytes :=
  let pieces := ((chunks pieceLen data.length data).map sha1).flatten
  let info : Dict := mkDict [(kName, .str name), (kPieceLength, .int pieceLen), (kPieces, .str pieces), (kLength, .int data.length)]
  encode (.dict (mkDict [(kAnnounce, .str tracker), (kInfo, .dict info)]))

end Rdest.Meta
