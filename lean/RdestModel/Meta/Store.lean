/-
  `extract_files` over an arbitrary piece store (what the `*.piece` files hold), for the end-to-end statement C02:
  the geometry model of C03 is the special case where the store holds the true pieces.
-/
import RdestModel.Meta.Geometry
namespace Rdest.Meta
open Rdest

/-- The "whole pieces" loop over a store. -/
def wholePiecesS (store : Nat → Bytes) (lo hi skip : Nat) : Bytes :=
  ((List.range (hi - lo)).map fun k => if k = 0 then (store lo).drop skip else store (lo + k)).flatten

def extractAtS (store : Nat → Bytes) (s so e eo : Nat) : Bytes :=
  let whole := wholePiecesS store s e so
  let from_ := if s = e then so else 0
  let last := if eo > from_ then ((store e).drop from_).take (eo - from_) else []
  whole ++ last

/-- `extract_files` reading the pieces from `store`. -/
def extractS (store : Nat → Bytes) (pl : Nat) (lens : List Nat) : List Bytes :=
  (ranges pl lens 0).map fun r => extractAtS store r.1.1 r.1.2 r.2.1 r.2.2

theorem extractImpl_eq_extractS (pl : Nat) (lens : List Nat) (content : Bytes) :
    extractImpl pl lens content = extractS (pieceOf pl content) pl lens := rfl

end Rdest.Meta
