/-
  Names of the piece files: `utils::hash_to_string` (src/utils.rs) — two upper-case hexadecimal digits per byte —
  followed by `.piece` (src/peer_handler.rs `save_piece_to_file` / `load_piece_from_file`, src/extractor.rs).
-/
import RdestModel.Bytes
namespace Rdest.Meta
open Rdest

/-- `{:X}` of a value below 16. -/
def hexDigitU (n : Nat) : Char :=
  if n < 10 then Char.ofNat (48 + n) else Char.ofNat (55 + n)

/-- `hash_to_string`: `format!("{:02X}", b)` for every byte. -/
def hexUpper : Bytes → List Char
  | [] => []
  | b :: bs => hexDigitU (b.toNat / 16) :: hexDigitU (b.toNat % 16) :: hexUpper bs

def pieceSuffix : List Char := ".piece".toList

/-- The file a piece with this listed hash is stored in. -/
def pieceFileName (h : Bytes) : List Char := hexUpper h ++ pieceSuffix

end Rdest.Meta
