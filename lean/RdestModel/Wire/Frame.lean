/-
  Model of src/frame.rs (`Frame::parse`, cursor at 0) with the per-message `check`/`from` functions of
  src/messages/*.rs inlined.  Outcomes are the coarse classes the connection code distinguishes:
  `frame m n` = `Ok(frame)` with the cursor left at `n`; `skip n` = `Err(UnknownId)` with the cursor at `n`;
  `incomplete` = `Err(Incomplete)`; `fatal` = every other `Err`.
-/
import RdestModel.Wire.Msg
namespace Rdest.Wire
open Rdest Rdest.Gen

inductive ParseOut where
  | frame (m : Msg) (consumed : Nat)
  | skip (consumed : Nat)
  | incomplete
  | fatal
  deriving Repr, DecidableEq, Inhabited

/-- Big-endian u32 at the head of a list (0 when fewer than four bytes are present; callers check). -/
def u32Head : Bytes → Nat
  | w :: x :: y :: z :: _ => fromBe32 w x y z
  | _ => 0

/-- `Choke::check` and its three siblings: the frame is the five header bytes. -/
def parseFixed (m : Msg) (want length : Nat) : ParseOut :=
  if length = want then .frame m (MSG_LEN_SIZE + want) else .fatal

/-- `Have::check`, `Request::check`, `Cancel::check`: fixed length, body must have arrived. -/
def parseSized (m : Msg) (want length avail : Nat) : ParseOut :=
  if length ≠ want then .fatal
  else if avail < MSG_LEN_SIZE + length then .incomplete
  else .frame m (MSG_LEN_SIZE + want)

/-- `Bitfield::check` (`minLen = 1`), `Piece::check` (`minLen = 9`): variable length. -/
def parseVar (m : Msg) (minLen length avail : Nat) : ParseOut :=
  if length < minLen then .fatal
  else if avail < MSG_LEN_SIZE + length then .incomplete
  else .frame m (MSG_LEN_SIZE + length)

/-- `Handshake::check` / `Handshake::from` (reached only when byte 0 is 19 and byte 4 is `'T'`). -/
def parseHandshake (buf : Bytes) (avail : Nat) : ParseOut :=
  if avail < HANDSHAKE_FULL_SIZE then .incomplete
  else if (buf.drop 1).take HANDSHAKE_PROTOCOL_ID.length = HANDSHAKE_PROTOCOL_ID then
    let s := 1 + HANDSHAKE_PROTOCOL_ID.length + HANDSHAKE_RESERVED_SIZE
    .frame (.handshake ((buf.drop s).take HASH_SIZE) ((buf.drop (s + HASH_SIZE)).take PEER_ID_SIZE))
      HANDSHAKE_FULL_SIZE
  else .fatal

/-- Unknown id: skipped once its whole body is available. -/
def parseUnknown (length avail : Nat) : ParseOut :=
  if avail < MSG_LEN_SIZE + length then .incomplete else .skip (MSG_LEN_SIZE + length)

/-- The `match FromPrimitive::from_u8(msg_id)` of `Frame::parse` for the nine ordinary ids. -/
def parseById (id length avail : Nat) (body : Bytes) : ParseOut :=
  if id = CHOKE_ID then parseFixed .choke CHOKE_LEN length
  else if id = UNCHOKE_ID then parseFixed .unchoke UNCHOKE_LEN length
  else if id = INTERESTED_ID then parseFixed .interested INTERESTED_LEN length
  else if id = NOT_INTERESTED_ID then parseFixed .notInterested NOT_INTERESTED_LEN length
  else if id = HAVE_ID then parseSized (.haveP (u32Head body)) HAVE_LEN length avail
  else if id = BITFIELD_ID then parseVar (.bitfield (body.take (length - MSG_ID_SIZE))) MSG_ID_SIZE length avail
  else if id = REQUEST_ID then
    parseSized (.request (u32Head body) (u32Head (body.drop 4)) (u32Head (body.drop 8))) REQUEST_LEN length avail
  else if id = PIECE_ID then
    parseVar (.piece (u32Head body) (u32Head (body.drop 4)) ((body.drop 8).take (length - PIECE_MIN_LEN)))
      PIECE_MIN_LEN length avail
  else if id = CANCEL_ID then
    parseSized (.cancel (u32Head body) (u32Head (body.drop 4)) (u32Head (body.drop 8))) CANCEL_LEN length avail
  else parseUnknown length avail

/-- `Frame::parse` after the length prefix has been read: `a` is the first byte of the buffer
    (`get_protocol_id_length`), `length` the decoded prefix, `buf` the whole buffer, `tl` what follows
    the prefix. -/
def parseBody (a : UInt8) (length : Nat) (buf tl : Bytes) : ParseOut :=
  if length = KEEP_ALIVE_LEN then .frame .keepAlive KEEP_ALIVE_FULL_SIZE else
  match tl with
  | [] => .incomplete                       -- get_message_id
  | idb :: body =>
    let avail := MSG_LEN_SIZE + MSG_ID_SIZE + body.length
    if idb.toNat = HANDSHAKE_ID_FROM_PROTOCOL ∧ a.toNat = HANDSHAKE_PROTOCOL_ID.length then
      parseHandshake buf avail
    else if length > MAX_FRAME_SIZE then .fatal
    else parseById idb.toNat length avail body

/-- `Frame::parse` on a buffer (cursor at 0): `get_message_length`, then the rest. -/
def parseImpl (buf : Bytes) : ParseOut :=
  match buf with
  | a :: b :: c :: d :: tl => parseBody a (fromBe32 a b c d) buf tl
  | _ => .incomplete

end Rdest.Wire
