/-
  Model of src/frame.rs (`Frame::parse`, cursor at 0) with the per-message `check`/`from` functions of
  src/messages/*.rs inlined.  Outcomes are the coarse classes the connection code distinguishes:
  `frame m n` = `Ok(frame)` with the cursor left at `n`; `skip n` = `Err(UnknownId)` with the cursor at `n`;
  `incomplete` = `Err(Incomplete)`; `fatal` = every other `Err`.
-/
import RdestModel.Wire.Msg
namespace Rdest.Wire
open Rdest Rdest.Gen

inductive ParseOut where
  | frame (m : Msg) (consumed : Nat)
  | skip (consumed : Nat)
  | incomplete
  | fatal
  deriving Repr, DecidableEq, Inhabited

/-- Big-endian u32 at the head of a list (0 when fewer than four bytes are present; callers check). -/
def u32Head : Bytes → Nat
  | w :: x :: y :: z :: _ => fromBe32 w x y z
  | _ => 0

/-- `Frame::parse` after the length prefix has been read: `a` is the first byte of the buffer
    (`get_protocol_id_length`), `length` the decoded prefix, `buf` the whole buffer, `tl` what follows
    the prefix. -/
def parseBody (a : UInt8) (length : Nat) (buf tl : Bytes) : ParseOut :=
  if length = KEEP_ALIVE_LEN then .frame .keepAlive KEEP_ALIVE_FULL_SIZE else
  match tl with
  | [] => .incomplete                       -- get_message_id
  | idb :: body =>
    let id := idb.toNat
    let avail := MSG_LEN_SIZE + MSG_ID_SIZE + body.length
    let isHandshake := id = HANDSHAKE_ID_FROM_PROTOCOL ∧ a.toNat = HANDSHAKE_PROTOCOL_ID.length
    if ¬ isHandshake ∧ length > MAX_FRAME_SIZE then .fatal else
    if isHandshake then
      -- Handshake::check / Handshake::from
      if avail < HANDSHAKE_FULL_SIZE then .incomplete
      else if (buf.drop 1).take HANDSHAKE_PROTOCOL_ID.length = HANDSHAKE_PROTOCOL_ID then
        let s := 1 + HANDSHAKE_PROTOCOL_ID.length + HANDSHAKE_RESERVED_SIZE
        .frame (.handshake ((buf.drop s).take HASH_SIZE) ((buf.drop (s + HASH_SIZE)).take PEER_ID_SIZE))
          HANDSHAKE_FULL_SIZE
      else .fatal
    else if id = CHOKE_ID then
      if length = CHOKE_LEN then .frame .choke (MSG_LEN_SIZE + CHOKE_LEN) else .fatal
    else if id = UNCHOKE_ID then
      if length = UNCHOKE_LEN then .frame .unchoke (MSG_LEN_SIZE + UNCHOKE_LEN) else .fatal
    else if id = INTERESTED_ID then
      if length = INTERESTED_LEN then .frame .interested (MSG_LEN_SIZE + INTERESTED_LEN) else .fatal
    else if id = NOT_INTERESTED_ID then
      if length = NOT_INTERESTED_LEN then .frame .notInterested (MSG_LEN_SIZE + NOT_INTERESTED_LEN) else .fatal
    else if id = HAVE_ID then
      if length ≠ HAVE_LEN then .fatal
      else if avail < MSG_LEN_SIZE + length then .incomplete
      else .frame (.haveP (u32Head body)) (MSG_LEN_SIZE + HAVE_LEN)
    else if id = BITFIELD_ID then
      if avail < MSG_LEN_SIZE + length then .incomplete
      else .frame (.bitfield (body.take (length - MSG_ID_SIZE))) (MSG_LEN_SIZE + length)
    else if id = REQUEST_ID then
      if length ≠ REQUEST_LEN then .fatal
      else if avail < MSG_LEN_SIZE + length then .incomplete
      else .frame (.request (u32Head body) (u32Head (body.drop 4)) (u32Head (body.drop 8)))
        (MSG_LEN_SIZE + REQUEST_LEN)
    else if id = PIECE_ID then
      if length < PIECE_MIN_LEN then .fatal
      else if avail < MSG_LEN_SIZE + length then .incomplete
      else .frame (.piece (u32Head body) (u32Head (body.drop 4)) ((body.drop 8).take (length - PIECE_MIN_LEN)))
        (MSG_LEN_SIZE + length)
    else if id = CANCEL_ID then
      if length ≠ CANCEL_LEN then .fatal
      else if avail < MSG_LEN_SIZE + length then .incomplete
      else .frame (.cancel (u32Head body) (u32Head (body.drop 4)) (u32Head (body.drop 8)))
        (MSG_LEN_SIZE + CANCEL_LEN)
    else
      -- unknown id: skipped once its whole body is available
      if avail < MSG_LEN_SIZE + length then .incomplete else .skip (MSG_LEN_SIZE + length)

/-- `Frame::parse` on a buffer (cursor at 0): `get_message_length`, then the rest. -/
def parseImpl (buf : Bytes) : ParseOut :=
  match buf with
  | a :: b :: c :: d :: tl => parseBody a (fromBe32 a b c d) buf tl
  | _ => .incomplete

end Rdest.Wire
