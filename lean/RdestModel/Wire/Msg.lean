/-
  Model of src/messages/*.rs (`Serializer::data`) and src/messages/bitfield.rs (`from_vec`/`to_vec`).
  `encode` mirrors the Rust serialisers line by line; `layoutSpec` is BEP3 written independently.
-/
import RdestModel.Gen.Constants
import RdestModel.Bytes
namespace Rdest.Wire
open Rdest Rdest.Gen

inductive Msg where
  | handshake (infoHash peerId : Bytes)
  | keepAlive
  | choke
  | unchoke
  | interested
  | notInterested
  | haveP (idx : Nat)
  | bitfield (bytes : Bytes)
  | request (idx begin len : Nat)
  | piece (idx begin : Nat) (block : Bytes)
  | cancel (idx begin len : Nat)
  deriving Repr, DecidableEq, Inhabited

def u8 (n : Nat) : UInt8 := UInt8.ofNat n

/-- `Serializer::data` of each message type. Integer fields are `u32` in Rust (`be32` reduces mod 2^32). -/
def encode : Msg → Bytes
  | .handshake h p =>
      [u8 HANDSHAKE_PROTOCOL_ID.length] ++ HANDSHAKE_PROTOCOL_ID ++ List.replicate HANDSHAKE_RESERVED_SIZE 0 ++ h ++ p
  | .keepAlive => be32 KEEP_ALIVE_LEN
  | .choke => be32 CHOKE_LEN ++ [u8 CHOKE_ID]
  | .unchoke => be32 UNCHOKE_LEN ++ [u8 UNCHOKE_ID]
  | .interested => be32 INTERESTED_LEN ++ [u8 INTERESTED_ID]
  | .notInterested => be32 NOT_INTERESTED_LEN ++ [u8 NOT_INTERESTED_ID]
  | .haveP i => be32 HAVE_LEN ++ [u8 HAVE_ID] ++ be32 i
  | .bitfield bs => be32 (MSG_ID_SIZE + bs.length) ++ [u8 BITFIELD_ID] ++ bs
  | .request i b l => be32 REQUEST_LEN ++ [u8 REQUEST_ID] ++ be32 i ++ be32 b ++ be32 l
  | .piece i b blk => be32 (MSG_ID_SIZE + 4 + 4 + blk.length) ++ [u8 PIECE_ID] ++ be32 i ++ be32 b ++ blk
  | .cancel i b l => be32 CANCEL_LEN ++ [u8 CANCEL_ID] ++ be32 i ++ be32 b ++ be32 l

/-- BEP3: `<length prefix><message ID><payload>`, length = 1 + payload length, big-endian. -/
def framed (id : Nat) (payload : Bytes) : Bytes := be32 (1 + payload.length) ++ [u8 id] ++ payload

/-- The BEP3 byte layout of every message, written from the specification (ids 0..8, pstrlen 19). -/
def layoutSpec : Msg → Bytes
  | .handshake h p => [19] ++ [66, 105, 116, 84, 111, 114, 114, 101, 110, 116, 32, 112, 114, 111, 116, 111, 99, 111, 108]
        ++ [0,0,0,0,0,0,0,0] ++ h ++ p   -- pstrlen, "BitTorrent protocol", 8 reserved bytes
  | .keepAlive => [0, 0, 0, 0]
  | .choke => framed 0 []
  | .unchoke => framed 1 []
  | .interested => framed 2 []
  | .notInterested => framed 3 []
  | .haveP i => framed 4 (be32 i)
  | .bitfield bs => framed 5 bs
  | .request i b l => framed 6 (be32 i ++ be32 b ++ be32 l)
  | .piece i b blk => framed 7 (be32 i ++ be32 b ++ blk)
  | .cancel i b l => framed 8 (be32 i ++ be32 b ++ be32 l)

/-- Field ranges of the Rust types: u32 fields, 20-byte arrays. -/
def Msg.WF : Msg → Prop
  | .handshake h p => h.length = 20 ∧ p.length = 20
  | .haveP i => i < 4294967296
  | .request i b l => i < 4294967296 ∧ b < 4294967296 ∧ l < 4294967296
  | .cancel i b l => i < 4294967296 ∧ b < 4294967296 ∧ l < 4294967296
  | .piece i b _ => i < 4294967296 ∧ b < 4294967296
  | _ => True

instance : DecidablePred Msg.WF := fun m => by
  cases m <;> unfold Msg.WF <;> infer_instance

/-! ### Bitfield packing (`Bitfield::from_vec`, `Bitfield::to_vec`) -/

/-- Inner loop of `from_vec`: `byte |= BYTE_MASK >> idx` for every set bit. -/
def byteOfBitsFrom : List Bool → Nat → UInt8 → UInt8
  | [], _, acc => acc
  | b :: bs, idx, acc =>
      byteOfBitsFrom bs (idx + 1) (if b then acc ||| (u8 BITFIELD_BYTE_MASK >>> u8 idx) else acc)

def byteOfBits (bits : List Bool) : UInt8 := byteOfBitsFrom bits 0 0

/-- `from_vec`: `pieces.chunks(BITS_IN_BYTE)` each packed into one byte. -/
def fromVec (bits : List Bool) : Bytes :=
  if bits.isEmpty then [] else
    byteOfBits (bits.take BITFIELD_BITS_IN_BYTE) :: fromVec (bits.drop BITFIELD_BITS_IN_BYTE)
termination_by bits.length
decreasing_by
  cases bits with
  | nil => simp at *
  | cons a t => simp [BITFIELD_BITS_IN_BYTE]; omega

/-- The inner loop of `to_vec` for one byte: eight times `byte & BYTE_MASK != 0; byte <<= 1`. -/
def bitsOfByteFrom : Nat → UInt8 → List Bool
  | 0, _ => []
  | k + 1, b => ((b &&& u8 BITFIELD_BYTE_MASK) != 0) :: bitsOfByteFrom k (b <<< 1)

def bitsOfByte (b : UInt8) : List Bool := bitsOfByteFrom BITFIELD_BITS_IN_BYTE b

def bytesNum (n : Nat) : Nat :=
  if n % BITFIELD_BITS_IN_BYTE = 0 then n / BITFIELD_BITS_IN_BYTE else n / BITFIELD_BITS_IN_BYTE + 1

/-- `to_vec(pieces_num)`: `none` is `Err(InvalidLength)`. -/
def toVec (bytes : Bytes) (n : Nat) : Option (List Bool) :=
  if bytes.length ≠ bytesNum n then none else some ((bytes.flatMap bitsOfByte).take n)

/-- BEP3 reading of a bitfield: piece `i` is the `(i mod 8)`-th most significant bit of byte `i / 8`. -/
def specBit (bytes : Bytes) (i : Nat) : Bool :=
  match bytes[i / 8]? with
  | some b => (b.toNat / 2 ^ (7 - i % 8)) % 2 = 1
  | none => false

end Rdest.Wire
