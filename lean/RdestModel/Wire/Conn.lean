/-
  Model of src/connection.rs: `Connection::parse_frame` and the `recv_frame` loop, driven by a list of
  future read chunks (an empty chunk is a read returning 0 bytes, i.e. EOF).
-/
import RdestModel.Wire.Frame
import RdestModel.Lemmas.Frame
namespace Rdest.Wire
open Rdest Rdest.Gen

/-- Result of one call of `parse_frame` on the receive buffer. -/
inductive PF where
  | frame (m : Msg) (rest : Bytes)   -- Ok(Some(frame)), buffer advanced
  | needMore (rest : Bytes)          -- Ok(None): nothing complete is buffered
  | fatal                            -- Err(_)
  deriving Repr, DecidableEq, Inhabited

theorem drop_lt_of_ok {b : Bytes} {n : Nat} (h : 0 < n ∧ n ≤ b.length) : (b.drop n).length < b.length := by
  simp; omega

/-- `Connection::parse_frame`: frames are cut off the front of the buffer; messages with an unknown id are
    dropped and parsing continues with what follows them. -/
def parseFrame (b : Bytes) : PF :=
  match h : parseImpl b with
  | .frame m n => .frame m (b.drop n)
  | .skip n => parseFrame (b.drop n)
  | .incomplete => .needMore b
  | .fatal => .fatal
termination_by b.length
decreasing_by
  have := parseImpl_ok b; rw [h] at this; exact drop_lt_of_ok this

/-- Everything a consumer obtains from repeated `recv_frame` calls before the connection has to read again:
    the decoded frames, and `some rest` (bytes retained while waiting for more) or `none` (fatal error). -/
def drain (b : Bytes) : List Msg × Option Bytes :=
  match h : parseImpl b with
  | .frame m n => let r := drain (b.drop n); (m :: r.1, r.2)
  | .skip n => drain (b.drop n)
  | .incomplete => ([], some b)
  | .fatal => ([], none)
termination_by b.length
decreasing_by
  all_goals (have := parseImpl_ok b; rw [h] at this; exact drop_lt_of_ok this)

/-- What the task calling `recv_frame` in a loop observes. -/
inductive Event where
  | frame (m : Msg)
  | closed      -- Ok(None): EOF with an empty buffer
  | reset       -- Err(ConnectionReset): EOF inside a frame
  | fatal       -- any other Err (oversized frame, impossible length, bad protocol string)
  deriving Repr, DecidableEq, Inhabited

def eofEvent (rest : Bytes) : Event := if rest.isEmpty then .closed else .reset

/-- The `recv_frame` loop against a scripted list of reads, starting with `buf` already buffered. -/
def run (buf : Bytes) : List Bytes → List Event
  | [] =>
    let r := drain buf
    r.1.map .frame ++ [match r.2 with | none => .fatal | some rest => eofEvent rest]
  | c :: cs =>
    let r := drain buf
    r.1.map .frame ++
      match r.2 with
      | none => [.fatal]
      | some rest => if c.isEmpty then [eofEvent rest] else run (rest ++ c) cs

/-- Specification: the event sequence is a function of the byte stream alone — greedy left-to-right decoding
    of the concatenation, then the end-of-stream verdict. -/
def decodeAll (stream : Bytes) : List Event :=
  let r := drain stream
  r.1.map .frame ++ [match r.2 with | none => .fatal | some rest => eofEvent rest]

/-- Buffer length retained before each read, for the bound (T4). -/
def retained (buf : Bytes) : List Bytes → List Nat
  | [] => match (drain buf).2 with | none => [] | some rest => [rest.length]
  | c :: cs =>
    match (drain buf).2 with
    | none => []
    | some rest => rest.length :: (if c.isEmpty then [] else retained (rest ++ c) cs)

end Rdest.Wire
