/-
  C01 — only hash-verified data is ever stored, advertised or assembled.
  Connection-task part: what is written to disk and when `PieceDone` is reported; manager part: a piece becomes
  owned only by `PieceDone`, and a task that ends in error gives its piece back (theorems of C12 re-used).
-/
import RdestModel.Lemmas.Loop
import RdestModel.Meta.Name
import RdestModel.Lemmas.Trace
import RdestModel.Lemmas.Sd
import RdestModel.Props.C12
set_option linter.unusedSimpArgs false
set_option linter.unusedVariables false
namespace Rdest.Props.C01
open Rdest Rdest.Wire Rdest.Gen Rdest.Swarm

/-! ### The connection task stores a piece only after its hash has been verified -/

/-- `handle_piece`: whenever a file is written, (1) its name is the hash the manager listed for the piece being
    downloaded, (2) its contents hash to exactly that value, (3) it is followed at once by `PieceDone`, and the block
    that completed it answered an outstanding request of that very piece. -/
theorem T1_store_only_verified (sha1 : Bytes → Bytes) (s : HState) (idx b : Nat) (blk : Bytes) (rep : Rep)
    (s' : HState) (o : List HOut) (c : Cont) (h : onPiece sha1 s idx b blk rep = some (s', o, c))
    (name data : Bytes) (hs : HOut.save name data ∈ o) :
    ∃ rx, s.pieceRx = some rx ∧ rx.index = idx ∧ rx.requested.contains (b, blk.length) = true ∧
      name = rx.hash ∧ sha1 data = rx.hash ∧ ∃ rest, o = [.save name data, .cmd .pieceDone] ++ rest := by
  unfold onPiece at h
  cases hrx : s.pieceRx with
  | none => rw [hrx] at h; cases h; simp at hs
  | some rx =>
    rw [hrx] at h
    simp only at h
    split at h
    · cases h; simp at hs
    · rename_i hacc
      have hacc' : rx.index = idx ∧ rx.requested.contains (b, blk.length) = true := by
        have := not_or.mp hacc
        exact ⟨Decidable.not_not.mp this.1, by simpa using this.2⟩
      split at h
      · split at h
        · cases h; simp at hs
        · rename_i hok
          have hhash : sha1 (writeSlice rx.buff b blk) = rx.hash := Decidable.not_not.mp hok
          split at h
          · rename_i s2 o2 hpf
            cases h
            simp only [List.cons_append, List.nil_append, List.mem_cons] at hs
            rcases hs with hs | hs | hs
            · cases hs; exact ⟨rx, rfl, hacc'.1, hacc'.2, rfl, hhash, o2, rfl⟩
            · cases hs
            · -- nothing else in this step writes a file
              exfalso
              have : ∀ x ∈ o2, ∀ n d, x ≠ HOut.save n d := by
                intro x hx n d
                unfold pieceFinishReply at hpf
                split at hpf
                · cases hpf
                  unfold newPieceRequest sendRequest at hx
                  simp only at hx
                  intro e; subst e
                  repeat' (first | split at hx | simp at hx)
                all_goals first
                  | (cases hpf; simp at hx <;> (intro e; subst e; simp at hx))
                  | cases hpf
              exact this _ hs name data rfl
          · rename_i s2 o2 hpf
            cases h
            simp only [List.cons_append, List.nil_append, List.mem_cons] at hs
            rcases hs with hs | hs | hs
            · cases hs; exact ⟨rx, rfl, hacc'.1, hacc'.2, rfl, hhash, o2, rfl⟩
            · cases hs
            · exfalso
              unfold pieceFinishReply at hpf
              split at hpf <;> first
                | (cases hpf; simp at hs)
                | cases hpf
          · cases h
      · cases h
        unfold sendRequest at hs
        simp only at hs
        exfalso
        repeat' (first | split at hs | simp at hs)

/-- A piece whose assembled data fails the hash is discarded: nothing is written, nothing is reported, and the task
    ends with an error — its `KillReq` makes the manager reset the piece to `Missing` (C12, `kill`). -/
theorem T2_hash_mismatch_discards (sha1 : Bytes → Bytes) (s : HState) (rx : Rx) (idx b : Nat) (blk : Bytes) (rep : Rep)
    (hrx : s.pieceRx = some rx) (hidx : rx.index = idx) (hreq : rx.requested.contains (b, blk.length) = true)
    (hlast : rx.left = [] ∧ rx.requested.filter (· ≠ (b, blk.length)) = [])
    (hbad : sha1 (writeSlice rx.buff b blk) ≠ rx.hash) :
    ∃ s', onPiece sha1 s idx b blk rep = some (s', [], .endError) := by
  unfold onPiece
  rw [hrx]
  simp only
  have h1 : ¬ (rx.index ≠ idx ∨ ¬ rx.requested.contains (b, blk.length) = true) := by
    intro h; rcases h with h | h
    · exact h hidx
    · exact h hreq
  rw [if_neg h1]
  have h2 : (rx.left.isEmpty = true ∧ (rx.requested.filter (· ≠ (b, blk.length))).isEmpty = true) :=
    ⟨by rw [hlast.1]; rfl, by rw [hlast.2]; rfl⟩
  rw [if_pos h2, if_pos hbad]
  exact ⟨_, rfl⟩

/-! ### The manager treats a piece as owned only after `PieceDone` (re-using the manager model of C12) -/

/-- The only step that makes a piece owned is `pieceDone` — sent by a task right after it stored verified data
    (T1) — and the piece it marks is the one that task was assigned (whose listed hash the task was given). -/
theorem T3_owned_only_by_piece_done (s s' : MState) (ev : Ev) (r : Reply) (hstep : mstep s ev = .ok s' r) (i : Nat)
    (hnot : s.statuses[i]? ≠ some .have) (hnow : s'.statuses[i]? = some .have) :
    ∃ a chosen p, ev = .pieceDone a chosen ∧ findPeer s a = some p ∧ p.pieceIndex = some i := by
  have incr_not : ∀ x : Status, x ≠ .have → incr x ≠ .have := by intro x hx; cases x <;> simp_all [incr]
  have decr_not : ∀ x : Status, x ≠ .have → decr x ≠ .have := by
    intro x hx; cases x <;> simp_all [decr]; split <;> simp
  -- a modification that never produces `Have` from a non-`Have` entry keeps position i non-`Have`
  have keep : ∀ (st : List Status) (k : Nat) (f : Status → Status), (∀ x, x ≠ .have → f x ≠ .have) →
      st[i]? ≠ some .have → (modifyAt st k f)[i]? ≠ some .have := by
    intro st k f hf hst
    rw [modifyAt_getElem?]
    split
    · intro e
      obtain ⟨x, hx, hfx⟩ := Rdest.Props.C12.map_some_eq e
      exact hf x (fun c => hst (by rw [hx, c])) hfx
    · exact hst
  have keepHP : ∀ (st : List Status) (p : MPeer) (c : Option Nat), st[i]? ≠ some .have →
      (handlePiece st p c).1[i]? ≠ some .have := by
    intro st p c hst
    unfold handlePiece
    cases c with
    | none => exact hst
    | some c => dsimp only; split
                · exact hst
                · exact keep st c incr incr_not hst
  cases ev with
  | pieceDone a chosen =>
    simp only [mstep] at hstep
    cases hp : findPeer s a with
    | none => simp [hp] at hstep
    | some p =>
      simp only [hp] at hstep
      cases hpi : p.pieceIndex with
      | none => simp [hpi] at hstep
      | some y =>
        refine ⟨a, chosen, p, rfl, hp, ?_⟩
        simp only [hpi, Out.ok.injEq] at hstep
        by_cases hy : y = i
        · rw [hpi, hy]
        · exfalso
          rw [← hstep.1] at hnow
          have h1 : (modifyAt s.statuses y (fun _ => Status.have))[i]? ≠ some .have := by
            rw [modifyAt_getElem?, if_neg (fun e => hy e.symm)]; exact hnot
          exact keepHP _ _ _ h1 hnow
  | add a n => simp only [mstep, Out.ok.injEq] at hstep; rw [← hstep.1] at hnow; exact absurd hnow hnot
  | choke a =>
    simp only [mstep] at hstep
    cases hp : findPeer s a with
    | none => simp [hp] at hstep
    | some p =>
      simp only [hp, Out.ok.injEq] at hstep; rw [← hstep.1] at hnow
      exfalso
      cases hpi : p.pieceIndex with
      | none => simp only [hpi] at hnow; exact hnot hnow
      | some k => simp only [hpi] at hnow; exact keep _ k decr decr_not hnot hnow
  | unchoke a chosen =>
    simp only [mstep] at hstep
    cases hp : findPeer s a with
    | none => simp [hp] at hstep
    | some p =>
      exfalso
      have h0 : (match p.choked, p.pieceIndex with
          | false, some old => modifyAt s.statuses old decr
          | _, _ => s.statuses)[i]? ≠ some .have := by
        cases p.choked <;> cases p.pieceIndex <;> first | exact hnot | exact keep _ _ decr decr_not hnot
      cases chosen with
      | none => simp only [hp, Out.ok.injEq] at hstep; rw [← hstep.1] at hnow; exact h0 hnow
      | some c => simp only [hp, Out.ok.injEq] at hstep; rw [← hstep.1] at hnow; exact keep _ c incr incr_not h0 hnow
  | interested a =>
    simp only [mstep] at hstep
    cases hp : findPeer s a with
    | none => simp [hp] at hstep
    | some p => simp only [hp, Out.ok.injEq] at hstep; rw [← hstep.1] at hnow; exact absurd hnow hnot
  | notInterested a chosen =>
    simp only [mstep] at hstep
    cases hp : findPeer s a with
    | none => simp [hp] at hstep
    | some p => simp only [hp, Out.ok.injEq] at hstep; rw [← hstep.1] at hnow; exact absurd hnow hnot
  | bitfield a bits chosen =>
    simp only [mstep] at hstep
    cases hp : findPeer s a with
    | none => simp [hp] at hstep
    | some p =>
      simp only [hp] at hstep
      split at hstep
      · simp at hstep
      · simp only [Out.ok.injEq] at hstep; rw [← hstep.1] at hnow; exact absurd hnow hnot
  | «have» a k chosen =>
    simp only [mstep] at hstep
    cases hp : findPeer s a with
    | none => simp [hp] at hstep
    | some p =>
      simp only [hp] at hstep
      exfalso
      split at hstep
      · simp at hstep
      · cases chosen with
        | none => simp only [Out.ok.injEq] at hstep; rw [← hstep.1] at hnow; exact hnot hnow
        | some c =>
          simp only at hstep
          split at hstep
          · split at hstep
            · simp only [Out.ok.injEq] at hstep; rw [← hstep.1] at hnow
              exact keep _ c incr incr_not hnot hnow
            · simp only [Out.ok.injEq] at hstep; rw [← hstep.1] at hnow; exact hnot hnow
          · simp only [Out.ok.injEq] at hstep; rw [← hstep.1] at hnow; exact hnot hnow
  | pieceCancel a chosen =>
    simp only [mstep] at hstep
    cases hp : findPeer s a with
    | none => simp [hp] at hstep
    | some p =>
      simp only [hp] at hstep
      exfalso
      cases hpi : p.pieceIndex with
      | none => simp [hpi] at hstep
      | some y =>
        simp only [hpi, Out.ok.injEq] at hstep; rw [← hstep.1] at hnow
        exact keepHP _ _ _ (keep _ y decr decr_not hnot) hnow
  | kill a =>
    simp only [mstep] at hstep
    exfalso
    cases hp : findPeer s a with
    | none => simp only [hp, Out.ok.injEq] at hstep; rw [← hstep.1] at hnow; exact hnot hnow
    | some p =>
      simp only [hp, Out.ok.injEq] at hstep; rw [← hstep.1] at hnow
      cases hpi : p.pieceIndex with
      | none => simp only [hpi] at hnow; exact hnot hnow
      | some k =>
        simp only [hpi] at hnow
        split at hnow
        · exact keep _ k (fun _ => Status.missing) (fun _ _ => by simp) hnot hnow
        · exact hnot hnow

/-! ### Manager and connection tasks together: every owned piece has been stored -/

/-- Manager state plus the (ghost) list of piece indices for which some connection task has written a verified
    piece file. `pieceDone a` is emitted by the task of peer `a` immediately after it stored verified data under the
    listed hash of the piece it downloads (`C01_trace`); that piece is the manager model's `rx` of `a` (the ghost
    field that mirrors the task's `piece_rx`, tied by the C10/C12 correspondence). -/
structure SState where
  m : MState
  stored : List Nat
  deriving Repr, DecidableEq

def sstep (s : SState) (ev : Ev) : Option SState :=
  match mstep s.m ev with
  | .ok m' _ =>
    some { m := m', stored := match ev with
      | .pieceDone a _ => (match (findPeer s.m a).bind (·.rx) with | some y => y :: s.stored | none => s.stored)
      | _ => s.stored }
  | .panic _ => none

inductive SReach : SState → Prop where
  | init (n : Nat) : SReach { m := { statuses := List.replicate n .missing, peers := [] }, stored := [] }
  | step (s s' : SState) (ev : Ev) : SReach s → Enabled s.m ev → sstep s ev = some s' → SReach s'

theorem sreach_reach (s : SState) (h : SReach s) : Rdest.Props.C12.Reach s.m := by
  induction h with
  | init n => exact Rdest.Props.C12.Reach.init n
  | step s s' ev _ hen hs ih =>
    simp only [sstep] at hs
    cases hm : mstep s.m ev with
    | panic w => rw [hm] at hs; cases hs
    | ok m' r =>
      rw [hm] at hs
      simp only [Option.some.injEq] at hs
      rw [← hs]
      exact Rdest.Props.C12.Reach.step s.m m' ev r ih hen hm

/-- **T4 (C01, manager and any number of connection tasks).** In every reachable state — any number of peers, any
    history of their events, every random piece choice — a piece the manager treats as owned (`Have`: served,
    advertised, counted as done, used for the output files) is one for which a connection task has stored
    hash-verified data. -/
theorem T4_owned_pieces_have_been_stored (s : SState) (h : SReach s) (i : Nat) (hi : s.m.statuses[i]? = some .have) :
    i ∈ s.stored := by
  induction h generalizing i with
  | init n =>
    simp only [List.getElem?_replicate] at hi
    split at hi <;> simp at hi
  | step s s' ev hr hen hs ih =>
    have hinv := Rdest.Props.C12.reach_inv s.m (sreach_reach s hr)
    simp only [sstep] at hs
    cases hm : mstep s.m ev with
    | panic w => rw [hm] at hs; cases hs
    | ok m' r =>
      rw [hm] at hs
      simp only [Option.some.injEq] at hs
      subst hs
      by_cases hold : s.m.statuses[i]? = some .have
      · have := ih i hold
        simp only
        split
        · split
          · exact List.mem_cons_of_mem _ this
          · exact this
        · exact this
      · obtain ⟨a, chosen, p, hev, hp, hpi⟩ := T3_owned_only_by_piece_done s.m m' ev r hm i hold hi
        subst hev
        -- the task could emit `PieceDone`: it is downloading some piece `y`, recorded as its assignment
        obtain ⟨p', y, hp', hrx⟩ := hen
        rw [hp] at hp'; cases hp'
        have hpm := (findPeer_some hp).1
        have := hinv.rxIdx p hpm y hrx
        rw [hpi] at this; cases this
        simp [hp, hrx]

/-- Non-vacuity (test): a history in which a piece becomes owned, and it is in the stored list. -/
example : ((((sstep { m := { statuses := [.missing], peers := [] }, stored := [] } (.add 0 1)).bind
    (sstep · (.bitfield 0 [true] (some 0)))).bind (sstep · (.unchoke 0 (some 0)))).bind (sstep · (.pieceDone 0 none))).map
    (fun s => (s.m.statuses, s.stored)) = some ([.have], [0]) := by decide

/-! ### Piece files of different pieces never share a name -/

section Names
open Rdest.Meta

theorem hexDigitU_inj : ∀ a b : Fin 16, hexDigitU a.val = hexDigitU b.val → a = b := by decide

theorem hexDigitU_inj_nat (a b : Nat) (ha : a < 16) (hb : b < 16) (h : hexDigitU a = hexDigitU b) : a = b := by
  have := hexDigitU_inj ⟨a, ha⟩ ⟨b, hb⟩ h
  exact Fin.val_eq_of_eq this

theorem hexUpper_injective : ∀ a b : Bytes, hexUpper a = hexUpper b → a = b := by
  intro a
  induction a with
  | nil => intro b h; cases b with
    | nil => rfl
    | cons y ys => simp [hexUpper] at h
  | cons x xs ih =>
    intro b h
    cases b with
    | nil => simp [hexUpper] at h
    | cons y ys =>
      simp only [hexUpper, List.cons.injEq] at h
      obtain ⟨h1, h2, h3⟩ := h
      have hx : x.toNat < 256 := x.toNat_lt
      have hy : y.toNat < 256 := y.toNat_lt
      have e1 := hexDigitU_inj_nat _ _ (by omega) (by omega) h1
      have e2 := hexDigitU_inj_nat _ _ (Nat.mod_lt _ (by decide)) (Nat.mod_lt _ (by decide)) h2
      have : x.toNat = y.toNat := by omega
      have hxy : x = y := UInt8.toNat_inj.mp this
      rw [hxy, ih ys h3]

/-- **T5 (C01).** The file name of a stored piece (`hash_to_string(hash) + ".piece"`) determines the hash: pieces with
    different listed hashes are stored in different files, so storing one verified piece never replaces another
    (and "named by the listed hash" in `C01_trace` means the file *is* that piece's). -/
theorem T5_piece_file_names_do_not_collide (h1 h2 : Bytes) (h : pieceFileName h1 = pieceFileName h2) : h1 = h2 :=
  hexUpper_injective h1 h2 (List.append_cancel_right h)

/-- Two characters per byte: a 20-byte hash gives a 40-character name before the suffix. -/
theorem hexUpper_length (h : Bytes) : (hexUpper h).length = 2 * h.length := by
  induction h with
  | nil => rfl
  | cons x xs ih => simp [hexUpper, ih]; omega

example : String.ofList (pieceFileName [0x0a, 0xff, 0x10]) = "0AFF10.piece" := by decide

end Names

/-! ### The whole trace of a connection task: every script -/

def R01 (st : M01) (s : HState) : Prop := st.alive = s.alive ∧ (s.alive = true → st.want = hashOf s)

def wantOf (x : Option ReqData) : Option Bytes := x.map (·.hash)

/-- The request data of a reply, if it carries one. -/
def repReq (rep : Rep) : Option ReqData :=
  match rep with
  | .req rd _ => some rd
  | _ => none

/-- The monitor's update of `want`. -/
def wantAfter (x : Option (Option ReqData)) (cur : Option Bytes) : Option Bytes :=
  match x with
  | some (some rd) => some rd.hash
  | some none => none
  | none => cur

theorem assignedBy_repReq (rep : Rep) : assignedBy rep = wantOf (repReq rep) := by cases rep <;> rfl

/-- Acceptance of a step that stores nothing and reports nothing done. -/
theorem accept_nosd (sha1 : Bytes → Bytes) (st : M01) (s s' : HState) (inp : TIn) (o : List HOut) (e : Option Bool)
    (hR : R01 st s) (ha : s.alive = true) (hq : NoSD o) (x : Option (Option ReqData))
    (hasg : assigned inp (o.filterMap (obsOf sha1)) = x)
    (hs' : s'.alive = e.isNone ∧ (e.isNone = true → hashOf s' = wantAfter x (hashOf s))) :
    ∃ st', step01 st (inp, o.filterMap (obsOf sha1), e) = some st' ∧ R01 st' s' := by
  obtain ⟨hRa, hRs⟩ := hR
  have hw := hRs ha
  have hlive : (!st.alive) = false := by rw [hRa, ha]; rfl
  have hsv : savedObs (o.filterMap (obsOf sha1)) = [] := by rw [savedObs_obs]; exact nosd_saves sha1 o hq
  have hdn := doneExpr_obs sha1 o
  rw [hq] at hdn
  refine ⟨{ want := wantAfter x st.want, alive := e.isNone }, ?_, ?_⟩
  · simp only [step01, hlive, Bool.false_eq_true, if_false, step01c, hsv, hasg]
    rw [hdn]
    cases x with
    | none => simp [wantAfter]
    | some y => cases y <;> simp [wantAfter]
  · refine ⟨hs'.1.symm, fun hal => ?_⟩
    have he : e.isNone = true := by rw [← hs'.1]; exact hal
    have := hs'.2 he
    show wantAfter x st.want = hashOf s'
    rw [this, hw]

/-- Inputs that never carry an assignment. -/
theorem assigned_none_of (inp : TIn) (obs : List Obs)
    (h1 : ∀ rep d, inp ≠ .frame .unchoke rep d) (h2 : ∀ i rep d, inp ≠ .frame (.haveP i) rep d)
    (h3 : ∀ i b blk rep d, inp ≠ .frame (.piece i b blk) rep d) (h4 : ∀ i rep, inp ≠ .bcHave i rep) :
    assigned inp obs = none := by
  cases inp with
  | frame m rep d =>
    cases m with
    | unchoke => exact absurd rfl (h1 rep d)
    | haveP i => exact absurd rfl (h2 i rep d)
    | piece i b blk => exact absurd rfl (h3 i b blk rep d)
    | _ => rfl
  | bcHave i rep => exact absurd rfl (h4 i rep)
  | _ => rfl

theorem step01_sound (sha1 : Bytes → Bytes) (st : M01) (s : HState) (inp : TIn) (s' : HState) (o : List HOut)
    (e : Option Bool) (hR : R01 st s) (h : tstep sha1 s inp = some (s', o, e)) :
    ∃ st', step01 st (inp, o.filterMap (obsOf sha1), e) = some st' ∧ R01 st' s' := by
  cases ha : s.alive with
  | false =>
    rw [tstep_dead sha1 s ha inp] at h; cases h
    refine ⟨st, ?_, hR⟩
    simp [step01, hR.1, ha, deadOk]
  | true =>
    have hg : (!s.alive) = false := by simp [ha]
    have hlive : (!st.alive) = false := by rw [hR.1, ha]; rfl
    have hw := hR.2 ha
    cases inp with
    | ticks k =>
      simp only [tstep, ticks_facts s ha, Option.some.injEq, Prod.mk.injEq] at h
      obtain ⟨rfl, rfl, rfl⟩ := h
      have hq : NoSD (List.replicate (kaRun KEEP_ALIVE_LIMIT s.keepAlive k).1 (HOut.write Msg.keepAlive)) := by
        generalize (kaRun KEEP_ALIVE_LIMIT s.keepAlive k).1 = n
        induction n with
        | zero => rfl
        | succ n ih => simp only [List.replicate_succ, NoSD, sdO, List.filterMap_cons] at ih ⊢; exact ih
      refine accept_nosd sha1 st s _ _ _ _ hR ha hq none (assigned_none_of _ _ (by simp) (by simp) (by simp) (by simp)) ⟨?_, fun _ => rfl⟩
      generalize (kaRun KEEP_ALIVE_LIMIT s.keepAlive k).2.2 = b
      cases b <;> rfl
    | eof =>
      simp only [tstep, hstep, hg, Bool.false_eq_true, if_false, terminate] at h
      cases h
      exact accept_nosd sha1 st s _ _ _ _ hR ha nosd_nil none (assigned_none_of _ _ (by simp) (by simp) (by simp) (by simp)) ⟨rfl, fun c => by cases c⟩
    | recvErr =>
      simp only [tstep, hstep, hg, Bool.false_eq_true, if_false, terminate] at h
      cases h
      exact accept_nosd sha1 st s _ _ _ _ hR ha nosd_nil none (assigned_none_of _ _ (by simp) (by simp) (by simp) (by simp)) ⟨rfl, fun c => by cases c⟩
    | bcState en =>
      simp only [tstep, hstep, hg, Bool.false_eq_true, if_false] at h
      split at h <;> cases h <;>
        exact accept_nosd sha1 st s _ _ _ _ hR ha rfl none (assigned_none_of _ _ (by simp) (by simp) (by simp) (by simp)) ⟨ha, fun _ => rfl⟩
    | start rep =>
      simp only [tstep, hstart, hg, Bool.false_eq_true, if_false] at h
      split at h
      · cases rep with
        | bitfield bs =>
          simp only [initHandshake, Option.some.injEq, Prod.mk.injEq] at h
          obtain ⟨rfl, rfl, rfl⟩ := h
          exact accept_nosd sha1 st s _ _ _ _ hR ha rfl none (assigned_none_of _ _ (by simp) (by simp) (by simp) (by simp)) ⟨ha, fun _ => rfl⟩
        | _ => simp [initHandshake] at h
      · cases h
        exact accept_nosd sha1 st s _ _ _ _ hR ha nosd_nil none (assigned_none_of _ _ (by simp) (by simp) (by simp) (by simp)) ⟨ha, fun _ => rfl⟩
    | bcHave i rep =>
      simp only [tstep, hstep, hg, Bool.false_eq_true, if_false] at h
      -- outer part: buffering or writing the Have changes nothing the monitor looks at
      have outer : ∀ (s1 : HState) (o1 : List HOut), s1.alive = true → NoSD o1 →
          (if s1.choked = true then some ({ s1 with msgBuff := s1.msgBuff ++ [i] }, o1, none)
            else some (s1, o1 ++ [HOut.write (Msg.haveP i)], none)) = some (s', o, e) →
          NoSD o ∧ e = none ∧ hashOf s' = hashOf s1 ∧ s'.alive = true ∧ cmO o = cmO o1 := by
        intro s1 o1 hal hq hm
        split at hm
        · cases hm; exact ⟨hq, rfl, rfl, hal, rfl⟩
        · cases hm; exact ⟨nosd_append hq rfl, rfl, rfl, hal, by rw [cmO_append]; simp [cmO]⟩
      cases hrx : s.pieceRx with
      | none =>
        rw [hrx] at h
        obtain ⟨hq, rfl, hh, hal, hcm⟩ := outer s [] ha nosd_nil h
        have hasg : assigned (.bcHave i rep) (o.filterMap (obsOf sha1)) = none := by
          simp only [assigned, cmds_obs, hcm]; rfl
        exact accept_nosd sha1 st s _ _ _ _ hR ha hq none hasg ⟨by simp [hal], fun _ => hh⟩
      | some rx =>
        rw [hrx] at h
        simp only at h
        by_cases hi : rx.index = i
        · simp only [hi, if_true] at h
          cases hpf : pieceFinishReply { s with pieceRx := none } rep with
          | none => rw [hpf] at h; cases h
          | some t =>
            obtain ⟨s2, o2, b2⟩ := t
            rw [hpf] at h
            simp only at h
            obtain ⟨hh2, hq2⟩ := pieceFinishReply_sd { s with pieceRx := none } rfl rep s2 o2 b2 hpf
            obtain ⟨_, hal2, _⟩ := pieceFinishReply_core _ _ _ _ _ hpf
            have hcm2 := cmO_pfr _ _ _ _ _ hpf
            have hqc : NoSD (List.map (fun bl => HOut.write (Msg.cancel i bl.1 bl.2)) rx.requested) := by
              induction rx.requested with
              | nil => rfl
              | cons x xs ih => simp only [List.map_cons, NoSD, sdO, List.filterMap_cons] at ih ⊢; exact ih
            have hcmc : cmO (List.map (fun bl => HOut.write (Msg.cancel i bl.1 bl.2)) rx.requested) = [] := by
              induction rx.requested with
              | nil => rfl
              | cons x xs ih => simp only [List.map_cons, cmO, List.filterMap_cons] at ih ⊢; exact ih
            obtain ⟨hq, rfl, hh, hal, hcm⟩ := outer s2 _ (by rw [hal2]; exact ha) (nosd_append (nosd_append hqc (rfl : NoSD [HOut.cmd Cmd.pieceCancel])) hq2) h
            have hasg : assigned (.bcHave i rep) (o.filterMap (obsOf sha1)) =
                some (repReq rep) := by
              simp only [assigned, cmds_obs, hcm, cmO_append, hcmc, hcm2]
              simp [cmO]
              try (cases rep <;> rfl)
            refine accept_nosd sha1 st s _ _ _ _ hR ha hq _ hasg ⟨by simp [hal], fun _ => ?_⟩
            rw [hh, hh2, assignedBy_repReq]
            cases hrr : repReq rep <;> rfl
        · simp only [hi, if_false] at h
          obtain ⟨hq, rfl, hh, hal, hcm⟩ := outer s [] ha nosd_nil h
          have hasg : assigned (.bcHave i rep) (o.filterMap (obsOf sha1)) = none := by
            simp only [assigned, cmds_obs, hcm]; rfl
          exact accept_nosd sha1 st s _ _ _ _ hR ha hq none hasg ⟨by simp [hal], fun _ => hh⟩
    | frame m rep d =>
      simp only [tstep, hstep, hg, Bool.false_eq_true, if_false] at h
      cases hf : handleFrame sha1 (diskOf d) s m rep with
      | none => rw [hf] at h; cases h
      | some r =>
        obtain ⟨s1, o1, c⟩ := r
        rw [hf] at h
        obtain ⟨_, hal1, _⟩ := handleFrame_core sha1 _ s m rep s1 o1 c hf
        have hres : o = o1 ∧ ((c = .go ∧ s' = s1 ∧ e = none) ∨ (c ≠ .go ∧ s'.alive = false ∧ e.isNone = false)) := by
          cases c with
          | go => cases h; exact ⟨rfl, Or.inl ⟨rfl, rfl, rfl⟩⟩
          | endNormal => simp only [terminate] at h; cases h; exact ⟨rfl, Or.inr ⟨by simp, rfl, rfl⟩⟩
          | endError => simp only [terminate] at h; cases h; exact ⟨rfl, Or.inr ⟨by simp, rfl, rfl⟩⟩
        obtain ⟨rfl, hcase⟩ := hres
        have halive' : s'.alive = e.isNone := by
          rcases hcase with ⟨_, rfl, rfl⟩ | ⟨_, h1, h2⟩
          · rw [hal1]; exact ha
          · rw [h1, h2]
        -- when the task goes on, the new state is the handler's
        have hgo : ∀ (P : HState → Prop), (c = .go → P s1) → e.isNone = true → P s' := by
          intro P hp he
          rcases hcase with ⟨hc', rfl, _⟩ | ⟨_, _, h2⟩
          · exact hp hc'
          · rw [h2] at he; cases he
        unfold handleFrame at hf
        simp only at hf
        split at hf
        · -- refused before the handshake
          cases hf
          have hasg : assigned (.frame m rep d) (([] : List HOut).filterMap (obsOf sha1)) = none := by
            cases m <;> rfl
          refine accept_nosd sha1 st s _ _ _ _ hR ha nosd_nil none hasg ⟨halive', fun he => ?_⟩
          rcases hcase with ⟨hc', _, _⟩ | ⟨_, _, h2⟩
          · cases hc'
          · rw [h2] at he; cases he
        · -- dispatched; the keep-alive reset does not touch the piece in progress
          have hh0 : hashOf { s with keepAlive := kaAfter m s.keepAlive } = hashOf s := rfl
          cases m with
          | handshake ih pid =>
            simp only [dispatch] at hf
            have hq : NoSD o ∧ (c = .go → hashOf s1 = hashOf s) := by
              rcases onHandshake_cases _ ih pid rep s1 o c hf with ⟨_, rfl, rfl, rfl⟩ | ⟨_, _, rfl, rfl, bs, rfl⟩ | ⟨_, _, rfl, rfl, rfl⟩
              · exact ⟨rfl, fun c => by cases c⟩
              · exact ⟨rfl, fun _ => rfl⟩
              · exact ⟨rfl, fun _ => rfl⟩
            exact accept_nosd sha1 st s _ _ _ _ hR ha hq.1 none rfl ⟨halive', fun he => hgo (fun x => hashOf x = hashOf s) hq.2 he⟩
          | unchoke =>
            simp only [dispatch] at hf
            obtain ⟨_, _, _, rest, rfl, _⟩ := onUnchoke_adv _ rep s1 _ c hf
            -- what the reply assigns
            have hdet : NoSD rest ∧ hashOf s1 = wantOf (repReq rep) ∧ cmO rest = [] := by
              unfold onUnchoke at hf
              simp only at hf
              split at hf
              · rename_i rd wi
                simp only [Option.some.injEq, Prod.mk.injEq] at hf
                obtain ⟨h1, h2, _⟩ := hf
                have hnp := newPieceRequest_sd { s with keepAlive := kaAfter Msg.unchoke s.keepAlive, choked := false, msgBuff := [] } wi rd
                have hr : rest = (newPieceRequest { s with keepAlive := kaAfter Msg.unchoke s.keepAlive, choked := false, msgBuff := [] } wi rd).2 := by
                  have := List.append_cancel_left h2; exact this.symm
                rw [hr, ← h1]
                exact ⟨hnp.2, hnp.1, cmO_npr _ _ _⟩
              · simp only [Option.some.injEq, Prod.mk.injEq] at hf
                obtain ⟨h1, h2, _⟩ := hf
                have hr : rest = [HOut.write Msg.notInterested] := (List.append_cancel_left h2).symm
                rw [hr, ← h1]; exact ⟨rfl, rfl, rfl⟩
              · simp only [Option.some.injEq, Prod.mk.injEq] at hf
                obtain ⟨h1, h2, _⟩ := hf
                have hr : rest = [] := by
                  have : List.map (fun i => HOut.write (Msg.haveP i)) s.msgBuff ++ [HOut.cmd Cmd.recvUnchoke] ++ [] =
                      List.map (fun i => HOut.write (Msg.haveP i)) s.msgBuff ++ [HOut.cmd Cmd.recvUnchoke] ++ rest := by
                    simpa using h2
                  exact (List.append_cancel_left this).symm
                rw [hr, ← h1]; exact ⟨rfl, rfl, rfl⟩
              · cases hf
            have hqf : NoSD (List.map (fun i => HOut.write (Msg.haveP i)) s.msgBuff) := by
              induction s.msgBuff with
              | nil => rfl
              | cons x xs ih => simp only [List.map_cons, NoSD, sdO, List.filterMap_cons] at ih ⊢; exact ih
            have hcf : cmO (List.map (fun i => HOut.write (Msg.haveP i)) s.msgBuff) = [] := by
              induction s.msgBuff with
              | nil => rfl
              | cons x xs ih => simp only [List.map_cons, cmO, List.filterMap_cons] at ih ⊢; exact ih
            have hasg : assigned (.frame .unchoke rep d) ((List.map (fun i => HOut.write (Msg.haveP i)) s.msgBuff ++ [HOut.cmd Cmd.recvUnchoke] ++ rest).filterMap (obsOf sha1)) =
                some (repReq rep) := by
              simp only [assigned, cmds_obs, cmO_append, hcf, hdet.2.2]
              simp [cmO]
              try (cases rep <;> rfl)
            refine accept_nosd sha1 st s _ _ _ _ hR ha (nosd_append (nosd_append hqf (rfl : NoSD [HOut.cmd Cmd.recvUnchoke])) hdet.1) _ hasg ⟨halive', fun he => ?_⟩
            have := hgo (fun x => hashOf x = wantOf (repReq rep)) (fun _ => hdet.2.1) he
            rw [this]; cases hrr : repReq rep <;> rfl
          | haveP i =>
            simp only [dispatch, onHave] at hf
            split at hf
            · -- index out of range: the task ends
              cases hf
              refine accept_nosd sha1 st s _ _ _ _ hR ha nosd_nil none rfl ⟨halive', fun he => ?_⟩
              rcases hcase with ⟨hc', _, _⟩ | ⟨_, _, h2⟩
              · cases hc'
              · rw [h2] at he; cases he
            · split at hf
              · rename_i rd
                cases hf
                have hnp := newPieceRequest_sd { s with keepAlive := kaAfter (Msg.haveP i) s.keepAlive } true rd
                have hasg : assigned (.frame (.haveP i) (.req rd true) d)
                    (([HOut.cmd (Cmd.recvHave i)] ++ (newPieceRequest { s with keepAlive := kaAfter (Msg.haveP i) s.keepAlive } true rd).2).filterMap (obsOf sha1)) =
                    some (some rd) := by
                  simp only [assigned, cmds_obs, cmO_append, cmO_npr]
                  simp [cmO]
                refine accept_nosd sha1 st s _ _ _ _ hR ha (nosd_append (rfl : NoSD [HOut.cmd (Cmd.recvHave i)]) hnp.2) _ hasg ⟨halive', fun he => ?_⟩
                exact hgo (fun x => hashOf x = wantAfter (some (some rd)) (hashOf s)) (fun _ => hnp.1) he
              · cases hf
                exact accept_nosd sha1 st s _ _ _ _ hR ha rfl none rfl ⟨halive', fun he => hgo (fun x => hashOf x = hashOf s) (fun _ => rfl) he⟩
              · cases hf
                exact accept_nosd sha1 st s _ _ _ _ hR ha rfl none rfl ⟨halive', fun he => hgo (fun x => hashOf x = hashOf s) (fun _ => rfl) he⟩
              · cases hf
          | piece idx b blk =>
            simp only [dispatch] at hf
            rcases onPiece_sd sha1 _ idx b blk rep s1 o c hf with ⟨hq, hk, hcm⟩ | ⟨hsh, buff, o2, hhs, hsha, rfl, hq2, hh', hw0⟩
            · have hasg : assigned (.frame (.piece idx b blk) rep d) (o.filterMap (obsOf sha1)) = none := by
                simp only [assigned, cmds_obs, hcm]; rfl
              exact accept_nosd sha1 st s _ _ _ _ hR ha hq none hasg ⟨halive', fun he => hgo (fun x => hashOf x = hashOf s) hk he⟩
            · -- stored and reported
              have hcm2 : cmO o2 = [] := by
                simp only [onPiece] at hf
                split at hf
                · cases hf
                · split at hf
                  · cases hf
                  · split at hf
                    · split at hf
                      · cases hf
                      · split at hf
                        · rename_i s2 o2' hpf
                          simp only [Option.some.injEq, Prod.mk.injEq] at hf
                          have : o2 = o2' := by
                            have h2 := hf.2.1
                            simp only [List.cons_append, List.nil_append, List.cons.injEq] at h2
                            exact h2.2.2.symm
                          rw [this]; exact cmO_pfr _ _ _ _ _ hpf
                        · rename_i s2 o2' hpf
                          simp only [Option.some.injEq, Prod.mk.injEq] at hf
                          have : o2 = o2' := by
                            have h2 := hf.2.1
                            simp only [List.cons_append, List.nil_append, List.cons.injEq] at h2
                            exact h2.2.2.symm
                          rw [this]; exact cmO_pfr _ _ _ _ _ hpf
                        · cases hf
                    · simp only [Option.some.injEq, Prod.mk.injEq] at hf
                      have h2 := hf.2.1
                      unfold sendRequest at h2
                      simp only at h2
                      split at h2 <;> simp at h2
              have hsv : savedObs (([HOut.save hsh buff, HOut.cmd Cmd.pieceDone] ++ o2).filterMap (obsOf sha1)) = [(hsh, sha1 buff, buff.length)] := by
                rw [savedObs_obs, savesO_append, nosd_saves sha1 o2 hq2]; rfl
              have hdn := doneExpr_obs sha1 ([HOut.save hsh buff, HOut.cmd Cmd.pieceDone] ++ o2)
              rw [sdO_append, hq2] at hdn
              have hasg : assigned (.frame (.piece idx b blk) rep d) (([HOut.save hsh buff, HOut.cmd Cmd.pieceDone] ++ o2).filterMap (obsOf sha1)) =
                  some (repReq rep) := by
                simp only [assigned, cmds_obs, cmO_append, hcm2]
                simp [cmO]
                try (cases rep <;> rfl)
              have hwant : st.want = some hsh := by rw [hw, ← hh0]; exact hhs
              refine ⟨{ want := wantAfter (some (repReq rep)) st.want, alive := e.isNone }, ?_, ⟨halive'.symm, fun hal => ?_⟩⟩
              · simp only [step01, hlive, Bool.false_eq_true, if_false, step01c, hsv, hasg, hwant, hsha]
                rw [hdn]
                cases hrr : repReq rep <;> simp [wantAfter, sdO]
              · have he : e.isNone = true := by rw [← halive']; exact hal
                have := hgo (fun x => hashOf x = assignedBy rep) (fun _ => hh') he
                show wantAfter (some (repReq rep)) st.want = hashOf s'
                rw [this, assignedBy_repReq]
                cases hrr : repReq rep <;> rfl
          | keepAlive | choke | interested | notInterested | bitfield _ | request _ _ _ | cancel _ _ _ =>
            obtain ⟨hk, hq⟩ := dispatch_sd sha1 _ _ _ rep rfl (by simp) (by simp) (by simp) s1 _ c hf
            exact accept_nosd sha1 st s _ _ _ _ hR ha hq none rfl ⟨halive', fun he => hgo (fun x => hashOf x = hashOf s) (fun _ => hk) he⟩

/-- **C01, connection-task part, whole trace (every script).** From any live state: a piece file is written only under
    the name of the hash listed for the piece the connection was asked to download, only with contents hashing to
    exactly that value; `PieceDone` is reported only immediately after such a store, and every store is reported. -/
theorem C01_trace (sha1 : Bytes → Bytes) (s : HState) (halive : s.alive = true) (script : List TIn) :
    checkTrace step01 { want := hashOf s, alive := true } (runTrace sha1 s script) = true :=
  checkTrace_run sha1 step01 R01 (fun st s inp s' o e hR h => step01_sound sha1 st s inp s' o e hR h)
    script _ s ⟨halive.symm, fun _ => rfl⟩

theorem C01_trace_fresh (sha1 : Bytes → Bytes) (s : HState) (halive : s.alive = true) (hrx : s.pieceRx = none)
    (script : List TIn) : P01 (runTrace sha1 s script) = true := by
  have := C01_trace sha1 s halive script
  simp only [hashOf, hrx, Option.map_none] at this
  exact this

/-! ### The whole client: any number of connection tasks and the manager in closed loop (`Swarm/Loop.lean`) -/

section Whole
open Rdest.Swarm.Loop

theorem sdO_of_pieceDone (o : List HOut) (h : Cmd.pieceDone ∈ cmdsOf o) : false ∈ sdO o := by
  induction o with
  | nil => simp [cmdsOf] at h
  | cons x xs ih =>
    cases x with
    | write m => simp only [cmdsOf_write] at h; change false ∈ sdO xs; exact ih h
    | save hh dd => simp only [cmdsOf_save] at h; change false ∈ true :: sdO xs; exact List.mem_cons_of_mem _ (ih h)
    | load hh => simp only [cmdsOf_load] at h; change false ∈ sdO xs; exact ih h
    | cmd c =>
      simp only [cmdsOf_cmd, List.mem_cons] at h
      cases c with
      | pieceDone => change false ∈ false :: sdO xs; exact List.mem_cons_self
      | init _ => rcases h with h | h; (cases h); change false ∈ sdO xs; exact ih h
      | recvChoke => rcases h with h | h; (cases h); change false ∈ sdO xs; exact ih h
      | recvUnchoke => rcases h with h | h; (cases h); change false ∈ sdO xs; exact ih h
      | recvInterested => rcases h with h | h; (cases h); change false ∈ sdO xs; exact ih h
      | recvNotInterested => rcases h with h | h; (cases h); change false ∈ sdO xs; exact ih h
      | recvHave _ => rcases h with h | h; (cases h); change false ∈ sdO xs; exact ih h
      | recvBitfield _ => rcases h with h | h; (cases h); change false ∈ sdO xs; exact ih h
      | recvRequest _ => rcases h with h | h; (cases h); change false ∈ sdO xs; exact ih h
      | pieceCancel => rcases h with h | h; (cases h); change false ∈ sdO xs; exact ih h

theorem mem_savesO (sha1 : Bytes → Bytes) (o : List HOut) (n dh : Bytes) (l : Nat) (h : (n, dh, l) ∈ savesO sha1 o) :
    ∃ d, HOut.save n d ∈ o ∧ sha1 d = dh := by
  simp only [savesO, List.mem_filterMap] at h
  obtain ⟨x, hx, hf⟩ := h
  cases x with
  | save hh dd => simp only [Option.some.injEq, Prod.mk.injEq] at hf; obtain ⟨rfl, rfl, _⟩ := hf; exact ⟨dd, hx, rfl⟩
  | write m => cases hf
  | cmd c => cases hf
  | load hh => cases hf

theorem step01c_none_of_hash (st : M01) (inp : TIn) (obs : List Obs) (e : Option Bool) (n dh : Bytes) (l : Nat)
    (hs : savedObs obs = [(n, dh, l)]) (hw : dh ≠ n) : step01c st inp obs e = none := by
  unfold step01c
  have hd : decide (st.want = some n ∧ dh = n) = false := decide_eq_false (fun c => hw c.2)
  simp only [hs, hd, Bool.false_and, Bool.not_false, if_true]

theorem savesO_length (sha1 : Bytes → Bytes) (o : List HOut) : (savesO sha1 o).length = (sdO o).count true := by
  induction o with
  | nil => rfl
  | cons y ys ih =>
    cases y with
    | write m => change (savesO sha1 ys).length = (sdO ys).count true; exact ih
    | load h => change (savesO sha1 ys).length = (sdO ys).count true; exact ih
    | save h d => change ((h, sha1 d, d.length) :: savesO sha1 ys).length = (true :: sdO ys).count true; simp [ih]
    | cmd c =>
      cases c <;> first
        | (change (savesO sha1 ys).length = (sdO ys).count true; exact ih)
        | (change (savesO sha1 ys).length = (false :: sdO ys).count true; simp [ih])

theorem step01c_none_of_done (st : M01) (inp : TIn) (obs : List Obs) (e : Option Bool)
    (hbad : sdExpr obs ≠ (if (savedObs obs).isEmpty then [] else [true, false])) : step01c st inp obs e = none := by
  unfold step01c
  have hd : decide (sdExpr obs = if (savedObs obs).isEmpty then [] else [true, false]) = false := decide_eq_false hbad
  simp only [hd, Bool.and_false, Bool.not_false, if_true]

theorem step01c_none_of_want (st : M01) (inp : TIn) (obs : List Obs) (e : Option Bool) (n dh : Bytes) (l : Nat)
    (hs : savedObs obs = [(n, dh, l)]) (hw : st.want ≠ some n) : step01c st inp obs e = none := by
  unfold step01c
  have hd : decide (st.want = some n ∧ dh = n) = false := decide_eq_false (fun c => hw c.1)
  simp only [hs, hd, Bool.false_and, Bool.not_false, if_true]

/-- A task reports `PieceDone` only in a step in which it wrote a piece file, and only while it is fetching a piece
    (from `step01_sound`, the soundness of the C01 monitor, applied to this one step). -/
theorem pieceDone_saves (sha1 : Bytes → Bytes) (d : Option (Bytes × Bytes)) (t : HState) (inp : HIn) (t' : HState)
    (outs : List HOut) (e : Option Bool) (h : hstep sha1 (diskOf d) t inp = some (t', outs, e))
    (hm : Cmd.pieceDone ∈ cmdsOf outs) :
    ∃ rx, t.pieceRx = some rx ∧ (rx.index, rx.hash, rx.hash) ∈ savedBy sha1 t outs := by
  cases hal : t.alive with
  | false =>
    simp only [hstep, hal, Bool.not_false, if_true, Option.some.injEq, Prod.mk.injEq] at h
    obtain ⟨_, rfl, _⟩ := h
    simp [cmdsOf] at hm
  | true =>
    have hg : (!t.alive) = false := by simp [hal]
    -- the inputs through which a piece can be completed or re-assigned are those of the trace model
    have key : ∀ (ti : TIn), tstep sha1 t ti = some (t', outs, e) →
        ∃ rx, t.pieceRx = some rx ∧ (rx.index, rx.hash, rx.hash) ∈ savedBy sha1 t outs := by
      intro ti hts
      obtain ⟨st', hacc, _⟩ := step01_sound sha1 { want := hashOf t, alive := t.alive } t ti t' outs e ⟨rfl, fun _ => rfl⟩ hts
      have hacc2 : step01c { want := hashOf t, alive := t.alive } ti (outs.filterMap (obsOf sha1)) e = some st' := by
        unfold step01 at hacc
        rw [if_neg (by simp [hal])] at hacc
        exact hacc
      have hf := sdO_of_pieceDone outs hm
      -- the order expression is what the monitor demands
      have hdone : sdExpr (outs.filterMap (obsOf sha1)) =
          (if (savedObs (outs.filterMap (obsOf sha1))).isEmpty then [] else [true, false]) := by
        by_cases hq : sdExpr (outs.filterMap (obsOf sha1)) =
            (if (savedObs (outs.filterMap (obsOf sha1))).isEmpty then [] else [true, false])
        · exact hq
        · rw [step01c_none_of_done _ _ _ _ hq] at hacc2
          cases hacc2
      rw [doneExpr_obs, savedObs_obs] at hdone
      cases hsv : savesO sha1 outs with
      | nil => rw [hsv] at hdone; simp at hdone; rw [hdone] at hf; cases hf
      | cons x xs =>
        have hsd : sdO outs = [true, false] := by rw [hdone, hsv]; rfl
        -- exactly one store (one `true` in the order expression)
        obtain ⟨n, dh, l⟩ := x
        have hone : xs = [] := by
          have hlen := savesO_length sha1 outs
          rw [hsv, hsd] at hlen
          simp at hlen
          exact hlen
        subst hone
        by_cases hw : hashOf t = some n
        · by_cases hdn : dh = n
          · subst hdn
            unfold hashOf at hw
            cases hp : t.pieceRx with
            | none => rw [hp] at hw; cases hw
            | some rx =>
              rw [hp] at hw
              simp only [Option.map_some, Option.some.injEq] at hw
              obtain ⟨data, hmem, hsha⟩ := mem_savesO sha1 outs dh dh l (by rw [hsv]; simp)
              refine ⟨rx, rfl, ?_⟩
              simp only [savedBy, hp, List.mem_filterMap]
              exact ⟨.save dh data, hmem, by simp [hw, hsha]⟩
          · rw [step01c_none_of_hash _ _ _ _ n dh l (by rw [savedObs_obs, hsv]) hdn] at hacc2
            cases hacc2
        · rw [step01c_none_of_want _ _ _ _ n dh l (by rw [savedObs_obs, hsv]) hw] at hacc2
          cases hacc2
    cases inp with
    | frame m rep => exact key (.frame m rep d) h
    | bcHave i rep => exact key (.bcHave i rep) h
    | eof => simp only [hstep, hg, Bool.false_eq_true, if_false, terminate, Option.some.injEq, Prod.mk.injEq] at h; rw [← h.2.1] at hm; simp [cmdsOf] at hm
    | recvErr => simp only [hstep, hg, Bool.false_eq_true, if_false, terminate, Option.some.injEq, Prod.mk.injEq] at h; rw [← h.2.1] at hm; simp [cmdsOf] at hm
    | start => simp only [hstep, hg, Bool.false_eq_true, if_false, Option.some.injEq, Prod.mk.injEq] at h; rw [← h.2.1] at hm; simp [cmdsOf] at hm
    | bcState en =>
      simp only [hstep, hg, Bool.false_eq_true, if_false] at h
      split at h <;> (simp only [Option.some.injEq, Prod.mk.injEq] at h; rw [← h.2.1] at hm; simp [cmdsOf] at hm)
    | tick =>
      simp only [hstep, hg, Bool.false_eq_true, if_false] at h
      split at h <;> (simp only [terminate, Option.some.injEq, Prod.mk.injEq] at h; rw [← h.2.1] at hm; simp [cmdsOf] at hm)

/-- The only command whose handling makes a piece owned is `PieceDone`, and the piece is the sender's assigned one. -/
theorem handled_have (T : Torrent) (a : Nat) (m m1 : MState) (cs : List Cmd) (rep : Rep)
    (hH : Handled T a m cs rep m1) (i : Nat) (hnew : m1.statuses[i]? = some .have) (hold : m.statuses[i]? ≠ some .have) :
    cs = [.pieceDone] ∧ ∃ p, findPeer m a = some p ∧ p.pieceIndex = some i := by
  have viaT3 : ∀ ev r, mstep m ev = .ok m1 r → ∃ a' chosen p, ev = .pieceDone a' chosen ∧ findPeer m a' = some p ∧ p.pieceIndex = some i :=
    fun ev r hm => T3_owned_only_by_piece_done m m1 ev r hm i hold hnew
  cases cs with
  | nil => simp only [Handled] at hH; rw [hH] at hnew; exact absurd hnew hold
  | cons c rest =>
    cases rest with
    | cons c2 r2 => cases c <;> simp [Handled] at hH
    | nil =>
      cases c with
      | init pid => simp only [Handled] at hH; rw [hH] at hnew; exact absurd hnew hold
      | recvRequest idx => simp only [Handled] at hH; rw [hH] at hnew; exact absurd hnew hold
      | recvChoke => simp only [Handled] at hH; obtain ⟨_, _, _, he, _⟩ := viaT3 _ _ hH; cases he
      | recvInterested => simp only [Handled] at hH; obtain ⟨_, _, _, he, _⟩ := viaT3 _ _ hH; cases he
      | recvUnchoke => simp only [Handled] at hH; obtain ⟨_, _, hm, _⟩ := hH; obtain ⟨_, _, _, he, _⟩ := viaT3 _ _ hm; cases he
      | recvNotInterested => simp only [Handled] at hH; obtain ⟨_, _, hm, _⟩ := hH; obtain ⟨_, _, _, he, _⟩ := viaT3 _ _ hm; cases he
      | recvHave j => simp only [Handled] at hH; obtain ⟨_, _, hm, _⟩ := hH; obtain ⟨_, _, _, he, _⟩ := viaT3 _ _ hm; cases he
      | recvBitfield bs => simp only [Handled] at hH; obtain ⟨_, _, _, hm, _⟩ := hH; obtain ⟨_, _, _, he, _⟩ := viaT3 _ _ hm; cases he
      | pieceCancel => simp only [Handled] at hH; obtain ⟨_, _, hm, _⟩ := hH; obtain ⟨_, _, _, he, _⟩ := viaT3 _ _ hm; cases he
      | pieceDone =>
        simp only [Handled] at hH
        obtain ⟨_, _, hm, _⟩ := hH
        obtain ⟨a', ch, p, he, hp, hpi⟩ := viaT3 _ _ hm
        cases he
        exact ⟨rfl, p, hp, hpi⟩

theorem afterEnd_have (a : Nat) (e : Option Bool) (m : MState) (i : Nat)
    (hnew : (afterEnd a e m).statuses[i]? = some .have) : m.statuses[i]? = some .have := by
  unfold afterEnd at hnew
  cases e with
  | none => exact hnew
  | some b =>
    simp only at hnew
    cases hk : mstep m (.kill a) with
    | panic w => rw [hk] at hnew; exact hnew
    | ok m' r =>
      rw [hk] at hnew
      by_cases hold : m.statuses[i]? = some .have
      · exact hold
      · obtain ⟨_, _, _, he, _⟩ := T3_owned_only_by_piece_done m m' _ r hk i hold hnew
        cases he

/-- **T6 (C01, the whole client).** Any number of connection tasks and the manager running in closed loop — every
    reply a task gets is the manager's answer to the command it sent, connections are added at any time, their steps are
    interleaved arbitrarily, every input (any frames in any order, broadcasts, ticks, stream ends) and every outcome of
    the chooser is allowed. In every reachable state, for a piece `i` the manager treats as owned (served, advertised,
    counted as done, used for the output files), some task has written a piece file **while it was fetching piece `i`,
    named by the hash the torrent lists for `i`, with data hashing to exactly that value**. (`sha1` is any function.) -/
theorem T6_whole_client_owned_pieces_have_been_stored (T : Torrent) (sha1 : Bytes → Bytes) (S : Sys)
    (h : SysReach T sha1 S) (i : Nat) (hi : S.m.statuses[i]? = some .have) :
    (i, T.hashes.getD i [], T.hashes.getD i []) ∈ S.stored := by
  induction h generalizing i with
  | init n dead _ =>
    simp only [List.getElem?_replicate] at hi
    split at hi <;> simp at hi
  | step S S' hr hs ih =>
    have hlink := allLinked_reach T sha1 S hr
    have hlisted := allListed_reach T sha1 S hr
    cases hs with
    | connect a t m' hnone hfresh hadd =>
      simp only [mstep, Out.ok.injEq] at hadd
      obtain ⟨rfl, _⟩ := hadd
      exact ih i hi
    | own a d inp m' t' outs hstep =>
      obtain ⟨e, m1, hh, hH, rfl⟩ := hstep
      have h1 := afterEnd_have a e m1 i hi
      simp only
      by_cases hold : S.m.statuses[i]? = some .have
      · exact List.mem_append_right _ (ih i hold)
      · obtain ⟨hcs, p, hp, hpi⟩ := handled_have T a S.m m1 _ _ hH i h1 hold
        have hmem : Cmd.pieceDone ∈ cmdsOf outs := by rw [hcs]; simp
        obtain ⟨rx, hprx, hsaved⟩ := pieceDone_saves sha1 d (S.tasks a) inp t' outs e hh hmem
        -- the task is alive (a dead task emits nothing), so it is linked
        have hal : (S.tasks a).alive = true := by
          cases hal : (S.tasks a).alive with
          | true => rfl
          | false =>
            simp only [hstep, hal, Bool.not_false, if_true, Option.some.injEq, Prod.mk.injEq] at hh
            obtain ⟨_, rfl, _⟩ := hh
            simp [cmdsOf] at hmem
        obtain ⟨p', hp', hrx', _, hidx⟩ := hlink a hal
        rw [hp] at hp'; cases hp'
        rw [hprx] at hrx'
        have : p.pieceIndex = some rx.index := hidx rx.index hrx'.symm
        rw [hpi] at this; cases this
        have hlst := hlisted a hal rx hprx
        apply List.mem_append_left
        rw [← hlst]
        exact hsaved

/-- **T6b (the premise of the manager model justified).** In every reachable state of the whole client, when a task
    reports `PieceDone` the manager has that connection recorded as fetching a piece (`rx`), which is its assigned piece —
    the enabledness condition under which the C12/C02 theorems quantify over `pieceDone` events (`Enabled`), here derived
    from the tasks' behaviour instead of assumed. -/
theorem T6_piece_done_only_while_assigned (T : Torrent) (sha1 : Bytes → Bytes) (S : Sys) (h : SysReach T sha1 S)
    (a : Nat) (d : Option (Bytes × Bytes)) (inp : HIn) (t' : HState) (outs : List HOut) (e : Option Bool)
    (hh : hstep sha1 (diskOf d) (S.tasks a) inp = some (t', outs, e)) (hm : Cmd.pieceDone ∈ cmdsOf outs) :
    Enabled S.m (.pieceDone a none) ∧ ∃ p y, findPeer S.m a = some p ∧ p.rx = some y ∧ p.pieceIndex = some y := by
  obtain ⟨rx, hprx, _⟩ := pieceDone_saves sha1 d (S.tasks a) inp t' outs e hh hm
  have hal : (S.tasks a).alive = true := by
    cases hal : (S.tasks a).alive with
    | true => rfl
    | false =>
      simp only [hstep, hal, Bool.not_false, if_true, Option.some.injEq, Prod.mk.injEq] at hh
      obtain ⟨_, rfl, _⟩ := hh
      simp [cmdsOf] at hm
  obtain ⟨p, hp, hrx', _, hidx⟩ := allLinked_reach T sha1 S h a hal
  rw [hprx] at hrx'
  exact ⟨⟨p, rx.index, hp, hrx'.symm⟩, p, rx.index, hp, hrx'.symm, hidx _ hrx'.symm⟩

/-- Non-vacuity (test): a reachable state of the whole client with a live connection task, linked to its record. -/
example : ∃ S, SysReach ⟨[[7]], fun _ => 1⟩ id S ∧ (S.tasks 0).alive = true ∧ AllLinked S := by
  let T : Torrent := ⟨[[7]], fun _ => 1⟩
  let t0 : HState := { infoHash := [1], ownId := [2], piecesNum := 1 }
  let S0 : Sys := { m := { statuses := [.missing], peers := [] }, tasks := fun _ => { t0 with alive := false }, stored := [] }
  have r0 : SysReach T id S0 := SysReach.init 1 _ (fun _ => rfl)
  let m1 : MState := { statuses := [.missing], peers := [{ addr := 0, pieces := [false] }] }
  have r1 : SysReach T id { S0 with m := m1, tasks := updateTask S0.tasks 0 t0 } :=
    SysReach.step S0 _ r0 (SysStep.connect S0 0 t0 m1 rfl ⟨rfl, rfl, rfl⟩ rfl)
  exact ⟨_, r1, rfl, allLinked_reach T id _ r1⟩

end Whole

end Rdest.Props.C01
