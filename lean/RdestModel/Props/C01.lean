/-
  C01 — only hash-verified data is ever stored, advertised or assembled.
  Connection-task part: what is written to disk and when `PieceDone` is reported; manager part: a piece becomes
  owned only by `PieceDone`, and a task that ends in error gives its piece back (theorems of C12 re-used).
-/
import RdestModel.Lemmas.Trace
import RdestModel.Props.C12
set_option linter.unusedSimpArgs false
set_option linter.unusedVariables false
namespace Rdest.Props.C01
open Rdest Rdest.Wire Rdest.Gen Rdest.Swarm

/-! ### The connection task stores a piece only after its hash has been verified -/

/-- `handle_piece`: whenever a file is written, (1) its name is the hash the manager listed for the piece being
    downloaded, (2) its contents hash to exactly that value, (3) it is followed at once by `PieceDone`, and the block
    that completed it answered an outstanding request of that very piece. -/
theorem T1_store_only_verified (sha1 : Bytes → Bytes) (s : HState) (idx b : Nat) (blk : Bytes) (rep : Rep)
    (s' : HState) (o : List HOut) (c : Cont) (h : onPiece sha1 s idx b blk rep = some (s', o, c))
    (name data : Bytes) (hs : HOut.save name data ∈ o) :
    ∃ rx, s.pieceRx = some rx ∧ rx.index = idx ∧ rx.requested.contains (b, blk.length) = true ∧
      name = rx.hash ∧ sha1 data = rx.hash ∧ ∃ rest, o = [.save name data, .cmd .pieceDone] ++ rest := by
  unfold onPiece at h
  cases hrx : s.pieceRx with
  | none => rw [hrx] at h; cases h; simp at hs
  | some rx =>
    rw [hrx] at h
    simp only at h
    split at h
    · cases h; simp at hs
    · rename_i hacc
      have hacc' : rx.index = idx ∧ rx.requested.contains (b, blk.length) = true := by
        have := not_or.mp hacc
        exact ⟨Decidable.not_not.mp this.1, by simpa using this.2⟩
      split at h
      · split at h
        · cases h; simp at hs
        · rename_i hok
          have hhash : sha1 (writeSlice rx.buff b blk) = rx.hash := Decidable.not_not.mp hok
          split at h
          · rename_i s2 o2 hpf
            cases h
            simp only [List.cons_append, List.nil_append, List.mem_cons] at hs
            rcases hs with hs | hs | hs
            · cases hs; exact ⟨rx, rfl, hacc'.1, hacc'.2, rfl, hhash, o2, rfl⟩
            · cases hs
            · -- nothing else in this step writes a file
              exfalso
              have : ∀ x ∈ o2, ∀ n d, x ≠ HOut.save n d := by
                intro x hx n d
                unfold pieceFinishReply at hpf
                split at hpf
                · cases hpf
                  unfold newPieceRequest sendRequest at hx
                  simp only at hx
                  intro e; subst e
                  repeat' (first | split at hx | simp at hx)
                all_goals first
                  | (cases hpf; simp at hx <;> (intro e; subst e; simp at hx))
                  | cases hpf
              exact this _ hs name data rfl
          · rename_i s2 o2 hpf
            cases h
            simp only [List.cons_append, List.nil_append, List.mem_cons] at hs
            rcases hs with hs | hs | hs
            · cases hs; exact ⟨rx, rfl, hacc'.1, hacc'.2, rfl, hhash, o2, rfl⟩
            · cases hs
            · exfalso
              unfold pieceFinishReply at hpf
              split at hpf <;> first
                | (cases hpf; simp at hs)
                | cases hpf
          · cases h
      · cases h
        unfold sendRequest at hs
        simp only at hs
        exfalso
        repeat' (first | split at hs | simp at hs)

/-- A piece whose assembled data fails the hash is discarded: nothing is written, nothing is reported, and the task
    ends with an error — its `KillReq` makes the manager reset the piece to `Missing` (C12, `kill`). -/
theorem T2_hash_mismatch_discards (sha1 : Bytes → Bytes) (s : HState) (rx : Rx) (idx b : Nat) (blk : Bytes) (rep : Rep)
    (hrx : s.pieceRx = some rx) (hidx : rx.index = idx) (hreq : rx.requested.contains (b, blk.length) = true)
    (hlast : rx.left = [] ∧ rx.requested.filter (· ≠ (b, blk.length)) = [])
    (hbad : sha1 (writeSlice rx.buff b blk) ≠ rx.hash) :
    ∃ s', onPiece sha1 s idx b blk rep = some (s', [], .endError) := by
  unfold onPiece
  rw [hrx]
  simp only
  have h1 : ¬ (rx.index ≠ idx ∨ ¬ rx.requested.contains (b, blk.length) = true) := by
    intro h; rcases h with h | h
    · exact h hidx
    · exact h hreq
  rw [if_neg h1]
  have h2 : (rx.left.isEmpty = true ∧ (rx.requested.filter (· ≠ (b, blk.length))).isEmpty = true) :=
    ⟨by rw [hlast.1]; rfl, by rw [hlast.2]; rfl⟩
  rw [if_pos h2, if_pos hbad]
  exact ⟨_, rfl⟩

/-! ### The manager treats a piece as owned only after `PieceDone` (re-using the manager model of C12) -/

/-- The only step that makes a piece owned is `pieceDone` — sent by a task right after it stored verified data
    (T1) — and the piece it marks is the one that task was assigned (whose listed hash the task was given). -/
theorem T3_owned_only_by_piece_done (s s' : MState) (ev : Ev) (r : Reply) (hstep : mstep s ev = .ok s' r) (i : Nat)
    (hnot : s.statuses[i]? ≠ some .have) (hnow : s'.statuses[i]? = some .have) :
    ∃ a chosen p, ev = .pieceDone a chosen ∧ findPeer s a = some p ∧ p.pieceIndex = some i := by
  have incr_not : ∀ x : Status, x ≠ .have → incr x ≠ .have := by intro x hx; cases x <;> simp_all [incr]
  have decr_not : ∀ x : Status, x ≠ .have → decr x ≠ .have := by
    intro x hx; cases x <;> simp_all [decr]; split <;> simp
  -- a modification that never produces `Have` from a non-`Have` entry keeps position i non-`Have`
  have keep : ∀ (st : List Status) (k : Nat) (f : Status → Status), (∀ x, x ≠ .have → f x ≠ .have) →
      st[i]? ≠ some .have → (modifyAt st k f)[i]? ≠ some .have := by
    intro st k f hf hst
    rw [modifyAt_getElem?]
    split
    · intro e
      obtain ⟨x, hx, hfx⟩ := Rdest.Props.C12.map_some_eq e
      exact hf x (fun c => hst (by rw [hx, c])) hfx
    · exact hst
  have keepHP : ∀ (st : List Status) (p : MPeer) (c : Option Nat), st[i]? ≠ some .have →
      (handlePiece st p c).1[i]? ≠ some .have := by
    intro st p c hst
    unfold handlePiece
    cases c with
    | none => exact hst
    | some c => dsimp only; split
                · exact hst
                · exact keep st c incr incr_not hst
  cases ev with
  | pieceDone a chosen =>
    simp only [mstep] at hstep
    cases hp : findPeer s a with
    | none => simp [hp] at hstep
    | some p =>
      simp only [hp] at hstep
      cases hpi : p.pieceIndex with
      | none => simp [hpi] at hstep
      | some y =>
        refine ⟨a, chosen, p, rfl, hp, ?_⟩
        simp only [hpi, Out.ok.injEq] at hstep
        by_cases hy : y = i
        · rw [hpi, hy]
        · exfalso
          rw [← hstep.1] at hnow
          have h1 : (modifyAt s.statuses y (fun _ => Status.have))[i]? ≠ some .have := by
            rw [modifyAt_getElem?, if_neg (fun e => hy e.symm)]; exact hnot
          exact keepHP _ _ _ h1 hnow
  | add a n => simp only [mstep, Out.ok.injEq] at hstep; rw [← hstep.1] at hnow; exact absurd hnow hnot
  | choke a =>
    simp only [mstep] at hstep
    cases hp : findPeer s a with
    | none => simp [hp] at hstep
    | some p =>
      simp only [hp, Out.ok.injEq] at hstep; rw [← hstep.1] at hnow
      exfalso
      cases hpi : p.pieceIndex with
      | none => simp only [hpi] at hnow; exact hnot hnow
      | some k => simp only [hpi] at hnow; exact keep _ k decr decr_not hnot hnow
  | unchoke a chosen =>
    simp only [mstep] at hstep
    cases hp : findPeer s a with
    | none => simp [hp] at hstep
    | some p =>
      exfalso
      have h0 : (match p.choked, p.pieceIndex with
          | false, some old => modifyAt s.statuses old decr
          | _, _ => s.statuses)[i]? ≠ some .have := by
        cases p.choked <;> cases p.pieceIndex <;> first | exact hnot | exact keep _ _ decr decr_not hnot
      cases chosen with
      | none => simp only [hp, Out.ok.injEq] at hstep; rw [← hstep.1] at hnow; exact h0 hnow
      | some c => simp only [hp, Out.ok.injEq] at hstep; rw [← hstep.1] at hnow; exact keep _ c incr incr_not h0 hnow
  | interested a =>
    simp only [mstep] at hstep
    cases hp : findPeer s a with
    | none => simp [hp] at hstep
    | some p => simp only [hp, Out.ok.injEq] at hstep; rw [← hstep.1] at hnow; exact absurd hnow hnot
  | notInterested a chosen =>
    simp only [mstep] at hstep
    cases hp : findPeer s a with
    | none => simp [hp] at hstep
    | some p => simp only [hp, Out.ok.injEq] at hstep; rw [← hstep.1] at hnow; exact absurd hnow hnot
  | bitfield a bits chosen =>
    simp only [mstep] at hstep
    cases hp : findPeer s a with
    | none => simp [hp] at hstep
    | some p =>
      simp only [hp] at hstep
      split at hstep
      · simp at hstep
      · simp only [Out.ok.injEq] at hstep; rw [← hstep.1] at hnow; exact absurd hnow hnot
  | «have» a k =>
    simp only [mstep] at hstep
    cases hp : findPeer s a with
    | none => simp [hp] at hstep
    | some p =>
      simp only [hp] at hstep
      exfalso
      split at hstep
      · simp at hstep
      · split at hstep
        · split at hstep
          · simp only [Out.ok.injEq] at hstep; rw [← hstep.1] at hnow
            exact keep _ k (fun _ => Status.reserved 1) (fun _ _ => by simp) hnot hnow
          · simp only [Out.ok.injEq] at hstep; rw [← hstep.1] at hnow; exact hnot hnow
        · simp only [Out.ok.injEq] at hstep; rw [← hstep.1] at hnow; exact hnot hnow
  | pieceCancel a chosen =>
    simp only [mstep] at hstep
    cases hp : findPeer s a with
    | none => simp [hp] at hstep
    | some p =>
      simp only [hp] at hstep
      exfalso
      cases hpi : p.pieceIndex with
      | none => simp [hpi] at hstep
      | some y =>
        simp only [hpi, Out.ok.injEq] at hstep; rw [← hstep.1] at hnow
        exact keepHP _ _ _ (keep _ y decr decr_not hnot) hnow
  | kill a =>
    simp only [mstep] at hstep
    exfalso
    cases hp : findPeer s a with
    | none => simp only [hp, Out.ok.injEq] at hstep; rw [← hstep.1] at hnow; exact hnot hnow
    | some p =>
      simp only [hp, Out.ok.injEq] at hstep; rw [← hstep.1] at hnow
      cases hpi : p.pieceIndex with
      | none => simp only [hpi] at hnow; exact hnot hnow
      | some k =>
        simp only [hpi] at hnow
        split at hnow
        · exact keep _ k (fun _ => Status.missing) (fun _ _ => by simp) hnot hnow
        · exact hnot hnow

/-- The full trace statement of the task part (monitor `P01`); evaluated on the model's and the implementation's
    trace of every generated script, kernel proof for all scripts pending (the local theorems above are its core). -/
def C01_trace_full : Prop :=
  ∀ (sha1 : Bytes → Bytes) (s : HState) (script : List TIn), s.alive = true → s.pieceRx = none →
    P01 (runTrace sha1 s script) = true

end Rdest.Props.C01
