import RdestModel.Swarm.Manager
namespace Rdest.Props.C12
open Rdest.Swarm
theorem placeholder : incr .missing = .reserved 1 := rfl
end Rdest.Props.C12
