/-
  C12 — no missing piece is ever withheld by a stale reservation.
-/
import RdestModel.Lemmas.Manager
set_option linter.unusedSimpArgs false
set_option linter.unusedVariables false
namespace Rdest.Props.C12
open Rdest.Swarm

/-- Invariant of the manager (together with the connection tasks' `rx`):
    * addresses are unique keys;
    * a task that downloads piece `y` is recorded with `piece_index = y`;
    * a recorded assignment of a peer that does not choke us was really requested (`rx`);
    * a piece is `Reserved(n)` only with `1 ≤ n ≤` number of unchoked peers it is assigned to. -/
structure Inv (s : MState) : Prop where
  nodup : (s.peers.map (·.addr)).Nodup
  rxIdx : ∀ p ∈ s.peers, ∀ y, p.rx = some y → p.pieceIndex = some y
  idxRx : ∀ p ∈ s.peers, ∀ i, p.pieceIndex = some i → p.choked = false → p.rx = some i
  resv : ∀ i n, s.statuses[i]? = some (.reserved n) → 1 ≤ n ∧ n ≤ countOn s.peers i

def b2n (b : Bool) : Nat := if b then 1 else 0

/-- Replacing one peer record and the status vector preserves the invariant if the new record is consistent and
    every reservation is covered after accounting for the replaced record. -/
theorem inv_update (s : MState) (hinv : Inv s) (a : Nat) (p q : MPeer) (hp : findPeer s a = some p)
    (hq : q.addr = p.addr) (st' : List Status)
    (hq2 : ∀ y, q.rx = some y → q.pieceIndex = some y)
    (hq3 : ∀ i, q.pieceIndex = some i → q.choked = false → q.rx = some i)
    (hst : ∀ j n', st'[j]? = some (.reserved n') →
      1 ≤ n' ∧ n' + b2n (counted j p) ≤ countOn s.peers j + b2n (counted j q)) :
    Inv { statuses := st', peers := setPeer s q } := by
  obtain ⟨hpm, hpa⟩ := findPeer_some hp
  refine ⟨?_, ?_, ?_, ?_⟩
  · show ((setPeer s q).map (·.addr)).Nodup
    rw [setPeer_addrs s p q hq]; exact hinv.nodup
  · intro x hx y hy
    rcases mem_setPeer s q x hx with rfl | ⟨hx', _⟩
    · exact hq2 y hy
    · exact hinv.rxIdx x hx' y hy
  · intro x hx i hi hc
    rcases mem_setPeer s q x hx with rfl | ⟨hx', _⟩
    · exact hq3 i hi hc
    · exact hinv.idxRx x hx' i hi hc
  · intro j n' hj
    obtain ⟨h1, h2⟩ := hst j n' hj
    refine ⟨h1, ?_⟩
    have := countP_setPeer s.peers hinv.nodup p q hpm hq (counted j)
    simp only [countOn, setPeer, b2n] at h2 ⊢
    omega

theorem counted_iff (j : Nat) (p : MPeer) : counted j p = true ↔ p.pieceIndex = some j ∧ p.choked = false := by
  simp [counted]

/-- A peer is counted on at most the one piece it is assigned. -/
theorem counted_eq (j i : Nat) (p : MPeer) (h : p.pieceIndex = some i) : counted j p = (decide (j = i) && !p.choked) := by
  unfold counted; rw [h]
  by_cases hji : j = i
  · subst hji; simp
  · have : ¬ i = j := fun e => hji e.symm
    simp [hji, this]

theorem counted_none (j : Nat) (p : MPeer) (h : p.pieceIndex = none) : counted j p = false := by
  simp [counted, h]

theorem counted_choked (j : Nat) (p : MPeer) (h : p.choked = true) : counted j p = false := by
  simp [counted, h]

/-- Status values after `incr`/`decr`, as far as reservations are concerned. -/
theorem incr_reserved (x : Status) (n' : Nat) (h : incr x = .reserved n') :
    (x = .missing ∧ n' = 1) ∨ (∃ n, x = .reserved n ∧ n' = n + 1) := by
  cases x <;> simp [incr] at h
  · left; exact ⟨rfl, h.symm⟩
  · right; exact ⟨_, rfl, h.symm⟩

theorem decr_reserved (x : Status) (n' : Nat) (h : decr x = .reserved n') :
    ∃ n, x = .reserved n ∧ n ≥ 2 ∧ n' = n - 1 := by
  match x, h with
  | .missing, h => simp [decr] at h
  | .have, h => simp [decr] at h
  | .reserved n, h =>
    simp only [decr] at h
    split at h
    · simp only [Status.reserved.injEq] at h; exact ⟨n, rfl, by omega, h.symm⟩
    · simp at h


theorem map_some_eq {x : Option Status} {f : Status → Status} {y : Status} (h : x.map f = some y) :
    ∃ v, x = some v ∧ f v = y := by
  cases x with
  | none => simp at h
  | some v => exact ⟨v, rfl, by simpa using h⟩

/-! ### Preservation, event by event -/

theorem choke_inv (s : MState) (hinv : Inv s) (a : Nat) (p : MPeer) (hp : findPeer s a = some p) :
    Inv { statuses := (match p.pieceIndex with | some i => modifyAt s.statuses i decr | none => s.statuses),
          peers := setPeer s { p with choked := true } } := by
  obtain ⟨hpm, _⟩ := findPeer_some hp
  apply inv_update s hinv a p { p with choked := true } hp rfl
  · exact fun y hy => hinv.rxIdx p hpm y hy
  · intro i _ hc; simp at hc
  · intro j n' hj
    have hq : counted j { p with choked := true } = false := counted_choked _ _ rfl
    rw [hq]
    cases hpi : p.pieceIndex with
    | none =>
      rw [hpi] at hj
      have := hinv.resv j n' hj
      rw [counted_none j p hpi]; simp [b2n]; exact this
    | some i =>
      rw [hpi] at hj
      simp only [modifyAt_getElem?] at hj
      by_cases hji : j = i
      · subst hji
        simp only [if_true] at hj
        obtain ⟨x, hx, hd⟩ := map_some_eq hj
        obtain ⟨n, rfl, hn2, rfl⟩ := decr_reserved x n' hd
        have := hinv.resv j n hx
        rw [counted_eq j j p hpi]
        cases p.choked <;> simp [b2n] <;> omega
      · simp only [hji, if_false] at hj
        have := hinv.resv j n' hj
        rw [counted_eq j i p hpi]; simp [hji, b2n]; exact this

/-- Statuses after "release `o` (optional), then reserve `c` (optional)". -/
def relThenRes (st : List Status) (o c : Option Nat) : List Status :=
  let st0 := match o with | some i => modifyAt st i decr | none => st
  match c with | some i => modifyAt st0 i incr | none => st0

/-- The common accounting argument: the peer record `p` (counted at most on `o`) is replaced by `q`
    (counted exactly on `c`); the reservation of `o` is released, the one of `c` is added. -/
theorem relThenRes_resv (s : MState) (hinv : Inv s) (p q : MPeer) (hpm : p ∈ s.peers) (o c : Option Nat)
    (hpo : ∀ j, counted j p = true → o = some j)
    (hqc : ∀ j, counted j q = decide (c = some j)) :
    ∀ j n', (relThenRes s.statuses o c)[j]? = some (.reserved n') →
      1 ≤ n' ∧ n' + b2n (counted j p) ≤ countOn s.peers j + b2n (counted j q) := by
  intro j n' hj
  rw [hqc j]
  have hk : counted j p = false ∨ (counted j p = true ∧ o = some j ∧ 1 ≤ countOn s.peers j) := by
    cases hc : counted j p
    · left; rfl
    · right; exact ⟨rfl, hpo j hc, by unfold countOn; exact List.countP_pos_iff.mpr ⟨p, hpm, hc⟩⟩
  generalize counted j p = cp at hk ⊢
  unfold relThenRes at hj
  have hres := hinv.resv j
  cases o with
  | none =>
    have hcp : cp = false := by rcases hk with h | ⟨_, h, _⟩; exact h; simp at h
    subst hcp
    cases c with
    | none => simp only at hj; have := hres n' hj; simp [b2n]; exact this
    | some ci =>
      simp only [modifyAt_getElem?] at hj
      by_cases hjc : j = ci
      · subst hjc
        simp only [if_true] at hj
        obtain ⟨x, hx, hi⟩ := map_some_eq hj
        rcases incr_reserved x n' hi with ⟨rfl, rfl⟩ | ⟨n, rfl, rfl⟩
        · simp [b2n]
        · have := hres n hx; simp [b2n]; omega
      · simp only [hjc, if_false] at hj
        have := hres n' hj
        have hne : ¬ ci = j := fun e => hjc e.symm
        simp [b2n, hne]; omega
  | some oi =>
    have hk' : b2n cp = 0 ∨ (b2n cp = 1 ∧ oi = j ∧ 1 ≤ countOn s.peers j) := by
      rcases hk with h | ⟨h, h2, h3⟩
      · left; simp [b2n, h]
      · right; exact ⟨by simp [b2n, h], by simpa using h2, h3⟩
    generalize b2n cp = k at hk'
    cases c with
    | none =>
      simp only [modifyAt_getElem?] at hj
      by_cases hjo : j = oi
      · subst hjo
        simp only [if_true] at hj
        obtain ⟨x, hx, hd⟩ := map_some_eq hj
        obtain ⟨n, rfl, hn2, rfl⟩ := decr_reserved x n' hd
        have := hres n hx; simp [b2n]; omega
      · simp only [hjo, if_false] at hj
        have := hres n' hj
        have hne : ¬ oi = j := fun e => hjo e.symm
        simp [b2n]; omega
    | some ci =>
      simp only [modifyAt_getElem?] at hj
      by_cases hjc : j = ci <;> by_cases hjo : j = oi
      · -- released and reserved again
        subst hjc; subst hjo
        simp only [if_true] at hj
        obtain ⟨x, hx, hi⟩ := map_some_eq hj
        obtain ⟨y, hy, hd⟩ := map_some_eq hx
        rcases incr_reserved x n' hi with ⟨rfl, rfl⟩ | ⟨n, rfl, rfl⟩
        · simp [b2n]; omega
        · obtain ⟨m, rfl, hm2, hm⟩ := decr_reserved y n hd
          have := hres m hy; simp [b2n]; omega
      · subst hjc
        have hne : ¬ oi = j := fun e => hjo e.symm
        simp only [if_true, hjo, if_false] at hj
        obtain ⟨x, hx, hi⟩ := map_some_eq hj
        rcases incr_reserved x n' hi with ⟨rfl, rfl⟩ | ⟨n, rfl, rfl⟩
        · simp [b2n]; omega
        · have := hres n hx; simp [b2n]; omega
      · subst hjo
        have hne : ¬ ci = j := fun e => hjc e.symm
        simp only [hjc, if_false, if_true] at hj
        obtain ⟨x, hx, hd⟩ := map_some_eq hj
        obtain ⟨n, rfl, hn2, rfl⟩ := decr_reserved x n' hd
        have := hres n hx; simp [b2n, hne]; omega
      · have h1 : ¬ ci = j := fun e => hjc e.symm
        have h2 : ¬ oi = j := fun e => hjo e.symm
        simp only [hjc, hjo, if_false] at hj
        have := hres n' hj
        simp [b2n, h1]; omega


/-- Generic instance: the record of `p` is replaced by `q`, statuses become "release `o`, reserve `c`". -/
theorem inv_relThenRes (s : MState) (hinv : Inv s) (a : Nat) (p q : MPeer) (hp : findPeer s a = some p)
    (hq : q.addr = p.addr) (o c : Option Nat)
    (hpo : ∀ j, counted j p = true → o = some j)
    (hqc : ∀ j, counted j q = decide (c = some j))
    (hq2 : ∀ y, q.rx = some y → q.pieceIndex = some y)
    (hq3 : ∀ i, q.pieceIndex = some i → q.choked = false → q.rx = some i) :
    Inv { statuses := relThenRes s.statuses o c, peers := setPeer s q } :=
  inv_update s hinv a p q hp hq _ hq2 hq3
    (relThenRes_resv s hinv p q (findPeer_some hp).1 o c hpo hqc)

theorem counted_imp_idx (p : MPeer) (j : Nat) (h : counted j p = true) : p.pieceIndex = some j :=
  ((counted_iff j p).mp h).1

/-- Flag-only updates (interest, advertised pieces) never disturb the invariant. -/
theorem inv_flags (s : MState) (hinv : Inv s) (a : Nat) (p q : MPeer) (hp : findPeer s a = some p)
    (hq : q.addr = p.addr) (h1 : q.pieceIndex = p.pieceIndex) (h2 : q.choked = p.choked) (h3 : q.rx = p.rx) :
    Inv { s with peers := setPeer s q } := by
  obtain ⟨hpm, _⟩ := findPeer_some hp
  apply inv_update s hinv a p q hp hq s.statuses
  · intro y hy; rw [h1]; rw [h3] at hy; exact hinv.rxIdx p hpm y hy
  · intro i hi hc; rw [h3]; rw [h1] at hi; rw [h2] at hc; exact hinv.idxRx p hpm i hi hc
  · intro j n' hj
    have : counted j q = counted j p := by simp [counted, h1, h2]
    rw [this]; have := hinv.resv j n' hj; omega

theorem modifyAt_const_eq_incr (st : List Status) (i : Nat) (h : st.getD i .have = .missing) :
    modifyAt st i (fun _ => .reserved 1) = modifyAt st i incr := by
  unfold modifyAt
  cases hx : st[i]? with
  | none => rfl
  | some x =>
    have : x = .missing := by simpa [List.getD_eq_getElem?_getD, hx] using h
    subst this; rfl

theorem setPeer_setPeer (s : MState) (st : List Status) (p1 q : MPeer) (h : p1.addr = q.addr) :
    setPeer { statuses := st, peers := setPeer s p1 } q = setPeer s q := by
  unfold setPeer
  simp only [List.map_map]
  apply List.map_congr_left
  intro x _
  simp only [Function.comp]
  by_cases hx : x.addr = p1.addr
  · simp [hx, h]
  · have : ¬ x.addr = q.addr := by rw [← h]; exact hx
    simp [hx, this]

theorem find_map_replace (ps : List MPeer) (a : Nat) (p q : MPeer)
    (hp : ps.find? (fun x => decide (x.addr = a)) = some p) (hq : q.addr = p.addr) :
    (ps.map (fun x => if x.addr = q.addr then q else x)).find? (fun x => decide (x.addr = a)) = some q := by
  have hpa : p.addr = a := by simpa using List.find?_some hp
  induction ps with
  | nil => simp at hp
  | cons x xs ih =>
    simp only [List.find?_cons] at hp
    simp only [List.map_cons, List.find?_cons]
    by_cases hx : x.addr = a
    · simp [hx] at hp
      subst hp
      simp [hq, hx]
    · simp [hx] at hp
      have hxq : ¬ x.addr = q.addr := by rw [hq, hpa]; exact hx
      simp only [hxq, if_false, hx, decide_false]
      exact ih hp

theorem findPeer_setPeer (s : MState) (st : List Status) (a : Nat) (p q : MPeer) (hp : findPeer s a = some p)
    (hq : q.addr = p.addr) : findPeer { statuses := st, peers := setPeer s q } a = some q := by
  unfold findPeer at hp ⊢
  exact find_map_replace s.peers a p q hp hq

/-- `Peer::handle_piece` from a state in which the record has no assignment. -/
theorem handlePiece_inv (s : MState) (hinv : Inv s) (a : Nat) (p : MPeer) (hp : findPeer s a = some p)
    (hpi : p.pieceIndex = none) (hrx : p.rx = none) (chosen : Option Nat) :
    Inv { statuses := (handlePiece s.statuses p chosen).1, peers := setPeer s (handlePiece s.statuses p chosen).2.1 } := by
  have hcp : ∀ j, counted j p = true → (none : Option Nat) = some j := by
    intro j h; rw [counted_imp_idx p j h] at hpi; simp at hpi
  unfold handlePiece
  cases chosen with
  | none =>
    have := inv_relThenRes s hinv a p { p with pieceIndex := none, amInterested := false, rx := none } hp rfl none none hcp
      (by intro j; simp [counted]) (by simp) (by simp)
    simpa [relThenRes] using this
  | some c =>
    by_cases hc : p.choked = true
    · simp only [hc, if_true]
      have := inv_relThenRes s hinv a p { p with pieceIndex := none, rx := none } hp rfl none none hcp
        (by intro j; simp [counted]) (by simp) (by simp)
      simpa [relThenRes, hc] using this
    · simp only [hc, if_false, Bool.false_eq_true]
      have hc' : p.choked = false := by simpa using hc
      have := inv_relThenRes s hinv a p { p with pieceIndex := some c, rx := some c } hp rfl none (some c) hcp
        (by intro j; simp [counted, hc']) (by simp) (by simp)
      simpa [relThenRes, hc'] using this

theorem countOn_filter_remove (ps : List MPeer) (hnd : (ps.map (·.addr)).Nodup) (p : MPeer) (hpm : p ∈ ps)
    (a : Nat) (hpa : p.addr = a) (j : Nat) :
    countOn (ps.filter (fun q => decide (q.addr ≠ a))) j + b2n (counted j p) = countOn ps j := by
  unfold countOn
  induction ps with
  | nil => simp at hpm
  | cons x xs ih =>
    simp only [List.map_cons, List.nodup_cons] at hnd
    simp only [List.mem_cons] at hpm
    by_cases hx : x.addr = a
    · have hxp : x = p := by
        rcases hpm with rfl | hpm
        · rfl
        · exfalso; apply hnd.1; rw [hx, ← hpa]; exact List.mem_map_of_mem hpm
      subst hxp
      have hfil : xs.filter (fun q => decide (q.addr ≠ a)) = xs := by
        apply List.filter_eq_self.mpr
        intro q hq
        have : q.addr ≠ a := by
          intro e; apply hnd.1; rw [hx, ← e]; exact List.mem_map_of_mem hq
        exact decide_eq_true this
      have hd : decide (x.addr ≠ a) = false := decide_eq_false (fun h => h hx)
      rw [List.filter_cons, hd]
      simp only [Bool.false_eq_true, if_false, hfil, List.countP_cons, b2n]
    · have hpx : p ∈ xs := by
        rcases hpm with rfl | hpm
        · exact absurd hpa hx
        · exact hpm
      have := ih hnd.2 hpx
      have hd : decide (x.addr ≠ a) = true := decide_eq_true hx
      rw [List.filter_cons, hd]
      simp only [if_true, List.countP_cons]
      omega

/-- What the invariant needs of `Enabled`: exactly what keeps `mstep` from panicking (plus: a connection is added only
    for an address without one). Every answered command satisfies it (`enabledW_of_ok`). -/
def EnabledW (s : MState) : Ev → Prop
  | .add a _ => findPeer s a = none
  | .pieceDone a _ => ∃ p y, findPeer s a = some p ∧ p.pieceIndex = some y
  | .pieceCancel a _ => ∃ p y, findPeer s a = some p ∧ p.pieceIndex = some y
  | .have a i _ => ∃ p, findPeer s a = some p ∧ i < p.pieces.length
  | .bitfield a bits _ => ∃ p, findPeer s a = some p ∧ bits.length = p.pieces.length
  | .kill _ => True
  | .choke a => ∃ p, findPeer s a = some p
  | .unchoke a _ => ∃ p, findPeer s a = some p
  | .interested a => ∃ p, findPeer s a = some p
  | .notInterested a _ => ∃ p, findPeer s a = some p

theorem step_inv_w (s : MState) (hinv : Inv s) (ev : Ev) (hen : EnabledW s ev) :
    ∃ s' r, mstep s ev = .ok s' r ∧ Inv s' := by
  cases ev with
  | add a n =>
    have hnone : findPeer s a = none := hen
    have hne := findPeer_none hnone
    have hfil : s.peers.filter (fun p => decide (p.addr ≠ a)) = s.peers := by
      apply List.filter_eq_self.mpr; intro p hp; simpa using hne p hp
    refine ⟨_, _, rfl, ?_⟩
    simp only [hfil]
    refine ⟨?_, ?_, ?_, ?_⟩
    · simp only [List.map_cons, List.nodup_cons]
      refine ⟨?_, hinv.nodup⟩
      intro h; obtain ⟨p, hp, hpa⟩ := List.mem_map.mp h; exact hne p hp hpa
    · intro x hx y hy
      simp only [List.mem_cons] at hx
      rcases hx with rfl | hx
      · simp at hy
      · exact hinv.rxIdx x hx y hy
    · intro x hx i hi hc
      simp only [List.mem_cons] at hx
      rcases hx with rfl | hx
      · simp at hi
      · exact hinv.idxRx x hx i hi hc
    · intro j n' hj
      have := hinv.resv j n' hj
      simp only [countOn, List.countP_cons]
      unfold countOn at this; omega
  | choke a =>
    obtain ⟨p, hp⟩ := hen
    obtain ⟨hpm, _⟩ := findPeer_some hp
    refine ⟨_, _, by simp only [mstep, hp]; rfl, ?_⟩
    have := inv_relThenRes s hinv a p { p with choked := true } hp rfl p.pieceIndex none
      (fun j h => counted_imp_idx p j h) (by intro j; simp [counted])
      (fun y hy => hinv.rxIdx p hpm y hy) (by intro i _ hc; simp at hc)
    cases hpi : p.pieceIndex <;> simpa [relThenRes, hpi] using this
  | unchoke a chosen =>
    obtain ⟨p, hp⟩ := hen
    obtain ⟨hpm, _⟩ := findPeer_some hp
    -- the reservation released first: the old piece, if the peer was not choking us
    let o : Option Nat := match p.choked, p.pieceIndex with
      | false, some old => some old
      | _, _ => none
    have hpo : ∀ j, counted j p = true → o = some j := by
      intro j h
      obtain ⟨h1, h2⟩ := (counted_iff j p).mp h
      simp only [o, h1, h2]
    have hst0 : (match p.choked, p.pieceIndex with
        | false, some old => modifyAt s.statuses old decr
        | _, _ => s.statuses) = relThenRes s.statuses o none := by
      simp only [o, relThenRes]
      cases p.choked <;> cases p.pieceIndex <;> rfl
    cases chosen with
    | none =>
      refine ⟨_, _, by simp only [mstep, hp]; rfl, ?_⟩
      have := inv_relThenRes s hinv a p { p with choked := false, pieceIndex := none, amInterested := false, rx := none }
        hp rfl o none hpo (by intro j; simp [counted]) (by simp) (by simp)
      rw [← hst0] at this; exact this
    | some c =>
      refine ⟨_, _, by simp only [mstep, hp]; rfl, ?_⟩
      have := inv_relThenRes s hinv a p { p with choked := false, pieceIndex := some c, amInterested := true, rx := some c }
        hp rfl o (some c) hpo (by intro j; simp [counted]) (by simp) (by simp)
      have e : relThenRes s.statuses o (some c) = modifyAt (relThenRes s.statuses o none) c incr := by
        simp only [relThenRes]
      rw [e, ← hst0] at this; exact this
  | interested a =>
    obtain ⟨p, hp⟩ := hen
    exact ⟨_, _, by simp only [mstep, hp] <;> rfl, inv_flags s hinv a p { p with interested := true } hp rfl rfl rfl rfl⟩
  | notInterested a chosen =>
    obtain ⟨p, hp⟩ := hen
    exact ⟨_, _, by simp only [mstep, hp] <;> rfl, inv_flags s hinv a p { p with interested := false } hp rfl rfl rfl rfl⟩
  | bitfield a bits chosen =>
    obtain ⟨p, hp, hlen⟩ := hen
    have hl : ¬ bits.length ≠ p.pieces.length := by rw [hlen]; simp
    exact ⟨_, _, by simp only [mstep, hp, hl, if_false] <;> rfl,
      inv_flags s hinv a p { p with pieces := bits, amInterested := chosen.isSome } hp rfl rfl rfl rfl⟩
  | «have» a i chosen =>
    obtain ⟨p, hp, hi⟩ := hen
    obtain ⟨hpm, _⟩ := findPeer_some hp
    have hl : ¬ i ≥ p.pieces.length := by omega
    cases chosen with
    | none =>
      exact ⟨_, _, by simp only [mstep, hp, hl, if_false] <;> rfl,
        inv_flags s hinv a p { p with pieces := p.pieces.set i true } hp rfl rfl rfl rfl⟩
    | some c =>
      by_cases hcond : p.amInterested = false
      · by_cases hassign : p.choked = false ∧ p.pieceIndex = none
        · refine ⟨_, _, by simp only [mstep, hp, hl, if_false, hcond, hassign, and_self, if_true] <;> rfl, ?_⟩
          have hcp : ∀ j, counted j p = true → (none : Option Nat) = some j := by
            intro j h; rw [counted_imp_idx p j h] at hassign; simp at hassign
          have := inv_relThenRes s hinv a p
            { p with pieces := p.pieces.set i true, pieceIndex := some c, amInterested := true, rx := some c }
            hp rfl none (some c) hcp (by intro j; simp [counted, hassign.1]) (by simp) (by simp)
          simpa [relThenRes, hassign.1] using this
        · exact ⟨_, _, by simp only [mstep, hp, hl, if_false, hcond, hassign, and_self, if_true] <;> rfl,
            inv_flags s hinv a p { p with pieces := p.pieces.set i true, amInterested := true } hp rfl rfl rfl rfl⟩
      · exact ⟨_, _, by simp only [mstep, hp, hl, if_false, hcond] <;> rfl,
          inv_flags s hinv a p { p with pieces := p.pieces.set i true } hp rfl rfl rfl rfl⟩
  | pieceDone a chosen =>
    obtain ⟨p, y, hp, hpi⟩ := hen
    obtain ⟨hpm, _⟩ := findPeer_some hp
    refine ⟨_, _, by simp only [mstep, hp, hpi] <;> rfl, ?_⟩
    -- first the piece is marked owned and the assignment dropped ...
    let p1 : MPeer := { p with pieceIndex := none, rx := none }
    let st1 := modifyAt s.statuses y (fun _ => Status.have)
    have hinv1 : Inv { statuses := st1, peers := setPeer s p1 } := by
      apply inv_update s hinv a p p1 hp rfl st1 (by simp [p1]) (by simp [p1])
      intro j n' hj
      simp only [st1, modifyAt_getElem?] at hj
      have hq : counted j p1 = false := counted_none j p1 rfl
      rw [hq]
      by_cases hjy : j = y
      · subst hjy
        simp only [if_true] at hj
        obtain ⟨x, _, hx⟩ := map_some_eq hj
        simp at hx
      · simp only [hjy, if_false] at hj
        have := hinv.resv j n' hj
        rw [counted_eq j y p hpi]; simp [hjy, b2n]; exact this
    -- ... then `handle_piece` runs from that state
    have hp1 : findPeer { statuses := st1, peers := setPeer s p1 } a = some p1 := findPeer_setPeer s st1 a p p1 hp rfl
    have h2 := handlePiece_inv _ hinv1 a p1 hp1 rfl rfl chosen
    have hsp : ∀ q : MPeer, q.addr = p.addr →
        setPeer { statuses := st1, peers := setPeer s p1 } q = setPeer s q := by
      intro q hq; exact setPeer_setPeer s st1 p1 q (by simp [p1, hq])
    have haddr : (handlePiece st1 p1 chosen).2.1.addr = p.addr := by
      unfold handlePiece
      cases chosen with
      | none => rfl
      | some c => dsimp only; split <;> rfl
    rw [hsp _ haddr] at h2
    -- the record handed to handle_piece in the model is `{ p with rx := none }`; its result equals that of `p1`
    have hsame : handlePiece st1 { p with rx := none } chosen = handlePiece st1 p1 chosen := by
      unfold handlePiece; cases chosen <;> simp [p1]
    rw [← hsame] at h2; exact h2
  | pieceCancel a chosen =>
    obtain ⟨p, y, hp, hpi⟩ := hen
    obtain ⟨hpm, _⟩ := findPeer_some hp
    refine ⟨_, _, by simp only [mstep, hp, hpi] <;> rfl, ?_⟩
    let p1 : MPeer := { p with pieceIndex := none, rx := none }
    let st1 := modifyAt s.statuses y decr
    have hinv1 : Inv { statuses := st1, peers := setPeer s p1 } := by
      have := inv_relThenRes s hinv a p p1 hp rfl (some y) none
        (by intro j h; rw [← counted_imp_idx p j h]; exact hpi.symm ▸ rfl) (by intro j; simp [counted, p1]) (by simp [p1]) (by simp [p1])
      simpa [relThenRes, st1] using this
    have hp1 : findPeer { statuses := st1, peers := setPeer s p1 } a = some p1 := findPeer_setPeer s st1 a p p1 hp rfl
    have h2 := handlePiece_inv _ hinv1 a p1 hp1 rfl rfl chosen
    have hsp : ∀ q : MPeer, q.addr = p.addr →
        setPeer { statuses := st1, peers := setPeer s p1 } q = setPeer s q := by
      intro q hq; exact setPeer_setPeer s st1 p1 q (by simp [p1, hq])
    have haddr : (handlePiece st1 p1 chosen).2.1.addr = p.addr := by
      unfold handlePiece
      cases chosen with
      | none => rfl
      | some c => dsimp only; split <;> rfl
    rw [hsp _ haddr] at h2
    have hsame : handlePiece st1 { p with rx := none } chosen = handlePiece st1 p1 chosen := by
      unfold handlePiece; cases chosen <;> simp [p1]
    rw [← hsame] at h2; exact h2
  | kill a =>
    cases hp : findPeer s a with
    | none => exact ⟨_, _, by simp only [mstep, hp] <;> rfl, hinv⟩
    | some p =>
      obtain ⟨hpm, hpa⟩ := findPeer_some hp
      refine ⟨_, _, by simp only [mstep, hp] <;> rfl, ?_⟩
      have hcnt : ∀ j, countOn (s.peers.filter (fun q => decide (q.addr ≠ a))) j + b2n (counted j p) = countOn s.peers j :=
        fun j => countOn_filter_remove s.peers hinv.nodup p hpm a hpa j
      refine ⟨?_, ?_, ?_, ?_⟩
      · exact List.Nodup.sublist (List.Sublist.map _ List.filter_sublist) hinv.nodup
      · intro x hx yy hy; exact hinv.rxIdx x (List.mem_filter.mp hx).1 yy hy
      · intro x hx i hi hc; exact hinv.idxRx x (List.mem_filter.mp hx).1 i hi hc
      · intro j n' hj
        have hc := hcnt j
        show 1 ≤ n' ∧ n' ≤ countOn (s.peers.filter (fun q => decide (q.addr ≠ a))) j
        replace hj : (match p.pieceIndex with
            | some i => if s.statuses.getD i Status.have ≠ Status.have then modifyAt s.statuses i (fun _ => Status.missing) else s.statuses
            | none => s.statuses)[j]? = some (Status.reserved n') := hj
        cases hpi : p.pieceIndex with
        | none =>
          simp only [hpi] at hj
          have := hinv.resv j n' hj
          rw [counted_none j p hpi] at hc
          simp only [b2n, Bool.false_eq_true, if_false, Nat.add_zero] at hc; omega
        | some y =>
          simp only [hpi] at hj
          rw [counted_eq j y p hpi] at hc
          by_cases hjy : j = y
          · subst hjy
            split at hj
            · simp only [modifyAt_getElem?, if_true] at hj
              obtain ⟨x, _, hx⟩ := map_some_eq hj
              simp at hx
            · rename_i hh
              simp only [ne_eq, Decidable.not_not] at hh
              rw [getD_eq, hj] at hh; simp at hh
          · have : s.statuses[j]? = some (.reserved n') := by
              split at hj
              · simpa [modifyAt_getElem?, hjy] using hj
              · exact hj
            have := hinv.resv j n' this
            have hd : decide (j = y) = false := decide_eq_false hjy
            rw [hd] at hc
            simp only [Bool.false_and, b2n, Bool.false_eq_true, if_false, Nat.add_zero] at hc; omega

theorem enabled_weak (s : MState) (hinv : Inv s) (ev : Ev) (hen : Enabled s ev) : EnabledW s ev := by
  cases ev with
  | add a n => exact hen.1
  | choke a => exact hen
  | unchoke a c => exact hen
  | interested a => exact hen
  | notInterested a c => exact hen
  | kill a => trivial
  | bitfield a bits c =>
    obtain ⟨⟨p, hp⟩, hlen, hpl⟩ := hen
    exact ⟨p, hp, by rw [hlen, hpl p hp]⟩
  | «have» a i c =>
    obtain ⟨⟨p, hp⟩, hi, hpl⟩ := hen
    exact ⟨p, hp, by rw [hpl p hp]; exact hi⟩
  | pieceDone a c =>
    obtain ⟨p, y, hp, hrx⟩ := hen
    exact ⟨p, y, hp, hinv.rxIdx p (findPeer_some hp).1 y hrx⟩
  | pieceCancel a c =>
    obtain ⟨p, y, hp, hrx, _⟩ := hen
    exact ⟨p, y, hp, hinv.rxIdx p (findPeer_some hp).1 y hrx⟩

/-- **Every enabled event is handled without panic and preserves the invariant** — for every value of the
    random piece choice. -/
theorem step_inv (s : MState) (hinv : Inv s) (ev : Ev) (hen : Enabled s ev) :
    ∃ s' r, mstep s ev = .ok s' r ∧ Inv s' :=
  step_inv_w s hinv ev (enabled_weak s hinv ev hen)

/-- Every command the manager answers without panicking was enabled in the weak sense. -/
theorem enabledW_of_ok (s s' : MState) (ev : Ev) (r : Reply) (h : mstep s ev = .ok s' r)
    (hadd : ∀ a n, ev = .add a n → findPeer s a = none) : EnabledW s ev := by
  cases ev with
  | add a n => exact hadd a n rfl
  | kill a => trivial
  | choke a => cases hp : findPeer s a with
    | none => simp [mstep, hp] at h
    | some p => exact ⟨p, hp⟩
  | unchoke a c => cases hp : findPeer s a with
    | none => simp [mstep, hp] at h
    | some p => exact ⟨p, hp⟩
  | interested a => cases hp : findPeer s a with
    | none => simp [mstep, hp] at h
    | some p => exact ⟨p, hp⟩
  | notInterested a c => cases hp : findPeer s a with
    | none => simp [mstep, hp] at h
    | some p => exact ⟨p, hp⟩
  | bitfield a bits c => cases hp : findPeer s a with
    | none => simp [mstep, hp] at h
    | some p =>
      refine ⟨p, hp, ?_⟩
      simp only [mstep, hp] at h
      split at h
      · cases h
      · rename_i hl; simpa using hl
  | «have» a i c => cases hp : findPeer s a with
    | none => simp [mstep, hp] at h
    | some p =>
      refine ⟨p, hp, ?_⟩
      simp only [mstep, hp] at h
      split at h
      · cases h
      · rename_i hl; omega
  | pieceDone a c => cases hp : findPeer s a with
    | none => simp [mstep, hp] at h
    | some p =>
      cases hpi : p.pieceIndex with
      | none => simp [mstep, hp, hpi] at h
      | some y => exact ⟨p, y, hp, hpi⟩
  | pieceCancel a c => cases hp : findPeer s a with
    | none => simp [mstep, hp] at h
    | some p =>
      cases hpi : p.pieceIndex with
      | none => simp [mstep, hp, hpi] at h
      | some y => exact ⟨p, y, hp, hpi⟩

/-- **The invariant is kept by every answered command**, enabled in the sense of the property's quantifier or not. -/
theorem inv_of_ok (s s' : MState) (hinv : Inv s) (ev : Ev) (r : Reply) (h : mstep s ev = .ok s' r)
    (hadd : ∀ a n, ev = .add a n → findPeer s a = none) : Inv s' := by
  obtain ⟨s'', r', h1, h2⟩ := step_inv_w s hinv ev (enabledW_of_ok s s' ev r h hadd)
  rw [h1] at h; simp only [Out.ok.injEq] at h; rw [← h.1]; exact h2

/-! ### The property, for every reachable state -/

/-- A history of events each of which a connection task can emit in the state it arrives in; the piece choices
    carried by the events are arbitrary. -/
inductive Reach : MState → Prop where
  | init (n : Nat) : Reach { statuses := List.replicate n .missing, peers := [] }
  | step (s s' : MState) (ev : Ev) (r : Reply) : Reach s → Enabled s ev → mstep s ev = .ok s' r → Reach s'

theorem inv_init (n : Nat) : Inv { statuses := List.replicate n .missing, peers := [] } := by
  refine ⟨by simp, by simp, by simp, ?_⟩
  intro i k h
  simp only [List.getElem?_replicate] at h
  split at h <;> simp at h

theorem reach_inv (s : MState) (h : Reach s) : Inv s := by
  induction h with
  | init n => exact inv_init n
  | step s s' ev r _ hen hstep ih =>
    obtain ⟨s'', r', h1, h2⟩ := step_inv s ih ev hen
    rw [h1] at hstep; simp only [Out.ok.injEq] at hstep; rw [← hstep.1]; exact h2

/-- **(v)** No sequence of peer events makes the manager panic. -/
theorem T5_no_panic (s : MState) (h : Reach s) (ev : Ev) (hen : Enabled s ev) : ∀ why, mstep s ev ≠ .panic why := by
  intro why e
  obtain ⟨s', r, h1, _⟩ := step_inv s (reach_inv s h) ev hen
  rw [h1] at e; simp at e

/-- **(ii)** A piece is marked as being fetched only while some connected peer that is not choking us has actually
    been asked for it (and is recorded with that assignment). -/
theorem T2_reserved_has_live_witness (s : MState) (h : Reach s) (i n : Nat)
    (hs : s.statuses[i]? = some (.reserved n)) :
    n ≥ 1 ∧ ∃ p ∈ s.peers, p.choked = false ∧ p.pieceIndex = some i ∧ p.rx = some i := by
  have hinv := reach_inv s h
  obtain ⟨h1, h2⟩ := hinv.resv i n hs
  refine ⟨h1, ?_⟩
  have hpos : 0 < countOn s.peers i := by omega
  obtain ⟨p, hp, hc⟩ := List.countP_pos_iff.mp hpos
  obtain ⟨hc1, hc2⟩ := (counted_iff i p).mp hc
  exact ⟨p, hp, hc2, hc1, hinv.idxRx p hp i hc1 hc2⟩

/-- **(iii)** As soon as the last such peer chokes us, is re-assigned, finishes or goes away, the piece is no longer
    marked as being fetched: in every reachable state without an unchoked peer assigned to `i`, `i` is not Reserved. -/
theorem T3_released_with_last_peer (s : MState) (h : Reach s) (i : Nat)
    (hnone : ∀ p ∈ s.peers, ¬ (p.choked = false ∧ p.pieceIndex = some i)) :
    ∀ n, s.statuses[i]? ≠ some (.reserved n) := by
  intro n hs
  obtain ⟨_, p, hp, h1, h2, _⟩ := T2_reserved_has_live_witness s h i n hs
  exact hnone p hp ⟨h1, h2⟩

/-- **(i)** A piece once owned stays owned. -/
theorem T1_have_absorbing (s s' : MState) (ev : Ev) (r : Reply) (hstep : mstep s ev = .ok s' r) (i : Nat)
    (hi : s.statuses[i]? = some .have) : s'.statuses[i]? = some .have := by
  have hmod : ∀ (st : List Status) (k : Nat) (f : Status → Status), f .have = .have → st[i]? = some .have →
      (modifyAt st k f)[i]? = some .have := by
    intro st k f hf hst
    rw [modifyAt_getElem?]; split <;> simp [hst, hf]
  have hincr : incr .have = .have := rfl
  have hdecr : decr .have = .have := rfl
  have hhp : ∀ (st : List Status) (p : MPeer) (c : Option Nat), st[i]? = some .have →
      (handlePiece st p c).1[i]? = some .have := by
    intro st p c hst
    unfold handlePiece
    cases c with
    | none => exact hst
    | some c => dsimp only; split
                · exact hst
                · exact hmod st c incr hincr hst
  cases ev with
  | add a n => simp only [mstep, Out.ok.injEq] at hstep; rw [← hstep.1]; exact hi
  | choke a =>
    simp only [mstep] at hstep
    cases hp : findPeer s a with
    | none => simp [hp] at hstep
    | some p =>
      simp only [hp, Out.ok.injEq] at hstep; rw [← hstep.1]
      cases p.pieceIndex with
      | none => exact hi
      | some k => exact hmod _ k decr hdecr hi
  | unchoke a chosen =>
    simp only [mstep] at hstep
    cases hp : findPeer s a with
    | none => simp [hp] at hstep
    | some p =>
      have h0 : (match p.choked, p.pieceIndex with
          | false, some old => modifyAt s.statuses old decr
          | _, _ => s.statuses)[i]? = some .have := by
        cases p.choked <;> cases p.pieceIndex <;> first | exact hi | exact hmod _ _ decr hdecr hi
      cases chosen with
      | none => simp only [hp, Out.ok.injEq] at hstep; rw [← hstep.1]; exact h0
      | some c => simp only [hp, Out.ok.injEq] at hstep; rw [← hstep.1]; exact hmod _ c incr hincr h0
  | interested a =>
    simp only [mstep] at hstep
    cases hp : findPeer s a with
    | none => simp [hp] at hstep
    | some p => simp only [hp, Out.ok.injEq] at hstep; rw [← hstep.1]; exact hi
  | notInterested a chosen =>
    simp only [mstep] at hstep
    cases hp : findPeer s a with
    | none => simp [hp] at hstep
    | some p => simp only [hp, Out.ok.injEq] at hstep; rw [← hstep.1]; exact hi
  | bitfield a bits chosen =>
    simp only [mstep] at hstep
    cases hp : findPeer s a with
    | none => simp [hp] at hstep
    | some p =>
      simp only [hp] at hstep
      split at hstep
      · simp at hstep
      · simp only [Out.ok.injEq] at hstep; rw [← hstep.1]; exact hi
  | «have» a k chosen =>
    simp only [mstep] at hstep
    cases hp : findPeer s a with
    | none => simp [hp] at hstep
    | some p =>
      simp only [hp] at hstep
      split at hstep
      · simp at hstep
      · cases chosen with
        | none => simp only [Out.ok.injEq] at hstep; rw [← hstep.1]; exact hi
        | some c =>
          simp only at hstep
          split at hstep
          · split at hstep
            · simp only [Out.ok.injEq] at hstep; rw [← hstep.1]
              exact hmod _ c incr hincr hi
            · simp only [Out.ok.injEq] at hstep; rw [← hstep.1]; exact hi
          · simp only [Out.ok.injEq] at hstep; rw [← hstep.1]; exact hi
  | pieceDone a chosen =>
    simp only [mstep] at hstep
    cases hp : findPeer s a with
    | none => simp [hp] at hstep
    | some p =>
      simp only [hp] at hstep
      cases hpi : p.pieceIndex with
      | none => simp [hpi] at hstep
      | some y =>
        simp only [hpi, Out.ok.injEq] at hstep; rw [← hstep.1]
        exact hhp _ _ _ (hmod _ y _ rfl hi)
  | pieceCancel a chosen =>
    simp only [mstep] at hstep
    cases hp : findPeer s a with
    | none => simp [hp] at hstep
    | some p =>
      simp only [hp] at hstep
      cases hpi : p.pieceIndex with
      | none => simp [hpi] at hstep
      | some y =>
        simp only [hpi, Out.ok.injEq] at hstep; rw [← hstep.1]
        exact hhp _ _ _ (hmod _ y decr hdecr hi)
  | kill a =>
    simp only [mstep] at hstep
    cases hp : findPeer s a with
    | none => simp only [hp, Out.ok.injEq] at hstep; rw [← hstep.1]; exact hi
    | some p =>
      simp only [hp, Out.ok.injEq] at hstep; rw [← hstep.1]
      cases p.pieceIndex with
      | none => exact hi
      | some k =>
        dsimp only
        split
        · rename_i hne
          have hki : k ≠ i := by
            intro e; subst e; rw [getD_eq, hi] at hne; simp at hne
          have hik : ¬ i = k := fun e => hki e.symm
          rw [modifyAt_getElem?, if_neg hik]; exact hi
        · exact hi

/-- **(iv)** A peer is only ever asked for a piece it advertised and the client still lacks — given what the
    chooser guarantees (C13) about its pick: every request the manager hands out, on any path (Unchoke, Have, piece
    stored, piece cancelled), names the chooser's answer. -/
theorem T4_asked_only_advertised_and_lacking (s s' : MState) (ev : Ev) (c : Nat) (wi : Bool)
    (hstep : mstep s ev = .ok s' (.request c wi)) :
    match ev with
    | .unchoke _ chosen => chosen = some c
    | .pieceDone _ chosen => chosen = some c
    | .pieceCancel _ chosen => chosen = some c
    | .have _ _ chosen => chosen = some c
    | _ => False := by
  cases ev with
  | add a n => simp [mstep] at hstep
  | choke a => simp only [mstep] at hstep; cases hp : findPeer s a <;> simp [hp] at hstep
  | interested a => simp only [mstep] at hstep; cases hp : findPeer s a <;> simp [hp] at hstep
  | notInterested a ch =>
    simp only [mstep] at hstep
    cases hp : findPeer s a with
    | none => simp [hp] at hstep
    | some p => simp only [hp, Out.ok.injEq] at hstep; split at hstep <;> simp at hstep
  | bitfield a bits ch =>
    simp only [mstep] at hstep
    cases hp : findPeer s a with
    | none => simp [hp] at hstep
    | some p => simp only [hp] at hstep; split at hstep <;> simp at hstep
  | kill a => simp only [mstep] at hstep; cases hp : findPeer s a <;> simp [hp] at hstep
  | unchoke a chosen =>
    show chosen = some c
    cases hp : findPeer s a with
    | none => simp [mstep, hp] at hstep
    | some p =>
      cases chosen with
      | none =>
        simp only [mstep, hp, Out.ok.injEq] at hstep
        obtain ⟨_, h2⟩ := hstep
        cases hai : p.amInterested <;> rw [hai] at h2 <;> exact absurd h2 (by simp)
      | some c' => simp only [mstep, hp, Out.ok.injEq, Reply.request.injEq] at hstep; simp [hstep.2.1]
  | pieceDone a chosen =>
    simp only [mstep] at hstep
    cases hp : findPeer s a with
    | none => simp [hp] at hstep
    | some p =>
      simp only [hp] at hstep
      cases hpi : p.pieceIndex with
      | none => simp [hpi] at hstep
      | some y =>
        simp only [hpi, Out.ok.injEq] at hstep
        have := hstep.2
        unfold handlePiece at this
        cases chosen with
        | none => dsimp only at this; split at this <;> simp at this
        | some c' => dsimp only at this; split at this
                     · simp at this
                     · simp only [Reply.request.injEq] at this; simp [this.1]
  | pieceCancel a chosen =>
    simp only [mstep] at hstep
    cases hp : findPeer s a with
    | none => simp [hp] at hstep
    | some p =>
      simp only [hp] at hstep
      cases hpi : p.pieceIndex with
      | none => simp [hpi] at hstep
      | some y =>
        simp only [hpi, Out.ok.injEq] at hstep
        have := hstep.2
        unfold handlePiece at this
        cases chosen with
        | none => dsimp only at this; split at this <;> simp at this
        | some c' => dsimp only at this; split at this
                     · simp at this
                     · simp only [Reply.request.injEq] at this; simp [this.1]
  | «have» a i chosen =>
    show chosen = some c
    simp only [mstep] at hstep
    cases hp : findPeer s a with
    | none => simp [hp] at hstep
    | some p =>
      simp only [hp] at hstep
      split at hstep
      · simp at hstep
      · cases chosen with
        | none => simp at hstep
        | some c' =>
          simp only at hstep
          split at hstep
          · split at hstep
            · simp only [Out.ok.injEq, Reply.request.injEq] at hstep; simp [hstep.2.1]
            · simp at hstep
          · simp at hstep

/-! ### Non-vacuity (tests): the L1 history of the finding, on the repaired model -/

def demoInit : MState := { statuses := List.replicate 3 .missing, peers := [] }

def demoS0 : MState :=
  { statuses := [Status.missing, Status.missing, Status.missing],
    peers := [({ addr := 1, pieces := [false, false, false] } : MPeer)] }

example : mstep demoInit (.add 1 3) = .ok demoS0 .none := by decide

def demoS1 : MState :=
  { statuses := [Status.missing, Status.missing, Status.missing], peers := [({ addr := 1, pieces := [true, true, true] } : MPeer)] }

example : ∃ s2 s3, mstep demoS1 (.unchoke 1 (some 0)) = .ok s2 (.request 0 true) ∧
    mstep s2 (.unchoke 1 (some 2)) = .ok s3 (.request 2 false) ∧
    s3.statuses = [Status.missing, Status.missing, Status.reserved 1] := by
  refine ⟨_, _, rfl, rfl, ?_⟩; decide

end Rdest.Props.C12
