/-
  C05 — the info-hash is the SHA-1 of the exact info value of the file.

  Model: `RdestModel/Meta/Parse.lean` (`fromBencodeImpl`, `parse`, `rawInfo`); concrete syntax and the behaviour of the
  model on it: `RdestModel/Lemmas/Syntax.lean`.  SHA-1 itself is outside the model: the theorems are about the bytes
  that are hashed (`MetaM.infoSpan`); the check compares `SHA1(infoSpan)` (the driver's own SHA-1) with
  `Metainfo::info_hash()` on every generated document.
-/
import RdestModel.Lemmas.Syntax
set_option linter.unusedSimpArgs false
set_option linter.unusedVariables false
namespace Rdest.Props.C05
open Rdest Rdest.Bencode Rdest.Meta Rdest.Syntax

/-! ### The hashed bytes belong to the dictionary the fields are read from -/

theorem firstOk_ok (doc : Bytes) (vs : List BValue) (k : Nat) (e0 : MErr) (m : MetaM)
    (h : firstOk doc vs k (.error e0) = .ok m) :
    ∃ j d, vs[j]? = some (.dict d) ∧ parse doc (k + j) d = .ok m ∧
      ∀ i, i < j → ∀ d', vs[i]? = some (.dict d') → ∃ e, parse doc (k + i) d' = .error e := by
  induction vs generalizing k e0 with
  | nil => simp [firstOk] at h
  | cons v vs ih =>
    cases v with
    | dict d =>
      simp only [firstOk] at h
      cases hp : parse doc k d with
      | ok m' =>
        rw [hp] at h
        cases h
        exact ⟨0, d, rfl, by simpa using hp, fun i hi => by omega⟩
      | error e' =>
        rw [hp] at h
        obtain ⟨j, d', hj, hpj, hbefore⟩ := ih (k + 1) e' h
        refine ⟨j + 1, d', by simpa using hj, by rw [← hpj]; congr 1; omega, ?_⟩
        intro i hi d'' hd''
        cases i with
        | zero => simp at hd''; cases hd''; exact ⟨e', by simpa using hp⟩
        | succ i =>
          obtain ⟨e, he⟩ := hbefore i (by omega) d'' (by simpa using hd'')
          exact ⟨e, by rw [← he]; congr 1; omega⟩
    | int _ | str _ | list _ =>
      simp only [firstOk] at h
      obtain ⟨j, d', hj, hpj, hbefore⟩ := ih (k + 1) e0 h
      refine ⟨j + 1, d', by simpa using hj, by rw [← hpj]; congr 1; omega, ?_⟩
      intro i hi d'' hd''
      cases i with
      | zero => simp at hd''
      | succ i =>
        obtain ⟨e, he⟩ := hbefore i (by omega) d'' (by simpa using hd'')
        exact ⟨e, by rw [← he]; congr 1; omega⟩

theorem parse_span (doc : Bytes) (k : Nat) (d : Dict) (m : MetaM) (h : parse doc k d = .ok m) :
    rawInfo doc k = some m.infoSpan := by
  unfold parse at h
  cases hf : parseFields d with
  | error e => rw [hf] at h; cases h
  | ok f =>
    rw [hf] at h
    cases hr : rawInfo doc k with
    | none => rw [hr] at h; cases h
    | some span => rw [hr] at h; cases h; rfl

/-- **T1 (C05).** For every accepted document: the bytes whose SHA-1 is reported as the info-hash are
    `raw_info` of the very top-level dictionary (number `k`, the first one that parses) from which announce, name,
    piece length, pieces and files are read. -/
theorem T1_hash_is_over_the_parsed_dictionary (doc : Bytes) (m : MetaM) (h : fromBencodeImpl doc = .ok m) :
    ∃ vs k d, decodeImpl doc = some vs ∧ vs[k]? = some (.dict d) ∧ parse doc k d = .ok m ∧
      rawInfo doc k = some m.infoSpan ∧
      ∀ i, i < k → ∀ d', vs[i]? = some (.dict d') → ∃ e, parse doc i d' = .error e := by
  unfold fromBencodeImpl at h
  cases hd : decodeImpl doc with
  | none => rw [hd] at h; cases h
  | some vs =>
    rw [hd] at h
    cases vs with
    | nil => cases h
    | cons v vs' =>
      simp only [] at h
      obtain ⟨j, d, hj, hp, hb⟩ := firstOk_ok doc (v :: vs') 0 _ m h
      simp only [Nat.zero_add] at hp hb
      exact ⟨v :: vs', j, d, rfl, hj, hp, parse_span doc j d m hp, hb⟩

/-! ### What `raw_info` returns on every well-formed document -/

/-- **T2 (C05).** Behind any number of complete top-level values, in a dictionary written as any sequence of
    entries (any key order, any legal length prefixes, nested dictionaries with keys spelled `info`, repeated keys),
    and followed by arbitrary data: `raw_info` returns exactly the value text of the entry whose key is `info`
    (the last such entry, which is the one the decoder's map holds). -/
theorem T2_raw_info_is_the_top_level_info_text (pre : List (Bytes × BValue)) (hpre : ∀ t ∈ pre, Txt t.1 t.2)
    (es : List Entry) (hk : ∀ e ∈ es, StrTxt e.keyTxt e.key) (hv : ∀ e ∈ es, Txt e.valTxt e.val) (tail : Bytes) :
    rawInfo (itemsTxt pre ++ (cD :: entriesTxt es ++ cE :: tail)) pre.length = lastInfo none es :=
  rawInfo_spec pre hpre es (fun e he => ⟨hk e he, hv e he⟩) tail

/-- With one `info` entry, the entries before and after it — other keys, their order, their values — do not
    matter. -/
theorem lastInfo_single (before after : List Entry) (e : Entry) (he : e.key = kInfo)
    (hafter : ∀ x ∈ after, x.key ≠ kInfo) (found : Option Bytes) :
    lastInfo found (before ++ e :: after) = some e.valTxt := by
  induction before generalizing found with
  | nil =>
    simp only [List.nil_append, lastInfo, he, if_true]
    induction after with
    | nil => rfl
    | cons a as ih =>
      simp only [lastInfo, hafter a List.mem_cons_self, if_false]
      exact ih (fun x hx => hafter x (List.mem_cons_of_mem _ hx))
  | cons b bs ih => simp only [List.cons_append, lastInfo]; exact ih _

/-- **T3 (C05), in the property's words.** A document that is one dictionary — `before`, the `info` entry,
    `after` — followed by any data. If it is accepted, the hashed bytes are exactly the text of the info value:
    other keys, their order, nested dictionaries, the encoding chosen for keys and values, and the data following
    the dictionary do not change them. -/
theorem T3_info_span_exact (before after : List Entry) (e : Entry) (tail : Bytes) (m : MetaM)
    (he : e.key = kInfo) (hafter : ∀ x ∈ after, x.key ≠ kInfo)
    (hk : ∀ x ∈ before ++ e :: after, StrTxt x.keyTxt x.key) (hv : ∀ x ∈ before ++ e :: after, Txt x.valTxt x.val)
    (h : fromBencodeImpl (cD :: entriesTxt (before ++ e :: after) ++ cE :: tail) = .ok m)
    (hfirst : ∃ m', parse (cD :: entriesTxt (before ++ e :: after) ++ cE :: tail) 0 (mkDict (entriesKV (before ++ e :: after))) = .ok m') :
    m.infoSpan = e.valTxt := by
  obtain ⟨m', hm'⟩ := hfirst
  have hraw := T2_raw_info_is_the_top_level_info_text [] (fun _ h => by simp at h) (before ++ e :: after) hk hv tail
  simp only [itemsTxt, List.map_nil, List.flatten_nil, List.nil_append, List.length_nil] at hraw
  rw [lastInfo_single before after e he hafter none] at hraw
  -- the first top-level value is this dictionary, and it parses: it is the one chosen
  obtain ⟨vs, k, d, hdec, hk', hp, hspan, hbefore⟩ := T1_hash_is_over_the_parsed_dictionary _ m h
  have hparses := txt_parses _ _ (Txt.dict (before ++ e :: after) hk hv) true tail false
  have hvs : ∃ rest, vs = .dict (mkDict (entriesKV (before ++ e :: after))) :: rest := by
    unfold decodeImpl at hdec
    have hU : values true ((cD :: entriesTxt (before ++ e :: after) ++ cE :: tail).length + 1)
        (cD :: entriesTxt (before ++ e :: after) ++ cE :: tail) false =
        valuesU true ((cD :: entriesTxt (before ++ e :: after) ++ [cE]) ++ tail) false := by
      simp [valuesU]
    rw [hU, hparses] at hdec
    cases hr : valuesU true tail false with
    | error er => rw [hr] at hdec; simp [consV, toOpt] at hdec
    | ok r => rw [hr] at hdec; simp only [consV, toOpt, Option.some.injEq] at hdec; exact ⟨r.1, hdec.symm⟩
  obtain ⟨rest, rfl⟩ := hvs
  cases k with
  | zero =>
    rw [hraw] at hspan; exact (Option.some.inj hspan).symm
  | succ k =>
    obtain ⟨er, her⟩ := hbefore 0 (by omega) _ rfl
    rw [hm'] at her; cases her

/-! ### Non-vacuity (tests) -/

-- d 1:a d 4:info i1e e 4:info d e e  — a nested key spelled `info` in front of the real one
def decoyDoc : Bytes :=
  [100, 49, 58, 97, 100, 52, 58, 105, 110, 102, 111, 105, 49, 101, 101, 52, 58, 105, 110, 102, 111, 100, 101, 101]

example : rawInfo decoyDoc 0 = some [100, 101] := by decide
-- a value in front (`i4e`) and the key written `04:info`
example : rawInfo ([105, 52, 101] ++ [100, 48, 52, 58, 105, 110, 102, 111, 105, 55, 101, 101]) 1 = some [105, 55, 101] := by decide
example : StrTxt [48, 52, 58, 105, 110, 102, 111] kInfo := ⟨48, [52], rfl, by decide, by decide, by decide⟩

end Rdest.Props.C05
