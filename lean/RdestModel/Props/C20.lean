/-
  C20 — silent peers are dropped, live ones are kept and kept alive.
-/
import RdestModel.Swarm.Preds
import RdestModel.Lemmas.Handler
set_option linter.unusedSimpArgs false
set_option linter.unusedVariables false
namespace Rdest.Props.C20
open Rdest Rdest.Wire Rdest.Gen Rdest.Swarm

/-- Two minutes per interval, and "within three intervals": the closing tick is at most the third. -/
theorem constants : KEEP_ALIVE_INTERVAL_SEC = 120 ∧ KEEP_ALIVE_LIMIT + 1 ≤ 3 ∧ 1 ≤ KEEP_ALIVE_LIMIT := by decide

/-! ### `kaSpec`: the declarative content -/

/-- **T2 / T3.** As long as fewer than `limit` ticks have passed without a real message, every tick writes exactly
    one `KeepAlive` and the connection is not closed. -/
theorem T3_tick_writes_one_keepalive (limit silent k : Nat) (h : silent + k ≤ limit) :
    kaSpec limit silent k = (List.replicate k (.write .keepAlive), silent + k, true) := by
  induction k generalizing silent with
  | zero => simp [kaSpec]
  | succ k ih =>
    have hne : silent ≠ limit := by omega
    simp only [kaSpec, hne, if_false]
    rw [ih (silent + 1) (by omega)]
    simp [List.replicate_succ]; omega

/-- **T1.** With nothing but keep-alives (or nothing) arriving, the connection is closed exactly at the tick that
    follows `limit` silent ticks — one `KeepAlive` per tick before it, nothing at or after it. Starting from a
    freshly active connection (`silent = 0`) that is tick number `limit + 1 ≤ 3`. -/
theorem T1_silence_closes (limit silent k : Nat) (hs : silent ≤ limit) (h : silent + k > limit) :
    kaSpec limit silent k = (List.replicate (limit - silent) (.write .keepAlive), limit, false) := by
  induction k generalizing silent with
  | zero => omega
  | succ k ih =>
    by_cases he : silent = limit
    · subst he; simp [kaSpec]
    · simp only [kaSpec, he, if_false]
      rw [ih (silent + 1) (by omega) (by omega)]
      have : limit - silent = (limit - (silent + 1)) + 1 := by omega
      rw [this, List.replicate_succ]

/-! ### The model's ticks are `kaSpec` -/

def toHOut : Obs → HOut
  | .write m => .write m
  | .cmd c => .cmd c
  | .saved h _ _ => .load h

theorem tickN_spec (sha1 : Bytes → Bytes) (k : Nat) (s : HState) (acc : List HOut) (halive : s.alive = true) :
    ∃ s', tickN sha1 k s acc =
        some (s', acc ++ (kaSpec KEEP_ALIVE_LIMIT s.keepAlive k).1.map toHOut,
              if (kaSpec KEEP_ALIVE_LIMIT s.keepAlive k).2.2 then none else some false) ∧
      s'.keepAlive = (kaSpec KEEP_ALIVE_LIMIT s.keepAlive k).2.1 ∧
      s'.alive = (kaSpec KEEP_ALIVE_LIMIT s.keepAlive k).2.2 := by
  induction k generalizing s acc with
  | zero => exact ⟨s, by simp [tickN, kaSpec], rfl, by simp [kaSpec, halive]⟩
  | succ k ih =>
    simp only [tickN, hstep, halive, Bool.not_true, Bool.false_eq_true, if_false]
    by_cases he : s.keepAlive = KEEP_ALIVE_LIMIT
    · simp only [he, if_true, kaSpec, terminate]
      refine ⟨{ s with alive := false }, by simp [he], ?_, rfl⟩
      show s.keepAlive = KEEP_ALIVE_LIMIT
      exact he
    · simp only [he, if_false, kaSpec]
      obtain ⟨s', h1, h2, h3⟩ := ih { s with keepAlive := s.keepAlive + 1 } (acc ++ [.write .keepAlive]) halive
      simp only [halive] at h1
      exact ⟨s', by rw [h1]; simp [toHOut], h2, h3⟩

theorem obs_toHOut (sha1 : Bytes → Bytes) (l : List Obs) (h : ∀ o ∈ l, ∃ m, o = .write m) :
    (l.map toHOut).filterMap (obsOf sha1) = l := by
  induction l with
  | nil => rfl
  | cons x xs ih =>
    obtain ⟨m, rfl⟩ := h x (by simp)
    simp only [List.map_cons, toHOut, List.filterMap_cons, obsOf]
    rw [ih (fun o ho => h o (by simp [ho]))]

theorem kaSpec_writes (limit silent k : Nat) : ∀ o ∈ (kaSpec limit silent k).1, ∃ m, o = .write m := by
  induction k generalizing silent with
  | zero => simp [kaSpec]
  | succ k ih =>
    simp only [kaSpec]
    split
    · simp
    · intro o ho
      simp only [List.mem_cons] at ho
      rcases ho with rfl | ho
      · exact ⟨_, rfl⟩
      · exact ih _ o ho

/-! ### Main theorem -/

/-- After the task has ended nothing is observed any more. -/
theorem dead_trace (sha1 : Bytes → Bytes) (limit silent : Nat) (s : HState) (hdead : s.alive = false) (script : List TIn) :
    P20 limit silent false (runTrace sha1 s script) = true := by
  induction script generalizing s silent with
  | nil => simp [runTrace, P20]
  | cons i is ih =>
    have hstepdead : ∀ inp d, hstep sha1 d s inp = some (s, [], none) := by intro inp d; simp [hstep, hdead]
    have htick : ∀ k, tickN sha1 k s [] = some (s, [], none) := by
      intro k; induction k with
      | zero => rfl
      | succ k ihk => simp [tickN, hstepdead, ihk]
    have hst : tstep sha1 s i = some (s, [], none) ∨ tstep sha1 s i = none := by
      cases i with
      | start rep => left; simp [tstep, hstart, hdead]
      | frame m rep d => left; simp only [tstep]; exact hstepdead _ _
      | recvErr => left; simp only [tstep]; exact hstepdead _ _
      | eof => left; simp only [tstep]; exact hstepdead _ _
      | bcHave i rep => left; simp only [tstep]; exact hstepdead _ _
      | bcState e => left; simp only [tstep]; exact hstepdead _ _
      | ticks k => left; simp only [tstep]; exact htick k
    rcases hst with h | h
    · simp only [runTrace, h, List.filterMap_nil, P20, Bool.not_false, if_true, List.isEmpty_nil, Option.isNone_none,
        Bool.true_and]
      exact ih _ s hdead
    · simp [runTrace, h, P20]

/-- **Every script**: the model's observable behaviour satisfies the keep-alive discipline `P20`, started from any
    live state with `silent` equal to its counter. -/
theorem C20_trace (sha1 : Bytes → Bytes) (s : HState) (halive : s.alive = true) (script : List TIn) :
    P20 KEEP_ALIVE_LIMIT s.keepAlive true (runTrace sha1 s script) = true := by
  induction script generalizing s with
  | nil => simp [runTrace, P20]
  | cons i is ih =>
    by_cases hnt : ∃ k, i = .ticks k
    · obtain ⟨k, rfl⟩ := hnt
      obtain ⟨s', h1, h2, h3⟩ := tickN_spec sha1 k s [] halive
      simp only [runTrace, tstep, h1, List.nil_append, P20, Bool.not_true, Bool.false_eq_true, if_false]
      rw [obs_toHOut sha1 _ (kaSpec_writes _ _ _)]
      simp only [decide_true, Bool.true_and]
      cases ha : (kaSpec KEEP_ALIVE_LIMIT s.keepAlive k).2.2 with
      | true => rw [← h2]; exact ih s' (by rw [h3, ha])
      | false => exact dead_trace sha1 _ _ s' (by rw [h3, ha]) is
    · have hnt' : ∀ k, i ≠ .ticks k := fun k e => hnt ⟨k, e⟩
      cases hst : tstep sha1 s i with
      | none => simp [runTrace, hst, P20]
      | some r =>
        obtain ⟨s', o, e⟩ := r
        obtain ⟨hgo, hend⟩ := tstep_core sha1 s halive i hnt' s' o e hst
        have hsil : ∀ k, silentAfter i k = (match i with
            | .frame m _ _ => if isKeepAlive m then k else 0
            | _ => k) := by
          intro k; cases i <;> try rfl
          rename_i m _ _; cases m <;> rfl
        cases e with
        | none =>
          obtain ⟨ha, hk⟩ := hgo rfl
          have := ih s' ha
          rw [hk, hsil] at this
          cases i <;> simp only [runTrace, hst, P20, Bool.not_true, Bool.false_eq_true, if_false, Option.isNone_none] <;>
            first | exact this | exact absurd rfl (hnt' _)
        | some b =>
          have hd := hend (by simp)
          have := fun sil => dead_trace sha1 KEEP_ALIVE_LIMIT sil s' hd is
          cases i <;> simp only [runTrace, hst, P20, Bool.not_true, Bool.false_eq_true, if_false, Option.isNone_some] <;>
            first | exact this _ | exact absurd rfl (hnt' _)

/-! ### Corollaries in the property's words -/

/-- **T1** for the source's constants: after the last real message, the third tick at the latest closes the
    connection (and with nothing but keep-alives arriving it is exactly tick `KEEP_ALIVE_LIMIT + 1`). -/
theorem T1_closed_within_three_intervals (silent : Nat) (hs : silent ≤ KEEP_ALIVE_LIMIT) :
    (kaSpec KEEP_ALIVE_LIMIT silent 3).2.2 = false := by
  have hc := constants
  rw [T1_silence_closes KEEP_ALIVE_LIMIT silent 3 hs (by omega)]

/-- **T2**: a connection delivering a real message at least once per interval is never closed for inactivity: a tick
    arriving with `silent < limit` never closes, and after any real message `silent` is 0 (with `1 ≤ limit`). -/
theorem T2_live_connection_kept (limit : Nat) (h1 : 1 ≤ limit) : (kaSpec limit 0 1).2.2 = true := by
  rw [T3_tick_writes_one_keepalive limit 0 1 (by omega)]

/-! ### Non-vacuity (tests) -/

example : kaSpec 2 0 3 = ([.write .keepAlive, .write .keepAlive], 2, false) := by decide
example : kaSpec 2 1 1 = ([.write .keepAlive], 2, true) := by decide

end Rdest.Props.C20
