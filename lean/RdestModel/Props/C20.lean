/-
  C20 — silent peers are dropped, live ones are kept and kept alive.
-/
import RdestModel.Lemmas.Trace
import RdestModel.Lemmas.Loop
set_option linter.unusedSimpArgs false
set_option linter.unusedVariables false
namespace Rdest.Props.C20
open Rdest Rdest.Wire Rdest.Gen Rdest.Swarm

/-- Two minutes per interval, and "within three intervals": the closing tick is at most the third. -/
theorem constants : KEEP_ALIVE_INTERVAL_SEC = 120 ∧ KEEP_ALIVE_LIMIT + 1 ≤ 3 ∧ 1 ≤ KEEP_ALIVE_LIMIT := by decide

/-! ### `kaRun`: the declarative content -/

/-- **T2 / T3.** As long as fewer than `limit` ticks have passed without a real message, every tick writes exactly
    one `KeepAlive` and the connection is not closed. -/
theorem T3_tick_writes_one_keepalive (limit silent k : Nat) (h : silent + k ≤ limit) :
    kaRun limit silent k = (k, silent + k, true) := by
  induction k generalizing silent with
  | zero => simp [kaRun]
  | succ k ih =>
    have hne : silent ≠ limit := by omega
    simp only [kaRun, hne, if_false]
    rw [ih (silent + 1) (by omega)]
    simp; omega

/-- **T1.** With nothing but keep-alives (or nothing) arriving, the connection is closed exactly at the tick that
    follows `limit` silent ticks — one `KeepAlive` per tick before it, nothing at or after it. Starting from a
    freshly active connection (`silent = 0`) that is tick number `limit + 1 ≤ 3`. -/
theorem T1_silence_closes (limit silent k : Nat) (hs : silent ≤ limit) (h : silent + k > limit) :
    kaRun limit silent k = (limit - silent, limit, false) := by
  induction k generalizing silent with
  | zero => omega
  | succ k ih =>
    by_cases he : silent = limit
    · subst he; simp [kaRun]
    · simp only [kaRun, he, if_false]
      rw [ih (silent + 1) (by omega) (by omega)]
      simp; omega

/-- The closed form used by the trace model is the step-by-step timer (`timeout_keep_alive` iterated). -/
theorem tickN_closed (sha1 : Bytes → Bytes) (k : Nat) (s : HState) (acc : List HOut) (halive : s.alive = true) :
    tickN sha1 k s acc = some ((ticksClosed s k).1, acc ++ (ticksClosed s k).2.1, (ticksClosed s k).2.2) := by
  induction k generalizing s acc with
  | zero =>
    simp only [tickN, ticksClosed, kaRun, halive, Bool.not_true, Bool.false_eq_true, if_false, if_true, List.replicate_zero, List.append_nil]
    cases s; simp_all
  | succ k ih =>
    have hg : (!s.alive) = false := by simp [halive]
    simp only [tickN, hstep, hg, Bool.false_eq_true, if_false]
    by_cases he : s.keepAlive = KEEP_ALIVE_LIMIT
    · simp only [he, if_true, terminate, ticksClosed, hg, Bool.false_eq_true, if_false, kaRun]
      simp [he]
    · simp only [he, if_false]
      rw [ih { s with keepAlive := s.keepAlive + 1 } (acc ++ [HOut.write Msg.keepAlive]) halive]
      simp only [ticksClosed, hg, Bool.false_eq_true, if_false, kaRun, he]
      simp [List.replicate_succ]

/-! ### Main theorem: every script -/

def R20 (st : M20) (s : HState) : Prop := st.alive = s.alive ∧ (s.alive = true → st.silent = s.keepAlive)

theorem step20_sound (sha1 : Bytes → Bytes) (st : M20) (s : HState) (inp : TIn) (s' : HState) (o : List HOut)
    (e : Option Bool) (hR : R20 st s) (h : tstep sha1 s inp = some (s', o, e)) :
    ∃ st', step20 KEEP_ALIVE_LIMIT st (inp, o.filterMap (obsOf sha1), e) = some st' ∧ R20 st' s' := by
  obtain ⟨hRa, hRs⟩ := hR
  cases ha : s.alive with
  | false =>
    rw [tstep_dead sha1 s ha inp] at h; cases h
    refine ⟨st, ?_, ⟨hRa, fun c => by rw [ha] at c; cases c⟩⟩
    simp [step20, hRa, ha, deadOk]
  | true =>
    have hsil := hRs ha
    by_cases hnt : ∃ k, inp = .ticks k
    · obtain ⟨k, rfl⟩ := hnt
      simp only [tstep, ticks_facts s ha, Option.some.injEq, Prod.mk.injEq] at h
      obtain ⟨rfl, rfl, rfl⟩ := h
      refine ⟨{ silent := (kaRun KEEP_ALIVE_LIMIT s.keepAlive k).2.1, alive := (kaRun KEEP_ALIVE_LIMIT s.keepAlive k).2.2 }, ?_, ⟨rfl, fun _ => rfl⟩⟩
      simp [step20, hRa, ha, kaSpec, obs_replicate_ka, hsil]
      by_cases hh : (kaRun 2 s.keepAlive k).2.2 = true <;> simp [hh]
    · have hnt' : ∀ k, inp ≠ .ticks k := fun k c => hnt ⟨k, c⟩
      obtain ⟨hgo, hend⟩ := tstep_core sha1 s ha inp hnt' s' o e h
      have hsilA : ∀ k, silentAfter inp k = (match inp with
          | .frame m _ _ => if isKeepAlive m then k else 0
          | _ => k) := by
        intro k; cases inp <;> try rfl
        rename_i m _ _; cases m <;> rfl
      cases e with
      | none =>
        obtain ⟨ha', hk⟩ := hgo rfl
        cases inp <;> first
          | exact absurd rfl (hnt' _)
          | (refine ⟨_, by simp only [step20, hRa, ha, Bool.not_true, Bool.false_eq_true, if_false]; rfl, ?_⟩
             exact ⟨by simp [ha'], fun _ => by simp [hk, hsilA, hsil]⟩)
      | some b =>
        have hd := hend (by simp)
        cases inp <;> first
          | exact absurd rfl (hnt' _)
          | (refine ⟨_, by simp only [step20, hRa, ha, Bool.not_true, Bool.false_eq_true, if_false]; rfl, ?_⟩
             exact ⟨by simp [hd], fun c => by rw [hd] at c; cases c⟩)

/-- **Every script of frames, broadcasts, ticks and stream ends**: the observable behaviour of the task satisfies the
    keep-alive discipline `P20`, from any live state (with `silent` = its counter). -/
theorem C20_trace (sha1 : Bytes → Bytes) (s : HState) (halive : s.alive = true) (script : List TIn) :
    P20 KEEP_ALIVE_LIMIT s.keepAlive (runTrace sha1 s script) = true :=
  checkTrace_run sha1 (step20 KEEP_ALIVE_LIMIT) R20 (fun st s inp s' o e hR h => step20_sound sha1 st s inp s' o e hR h)
    script { silent := s.keepAlive, alive := true } s ⟨halive.symm, fun _ => rfl⟩

/-! ### Corollaries in the property's words -/

/-- **T1** for the source's constants: after the last real message, the third tick at the latest closes the
    connection (and with nothing but keep-alives arriving it is exactly tick `KEEP_ALIVE_LIMIT + 1`). -/
theorem T1_closed_within_three_intervals (silent : Nat) (hs : silent ≤ KEEP_ALIVE_LIMIT) :
    (kaRun KEEP_ALIVE_LIMIT silent 3).2.2 = false := by
  have hc := constants
  rw [T1_silence_closes KEEP_ALIVE_LIMIT silent 3 hs (by omega)]

/-- **T2**: a connection delivering a real message at least once per interval is never closed for inactivity: a tick
    arriving with `silent < limit` never closes, and after any real message `silent` is 0 (with `1 ≤ limit`). -/
theorem T2_live_connection_kept (limit : Nat) (h1 : 1 ≤ limit) : (kaRun limit 0 1).2.2 = true := by
  rw [T3_tick_writes_one_keepalive limit 0 1 (by omega)]

/-! ### "…and its peer state and reservation are released" (closed loop, `Swarm/Loop.lean`) -/

/-- **T4 (C20, task and manager together).** When the connection task ends — for a silent peer: at the closing tick of
    T1 — the manager's handling of its `KillReq` leaves no record of that connection (`kill_peer`; C12's `kill` case: the
    piece it was assigned is `Missing` again unless owned). -/
theorem T4_closed_connection_is_forgotten (T : Rdest.Swarm.Loop.Torrent) (sha1 : Bytes → Bytes) (disk : Bytes → Option Bytes)
    (a : Nat) (m m' : MState) (t t' : HState) (inp : HIn) (outs : List HOut) (hal : t.alive = true)
    (hs : Rdest.Swarm.Loop.LStepO T sha1 disk a m t inp m' t' outs) (hdead : t'.alive = false) : findPeer m' a = none :=
  Rdest.Swarm.Loop.ended_is_forgotten T sha1 disk a m m' t t' inp outs hal hs hdead

/-- The closing tick is such an ending step: a task at the keep-alive limit ends on the next tick. -/
theorem T4_closing_tick_ends_the_task (sha1 : Bytes → Bytes) (disk : Bytes → Option Bytes) (t : HState)
    (hal : t.alive = true) (hlim : t.keepAlive = KEEP_ALIVE_LIMIT) :
    ∃ t', hstep sha1 disk t .tick = some (t', [], some false) ∧ t'.alive = false := by
  refine ⟨{ t with alive := false }, ?_, rfl⟩
  simp [hstep, hal, hlim, terminate]

/-! ### Non-vacuity (tests) -/

example : kaRun 2 0 3 = (2, 2, false) := by decide
example : kaRun 2 1 1 = (1, 2, true) := by decide

end Rdest.Props.C20
