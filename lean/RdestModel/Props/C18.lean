/-
  C18 — the tracker announce names the right torrent and client.

  Model: `RdestModel/Tracker/Url.lean` (`create_url`, the pairs appended by `RequestBuilder::query`, form decoding as
  done by a tracker).  Tie: `create_url` through a hook, and the real `TrackerClient::run` against a loopback HTTP
  listener (request target and Host header compared with `requestUrl`).  The `url`/`reqwest` crates are outside the
  model; T2 shows that everything the client adds consists of characters URL parsing leaves alone.
-/
import RdestModel.Lemmas.Url
set_option linter.unusedSimpArgs false
set_option linter.unusedVariables false
namespace Rdest.Props.C18
open Rdest Rdest.Tracker

/-- **T1 (C18).** Percent-decoding the escaped info-hash (or any escaped byte string) gives back exactly the
    bytes: every byte value, including NUL, `&`, `%`, `+`, `=`, space and non-UTF-8. -/
theorem T1_info_hash_decodes_to_the_hash (bs : Bytes) : formDecode (byteSerialize bs) = bs :=
  formDecode_serialize bs

/-- **T2 (C18).** The escaped text consists only of letters, digits, `* - . _`, `+` and `%`: it contains no `&`, `=`
    or `?` (so it cannot end a pair or start a query) and nothing a URL parser rewrites inside a query. -/
theorem T2_escaped_text_is_inert (bs : Bytes) :
    (∀ c ∈ byteSerialize bs, isUnres c = true ∨ c = cPlus ∨ c = cPct) ∧
    cAmp ∉ byteSerialize bs ∧ cEq ∉ byteSerialize bs ∧ cQ ∉ byteSerialize bs :=
  ⟨serialize_harmless bs, serialize_no_sep bs⟩

theorem sInfoHash_plain : byteSerialize sInfoHash = sInfoHash := by decide

/-- The request URL is the announce URL's part before any `?`, a `?`, and a query that is the announce URL's own
    query (if any) followed by the client's pairs. -/
theorem requestUrl_shape (announce hash peerId : Bytes) (port total : Nat) :
    requestUrl announce hash peerId port total =
      (splitUrl announce).1 ++ cQ ::
        appendPairs ((match (splitUrl announce).2 with | some q => q ++ [cAmp] | none => []) ++ pairTxt sInfoHash hash)
          (params peerId port total) := by
  unfold requestUrl createUrl splitUrl
  by_cases hq : cQ ∈ announce
  · have hc : announce.contains cQ = true := by simpa using hq
    obtain ⟨hsplit, _⟩ := cutAt_mem cQ announce hq
    simp only [hc, if_true]
    have : announce ++ cAmp :: (sInfoHash ++ cEq :: byteSerialize hash) =
        ((cutAt cQ announce).1 ++ [cQ]) ++ (((cutAt cQ announce).2 ++ [cAmp]) ++ pairTxt sInfoHash hash) := by
      conv => lhs; rw [hsplit]
      simp [pairTxt, sInfoHash_plain]
    rw [this, appendPairs_prefix]
    simp
  · have hc : announce.contains cQ = false := by simpa using hq
    simp only [hc, Bool.false_eq_true, if_false, cutAt_nosep cQ announce hq]
    have : announce ++ cQ :: (sInfoHash ++ cEq :: byteSerialize hash) = (announce ++ [cQ]) ++ ([] ++ pairTxt sInfoHash hash) := by
      simp [pairTxt, sInfoHash_plain]
    rw [this, appendPairs_prefix]
    simp

/-- **T3 (C18).** The request goes to the announce URL's scheme, host and path: everything in front of the first
    `?` is the announce URL's, unchanged. -/
theorem T3_request_goes_to_the_announce_host_and_path (announce hash peerId : Bytes) (port total : Nat) :
    (cutAt cQ (requestUrl announce hash peerId port total)).1 = (splitUrl announce).1 := by
  rw [requestUrl_shape]
  have hno : cQ ∉ (splitUrl announce).1 := by
    unfold splitUrl
    by_cases hq : cQ ∈ announce
    · exact (cutAt_mem cQ announce hq).2
    · simp only [cutAt_nosep cQ announce hq]; exact hq
  rw [cutAt_nosep_append cQ _ _ hno]

/-- **T4 (C18).** For every announce URL (with or without a query), every 20-byte (or any) hash, every peer id,
    port and total length: the query the tracker decodes consists of the announce URL's own pairs, in order, followed
    by `info_hash` = exactly the hash bytes, `peer_id` = the client's id, `port`, `uploaded`, `downloaded`,
    `left` = the total length in decimal, `event`, `numwant`. -/
theorem T4_query_pairs (announce hash peerId : Bytes) (port total : Nat) :
    parsePairs (queryOf (requestUrl announce hash peerId port total)) =
      (match (splitUrl announce).2 with | some q => parsePairs q | none => []) ++
        (sInfoHash, hash) :: params peerId port total := by
  have hno : cQ ∉ (splitUrl announce).1 := by
    unfold splitUrl
    by_cases hq : cQ ∈ announce
    · exact (cutAt_mem cQ announce hq).2
    · simp only [cutAt_nosep cQ announce hq]; exact hq
  unfold queryOf
  rw [requestUrl_shape, cutAt_nosep_append cQ _ _ hno, parsePairs_appendPairs]
  cases (splitUrl announce).2 with
  | none => simp only [List.nil_append, parsePairs_pair]; rfl
  | some q =>
    simp only [List.append_assoc, List.singleton_append]
    rw [parsePairs_append, parsePairs_pair]; simp

/-- The client's own parameters: `left` is the total length, `port` the listening port, in decimal. -/
theorem T4_params (peerId : Bytes) (port total : Nat) :
    (params peerId port total).lookup sPeerId = some peerId ∧
    (params peerId port total).lookup sPort = some (Bencode.natDec port) ∧
    (params peerId port total).lookup sLeft = some (Bencode.natDec total) := by
  refine ⟨by simp [params, List.lookup], ?_, ?_⟩
  · have h1 : (sPort == sPeerId) = false := by decide
    simp [params, List.lookup, h1]
  · have h1 : (sLeft == sPeerId) = false := by decide
    have h2 : (sLeft == sPort) = false := by decide
    have h3 : (sLeft == sUploaded) = false := by decide
    have h4 : (sLeft == sDownloaded) = false := by decide
    simp [params, List.lookup, h1, h2, h3, h4]

/-! ### Non-vacuity (tests) -/

-- NUL & % + = space and 0xff
example : byteSerialize [0, 38, 37, 43, 61, 32, 255, 65] =
    [37, 48, 48, 37, 50, 54, 37, 50, 53, 37, 50, 66, 37, 51, 68, 43, 37, 70, 70, 65] := by decide
-- a?k=v  →  a?k=v&info_hash=A   and  a → a?info_hash=A
example : createUrl [97, 63, 107, 61, 118] [65] = [97, 63, 107, 61, 118, 38] ++ sInfoHash ++ [61, 65] := by decide
example : createUrl [97] [65] = [97, 63] ++ sInfoHash ++ [61, 65] := by decide

end Rdest.Props.C18
