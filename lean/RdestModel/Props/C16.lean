/-
  C16 — the bencode decoder accepts exactly well-formed input, and never panics.
-/
import RdestModel.Bencode.Encode
set_option linter.unusedSimpArgs false
set_option linter.unusedVariables false
namespace Rdest.Props.C16
open Rdest Rdest.Bencode

/-! ### The sub-parsers consume input -/

theorem splitAt_length (stop : UInt8) (inp : Bytes) : (splitAt stop inp).2.1.length ≤ inp.length := by
  induction inp with
  | nil => simp [splitAt]
  | cons b rest ih =>
    simp only [splitAt]
    split
    · simp
    · simp only [List.length_cons]; omega

theorem parseByteStr_length (first : UInt8) (inp s rest : Bytes) (h : parseByteStr first inp = some (s, rest)) :
    rest.length ≤ inp.length := by
  unfold parseByteStr at h
  simp only at h
  repeat' split at h
  all_goals first
    | (simp only [Option.some.injEq, Prod.mk.injEq] at h
       rw [← h.2]
       have h0 := splitAt_length cColon inp
       have h1 : ∀ (n : Nat) (l : Bytes), (l.drop n).length ≤ l.length := by intro n l; simp [List.length_drop]
       exact Nat.le_trans (h1 _ _) h0)
    | cases h

theorem parseInt_length (inp rest : Bytes) (i : Int) (h : parseInt inp = some (i, rest)) : rest.length ≤ inp.length := by
  unfold parseInt at h
  simp only at h
  have hs := splitAt_length cE inp
  repeat' split at h
  all_goals first
    | (simp only [Option.some.injEq, Prod.mk.injEq] at h; rw [← h.2]; exact hs)
    | cases h

theorem consV_ok (v : BValue) (r : DRes) (vs : List BValue) (rest : Bytes) (h : consV v r = .ok (vs, rest)) :
    ∃ vs', r = .ok (vs', rest) ∧ vs = v :: vs' := by
  cases r with
  | error e => simp [consV] at h
  | ok p => obtain ⟨a, b⟩ := p; simp only [consV, Except.ok.injEq, Prod.mk.injEq] at h; exact ⟨a, by rw [← h.2], h.1.symm⟩

/-- Whatever is left after decoding is a suffix no longer than the input. -/
theorem values_length (c : Bool) (fuel : Nat) (inp : Bytes) (w : Bool) (vs : List BValue) (rest : Bytes)
    (h : values c fuel inp w = .ok (vs, rest)) : rest.length ≤ inp.length := by
  induction fuel generalizing inp w vs rest with
  | zero => simp [values] at h
  | succ fuel ih =>
    cases inp with
    | nil => simp only [values] at h; split at h <;> simp_all
    | cons b t =>
      simp only [values] at h
      split at h
      · split at h
        · rename_i s r' hp
          obtain ⟨vs', h', _⟩ := consV_ok _ _ _ _ h
          have := ih _ _ _ _ h'; have := parseByteStr_length b t s r' hp
          simp only [List.length_cons]; omega
        · cases h
      · split at h
        · split at h
          · rename_i i r' hp
            obtain ⟨vs', h', _⟩ := consV_ok _ _ _ _ h
            have := ih _ _ _ _ h'; have := parseInt_length t r' i hp
            simp only [List.length_cons]; omega
          · cases h
        · split at h
          · split at h
            · rename_i items r' hl
              obtain ⟨vs', h', _⟩ := consV_ok _ _ _ _ h
              have := ih _ _ _ _ h'; have := ih _ _ _ _ hl
              simp only [List.length_cons]; omega
            · cases h
          · split at h
            · split at h
              · rename_i items r' hl
                split at h
                · obtain ⟨vs', h', _⟩ := consV_ok _ _ _ _ h
                  have := ih _ _ _ _ h'; have := ih _ _ _ _ hl
                  simp only [List.length_cons]; omega
                · cases h
              · cases h
            · split at h
              · split at h
                · simp only [Except.ok.injEq, Prod.mk.injEq] at h; rw [← h.2]; simp
                · cases h
              · cases h

/-! ### T1: totality — the model function is total, and its fuel never runs out -/

theorem consV_fuel (v : BValue) (r : DRes) (h : r ≠ .error .fuel) : consV v r ≠ .error .fuel := by
  cases r with
  | ok p => simp [consV]
  | error e => simp only [consV]; intro c; apply h; simpa using c

/-- With `fuel > |input|` the decoder never fails for lack of fuel: `decodeImpl` (fuel `|input| + 1`) is the
    unbounded recursion of the Rust code. Being a total function, it returns for every byte string; it has no panic
    outcome (every index, slice and conversion of the Rust code is guarded in the model by the same check). -/
theorem T1_fuel_sufficient (c : Bool) (fuel : Nat) (inp : Bytes) (w : Bool) (hf : inp.length < fuel) :
    values c fuel inp w ≠ .error .fuel := by
  induction fuel generalizing inp w with
  | zero => omega
  | succ fuel ih =>
    cases inp with
    | nil => simp only [values]; split <;> simp
    | cons b t =>
      simp only [List.length_cons] at hf
      simp only [values]
      split
      · split
        · rename_i s r' hp
          have := parseByteStr_length b t s r' hp
          exact consV_fuel _ _ (ih _ _ (by omega))
        · simp
      · split
        · split
          · rename_i i r' hp
            have := parseInt_length t r' i hp
            exact consV_fuel _ _ (ih _ _ (by omega))
          · simp
        · split
          · split
            · rename_i items r' hl
              have := values_length c fuel t true items r' hl
              exact consV_fuel _ _ (ih _ _ (by omega))
            · rename_i e hl
              intro c'; simp only [Except.error.injEq] at c'; subst c'
              exact ih t true (by omega) hl
          · split
            · split
              · rename_i items r' hl
                split
                · have := values_length c fuel t true items r' hl
                  exact consV_fuel _ _ (ih _ _ (by omega))
                · simp
              · rename_i e hl
                intro c'; simp only [Except.error.injEq] at c'; subst c'
                exact ih t true (by omega) hl
            · split
              · split <;> simp
              · simp

theorem T1_total (inp : Bytes) : values true (inp.length + 1) inp false ≠ .error .fuel :=
  T1_fuel_sufficient true _ inp false (by omega)

/-! ### T2 / T3: the implementation against the strict grammar -/

/-- How the implementation (`eofCloses = true`) and the strict grammar relate on the same input and fuel:
    equal results, except that the strict grammar may stop with "input ended inside a container" where the
    implementation goes on. -/
def Rel : DRes → DRes → Prop
  | .ok r, .ok r' => r = r'
  | .ok _, .error e => e = .eofInContainer
  | .error e, .error e' => e = e' ∨ e' = .eofInContainer
  | .error _, .ok _ => False

theorem rel_consV (v : BValue) (a b : DRes) (h : Rel a b) : Rel (consV v a) (consV v b) := by
  cases a with
  | ok ra => cases b with
    | ok rb => simp only [Rel] at h; subst h; simp [consV, Rel]
    | error e => simpa [consV, Rel] using h
  | error ea => cases b with
    | ok rb => simp [Rel] at h
    | error eb => simpa [consV, Rel] using h

theorem rel_values (fuel : Nat) (inp : Bytes) (w : Bool) : Rel (values true fuel inp w) (values false fuel inp w) := by
  induction fuel generalizing inp w with
  | zero => simp [values, Rel]
  | succ fuel ih =>
    cases inp with
    | nil => cases w <;> simp [values, Rel]
    | cons b t =>
      simp only [values]
      split
      · split
        · exact rel_consV _ _ _ (ih _ _)
        · simp [Rel]
      · split
        · split
          · exact rel_consV _ _ _ (ih _ _)
          · simp [Rel]
        · split
          · -- list
            have hin := ih t true
            cases h1 : values true fuel t true with
            | ok r1 =>
              cases h2 : values false fuel t true with
              | ok r2 =>
                rw [h1, h2] at hin; simp only [Rel] at hin; subst hin
                exact rel_consV _ _ _ (ih _ _)
              | error e2 =>
                rw [h1, h2] at hin; simp only [Rel] at hin; subst hin
                simp only []
                cases consV (BValue.list r1.1) (values true fuel r1.2 w) <;> simp [Rel]
            | error e1 =>
              cases h2 : values false fuel t true with
              | ok r2 => rw [h1, h2] at hin; simp [Rel] at hin
              | error e2 => rw [h1, h2] at hin; simpa [Rel] using hin
          · split
            · -- dictionary
              have hin := ih t true
              cases h1 : values true fuel t true with
              | ok r1 =>
                cases h2 : values false fuel t true with
                | ok r2 =>
                  rw [h1, h2] at hin; simp only [Rel] at hin; subst hin
                  simp only []
                  split
                  · exact rel_consV _ _ _ (ih _ _)
                  · simp [Rel]
                | error e2 =>
                  rw [h1, h2] at hin; simp only [Rel] at hin; subst hin
                  simp only []
                  split
                  · cases consV _ (values true fuel r1.2 w) <;> simp [Rel]
                  · simp [Rel]
              | error e1 =>
                cases h2 : values false fuel t true with
                | ok r2 => rw [h1, h2] at hin; simp [Rel] at hin
                | error e2 => rw [h1, h2] at hin; simpa [Rel] using hin
            · split
              · split <;> simp [Rel]
              · simp [Rel]

/-- **T2 (completeness).** Every input the strict grammar accepts — a sequence of well-formed bencoded values — is
    accepted by the decoder, with the same values. -/
theorem T2_accepts_well_formed (inp : Bytes) (vs : List BValue) (h : decodeStrict inp = some vs) :
    decodeImpl inp = some vs := by
  unfold decodeStrict decodeStrictE at h
  unfold decodeImpl
  have hr := rel_values (inp.length + 1) inp false
  cases h2 : values false (inp.length + 1) inp false with
  | error e => rw [h2] at h; simp [toOpt] at h
  | ok r2 =>
    rw [h2] at h hr
    cases h1 : values true (inp.length + 1) inp false with
    | error e => rw [h1] at hr; simp [Rel] at hr
    | ok r1 => rw [h1] at hr; simp only [Rel] at hr; subst hr; exact h

/-- The full soundness statement of the property. -/
def C16_soundness_full : Prop := ∀ (inp : Bytes) (vs : List BValue), decodeImpl inp = some vs → decodeStrict inp = some vs

/-- It is FALSE for the code as it is (recorded finding F1): `l` is accepted. -/
theorem C16_soundness_full_refuted : ¬ C16_soundness_full := by
  intro h
  have h1 : decodeImpl [cL] = some [.list []] := rfl
  have h2 : decodeStrict [cL] = none := rfl
  have := h [cL] [.list []] h1
  rw [h2] at this; cases this

/-- **T3 (soundness), partial.** Whatever the decoder accepts is accepted by the strict grammar with the same values
    — unless the input ends inside a list or dictionary (`EofInsideContainer`, the recorded class F1): every other
    malformed input (truncated strings and integers, missing `:`, non-canonical integers, stray `e`, unknown bytes,
    odd dictionaries, non-string keys) is rejected. -/
theorem T3_soundness_partial (inp : Bytes) (vs : List BValue) (h : decodeImpl inp = some vs) :
    decodeStrict inp = some vs ∨ EofInsideContainer inp = true := by
  unfold decodeImpl at h
  unfold decodeStrict EofInsideContainer decodeStrictE
  have hr := rel_values (inp.length + 1) inp false
  cases h1 : values true (inp.length + 1) inp false with
  | error e => rw [h1] at h; simp [toOpt] at h
  | ok r1 =>
    rw [h1] at h hr
    cases h2 : values false (inp.length + 1) inp false with
    | ok r2 => rw [h2] at hr; simp only [Rel] at hr; subst hr; left; exact h
    | error e => rw [h2] at hr; simp only [Rel] at hr; subst hr; right; rfl

/-! ### Non-vacuity (tests) -/

example : decodeImpl [cI, 52, 52, cE] = some [.int 44] := rfl      -- "i44e"
example : decodeStrict [cL, cI, 49, cE] = none ∧ decodeImpl [cL, cI, 49, cE] = some [.list [.int 1]] ∧
    EofInsideContainer [cL, cI, 49, cE] = true := ⟨rfl, rfl, rfl⟩
example : decodeImpl [48] = none := rfl                 -- "0": no ':' (was accepted before the fix)
example : decodeImpl [cI, cMinus, 48, cE] = none := rfl

end Rdest.Props.C16
