/-
  C17 — the metainfo model is a faithful, safe reading of the .torrent.

  Model: `RdestModel/Meta/Parse.lean`.  Totality: `fromBencodeImpl` is a total function whose only recursion is the
  decoder's (fuel proved sufficient in C16) — "no panic" is what the correspondence check observes on the real
  code; what is proved here is that whatever is accepted satisfies the side conditions under which the accessors'
  machine arithmetic (modelled with an explicit `none` = panic outcome) is defined.
-/
import RdestModel.Lemmas.Syntax
import RdestModel.Props.C15
import RdestModel.Lemmas.Create
set_option linter.unusedSimpArgs false
set_option linter.unusedVariables false
namespace Rdest.Props.C17
open Rdest Rdest.Bencode Rdest.Meta Rdest.Syntax Rdest.Props.C15

/-! ### Reading the fields -/

theorem infoOf_some (d i : Dict) (h : infoOf d = some i) : dictGet d kInfo = some (.dict i) := by
  unfold infoOf at h
  split at h
  · rename_i i' hi; cases h; exact hi
  · cases h

theorem findName_ok (d : Dict) (n : Bytes) (h : findName d = .ok n) :
    ∃ i, infoOf d = some i ∧ dictGet i kName = some (.str n) ∧ utf8Valid n = true := by
  unfold findName at h
  split at h
  · rename_i i hi
    split at h
    · rename_i v hv
      split at h
      · rename_i hu; cases h; exact ⟨i, hi, hv, hu⟩
      · cases h
    · cases h
  · cases h

theorem findAnnounce_ok (d : Dict) (a : Bytes) (h : findAnnounce d = .ok a) :
    dictGet d kAnnounce = some (.str a) ∧ utf8Valid a = true := by
  unfold findAnnounce at h
  split at h
  · rename_i v hv
    split at h
    · rename_i hu; cases h; exact ⟨hv, hu⟩
    · cases h
  · cases h

theorem findPieceLength_ok (d : Dict) (pl : Nat) (h : findPieceLength d = .ok pl) :
    ∃ i n, infoOf d = some i ∧ dictGet i kPieceLength = some (.int n) ∧ 0 < n ∧ pl = n.toNat := by
  unfold findPieceLength at h
  split at h
  · rename_i i hi
    split at h
    · rename_i n hn
      split at h
      · rename_i hpos; cases h; exact ⟨i, n, hi, hn, hpos, rfl⟩
      · cases h
    · cases h
  · cases h

theorem findPieces_ok (d : Dict) (ps : List Bytes) (h : findPieces d = .ok ps) :
    ∃ i p, infoOf d = some i ∧ dictGet i kPieces = some (.str p) ∧ p.length % 20 = 0 ∧ ps = chunks 20 p.length p := by
  unfold findPieces at h
  split at h
  · rename_i i hi
    split at h
    · rename_i p hp
      split at h
      · cases h
      · rename_i hdiv; cases h; exact ⟨i, p, hi, hp, by omega, rfl⟩
    · cases h
  · cases h

/-! ### `chunks` -/

theorem chunks_flatten (n : Nat) (hn : 0 < n) (fuel : Nat) (b : Bytes) (hf : b.length ≤ fuel) :
    (chunks n fuel b).flatten = b := by
  induction fuel generalizing b with
  | zero =>
    have : b = [] := List.length_eq_zero_iff.mp (by omega)
    subst this; simp [chunks]
  | succ f ih =>
    simp only [chunks]
    by_cases he : b.isEmpty = true
    · rw [if_pos he]; simp only [List.isEmpty_iff] at he; subst he; simp
    · rw [if_neg he]
      simp only [List.flatten_cons]
      have hne : b ≠ [] := by simpa [List.isEmpty_iff] using he
      have hpos : 0 < b.length := List.length_pos_iff.mpr hne
      rw [ih (b.drop n) (by simp; omega), List.take_append_drop]

theorem chunks_len (n : Nat) (hn : 0 < n) (fuel : Nat) (b : Bytes) (hdiv : b.length % n = 0) :
    ∀ c ∈ chunks n fuel b, c.length = n := by
  induction fuel generalizing b with
  | zero => intro c hc; simp [chunks] at hc
  | succ f ih =>
    intro c hc
    simp only [chunks] at hc
    by_cases he : b.isEmpty = true
    · rw [if_pos he] at hc; simp at hc
    · rw [if_neg he] at hc
      have hne : b ≠ [] := by simpa [List.isEmpty_iff] using he
      have hpos : 0 < b.length := List.length_pos_iff.mpr hne
      have hge : n ≤ b.length := Nat.le_of_dvd hpos (Nat.dvd_of_mod_eq_zero hdiv)
      rcases List.mem_cons.mp hc with rfl | hc'
      · simp; omega
      · refine ih (b.drop n) ?_ c hc'
        simp only [List.length_drop]
        have : (b.length - n) % n = b.length % n := by
          rw [← Nat.add_mod_right (b.length - n) n]; congr 1; omega
        omega

/-! ### T2: the fields are what the document's dictionary says -/

/-- What the (decoded) top-level dictionary says, field by field. -/
structure Reads (d : Dict) (f : Fields) : Prop where
  announce : dictGet d kAnnounce = some (.str f.announce)
  info : ∃ i, dictGet d kInfo = some (.dict i) ∧
    dictGet i kName = some (.str f.name) ∧
    dictGet i kPieceLength = some (.int f.pieceLength) ∧
    (∃ p, dictGet i kPieces = some (.str p) ∧ f.pieces.flatten = p ∧ ∀ c ∈ f.pieces, c.length = 20) ∧
    ((∃ l : Int, dictGet i kLength = some (.int l) ∧ 0 ≤ l ∧ f.files = [⟨l.toNat, f.name⟩]) ∨
     (∃ l, dictGet i kFiles = some (.list l) ∧ f.files = l.filterMap fileOf))

/-- The side conditions every accepted metainfo satisfies. -/
structure Safe (f : Fields) : Prop where
  plPos : 0 < f.pieceLength
  total : sumLens f.files < 2 ^ 64
  utf8a : utf8Valid f.announce = true
  utf8n : utf8Valid f.name = true

theorem findLength_some (d : Dict) (l : Nat) (h : findLength d = some l) :
    ∃ i n, infoOf d = some i ∧ dictGet i kLength = some (.int n) ∧ 0 ≤ n ∧ l = n.toNat := by
  unfold findLength at h
  split at h
  · rename_i i hi
    split at h
    · rename_i n hn
      split at h
      · rename_i hpos; cases h; exact ⟨i, n, hi, hn, hpos, rfl⟩
      · cases h
    · cases h
  · cases h

theorem findFiles_some (d : Dict) (fs : List MFile) (h : findFiles d = some fs) :
    ∃ i l, infoOf d = some i ∧ dictGet i kFiles = some (.list l) ∧ fs = l.filterMap fileOf := by
  unfold findFiles at h
  split at h
  · rename_i i hi
    split at h
    · rename_i l hl; cases h; exact ⟨i, l, hi, hl, rfl⟩
    · cases h
  · cases h

theorem parseFields_ok (d : Dict) (f : Fields) (h : parseFields d = .ok f) : Reads d f ∧ Safe f := by
  unfold parseFields at h
  split at h; · cases h
  rename_i hnotboth
  split at h; · cases h
  rename_i hnotnone
  cases hname : findName d with
  | error e => rw [hname] at h; cases h
  | ok name =>
    rw [hname] at h
    simp only [] at h
    split at h; · cases h
    rename_i hsum
    cases hann : findAnnounce d with
    | error e => rw [hann] at h; cases h
    | ok ann =>
      rw [hann] at h
      cases hpl : findPieceLength d with
      | error e => rw [hpl] at h; cases h
      | ok pl =>
        rw [hpl] at h
        cases hps : findPieces d with
        | error e => rw [hps] at h; cases h
        | ok ps =>
          rw [hps] at h
          simp only [Except.ok.injEq] at h
          subst h
          obtain ⟨i, hi, hn, hun⟩ := findName_ok d name hname
          obtain ⟨ha, hua⟩ := findAnnounce_ok d ann hann
          obtain ⟨i2, n, hi2, hpln, hnpos, hpleq⟩ := findPieceLength_ok d pl hpl
          obtain ⟨i3, p, hi3, hpp, hdiv, hpeq⟩ := findPieces_ok d ps hps
          have e2 : i2 = i := by rw [hi] at hi2; exact (Option.some.inj hi2).symm
          have e3 : i3 = i := by rw [hi] at hi3; exact (Option.some.inj hi3).symm
          rw [e2] at hpln; rw [e3] at hpp
          have hplpos : 0 < pl := by omega
          have hsum' : sumLens (filesOf (findLength d) (findFiles d) name) < 2 ^ 64 := by omega
          refine ⟨⟨ha, i, infoOf_some d i hi, hn, ?_, ⟨p, hpp, ?_, ?_⟩, ?_⟩, ⟨hplpos, hsum', hua, hun⟩⟩
          · have hcast : ((pl : Nat) : Int) = n := by omega
            show dictGet i kPieceLength = some (BValue.int ((pl : Nat) : Int))
            rw [hpln, hcast]
          · rw [hpeq]; exact chunks_flatten 20 (by omega) _ p (Nat.le_refl _)
          · rw [hpeq]; exact chunks_len 20 (by omega) _ p hdiv
          · cases hl : findLength d with
            | some l =>
              obtain ⟨i4, n4, hi4, hl4, hn4, hleq⟩ := findLength_some d l hl
              have e4 : i4 = i := by rw [hi] at hi4; exact (Option.some.inj hi4).symm
              rw [e4] at hl4
              exact Or.inl ⟨n4, hl4, hn4, by simp [filesOf, hleq]⟩
            | none =>
              cases hfs : findFiles d with
              | none => rw [hl, hfs] at hnotnone; simp at hnotnone
              | some fs =>
                obtain ⟨i5, l5, hi5, hl5, hfeq⟩ := findFiles_some d fs hfs
                have e5 : i5 = i := by rw [hi] at hi5; exact (Option.some.inj hi5).symm
                rw [e5] at hl5
                exact Or.inr ⟨l5, hl5, by simp [filesOf, hfeq]⟩

def fieldsOf (m : MetaM) : Fields := ⟨m.announce, m.name, m.pieceLength, m.pieces, m.files⟩

theorem parse_fields (doc : Bytes) (k : Nat) (d : Dict) (m : MetaM) (h : parse doc k d = .ok m) :
    parseFields d = .ok (fieldsOf m) := by
  unfold parse at h
  cases hf : parseFields d with
  | error e => rw [hf] at h; cases h
  | ok f =>
    rw [hf] at h
    cases hr : rawInfo doc k with
    | none => rw [hr] at h; cases h
    | some span => rw [hr] at h; cases h; rfl

/-- **T2 (C17).** When parsing succeeds, tracker URL, name, piece length, the ordered piece hashes and the
    ordered file list are what a top-level dictionary of the document says (the first one that can be read), and
    the side conditions `Safe` hold. -/
theorem T2_fields_are_what_the_document_says (doc : Bytes) (m : MetaM) (h : fromBencodeImpl doc = .ok m) :
    ∃ (vs : List BValue) (k : Nat) (d : Dict), decodeImpl doc = some vs ∧ vs[k]? = some (BValue.dict d) ∧ Reads d (fieldsOf m) ∧ Safe (fieldsOf m) := by
  unfold fromBencodeImpl at h
  cases hd : decodeImpl doc with
  | none => rw [hd] at h; cases h
  | some vs =>
    rw [hd] at h
    cases vs with
    | nil => cases h
    | cons v vs' =>
      simp only [] at h
      -- the loop returns the result of `parse` on one of the dictionaries
      have key : ∀ (l : List BValue) (k : Nat) (e0 : MErr), firstOk doc l k (.error e0) = .ok m →
          ∃ (j : Nat) (d : Dict), l[j]? = some (BValue.dict d) ∧ ∃ k', parse doc k' d = .ok m := by
        intro l
        induction l with
        | nil => intro k e0 h; simp [firstOk] at h
        | cons x xs ih =>
          intro k e0 h
          cases x with
          | dict d =>
            simp only [firstOk] at h
            cases hp : parse doc k d with
            | ok m' => rw [hp] at h; cases h; exact ⟨0, d, rfl, k, hp⟩
            | error e' =>
              rw [hp] at h
              obtain ⟨j, d', hj, hk'⟩ := ih (k + 1) e' h
              exact ⟨j + 1, d', by simpa using hj, hk'⟩
          | int _ | str _ | list _ =>
            simp only [firstOk] at h
            obtain ⟨j, d', hj, hk'⟩ := ih (k + 1) e0 h
            exact ⟨j + 1, d', by simpa using hj, hk'⟩
      obtain ⟨j, d, hj, k', hp⟩ := key (v :: vs') 0 _ h
      obtain ⟨hr, hs⟩ := parseFields_ok d _ (parse_fields doc k' d m hp)
      exact ⟨v :: vs', j, d, rfl, hj, hr, hs⟩

/-! ### T3: every accessor is safe for every valid piece index -/

theorem total_fold (fs : List MFile) (a : Nat) (h : a + sumLens fs < u64Max) :
    fs.foldl (fun acc f => acc.bind fun a => if a + f.length < u64Max then some (a + f.length) else none) (some a)
      = some (a + sumLens fs) := by
  induction fs generalizing a with
  | nil => simp [sumLens]
  | cons f fs ih =>
    simp only [sumLens, List.map_cons, List.sum_cons] at h
    simp only [List.foldl_cons, Option.bind_some]
    have h1 : a + f.length < u64Max := by omega
    rw [if_pos h1, ih (a + f.length) (by simp only [sumLens]; omega)]
    simp only [sumLens, List.map_cons, List.sum_cons]; congr 1; omega

/-- **T3 (C17).** For every accepted metainfo: `total_length()` does not overflow, `piece_length(i)` is defined for
    every valid piece index (no underflow, no division by zero), and `file_piece_ranges()` is defined. -/
theorem T3_accessors_safe (doc : Bytes) (m : MetaM) (h : fromBencodeImpl doc = .ok m) :
    totalLengthM m = some (sumLens m.files) ∧
    (∀ i, i < m.pieces.length → (pieceLengthM m i).isSome = true) ∧
    (rangesM m).isSome = true := by
  obtain ⟨vs, k, d, _, _, _, hs⟩ := T2_fields_are_what_the_document_says doc m h
  have hpl : 0 < m.pieceLength := hs.plPos
  have htot : sumLens m.files < 2 ^ 64 := hs.total
  have ht : totalLengthM m = some (sumLens m.files) := by
    have := total_fold m.files 0 (by simpa [u64Max] using htot)
    simpa [totalLengthM] using this
  refine ⟨ht, ?_, ?_⟩
  · intro i hi
    unfold pieceLengthM
    rw [if_neg (by omega)]
    by_cases hlt : i < m.pieces.length - 1
    · rw [if_pos hlt]; rfl
    · rw [if_neg hlt, ht]
      simp only []
      rw [if_neg (by omega)]; rfl
  · unfold rangesM
    rw [if_neg (by omega), if_pos (by simpa [u64Max] using htot)]; rfl

/-- The arithmetic of the accessors agrees with the geometry model of C03 on accepted metainfo. -/
theorem T3_piece_length_is_geometry (doc : Bytes) (m : MetaM) (h : fromBencodeImpl doc = .ok m) (i : Nat)
    (hi : i < m.pieces.length) :
    pieceLengthM m i = some (pieceLength m.pieceLength (sumLens m.files) m.pieces.length i) := by
  obtain ⟨ht, _, _⟩ := T3_accessors_safe doc m h
  obtain ⟨vs, k, d, _, _, _, hs⟩ := T2_fields_are_what_the_document_says doc m h
  have hpl : 0 < m.pieceLength := hs.plPos
  unfold pieceLengthM pieceLength
  rw [if_neg (by omega)]
  by_cases hlt : i < m.pieces.length - 1
  · rw [if_pos hlt, if_pos hlt]
  · rw [if_neg hlt, if_neg hlt, ht]
    simp only []
    rw [if_neg (by omega)]


/-! ### T4: the torrent the client creates parses back to the file -/

def piecesOf (sha1 : Bytes → Bytes) (pl : Nat) (data : Bytes) : List Bytes := (chunks pl data.length data).map sha1

def infoDict (sha1 : Bytes → Bytes) (pl : Nat) (name data : Bytes) : Dict :=
  [(kLength, .int data.length), (kName, .str name), (kPieceLength, .int pl), (kPieces, .str (piecesOf sha1 pl data).flatten)]

def topDict (sha1 : Bytes → Bytes) (pl : Nat) (name tracker data : Bytes) : Dict :=
  [(kAnnounce, .str tracker), (kInfo, .dict (infoDict sha1 pl name data))]

theorem createTorrent_eq (sha1 : Bytes → Bytes) (pl : Nat) (name tracker data : Bytes) :
    createTorrent sha1 pl name tracker data = encode (.dict (topDict sha1 pl name tracker data)) := rfl

theorem chunks_blocks (n : Nat) (hn : 0 < n) (bs : List Bytes) (h : ∀ b ∈ bs, b.length = n) (fuel : Nat)
    (hf : bs.length ≤ fuel) : chunks n fuel bs.flatten = bs := by
  induction bs generalizing fuel with
  | nil => cases fuel <;> simp [chunks]
  | cons b bs ih =>
    cases fuel with
    | zero => simp at hf
    | succ f =>
      have hb : b.length = n := h b List.mem_cons_self
      have hne : b ≠ [] := by intro e; rw [e] at hb; simp at hb; omega
      simp only [chunks, List.flatten_cons]
      have : (b ++ bs.flatten).isEmpty = false := by
        cases b with
        | nil => exact absurd rfl hne
        | cons x xs => rfl
      rw [this]
      simp only [Bool.false_eq_true, if_false]
      rw [List.take_left' hb, List.drop_left' hb, ih (fun x hx => h x (List.mem_cons_of_mem _ hx)) f (by simp at hf; omega)]

theorem flatten_blocks_length (n : Nat) (bs : List Bytes) (h : ∀ b ∈ bs, b.length = n) : bs.flatten.length = n * bs.length := by
  induction bs with
  | nil => simp
  | cons b bs ih =>
    simp only [List.flatten_cons, List.length_append, List.length_cons]
    rw [h b List.mem_cons_self, ih (fun x hx => h x (List.mem_cons_of_mem _ hx)), Nat.mul_add]; omega

theorem chunks_count (n : Nat) (hn : 0 < n) (fuel : Nat) (b : Bytes) : (chunks n fuel b).length ≤ b.length := by
  induction fuel generalizing b with
  | zero => simp [chunks]
  | succ f ih =>
    simp only [chunks]
    by_cases he : b.isEmpty = true
    · rw [if_pos he]; simp
    · rw [if_neg he]
      have hne : b ≠ [] := by simpa [List.isEmpty_iff] using he
      have hpos : 0 < b.length := List.length_pos_iff.mpr hne
      have := ih (b.drop n)
      simp only [List.length_cons, List.length_drop] at this ⊢
      omega

/-- **T4 (C17).** For every file name, tracker URL and file content (`sha1` arbitrary with 20-byte output): the
    document `create_file` writes parses back to that file's name, its length, the piece length, the tracker URL and
    the SHA-1 of each of its `pl`-byte chunks, in order; the hashed info bytes are the encoding of its info
    dictionary. -/
theorem T4_created_torrent_parses_back (sha1 : Bytes → Bytes) (hsha : ∀ x, (sha1 x).length = 20)
    (pl : Nat) (name tracker data : Bytes) (hpl : 0 < pl) (hpl' : pl < 2 ^ 63)
    (hn : utf8Valid name = true) (ht : utf8Valid tracker = true)
    (hnl : name.length < 2 ^ 64) (htl : tracker.length < 2 ^ 64) (hd : data.length < 2 ^ 59) :
    fromBencodeImpl (createTorrent sha1 pl name tracker data) =
      .ok ⟨tracker, name, pl, piecesOf sha1 pl data, [⟨data.length, name⟩], encode (.dict (infoDict sha1 pl name data))⟩ := by
  have hblocks : ∀ b ∈ piecesOf sha1 pl data, b.length = 20 := by
    intro b hb
    obtain ⟨c, _, rfl⟩ := List.mem_map.mp hb
    exact hsha c
  have hcount : (piecesOf sha1 pl data).length ≤ data.length := by
    simp only [piecesOf, List.length_map]; exact chunks_count pl hpl _ data
  have hplen : (piecesOf sha1 pl data).flatten.length = 20 * (piecesOf sha1 pl data).length :=
    flatten_blocks_length 20 _ hblocks
  have hwfInfo : wf (.dict (infoDict sha1 pl name data)) = true := by
    simp only [wf, infoDict, ascending, wfEntries, List.all_cons, List.all_nil, Bool.and_true, Bool.and_eq_true,
      decide_eq_true_eq]
    refine ⟨⟨⟨by decide, by decide, by decide⟩, ⟨by decide, by decide⟩, by decide⟩, ?_⟩
    refine ⟨⟨by decide, by omega⟩, ⟨by decide, hnl⟩, ⟨by decide, by omega⟩, ⟨by decide, by omega⟩⟩
  have hwfTop : wf (.dict (topDict sha1 pl name tracker data)) = true := by
    have : wfEntries (infoDict sha1 pl name data) = true ∧ ascending (infoDict sha1 pl name data) = true := by
      simp only [wf, Bool.and_eq_true] at hwfInfo; exact ⟨hwfInfo.2, hwfInfo.1⟩
    have hlt : bytesLt kAnnounce kInfo = true := by decide
    have h1 : kAnnounce.length < 2 ^ 64 := by decide
    have h2 : kInfo.length < 2 ^ 64 := by decide
    simp [wf, topDict, ascending, wfEntries, hlt, h1, h2, htl, this.1, this.2]
  have hdec := T1_decode_encode _ hwfTop
  -- the fields
  have hinfo : infoOf (topDict sha1 pl name tracker data) = some (infoDict sha1 pl name data) := by
    simp [infoOf, topDict, dictGet, kAnnounce, kInfo]
  have hlen : findLength (topDict sha1 pl name tracker data) = some data.length := by
    simp [findLength, hinfo, infoDict, dictGet, kLength]
  have hfiles : findFiles (topDict sha1 pl name tracker data) = none := by
    simp [findFiles, hinfo, infoDict, dictGet, kLength, kName, kPieceLength, kPieces, kFiles]
  have hname : findName (topDict sha1 pl name tracker data) = .ok name := by
    simp [findName, hinfo, infoDict, dictGet, kLength, kName, hn]
  have hann : findAnnounce (topDict sha1 pl name tracker data) = .ok tracker := by
    simp [findAnnounce, topDict, dictGet, kAnnounce, ht]
  have hplf : findPieceLength (topDict sha1 pl name tracker data) = .ok pl := by
    simp [findPieceLength, hinfo, infoDict, dictGet, kLength, kName, kPieceLength]; omega
  have hpieces : findPieces (topDict sha1 pl name tracker data) = .ok (piecesOf sha1 pl data) := by
    have hmod : (piecesOf sha1 pl data).flatten.length % 20 = 0 := by rw [hplen]; omega
    have hch : chunks 20 (piecesOf sha1 pl data).flatten.length (piecesOf sha1 pl data).flatten = piecesOf sha1 pl data :=
      chunks_blocks 20 (by omega) _ hblocks _ (by rw [hplen]; omega)
    have hget : dictGet (infoDict sha1 pl name data) kPieces = some (.str (piecesOf sha1 pl data).flatten) := by
      simp [infoDict, dictGet, kLength, kName, kPieceLength, kPieces]
    simp only [findPieces, hinfo, hget]
    rw [if_neg (by omega), hch]
  have hfields : parseFields (topDict sha1 pl name tracker data) =
      .ok ⟨tracker, name, pl, piecesOf sha1 pl data, [⟨data.length, name⟩]⟩ := by
    have hsum : ¬ (sumLens (filesOf (some data.length) none name) ≥ 2 ^ 64) := by
      simp [sumLens, filesOf]; omega
    simp only [parseFields, hlen, hfiles, hname, hann, hplf, hpieces, Option.isSome_some, Option.isSome_none,
      Option.isNone_none, Option.isNone_some, Bool.and_false, Bool.false_and, Bool.false_eq_true, if_false, hsum]
    rfl
  -- the hashed bytes
  have hraw : rawInfo (createTorrent sha1 pl name tracker data) 0 = some (encode (.dict (infoDict sha1 pl name data))) := by
    have hent := txt_encodeEntries (topDict sha1 pl name tracker data) (by simp only [wf, Bool.and_eq_true] at hwfTop; exact hwfTop.2)
    have hk : ∀ e ∈ (topDict sha1 pl name tracker data).map toEntry, StrTxt e.keyTxt e.key := by
      intro e he
      obtain ⟨kv, hkv, rfl⟩ := List.mem_map.mp he
      exact strTxt_natDec kv.1 (hent kv hkv).1
    have hv : ∀ e ∈ (topDict sha1 pl name tracker data).map toEntry, Txt e.valTxt e.val := by
      intro e he
      obtain ⟨kv, hkv, rfl⟩ := List.mem_map.mp he
      exact (hent kv hkv).2
    have h := rawInfo_spec [] (fun _ h => by simp at h) _ (fun e he => ⟨hk e he, hv e he⟩) []
    simp only [itemsTxt, List.map_nil, List.flatten_nil, List.nil_append, List.length_nil, entriesTxt_toEntry] at h
    rw [createTorrent_eq]
    simp only [encode]
    simp only [List.cons_append] at h ⊢
    rw [h]
    simp [topDict, toEntry, lastInfo, kAnnounce, kInfo]
    first | done | rfl | simp [encode]
  rw [fromBencodeImpl, createTorrent_eq, hdec]
  simp only [firstOk]
  rw [← createTorrent_eq, parse, hfields]
  simp only [hraw]

/-! ### Non-vacuity (tests) -/

-- d8:announce3:URL4:infod6:lengthi5e4:name1:N12:piece lengthi4e6:pieces0:ee  is accepted …
def sampleDoc : Bytes := [100, 56, 58, 97, 110, 110, 111, 117, 110, 99, 101, 51, 58, 85, 82, 76, 52, 58, 105, 110, 102, 111, 100, 54, 58, 108, 101, 110, 103, 116, 104, 105, 53, 101, 52, 58, 110, 97, 109, 101, 49, 58, 78, 49, 50, 58, 112, 105, 101, 99, 101, 32, 108, 101, 110, 103, 116, 104, 105, 52, 101, 54, 58, 112, 105, 101, 99, 101, 115, 48, 58, 101, 101]
example : (fromBencodeImpl sampleDoc).toOption.map (fun m => (m.pieceLength, m.files.map (·.length))) = some (4, [5]) := by decide
-- … and the same document with `piece length` 0 is rejected
example : (fromBencodeImpl [100, 56, 58, 97, 110, 110, 111, 117, 110, 99, 101, 51, 58, 85, 82, 76, 52, 58, 105, 110, 102, 111, 100, 54, 58, 108, 101, 110, 103, 116, 104, 105, 53, 101, 52, 58, 110, 97, 109, 101, 49, 58, 78, 49, 50, 58, 112, 105, 101, 99, 101, 32, 108, 101, 110, 103, 116, 104, 105, 48, 101, 54, 58, 112, 105, 101, 99, 101, 115, 48, 58, 101, 101]).toOption.isNone = true := by decide
example : utf8Valid [0xE6, 0x97, 0xA5] = true ∧ utf8Valid [0xC0, 0xAF] = false ∧ utf8Valid [0xED, 0xA0, 0x80] = false := by decide

end Rdest.Props.C17
