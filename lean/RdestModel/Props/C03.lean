/-
  C03 — verified pieces are reassembled into exactly the described files.

  Model: `RdestModel/Meta/Geometry.lean` (`piece_length`, `piece_pos`, `file_piece_ranges`, `extract_files`).
  Tie: the harness runs the real `Metainfo` and the real `Extractor` on generated torrents in a scratch directory;
  the driver compares the files with `extractImpl` and the geometry with `pieceLength`/`ranges`, and both with the
  specification `extractSpec`.
-/
import RdestModel.Meta.Geometry
set_option linter.unusedSimpArgs false
set_option linter.unusedVariables false
namespace Rdest.Props.C03
open Rdest Rdest.Meta

/-! ### Slices -/

/-- Bytes `[i, j)` of the content. -/
def slice (c : Bytes) (i j : Nat) : Bytes := (c.drop i).take (j - i)

theorem slice_append (c : Bytes) (i j k : Nat) (hij : i ≤ j) (hjk : j ≤ k) :
    slice c i j ++ slice c j k = slice c i k := by
  unfold slice
  have h1 : k - i = (j - i) + (k - j) := by omega
  rw [h1, List.take_add, List.drop_drop]
  have h2 : i + (j - i) = j := by omega
  rw [h2]

theorem slice_self (c : Bytes) (i : Nat) : slice c i i = [] := by simp [slice]

theorem pieceOf_eq_slice (pl : Nat) (c : Bytes) (i : Nat) : pieceOf pl c i = slice c (i * pl) ((i + 1) * pl) := by
  unfold pieceOf slice
  have : (i + 1) * pl - i * pl = pl := by rw [Nat.add_mul]; omega
  rw [this]

theorem drop_slice (c : Bytes) (i j k : Nat) : (slice c i j).drop k = slice c (i + k) j := by
  unfold slice
  rw [List.drop_take, List.drop_drop]
  congr 1; omega

theorem take_slice (c : Bytes) (i j k : Nat) (h : i + k ≤ j) : (slice c i j).take k = slice c i (i + k) := by
  unfold slice
  rw [List.take_take]
  congr 1; omega

/-! ### The whole-piece loop -/

theorem wholePieces_empty (pl : Nat) (c : Bytes) (lo skip : Nat) : wholePieces pl c lo lo skip = [] := by
  simp [wholePieces]

/-- Pieces `lo … lo+n`, the first from offset `skip`, are the content from `lo·pl + skip` to `(lo+n+1)·pl`. -/
theorem wholePieces_slice (pl : Nat) (c : Bytes) (lo skip n : Nat) (hs : skip ≤ pl) :
    wholePieces pl c lo (lo + n + 1) skip = slice c (lo * pl + skip) ((lo + n + 1) * pl) := by
  induction n with
  | zero =>
    simp only [wholePieces, Nat.add_zero, Nat.add_sub_cancel_left, List.range_one, List.map_cons, List.map_nil,
      if_true, List.flatten_cons, List.flatten_nil, List.append_nil]
    rw [pieceOf_eq_slice, drop_slice]
  | succ n ih =>
    have hlen : lo + (n + 1) + 1 - lo = (n + 1) + 1 := by omega
    have hlen' : lo + n + 1 - lo = n + 1 := by omega
    unfold wholePieces at ih ⊢
    rw [hlen, List.range_succ, List.map_append, List.flatten_append]
    rw [hlen'] at ih
    rw [ih]
    simp only [List.map_cons, List.map_nil, List.flatten_cons, List.flatten_nil, List.append_nil]
    have hne : ¬ (n + 1 = 0) := by omega
    rw [if_neg hne, pieceOf_eq_slice]
    have e1 : (lo + (n + 1)) * pl = (lo + n + 1) * pl := by rw [Nat.add_assoc]
    have e2 : (lo + (n + 1) + 1) * pl = (lo + n + 1) * pl + pl := by
      rw [← Nat.add_assoc, Nat.add_mul (lo + n + 1) 1 pl, Nat.one_mul]
    rw [e1]
    apply slice_append
    · have : lo * pl ≤ (lo + n + 1) * pl := Nat.mul_le_mul_right pl (by omega)
      have : lo * pl + pl ≤ (lo + n + 1) * pl := by
        have h3 : (lo + 1) * pl ≤ (lo + n + 1) * pl := Nat.mul_le_mul_right pl (by omega)
        rw [Nat.add_mul, Nat.one_mul] at h3; exact h3
      omega
    · rw [e2]; omega

/-! ### One file -/

/-- **Key lemma.** The bytes `extract_files` writes for a file at content offset `a` with declared length `len` are
    exactly the `len` bytes found at offset `a` of the concatenated content — for every piece length, every offset
    and every length (zero, shorter than a piece, inside one piece, over many pieces, ending on a boundary). -/
theorem extractOne_slice (pl : Nat) (hpl : 0 < pl) (c : Bytes) (a len : Nat) :
    extractOne pl c (piecePos pl a) (piecePos pl (a + len)) = (c.drop a).take len := by
  have hres : (c.drop a).take len = slice c a (a + len) := by unfold slice; congr 1; omega
  rw [hres]
  have ha := Nat.div_add_mod a pl
  have hb := Nat.div_add_mod (a + len) pl
  have hao := Nat.mod_lt a hpl
  have hbo := Nat.mod_lt (a + len) hpl
  have hle : a / pl ≤ (a + len) / pl := Nat.div_le_div_right (by omega)
  rw [Nat.mul_comm] at ha hb
  show extractAt pl c (a / pl) (a % pl) ((a + len) / pl) ((a + len) % pl) = _
  unfold extractAt
  simp only []
  by_cases hse : a / pl = (a + len) / pl
  · -- the file starts and ends in the same piece
    rw [if_pos hse, ← hse, wholePieces_empty, List.nil_append]
    rw [← hse] at hb
    by_cases hgt : (a + len) % pl > a % pl
    · rw [if_pos hgt, pieceOf_eq_slice, drop_slice, take_slice]
      · congr 1 <;> omega
      · rw [Nat.add_mul, Nat.one_mul]; omega
    · rw [if_neg hgt]
      have : len = 0 := by omega
      subst this; simp [slice_self]
  · -- the file ends in a later piece
    rw [if_neg hse]
    obtain ⟨n, hn⟩ : ∃ n, (a + len) / pl = a / pl + n + 1 := ⟨(a + len) / pl - a / pl - 1, by omega⟩
    rw [hn, wholePieces_slice pl c (a / pl) (a % pl) n (by omega)]
    rw [hn] at hb
    have hmul : (a / pl + n + 1) * pl = a / pl * pl + n * pl + pl := by
      rw [Nat.add_mul, Nat.add_mul, Nat.one_mul]
    by_cases hgt : (a + len) % pl > 0
    · rw [if_pos hgt, List.drop_zero, Nat.sub_zero, pieceOf_eq_slice, take_slice]
      · rw [slice_append]
        · congr 1 <;> omega
        · omega
        · omega
      · rw [Nat.add_mul (a / pl + n + 1) 1 pl, Nat.one_mul]; omega
    · rw [if_neg hgt, List.append_nil]
      congr 1 <;> omega

/-! ### T2: all files -/

theorem extract_from (pl : Nat) (hpl : 0 < pl) (lens : List Nat) (c : Bytes) (pos : Nat) :
    (ranges pl lens pos).map (fun r => extractOne pl c r.1 r.2) = extractSpec lens (c.drop pos) := by
  induction lens generalizing pos with
  | nil => rfl
  | cons len rest ih =>
    simp only [ranges, List.map_cons, extractSpec]
    rw [extractOne_slice pl hpl, ih (pos + len), List.drop_drop]

/-- **T2 (C03).** For every piece length, every list of file lengths and every content, extraction writes for each
    listed file exactly the bytes at its offset in the concatenated content, in its declared length. -/
theorem T2_extraction_is_the_content_slices (pl : Nat) (hpl : 0 < pl) (lens : List Nat) (c : Bytes) :
    extractImpl pl lens c = extractSpec lens c := by
  unfold extractImpl
  rw [extract_from pl hpl lens c 0, List.drop_zero]

/-- The specification itself: as many files as listed, each of its declared length when the content is long enough,
    and together they are the content. -/
theorem spec_lengths (lens : List Nat) (c : Bytes) (h : lens.sum ≤ c.length) :
    (extractSpec lens c).map List.length = lens := by
  induction lens generalizing c with
  | nil => rfl
  | cons len rest ih =>
    simp only [List.sum_cons] at h
    simp only [extractSpec, List.map_cons, List.length_take]
    rw [ih (c.drop len) (by simp; omega)]
    congr 1; omega

theorem spec_concat (lens : List Nat) (c : Bytes) (h : lens.sum = c.length) :
    (extractSpec lens c).flatten = c := by
  induction lens generalizing c with
  | nil => simp [extractSpec]; simp at h; exact (List.length_eq_zero_iff.mp h.symm)
  | cons len rest ih =>
    simp only [List.sum_cons] at h
    simp only [extractSpec, List.flatten_cons]
    rw [ih (c.drop len) (by simp; omega), List.take_append_drop]

/-- **T2, in the property's words.** Each extracted file has exactly its declared length. -/
theorem T2_declared_lengths (pl : Nat) (hpl : 0 < pl) (lens : List Nat) (c : Bytes) (h : lens.sum ≤ c.length) :
    (extractImpl pl lens c).map List.length = lens := by
  rw [T2_extraction_is_the_content_slices pl hpl, spec_lengths lens c h]

/-! ### T1: the per-piece lengths partition the content -/

theorem sum_const_range (f : Nat → Nat) (cst m : Nat) (h : ∀ i, i < m → f i = cst) :
    ((List.range m).map f).sum = m * cst := by
  induction m with
  | zero => simp
  | succ m ih =>
    rw [List.range_succ, List.map_append, List.sum_append, ih (fun i hi => h i (by omega))]
    simp only [List.map_cons, List.map_nil, List.sum_cons, List.sum_nil, Nat.add_zero]
    rw [h m (by omega), Nat.add_mul, Nat.one_mul]

/-- "The piece count matches the total length": `n` pieces of `pl` bytes are just enough. -/
def CountMatches (pl total n : Nat) : Prop := (n - 1) * pl < total ∧ total ≤ n * pl

theorem last_piece (pl total n : Nat) (hpl : 0 < pl) (hm : CountMatches pl total n) :
    pieceLength pl total n (n - 1) = total - (n - 1) * pl := by
  obtain ⟨h1, h2⟩ := hm
  have hn : 0 < n := by
    cases n with
    | zero => simp at h2; omega
    | succ k => omega
  have hnn : n = (n - 1) + 1 := by omega
  have h2' : total ≤ (n - 1) * pl + pl := by
    rw [hnn, Nat.add_mul, Nat.one_mul] at h2; simpa using h2
  unfold pieceLength
  rw [if_neg (by omega)]
  -- total = (n-1)·pl + r with 0 < r ≤ pl
  obtain ⟨r, hr⟩ : ∃ r, total = (n - 1) * pl + r := ⟨total - (n - 1) * pl, by omega⟩
  have hr0 : 0 < r := by omega
  have hrle : r ≤ pl := by omega
  have hmod : total % pl = r % pl := by
    rw [hr, Nat.add_comm, Nat.add_mul_mod_self_right]
  by_cases hfull : r = pl
  · have : total % pl = 0 := by rw [hmod, hfull, Nat.mod_self]
    rw [if_neg (by omega)]; omega
  · have hlt : r < pl := by omega
    have : total % pl = r := by rw [hmod, Nat.mod_eq_of_lt hlt]
    rw [if_pos (by omega)]; omega

/-- **T1 (C03).** For every torrent whose piece count matches its total length, the per-piece lengths sum to the
    total length: they partition the content exactly. -/
theorem T1_piece_lengths_partition (pl total n : Nat) (hpl : 0 < pl) (hm : CountMatches pl total n) :
    ((List.range n).map (pieceLength pl total n)).sum = total := by
  have hlast := last_piece pl total n hpl hm
  obtain ⟨h1, h2⟩ := hm
  have hn : 0 < n := by
    cases n with
    | zero => simp at h2; omega
    | succ k => omega
  obtain ⟨m, rfl⟩ : ∃ m, n = m + 1 := ⟨n - 1, by omega⟩
  rw [List.range_succ, List.map_append, List.sum_append,
    sum_const_range (pieceLength pl total (m + 1)) pl m (fun i hi => by unfold pieceLength; rw [if_pos (by omega)])]
  simp only [List.map_cons, List.map_nil, List.sum_cons, List.sum_nil, Nat.add_zero]
  simp only [Nat.add_sub_cancel] at hlast h1
  rw [hlast]; omega

/-- **T1, on the bytes.** Piece `i` of the store — what the verified piece file holds — has exactly
    `piece_length(i)` bytes, for every piece of a torrent whose count matches. -/
theorem T1_piece_file_length (pl n i : Nat) (c : Bytes) (hpl : 0 < pl) (hm : CountMatches pl c.length n) (hi : i < n) :
    (pieceOf pl c i).length = pieceLength pl c.length n i := by
  have hlast := last_piece pl c.length n hpl hm
  obtain ⟨h1, h2⟩ := hm
  unfold pieceOf
  simp only [List.length_take, List.length_drop]
  by_cases hlt : i < n - 1
  · unfold pieceLength; rw [if_pos hlt]
    have : (i + 1) * pl ≤ (n - 1) * pl := Nat.mul_le_mul_right pl (by omega)
    rw [Nat.add_mul, Nat.one_mul] at this
    omega
  · have hie : i = n - 1 := by omega
    subst hie
    rw [hlast]
    have hnn : n = (n - 1) + 1 := by omega
    have h2' : c.length ≤ (n - 1) * pl + pl := by
      rw [hnn, Nat.add_mul, Nat.one_mul] at h2; simpa using h2
    omega

/-- The pieces, concatenated, are the content (so the partition is of the content itself, not only of its length). -/
theorem T1_pieces_concat (pl : Nat) (c : Bytes) (n : Nat) (hpl : 0 < pl) (h : c.length ≤ n * pl) :
    ((List.range n).map (pieceOf pl c)).flatten = c := by
  have key : ∀ m, ((List.range m).map (pieceOf pl c)).flatten = slice c 0 (m * pl) := by
    intro m
    induction m with
    | zero => simp [slice]
    | succ m ih =>
      rw [List.range_succ, List.map_append, List.flatten_append, ih]
      simp only [List.map_cons, List.map_nil, List.flatten_cons, List.flatten_nil, List.append_nil]
      rw [pieceOf_eq_slice, slice_append] <;> first | omega | (rw [Nat.add_mul]; omega)
  rw [key n]
  unfold slice
  simp only [List.drop_zero, Nat.sub_zero]
  exact List.take_of_length_le h

/-! ### Non-vacuity (tests) -/

example : CountMatches 3 2 1 := by unfold CountMatches; omega
example : CountMatches 4 9 3 := by unfold CountMatches; omega
-- two 1-byte files inside one 3-byte piece (the case the unrepaired extractor got wrong), an empty file, a long one
example : extractImpl 3 [1, 1, 0, 5] [10, 11, 12, 13, 14, 15, 16] = [[10], [11], [], [12, 13, 14, 15, 16]] := by decide
example : (List.range 3).map (pieceLength 4 9 3) = [4, 4, 1] := by decide

end Rdest.Props.C03
