/-
  C06 — peer stream decoding is total, segmentation-independent and bounded.
-/
import RdestModel.Wire.Conn
import RdestModel.Swarm.Preds
set_option linter.unusedSimpArgs false
namespace Rdest.Props.C06
open Rdest Rdest.Gen Rdest.Wire

/-! ### T1: totality — no byte string makes the decoder step outside the buffer -/

/-- For every buffer, a decoded frame or a skipped unknown message consumes between 1 byte and the whole buffer:
    the `advance(len)` that follows can never run past the end (the only panic site of the receive path). -/
theorem T1_consumed_within_buffer (b : Bytes) :
    (∀ m n, parseImpl b = .frame m n → 0 < n ∧ n ≤ b.length) ∧
    (∀ n, parseImpl b = .skip n → 0 < n ∧ n ≤ b.length) := by
  have h := parseImpl_ok b
  constructor
  · intro m n e; rw [e] at h; exact h
  · intro n e; rw [e] at h; exact h

/-! ### Lemmas: `drain` is prefix-stable -/

theorem drain_append (b x : Bytes) :
    (∀ ms rest, drain b = (ms, some rest) →
        drain (b ++ x) = (ms ++ (drain (rest ++ x)).1, (drain (rest ++ x)).2)) ∧
    (∀ ms, drain b = (ms, none) → drain (b ++ x) = (ms, none)) := by
  induction hlen : b.length using Nat.strongRecOn generalizing b with
  | _ len ih =>
    have hok := parseImpl_ok b
    have hst := parseImpl_stable b x
    cases hp : parseImpl b with
    | frame m n =>
      rw [hp] at hok hst
      simp only [OutOk] at hok
      simp only [Stable] at hst
      have hd : (b ++ x).drop n = b.drop n ++ x := List.drop_append_of_le_length hok.2
      have ih' := ih (b.drop n).length (by rw [← hlen]; exact drop_lt_of_ok hok) (b.drop n) rfl
      have e1 : drain b = (m :: (drain (b.drop n)).1, (drain (b.drop n)).2) := by
        rw [drain]; split <;> simp_all
      have e2 : drain (b ++ x) = (m :: (drain (b.drop n ++ x)).1, (drain (b.drop n ++ x)).2) := by
        rw [drain]; split <;> simp_all
      constructor
      · intro ms rest h
        rw [e1] at h
        simp only [Prod.mk.injEq] at h
        obtain ⟨h1, h2⟩ := h
        have := ih'.1 (drain (b.drop n)).1 rest (by rw [← h2])
        rw [e2, this, ← h1]; simp
      · intro ms h
        rw [e1] at h
        simp only [Prod.mk.injEq] at h
        obtain ⟨h1, h2⟩ := h
        have := ih'.2 (drain (b.drop n)).1 (by rw [← h2])
        rw [e2, this, ← h1]
    | skip n =>
      rw [hp] at hok hst
      simp only [OutOk] at hok
      simp only [Stable] at hst
      have hd : (b ++ x).drop n = b.drop n ++ x := List.drop_append_of_le_length hok.2
      have ih' := ih (b.drop n).length (by rw [← hlen]; exact drop_lt_of_ok hok) (b.drop n) rfl
      have e1 : drain b = drain (b.drop n) := by
        rw [drain]; split <;> simp_all
      have e2 : drain (b ++ x) = drain (b.drop n ++ x) := by
        rw [drain]; split <;> simp_all
      rw [e1, e2]; exact ih'
    | incomplete =>
      have e1 : drain b = ([], some b) := by
        rw [drain]; split <;> simp_all
      constructor
      · intro ms rest h
        rw [e1] at h; simp only [Prod.mk.injEq, Option.some.injEq] at h
        obtain ⟨h1, h2⟩ := h
        subst h1; subst h2; simp
      · intro ms h; rw [e1] at h; simp at h
    | fatal =>
      rw [hp] at hst
      simp only [Stable] at hst
      have e1 : drain b = ([], none) := by
        rw [drain]; split <;> simp_all
      have e2 : drain (b ++ x) = ([], none) := by
        rw [drain]; split <;> simp_all
      constructor
      · intro ms rest h; rw [e1] at h; simp at h
      · intro ms h; rw [e1] at h; simp only [Prod.mk.injEq] at h; rw [e2, ← h.1]

/-- When `drain` stops to wait, nothing decodable is left in the buffer, and what is left is short. -/
theorem drain_rest (b : Bytes) (ms : List Msg) (rest : Bytes) (h : drain b = (ms, some rest)) :
    parseImpl rest = .incomplete ∧ rest.length < MSG_LEN_SIZE + MAX_FRAME_SIZE := by
  induction hlen : b.length using Nat.strongRecOn generalizing b ms with
  | _ len ih =>
    have hok := parseImpl_ok b
    cases hp : parseImpl b with
    | frame m n =>
      rw [hp] at hok; simp only [OutOk] at hok
      have e1 : drain b = (m :: (drain (b.drop n)).1, (drain (b.drop n)).2) := by
        rw [drain]; split <;> simp_all
      rw [e1] at h; simp only [Prod.mk.injEq] at h
      exact ih (b.drop n).length (by rw [← hlen]; exact drop_lt_of_ok hok) (b.drop n) _ (by rw [← h.2]) rfl
    | skip n =>
      rw [hp] at hok; simp only [OutOk] at hok
      have e1 : drain b = drain (b.drop n) := by
        rw [drain]; split <;> simp_all
      rw [e1] at h
      exact ih (b.drop n).length (by rw [← hlen]; exact drop_lt_of_ok hok) (b.drop n) _ h rfl
    | incomplete =>
      have e1 : drain b = ([], some b) := by
        rw [drain]; split <;> simp_all
      rw [e1] at h; simp only [Prod.mk.injEq, Option.some.injEq] at h
      rw [hp] at hok; simp only [OutOk] at hok
      rw [← h.2]; exact ⟨hp, hok⟩
    | fatal =>
      have e1 : drain b = ([], none) := by
        rw [drain]; split <;> simp_all
      rw [e1] at h; simp at h

/-! ### T2: segmentation independence -/

/-- Generalised form: with `buf` already buffered, any way of cutting the remaining stream into non-empty reads
    yields exactly the events of greedy decoding of `buf ++ stream`. -/
theorem run_eq_decodeAll (buf : Bytes) (chunks : List Bytes) (hne : ∀ c ∈ chunks, c ≠ []) :
    run buf chunks = decodeAll (buf ++ chunks.flatten) := by
  induction chunks generalizing buf with
  | nil => simp [run, decodeAll]
  | cons c cs ih =>
    have hc : c ≠ [] := hne c (by simp)
    have hcs : ∀ c' ∈ cs, c' ≠ [] := fun c' h => hne c' (by simp [h])
    have hce : c.isEmpty = false := by cases c <;> simp_all
    simp only [run, decodeAll, List.flatten_cons]
    have hda := drain_append buf (c ++ cs.flatten)
    cases hr : drain buf with
    | mk ms r =>
      cases r with
      | none =>
        rw [hda.2 ms hr]
      | some rest =>
        rw [hda.1 ms rest hr]
        simp only [hce, Bool.false_eq_true, if_false]
        rw [ih (rest ++ c) hcs]
        simp [decodeAll, List.append_assoc]

/-- **T2.** The decoded event sequence depends only on the bytes received, never on how they were split. -/
theorem T2_segmentation_independent (chunks : List Bytes) (hne : ∀ c ∈ chunks, c ≠ []) :
    run [] chunks = decodeAll chunks.flatten := by
  simpa using run_eq_decodeAll [] chunks hne

/-- Two different segmentations of the same stream give the same events. -/
theorem T2_any_two_segmentations (cs1 cs2 : List Bytes) (h1 : ∀ c ∈ cs1, c ≠ []) (h2 : ∀ c ∈ cs2, c ≠ [])
    (hflat : cs1.flatten = cs2.flatten) : run [] cs1 = run [] cs2 := by
  rw [T2_segmentation_independent cs1 h1, T2_segmentation_independent cs2 h2, hflat]

/-! ### T3: promptness — complete messages are delivered before the next read -/

/-- After the reads `pre`, every frame that greedy decoding finds in the bytes received so far has already been
    emitted, and the connection continues from a buffer in which nothing decodable is left. -/
theorem T3_prompt_delivery (pre post : List Bytes) (hne : ∀ c ∈ pre, c ≠ []) :
    run [] (pre ++ post) =
      (drain pre.flatten).1.map .frame ++
        (match (drain pre.flatten).2 with
         | none => [.fatal]
         | some rest => run rest post) ∧
    (∀ rest, (drain pre.flatten).2 = some rest → parseImpl rest = .incomplete) := by
  constructor
  · suffices h : ∀ buf, run buf (pre ++ post) =
        (drain (buf ++ pre.flatten)).1.map .frame ++
          (match (drain (buf ++ pre.flatten)).2 with
           | none => [.fatal]
           | some rest => run rest post) by simpa using h []
    induction pre with
    | nil =>
      intro buf
      simp only [List.nil_append, List.flatten_nil, List.append_nil]
      cases hr : drain buf with
      | mk ms r =>
        cases r with
        | none => cases post <;> simp [run, hr]
        | some rest =>
          have hinc := (drain_rest buf ms rest hr).1
          have hdr : drain rest = ([], some rest) := by rw [drain]; split <;> simp_all
          cases post <;> simp [run, hr, hdr]
    | cons c cs ih =>
      intro buf
      have hc : c ≠ [] := hne c (by simp)
      have hce : c.isEmpty = false := by cases c <;> simp_all
      have hcs : ∀ c' ∈ cs, c' ≠ [] := fun c' h => hne c' (by simp [h])
      simp only [List.cons_append, run, List.flatten_cons]
      have hda := drain_append buf (c ++ cs.flatten)
      cases hr : drain buf with
      | mk ms r =>
        cases r with
        | none => rw [hda.2 ms hr]
        | some rest =>
          rw [hda.1 ms rest hr]
          simp only [hce, Bool.false_eq_true, if_false]
          rw [ih hcs (rest ++ c)]
          simp [List.append_assoc]
  · intro rest h
    cases hr : drain pre.flatten with
    | mk ms r => rw [hr] at h; simp only at h; subst h; exact (drain_rest _ ms rest hr).1

/-! ### T4: the retained buffer is bounded by one maximum-size frame -/

theorem T4_retained_bounded (buf : Bytes) (chunks : List Bytes) :
    ∀ n ∈ retained buf chunks, n < MSG_LEN_SIZE + MAX_FRAME_SIZE := by
  induction chunks generalizing buf with
  | nil =>
    intro n hn
    simp only [retained] at hn
    cases hr : drain buf with
    | mk ms r =>
      cases r with
      | none => simp [hr] at hn
      | some rest => simp [hr] at hn; subst hn; exact (drain_rest buf ms rest hr).2
  | cons c cs ih =>
    intro n hn
    simp only [retained] at hn
    cases hr : drain buf with
    | mk ms r =>
      cases r with
      | none => simp [hr] at hn
      | some rest =>
        simp only [hr, List.mem_cons] at hn
        rcases hn with hn | hn
        · subst hn; exact (drain_rest buf ms rest hr).2
        · split at hn
          · simp at hn
          · exact ih _ n hn

theorem T4_bound_value : MSG_LEN_SIZE + MAX_FRAME_SIZE = 65540 := by decide

/-! ### T5: malformed input terminates the connection instead of stalling it -/

/-- As soon as the five header bytes are present, a length that is impossible for the message id, or larger than
    `MAX_FRAME_SIZE`, is a fatal error (not "incomplete", which would wait for bytes that never complete it). -/
theorem T5_bad_length_is_fatal (a b c d idb : UInt8) (body : Bytes)
    (hnotHs : ¬ (idb.toNat = 84 ∧ a.toNat = 19)) (hL0 : fromBe32 a b c d ≠ 0)
    (hbad : fromBe32 a b c d > MAX_FRAME_SIZE ∨
            (idb.toNat ≤ 3 ∧ fromBe32 a b c d ≠ 1) ∨
            (idb.toNat = 4 ∧ fromBe32 a b c d ≠ 5) ∨
            ((idb.toNat = 6 ∨ idb.toNat = 8) ∧ fromBe32 a b c d ≠ 13) ∨
            (idb.toNat = 7 ∧ fromBe32 a b c d < 9)) :
    parseImpl (a :: b :: c :: d :: idb :: body) = .fatal := by
  simp only [parseImpl, parseBody, KEEP_ALIVE_LEN_val, hL0, if_false, HANDSHAKE_ID_FROM_PROTOCOL_val,
    HANDSHAKE_PROTOCOL_ID_val, List.length_cons, List.length_nil, hnotHs]
  by_cases hm : fromBe32 a b c d > MAX_FRAME_SIZE
  · rw [if_pos hm]
  rw [if_neg hm]
  have hid := idb.toNat_lt
  unfold parseById parseFixed parseSized parseVar
  simp only [CHOKE_ID_val, UNCHOKE_ID_val, INTERESTED_ID_val, NOT_INTERESTED_ID_val, HAVE_ID_val,
    BITFIELD_ID_val, REQUEST_ID_val, PIECE_ID_val, CANCEL_ID_val, CHOKE_LEN_val, UNCHOKE_LEN_val,
    INTERESTED_LEN_val, NOT_INTERESTED_LEN_val, HAVE_LEN_val, REQUEST_LEN_val, CANCEL_LEN_val,
    PIECE_MIN_LEN_val]
  rcases hbad with h | h | h | h | h
  · exact absurd h hm
  · have : idb.toNat = 0 ∨ idb.toNat = 1 ∨ idb.toNat = 2 ∨ idb.toNat = 3 := by omega
    rcases this with e | e | e | e <;> simp [e, h.2]
  · simp [h.1, h.2]
  · rcases h.1 with e | e <;> simp [e, h.2]
  · simp [h.1, h.2]

/-- A handshake look-alike (byte 0 = 19, byte 4 = 'T') whose protocol string is wrong is fatal once 68 bytes
    are buffered. -/
theorem T5_bad_protocol_is_fatal (buf : Bytes) (h68 : 68 ≤ buf.length)
    (h0 : buf[0]? = some 19) (h4 : buf[4]? = some 84)
    (hp : (buf.drop 1).take 19 ≠ HANDSHAKE_PROTOCOL_ID) : parseImpl buf = .fatal := by
  match buf, h68 with
  | a :: b :: c :: d :: idb :: body, h68 =>
    simp at h0 h4
    subst h0; subst h4
    have hL : fromBe32 19 b c d ≠ 0 := by simp [fromBe32]
    simp only [List.length_cons] at h68
    simp only [parseImpl, parseBody, KEEP_ALIVE_LEN_val, hL, if_false]
    simp [parseHandshake]
    rw [if_neg (by omega)]
    simp at hp
    simp only [ite_eq_right_iff]
    intro h; exact absurd h (by simpa using hp)

/-- A stream that ends inside a frame ends the connection with an error; one that ends on a frame boundary
    ends it cleanly. Either way the event list is finite and ends with a terminal event. -/
theorem T5_stream_end_terminates (stream : Bytes) :
    ∃ (frames : List Msg) (last : Event), decodeAll stream = frames.map Event.frame ++ [last] ∧
      (last = .closed ∨ last = .reset ∨ last = .fatal) := by
  refine ⟨(drain stream).1, _, rfl, ?_⟩
  cases (drain stream).2 with
  | none => simp
  | some rest => simp only [eofEvent]; split <;> simp

/-! ### Non-vacuity (tests) -/

example : parseImpl [0, 0, 0, 9, 20, 1, 2] = .incomplete := by decide
example : parseImpl [0, 0, 0, 2, 20, 1] = .skip 6 := by decide
example : parseImpl [0, 0, 0, 2, 0] = .fatal := by decide
example : parseImpl [0, 1, 0, 1, 5] = .fatal := by decide

end Rdest.Props.C06

/-! ### T5, level 3: the connection task ends on a receive error (model of the `select!` arm in `event_loop`) -/

namespace Rdest.Props.C06
open Rdest Rdest.Swarm

/-- For every state of a live task, a receive error or the end of the stream ends the task with that input. -/
theorem T5_receive_error_ends_task (sha1 : Bytes → Bytes) (d : Bytes → Option Bytes) (s : HState) (h : s.alive = true) :
    (∃ s', hstep sha1 d s .recvErr = some (s', [], some false) ∧ s'.alive = false) ∧
    (∃ s', hstep sha1 d s .eof = some (s', [], some false) ∧ s'.alive = false) := by
  constructor <;> exact ⟨{ s with alive := false }, by simp [hstep, h, terminate], rfl⟩

end Rdest.Props.C06
