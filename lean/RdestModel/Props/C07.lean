/-
  C07 — every peer-wire message round-trips through its BEP3 byte layout.
  Property theorems only (helper lemmas are local and proved here; nothing is assumed).
-/
import RdestModel.Wire.Frame
import RdestModel.Wire.Conn
import RdestModel.Lemmas.Bitfield
set_option linter.unusedSimpArgs false
namespace Rdest.Props.C07
open Rdest Rdest.Gen Rdest.Wire

/-! ### Constants the statements depend on (generated from the Rust source on every run) -/

/-- T5: message ids are 0..8 as in BEP3, pairwise distinct, and none equals the byte `'T'` (84) that the
    decoder uses to recognise a handshake. -/
theorem T5_ids :
    [CHOKE_ID, UNCHOKE_ID, INTERESTED_ID, NOT_INTERESTED_ID, HAVE_ID, BITFIELD_ID, REQUEST_ID, PIECE_ID, CANCEL_ID]
      = [0, 1, 2, 3, 4, 5, 6, 7, 8] ∧ HANDSHAKE_ID_FROM_PROTOCOL = 84 := by decide

theorem T5_lengths :
    CHOKE_LEN = 1 ∧ UNCHOKE_LEN = 1 ∧ INTERESTED_LEN = 1 ∧ NOT_INTERESTED_LEN = 1 ∧ HAVE_LEN = 5 ∧
    REQUEST_LEN = 13 ∧ CANCEL_LEN = 13 ∧ PIECE_MIN_LEN = 9 ∧ KEEP_ALIVE_LEN = 0 ∧ KEEP_ALIVE_FULL_SIZE = 4 ∧
    MSG_LEN_SIZE = 4 ∧ MSG_ID_SIZE = 1 ∧ HANDSHAKE_FULL_SIZE = 68 ∧ HANDSHAKE_RESERVED_SIZE = 8 ∧
    HASH_SIZE = 20 ∧ PEER_ID_SIZE = 20 ∧ MAX_FRAME_SIZE = 65536 := by decide

theorem T5_protocol :
    HANDSHAKE_PROTOCOL_ID = [66, 105, 116, 84, 111, 114, 114, 101, 110, 116, 32, 112, 114, 111, 116, 111, 99, 111, 108] := by
  decide

/-! ### T1: the emitted bytes are exactly the BEP3 layout -/

theorem T1_encode_is_layout (m : Msg) : encode m = layoutSpec m := by
  cases m <;> simp [encode, layoutSpec, framed, be32, u8] <;>
    (refine ⟨?_, ?_, ?_, ?_⟩ <;> congr 2 <;> omega)

/-! ### T3: big-endian u32 -/

theorem T3_be32_roundtrip (n : Nat) (rest : Bytes) (h : n < 4294967296) : u32Head (be32 n ++ rest) = n := by
  simp [be32, u32Head, fromBe32_be32 n h]

theorem T3_be32_bytes (a b c d : UInt8) : be32 (fromBe32 a b c d) = [a, b, c, d] := be32_fromBe32 a b c d

/-! ### T2: decoding the emitted bytes yields the same message and consumes exactly its length -/

/-- Size condition under which a frame is accepted at all: the length prefix may not exceed `MAX_FRAME_SIZE`
    (handshakes are exempt; all fixed-size messages satisfy it trivially). -/
def Fits : Msg → Prop
  | .bitfield bs => 1 + bs.length ≤ MAX_FRAME_SIZE
  | .piece _ _ blk => 9 + blk.length ≤ MAX_FRAME_SIZE
  | _ => True

theorem u32Head_be32 (n : Nat) (rest : Bytes) (h : n < 4294967296) : u32Head (be32 n ++ rest) = n := by
  simp [be32, u32Head, fromBe32_be32 n h]

theorem parse_be32 (L : Nat) (hL : L < 4294967296) (tl : Bytes) :
    parseImpl (be32 L ++ tl) = parseBody (UInt8.ofNat (L / 16777216 % 256)) L (be32 L ++ tl) tl := by
  simp [be32, parseImpl, fromBe32_be32 L hL]

theorem T2_roundtrip (m : Msg) (rest : Bytes) (hwf : m.WF) (hfit : Fits m) :
    parseImpl (encode m ++ rest) = .frame m (encode m).length := by
  cases m with
  | keepAlive => simp [encode, parse_be32, parseBody]
  | choke => simp [encode, parse_be32, parseBody, parseById, parseFixed, parseSized, parseVar, parseHandshake, u8]
  | unchoke => simp [encode, parse_be32, parseBody, parseById, parseFixed, parseSized, parseVar, parseHandshake, u8]
  | interested => simp [encode, parse_be32, parseBody, parseById, parseFixed, parseSized, parseVar, parseHandshake, u8]
  | notInterested => simp [encode, parse_be32, parseBody, parseById, parseFixed, parseSized, parseVar, parseHandshake, u8]
  | haveP i =>
    simp only [Msg.WF] at hwf
    simp +arith [encode, parse_be32, parseBody, parseById, parseFixed, parseSized, parseVar, parseHandshake, u8, u32Head_be32 i _ hwf]
  | request i b l =>
    simp only [Msg.WF] at hwf
    obtain ⟨h1, h2, h3⟩ := hwf
    simp +arith [encode, parse_be32, parseBody, parseById, parseFixed, parseSized, parseVar, parseHandshake, u8, u32Head_be32 _ _ h1, u32Head_be32 _ _ h2, u32Head_be32 _ _ h3]
  | cancel i b l =>
    simp only [Msg.WF] at hwf
    obtain ⟨h1, h2, h3⟩ := hwf
    simp +arith [encode, parse_be32, parseBody, parseById, parseFixed, parseSized, parseVar, parseHandshake, u8, u32Head_be32 _ _ h1, u32Head_be32 _ _ h2, u32Head_be32 _ _ h3]
  | bitfield bs =>
    simp only [Fits, MAX_FRAME_SIZE_val] at hfit
    have hL : 1 + bs.length < 4294967296 := by omega
    rw [show encode (.bitfield bs) ++ rest = be32 (1 + bs.length) ++ (u8 5 :: (bs ++ rest)) by simp [encode]]
    rw [parse_be32 _ hL]
    simp [parseBody, parseById, parseFixed, parseSized, parseVar, parseHandshake, u8, encode]
    rw [if_neg (by omega), if_neg (by omega)]
    congr 1; omega
  | piece i b blk =>
    simp only [Msg.WF] at hwf
    obtain ⟨h1, h2⟩ := hwf
    simp only [Fits, MAX_FRAME_SIZE_val] at hfit
    have hL : 1 + 4 + 4 + blk.length < 4294967296 := by omega
    rw [show encode (.piece i b blk) ++ rest = be32 (1 + 4 + 4 + blk.length) ++ (u8 7 :: (be32 i ++ (be32 b ++ (blk ++ rest)))) by simp [encode]]
    rw [parse_be32 _ hL]
    simp [parseBody, parseById, parseFixed, parseSized, parseVar, parseHandshake, u8, encode, u32Head_be32 _ _ h1, u32Head_be32 _ _ h2]
    rw [if_neg (by omega), if_neg (by omega), if_neg (by omega)]
    congr 1; omega
  | handshake h p =>
    simp only [Msg.WF] at hwf
    obtain ⟨h1, h2⟩ := hwf
    simp +arith [encode, parseImpl, parseBody, parseHandshake, fromBe32, u8, h1, h2]


/-! ### T4: bitfields, both directions, every piece count -/

/-- `to_vec(from_vec(bits), bits.len()) = Ok(bits)` for every bit vector. -/
theorem T4_bitfield_roundtrip (bits : List Bool) : toVec (fromVec bits) bits.length = some bits := by
  obtain ⟨k, _, e⟩ := flatMap_fromVec bits
  simp [toVec, fromVec_length, e]

/-- `from_vec` emits exactly `⌈n/8⌉` bytes. -/
theorem T4_bitfield_length (bits : List Bool) : (fromVec bits).length = (bits.length + 7) / 8 := by
  rw [fromVec_length]; simp only [bytesNum, BITFIELD_BITS_IN_BYTE_val]
  by_cases h : bits.length % 8 = 0 <;> simp only [h, if_true, if_false] <;> omega

/-- Piece `i` is the `(i mod 8)`-th most significant bit of byte `i / 8`; every spare bit (and everything past
    the end) reads as 0. Stated for every index, not only `i < n`. -/
theorem T4_bit_position (bits : List Bool) (i : Nat) : specBit (fromVec bits) i = bits.getD i false :=
  specBit_fromVec bits i

/-- Decoding direction: a received bitfield of the right length is read with the same bit order. -/
theorem T4_decode_position (bytes : Bytes) (n : Nat) (v : List Bool) (h : toVec bytes n = some v) :
    v.length = n ∧ ∀ i, i < n → v.getD i false = (bytes.flatMap bitsOfByte).getD i false := by
  unfold toVec at h
  split at h
  · exact absurd h (by simp)
  · rename_i hlen
    simp only [Option.some.injEq] at h
    subst h
    have hb : ∀ b : UInt8, (bitsOfByte b).length = 8 := by
      intro b; simp [bitsOfByte, bitsOfByteFrom]
    have hfl : ∀ bytes : Bytes, (bytes.flatMap bitsOfByte).length = 8 * bytes.length := by
      intro bytes
      induction bytes with
      | nil => simp
      | cons b bs ih => rw [List.flatMap_cons, List.length_append, hb, ih, List.length_cons]; omega
    have hn : n ≤ 8 * bytes.length := by
      simp only [ne_eq, Decidable.not_not] at hlen
      rw [hlen]; simp only [bytesNum, BITFIELD_BITS_IN_BYTE_val]
      by_cases h : n % 8 = 0 <;> simp only [h, if_true, if_false] <;> omega
    have hfl := hfl bytes
    refine ⟨by rw [List.length_take, hfl]; omega, ?_⟩
    intro i hi
    simp [List.getD_eq_getElem?_getD, hi]

/-! ### Non-vacuity: the hypotheses are met by concrete non-trivial values (these are tests, not the theorems). -/

example : (Msg.piece 3 16384 [1, 2, 3]).WF ∧ Fits (Msg.piece 3 16384 [1, 2, 3]) := by
  simp [Msg.WF, Fits]
example : parseImpl (encode (.request 1 2 3) ++ [9, 9]) = .frame (.request 1 2 3) 17 := by decide
example : fromVec [true, false, true, false, false, false, false, false, true] = [0xA0, 0x80] := by
  rw [fromVec_step _ (by simp), fromVec_step _ (by simp)]; simp [fromVec_nil]; decide
example : toVec [0xA0, 0x80] 9 = some [true, false, true, false, false, false, false, false, true] := by decide

/-! ### The emitted stream: what a receiver decodes is the sequence of messages sent -/

theorem drain_nil : drain [] = ([], some []) := by
  rw [drain]; split <;> simp_all [parseImpl]

/-- **T6.** Whatever sequence of messages is emitted one after the other (`send_msg` for each), the receive loop decodes
    exactly that sequence from the concatenated bytes and keeps nothing back — with C06.T2 for every segmentation of the
    stream. (`WF`: fields fit in 32 bits; `Fits`: the frame is within the receive limit.) -/
theorem T6_emitted_stream_decodes_to_the_messages (ms : List Msg) (h : ∀ m ∈ ms, m.WF ∧ Fits m) :
    drain (ms.flatMap encode) = (ms, some []) := by
  induction ms with
  | nil => exact drain_nil
  | cons m rest ih =>
    have hm := h m (by simp)
    have hp := T2_roundtrip m (rest.flatMap encode) hm.1 hm.2
    have ih' := ih (fun x hx => h x (by simp [hx]))
    simp only [List.flatMap_cons]
    rw [drain]
    split
    · rename_i m' n heq
      rw [hp] at heq
      simp only [ParseOut.frame.injEq] at heq
      obtain ⟨rfl, rfl⟩ := heq
      simp only [List.drop_left, ih']
    · rename_i n heq; rw [hp] at heq; cases heq
    · rename_i heq; rw [hp] at heq; cases heq
    · rename_i heq; rw [hp] at heq; cases heq

theorem T6_events (ms : List Msg) (h : ∀ m ∈ ms, m.WF ∧ Fits m) :
    decodeAll (ms.flatMap encode) = ms.map Event.frame ++ [Event.closed] := by
  simp [decodeAll, T6_emitted_stream_decodes_to_the_messages ms h, eofEvent]

end Rdest.Props.C07
