/-
  C09 — uploads return exactly the requested stored bytes, or nothing.
-/
import RdestModel.Props.C08
set_option linter.unusedSimpArgs false
set_option linter.unusedVariables false
namespace Rdest.Props.C09
open Rdest Rdest.Wire Rdest.Gen Rdest.Swarm Rdest.Props.C08

/-- "at most 16 KiB long": the limit is the source's block size. -/
theorem block_size : PIECE_BLOCK_SIZE = 16384 := by decide

/-! ### The loaded piece changes only at a consult and when a Choke is sent -/

theorem sendRequest_tx (s : HState) : (sendRequest s).1.pieceTx = s.pieceTx := by
  unfold sendRequest; split
  · split <;> rfl
  · rfl

theorem newPieceRequest_tx (s : HState) (i : Bool) (rd : ReqData) : (newPieceRequest s i rd).1.pieceTx = s.pieceTx := by
  unfold newPieceRequest
  simp only [sendRequest_tx]

theorem pieceFinishReply_tx (s : HState) (rep : Rep) (s' : HState) (o : List HOut) (b : Bool)
    (h : pieceFinishReply s rep = some (s', o, b)) : s'.pieceTx = s.pieceTx := by
  unfold pieceFinishReply at h
  split at h
  · cases h; exact newPieceRequest_tx _ _ _
  all_goals first
    | (cases h; rfl)
    | cases h

def isRequest : Msg → Bool
  | .request .. => true
  | _ => false

theorem noPiece_app_of (a b : List HOut) (ha : noPiece a = true) (hb : noPiece b = true) : noPiece (a ++ b) = true := by
  rw [noPiece_append, ha, hb]; rfl

macro "tx_leaf" h:ident : tactic =>
  `(tactic| (cases $h:ident <;> first
      | exact ⟨rfl, rfl⟩
      | exact ⟨by simp [noPiece], rfl⟩
      | exact ⟨noPiece_app_of _ _ (by simp [noPiece, List.all_map]) (newPieceRequest_noPiece _ _ _), newPieceRequest_tx _ _ _⟩
      | exact ⟨newPieceRequest_noPiece _ _ _, newPieceRequest_tx _ _ _⟩
      | exact ⟨sendRequest_noPiece _, sendRequest_tx _⟩))

/-- Every frame other than a block request: no piece data is written and the loaded piece stays. -/
theorem dispatch_nonrequest (sha1 : Bytes → Bytes) (disk : Bytes → Option Bytes) (s : HState) (m : Msg) (rep : Rep)
    (hnr : isRequest m = false) (s' : HState) (o : List HOut) (c : Cont)
    (h : dispatch sha1 disk s m rep = some (s', o, c)) : noPiece o = true ∧ s'.pieceTx = s.pieceTx := by
  cases m with
  | request i b l => simp [isRequest] at hnr
  | handshake ih pid =>
    simp only [dispatch] at h
    rcases onHandshake_cases s ih pid rep s' o c h with ⟨_, rfl, rfl, _⟩ | ⟨_, _, rfl, _, bs, rfl⟩ | ⟨_, _, rfl, _, rfl⟩ <;>
      exact ⟨by simp [noPiece], rfl⟩
  | keepAlive => simp only [dispatch] at h; tx_leaf h
  | choke => simp only [dispatch] at h; tx_leaf h
  | unchoke =>
    simp only [dispatch, onUnchoke] at h
    split at h
    all_goals tx_leaf h
  | interested => simp only [dispatch] at h; tx_leaf h
  | notInterested =>
    simp only [dispatch, onNotInterested] at h
    split at h
    all_goals tx_leaf h
  | haveP i =>
    simp only [dispatch, onHave] at h
    repeat' split at h
    all_goals tx_leaf h
  | bitfield bs =>
    simp only [dispatch, onBitfield] at h
    repeat' split at h
    all_goals first
      | tx_leaf h
      | (cases h; refine ⟨?_, rfl⟩; rename_i u i; cases u <;> cases i <;> simp [noPiece])
  | piece idx b blk =>
    simp only [dispatch, onPiece] at h
    split at h
    · tx_leaf h
    · split at h
      · tx_leaf h
      · split at h
        · split at h
          · tx_leaf h
          · split at h
            · rename_i s2 o2 hpf
              cases h
              exact ⟨noPiece_app_of _ _ (by simp [noPiece]) (pieceFinishReply_noPiece _ _ _ _ _ hpf),
                pieceFinishReply_tx { s with pieceRx := none } _ _ _ _ hpf⟩
            · rename_i s2 o2 hpf
              cases h
              exact ⟨noPiece_app_of _ _ (by simp [noPiece]) (pieceFinishReply_noPiece _ _ _ _ _ hpf),
                pieceFinishReply_tx { s with pieceRx := none } _ _ _ _ hpf⟩
            · cases h
        · tx_leaf h
  | cancel i b l => simp only [dispatch] at h; tx_leaf h


theorem bcHave_tx (sha1 : Bytes → Bytes) (d : Bytes → Option Bytes) (s : HState) (i : Nat) (rep : Rep)
    (s' : HState) (o : List HOut) (e : Option Bool) (h : hstep sha1 d s (.bcHave i rep) = some (s', o, e)) :
    s'.pieceTx = s.pieceTx := by
  simp only [hstep] at h
  split at h
  · cases h; rfl
  · have fin : ∀ (r : Option (HState × List HOut)), (∀ s1 o1, r = some (s1, o1) → s1.pieceTx = s.pieceTx) →
        (match r with
          | none => (none : Option HRes)
          | some (s1, o1) =>
            if s1.choked = true then some ({ s1 with msgBuff := s1.msgBuff ++ [i] }, o1, none)
            else some (s1, o1 ++ [HOut.write (Msg.haveP i)], none)) = some (s', o, e) → s'.pieceTx = s.pieceTx := by
      intro r hr hm
      cases r with
      | none => cases hm
      | some p =>
        obtain ⟨s1, o1⟩ := p
        have htx := hr s1 o1 rfl
        simp only at hm
        split at hm
        · simp only [Option.some.injEq, Prod.mk.injEq] at hm; rw [← hm.1]; exact htx
        · simp only [Option.some.injEq, Prod.mk.injEq] at hm; rw [← hm.1]; exact htx
    cases hrx : s.pieceRx with
    | none => rw [hrx] at h; exact fin (some (s, [])) (fun s1 o1 e => by cases e; rfl) h
    | some rx =>
      rw [hrx] at h
      simp only at h
      by_cases hi : rx.index = i
      · simp only [hi, if_true] at h
        cases hpf : pieceFinishReply { s with pieceRx := none } rep with
        | none => rw [hpf] at h; cases h
        | some t =>
          obtain ⟨s2, o2, b2⟩ := t
          rw [hpf] at h
          refine fin (some (s2, _)) (fun s1 o1 e => ?_) h
          cases e
          exact pieceFinishReply_tx { s with pieceRx := none } _ _ _ _ hpf
      · simp only [hi, if_false] at h
        exact fin (some (s, [])) (fun s1 o1 e => by cases e; rfl) h

theorem pieceWrites_nil_of_any (obs : List Obs) (h : obs.any isPieceWrite = false) : pieceWrites obs = [] := by
  induction obs with
  | nil => rfl
  | cons x xs ih =>
    simp only [List.any_cons, Bool.or_eq_false_iff] at h
    have ih' := ih h.2
    unfold pieceWrites writes at ih' ⊢
    cases x with
    | write m =>
      cases m <;> first
        | (simp only [List.filterMap_cons, List.filter_cons]; simpa using ih')
        | (simp [isPieceWrite] at h)
    | cmd c => simpa [List.filterMap_cons] using ih'
    | saved a b n => simpa [List.filterMap_cons] using ih'

theorem pieceWrites_of_noPiece (sha1 : Bytes → Bytes) (o : List HOut) (h : noPiece o = true) :
    pieceWrites (o.filterMap (obsOf sha1)) = [] :=
  pieceWrites_nil_of_any _ (obs_noPiece sha1 o h)

/-! ### One step against the monitor -/

def R09 (st : M09) (s : HState) : Prop := st.alive = s.alive ∧ (s.alive = true → st.cache = s.pieceTx)

/-- `Request::validate` + `send_piece`, observed: nothing, or exactly the requested range of the loaded piece. -/
theorem serveRequest_obs (sha1 : Bytes → Bytes) (s : HState) (idx b l : Nat) :
    (serveRequest s idx b l).2 ≠ .endNormal ∧ cmds ((serveRequest s idx b l).1.filterMap (obsOf sha1)) = [] ∧
    (pieceWrites ((serveRequest s idx b l).1.filterMap (obsOf sha1)) = [] ∨
      ∃ data, s.pieceTx = some (idx, data) ∧ l ≤ PIECE_BLOCK_SIZE ∧ b + l ≤ data.length ∧
        pieceWrites ((serveRequest s idx b l).1.filterMap (obsOf sha1)) = [.piece idx b ((data.drop b).take l)]) := by
  unfold serveRequest
  cases htx : s.pieceTx with
  | none => simp [pieceWrites, writes, cmds]
  | some p =>
    obtain ⟨ti, buff⟩ := p
    simp only
    by_cases h1 : idx ≥ s.piecesNum ∨ idx ≠ ti
    · rw [if_pos h1]; simp [pieceWrites, writes, cmds]
    · rw [if_neg h1]
      by_cases h2 : l > PIECE_BLOCK_SIZE
      · rw [if_pos h2]; simp [pieceWrites, writes, cmds]
      · rw [if_neg h2]
        by_cases h3 : b + l > buff.length
        · rw [if_pos h3]; simp [pieceWrites, writes, cmds]
        · rw [if_neg h3]
          have hti : idx = ti := by
            have h1' := (not_or.mp h1).2; exact Decidable.not_not.mp h1'
          subst hti
          refine ⟨by simp, by simp [cmds, obsOf], Or.inr ⟨buff, rfl, Nat.le_of_not_gt h2, Nat.le_of_not_gt h3, ?_⟩⟩
          simp [pieceWrites, writes, obsOf]

/-- The first half of `handle_request`, case by case. -/
theorem consultRequest_cases (disk : Bytes → Option Bytes) (s : HState) (idx : Nat) (rep : Rep)
    (s1 : HState) (o1 : List HOut) (ok : Bool) (h : consultRequest disk s idx rep = some (s1, o1, ok)) :
    ((∃ buff, s.pieceTx = some (idx, buff)) ∧ s1 = s ∧ o1 = [] ∧ ok = true) ∨
    (∃ li hh data, rep = .load li hh ∧ disk hh = some data ∧ s1 = { s with pieceTx := some (li, data) } ∧
        o1 = [.cmd (.recvRequest idx), .load hh] ∧ ok = true) ∨
    (∃ li hh, rep = .load li hh ∧ disk hh = none ∧ s1 = s ∧ o1 = [.cmd (.recvRequest idx), .load hh] ∧ ok = false) ∨
    (rep = .ignore ∧ s1 = { s with pieceTx := none } ∧ o1 = [.cmd (.recvRequest idx)] ∧ ok = true) := by
  unfold consultRequest at h
  cases hc : needsConsult s idx with
  | true =>
    simp only [hc, if_true] at h
    cases rep with
    | load li hh =>
      simp only at h
      cases hd : disk hh with
      | none => rw [hd] at h; cases h; exact Or.inr (Or.inr (Or.inl ⟨li, hh, rfl, hd, rfl, rfl, rfl⟩))
      | some data => rw [hd] at h; cases h; exact Or.inr (Or.inl ⟨li, hh, data, rfl, hd, rfl, rfl, rfl⟩)
    | ignore => cases h; exact Or.inr (Or.inr (Or.inr ⟨rfl, rfl, rfl, rfl⟩))
    | _ => cases h
  | false =>
    simp only [hc, Bool.false_eq_true, if_false] at h
    cases h
    left
    unfold needsConsult at hc
    cases htx : s.pieceTx with
    | none => rw [htx] at hc; cases hc
    | some p =>
      obtain ⟨ti, buff⟩ := p
      rw [htx] at hc
      have : ti = idx := by simpa using hc
      subst this; exact ⟨⟨buff, rfl⟩, rfl, rfl, rfl⟩

theorem obs_append (sha1 : Bytes → Bytes) (o1 o2 : List HOut) :
    (o1 ++ o2).filterMap (obsOf sha1) = o1.filterMap (obsOf sha1) ++ o2.filterMap (obsOf sha1) := List.filterMap_append

/-- `handle_request`, observed. -/
theorem onRequest_obs (sha1 : Bytes → Bytes) (d : Option (Bytes × Bytes)) (s : HState) (idx b l : Nat) (rep : Rep)
    (s' : HState) (o : List HOut) (c : Cont) (h : onRequest (diskOf d) s idx b l rep = some (s', o, c)) :
    (c ≠ .endError → s'.pieceTx = (if consulted (o.filterMap (obsOf sha1)) idx then loadedBy rep d else s.pieceTx)) ∧
    c ≠ .endNormal ∧
    (pieceWrites (o.filterMap (obsOf sha1)) = [] ∨
      ∃ data, (if consulted (o.filterMap (obsOf sha1)) idx then loadedBy rep d else s.pieceTx) = some (idx, data) ∧
        l ≤ PIECE_BLOCK_SIZE ∧ b + l ≤ data.length ∧
        pieceWrites (o.filterMap (obsOf sha1)) = [.piece idx b ((data.drop b).take l)]) := by
  unfold onRequest at h
  cases hcr : consultRequest (diskOf d) s idx rep with
  | none => rw [hcr] at h; cases h
  | some t =>
    obtain ⟨s1, o1, ok⟩ := t
    rw [hcr] at h
    obtain ⟨hne, hcm, hpw⟩ := serveRequest_obs sha1 s1 idx b l
    rcases consultRequest_cases _ s idx rep s1 o1 ok hcr with
      ⟨⟨buff, htx⟩, rfl, rfl, rfl⟩ | ⟨li, hh, data, rfl, hd, rfl, rfl, rfl⟩ | ⟨li, hh, rfl, hd, rfl, rfl, rfl⟩ | ⟨rfl, rfl, rfl, rfl⟩
    · -- the requested piece is the loaded one: no consult
      simp only [Option.some.injEq, Prod.mk.injEq] at h
      obtain ⟨rfl, rfl, rfl⟩ := h
      have hc : consulted (([] ++ (serveRequest s1 idx b l).1).filterMap (obsOf sha1)) idx = false := by
        simp only [List.nil_append, consulted, hcm]; rfl
      rw [hc]
      simp only [List.nil_append, Bool.false_eq_true, if_false]
      exact ⟨fun _ => trivial, hne, hpw⟩
    · -- consult answered with a piece that could be loaded
      simp only [Option.some.injEq, Prod.mk.injEq] at h
      obtain ⟨rfl, rfl, rfl⟩ := h
      have hc : ∀ t : HState, consulted (([HOut.cmd (Cmd.recvRequest idx), HOut.load hh] ++ (serveRequest t idx b l).1).filterMap (obsOf sha1)) idx = true := by
        intro t; simp [consulted, cmds, obsOf, obs_append]
      have hl : loadedBy (Rep.load li hh) d = some (li, data) := by
        cases d with
        | none => simp [diskOf] at hd
        | some p =>
          obtain ⟨h', data'⟩ := p
          simp only [diskOf] at hd
          split at hd
          · rename_i heq; cases hd; simp [loadedBy, heq]
          · cases hd
      have hpw' : ∀ t : HState, pieceWrites (([HOut.cmd (Cmd.recvRequest idx), HOut.load hh] ++ (serveRequest t idx b l).1).filterMap (obsOf sha1))
          = pieceWrites ((serveRequest t idx b l).1.filterMap (obsOf sha1)) := by
        intro t; simp [obs_append, obsOf, pieceWrites, writes, List.filterMap_cons]
      rw [hc, hpw']; simp only [if_true, hl]
      refine ⟨fun _ => trivial, hne, ?_⟩
      rcases hpw with h0 | ⟨dd, h1, h2, h3, h4⟩
      · exact Or.inl h0
      · simp only [Option.some.injEq, Prod.mk.injEq] at h1
        obtain ⟨rfl, hdd⟩ := h1
        subst hdd
        exact Or.inr ⟨_, rfl, h2, h3, h4⟩
    · -- the piece file could not be read: the task ends, nothing is written
      simp only [Option.some.injEq, Prod.mk.injEq] at h
      obtain ⟨rfl, rfl, rfl⟩ := h
      exact ⟨fun c => absurd rfl c, by simp, Or.inl (by simp [pieceWrites, writes, obsOf])⟩
    · -- consult answered with Ignore
      simp only [Option.some.injEq, Prod.mk.injEq] at h
      obtain ⟨rfl, rfl, rfl⟩ := h
      have hc : ∀ t : HState, consulted (([HOut.cmd (Cmd.recvRequest idx)] ++ (serveRequest t idx b l).1).filterMap (obsOf sha1)) idx = true := by
        intro t; simp [consulted, cmds, obsOf, obs_append]
      have hpw' : ∀ t : HState, pieceWrites (([HOut.cmd (Cmd.recvRequest idx)] ++ (serveRequest t idx b l).1).filterMap (obsOf sha1))
          = pieceWrites ((serveRequest t idx b l).1.filterMap (obsOf sha1)) := by
        intro t; simp [obs_append, obsOf, pieceWrites, writes]
      rw [hc, hpw']; simp only [if_true, loadedBy]
      refine ⟨fun _ => trivial, hne, ?_⟩
      rcases hpw with h0 | ⟨dd, h1, _⟩
      · exact Or.inl h0
      · simp at h1

end Rdest.Props.C09

namespace Rdest.Props.C09
open Rdest Rdest.Wire Rdest.Gen Rdest.Swarm Rdest.Props.C08

theorem step09_sound (sha1 : Bytes → Bytes) (st : M09) (s : HState) (inp : TIn)
    (s' : HState) (o : List HOut) (e : Option Bool) (hR : R09 st s)
    (h : tstep sha1 s inp = some (s', o, e)) :
    ∃ st', step09 PIECE_BLOCK_SIZE st (inp, o.filterMap (obsOf sha1), e) = some st' ∧ R09 st' s' := by
  obtain ⟨hRa, hRc⟩ := hR
  cases ha : s.alive with
  | false =>
    rw [tstep_dead sha1 s ha inp] at h; cases h
    exact ⟨st, by simp [step09, hRa, ha, deadOk], ⟨hRa, fun c => by rw [ha] at c; cases c⟩⟩
  | true =>
    have hcache := hRc ha
    have hg : (!s.alive) = false := by simp [ha]
    have hsa : (!st.alive) = false := by rw [hRa]; exact hg
    by_cases hfr : ∃ m r d, inp = .frame m r d
    · obtain ⟨m, r, d, rfl⟩ := hfr
      simp only [tstep, hstep, hg, Bool.false_eq_true, if_false] at h
      let s0 : HState := { s with keepAlive := kaAfter m s.keepAlive }
      cases hf : handleFrame sha1 (diskOf d) s m r with
      | none => rw [hf] at h; cases h
      | some res =>
        obtain ⟨s1, o1, c⟩ := res
        rw [hf] at h
        have hrec : o = o1 ∧ e = endOf c ∧ s' = stOf c s1 := by
          cases c <;> simp only [terminate, Option.some.injEq, Prod.mk.injEq] at h <;>
            exact ⟨h.2.1.symm, h.2.2.symm, h.1.symm⟩
        obtain ⟨rfl, he, hs'⟩ := hrec
        obtain ⟨_, ha1, _⟩ := handleFrame_core sha1 _ s m r s1 o c hf
        have hal : s'.alive = e.isNone := by
          rw [hs', he]; cases c <;> simp [stOf, endOf, ha1, ha]
        have htx' : s'.pieceTx = s1.pieceTx := by rw [hs']; cases c <;> rfl
        unfold handleFrame at hf
        simp only at hf
        by_cases hgate : (!s.hsDone && !isHandshake m) = true
        · -- refused before the handshake: nothing is emitted, the task ends
          rw [if_pos hgate] at hf
          simp only [Option.some.injEq, Prod.mk.injEq] at hf
          obtain ⟨rfl, rfl, rfl⟩ := hf
          subst he
          refine ⟨{ st with alive := false }, ?_, ⟨by rw [hal]; rfl, fun c => by rw [hal] at c; cases c⟩⟩
          cases hq : reqOf m with
          | none => simp [step09, step09c, hsa, hq, pieceWrites, writes, endOf]
          | some t =>
            obtain ⟨i, b, l⟩ := t
            simp [step09, step09c, hsa, hq, pieceWrites, writes, endOf, consulted, cmds, uploadOk]
        · rw [if_neg hgate] at hf
          cases hq : reqOf m with
          | none =>
            have hnr : isRequest m = false := by cases m <;> simp_all [reqOf, isRequest]
            obtain ⟨hnp, htx⟩ := dispatch_nonrequest sha1 _ s0 m r hnr s1 o c hf
            have hpw := pieceWrites_of_noPiece sha1 o hnp
            refine ⟨{ st with alive := e.isNone }, ?_, ⟨hal.symm, fun _ => ?_⟩⟩
            · simp [step09, step09c, hsa, hq, hpw]
            · rw [htx', htx]; exact hcache
          | some t =>
            obtain ⟨idx, b, l⟩ := t
            have hm : m = .request idx b l := by cases m <;> simp_all [reqOf]
            subst hm
            simp only [dispatch] at hf
            obtain ⟨h1, h2, h3⟩ := onRequest_obs sha1 d s0 idx b l r s1 o c hf
            have hs0 : s0.pieceTx = st.cache := hcache.symm
            rw [hs0] at h1 h3
            refine ⟨{ cache := (if consulted (o.filterMap (obsOf sha1)) idx then loadedBy r d else st.cache), alive := e.isNone },
              ?_, ⟨hal.symm, fun hal' => ?_⟩⟩
            · have hok : uploadOk PIECE_BLOCK_SIZE (if consulted (o.filterMap (obsOf sha1)) idx then loadedBy r d else st.cache)
                  idx b l (pieceWrites (o.filterMap (obsOf sha1))) = true := by
                rcases h3 with h0 | ⟨data, hd1, hd2, hd3, hd4⟩
                · rw [h0]; rfl
                · rw [hd4, hd1]
                  have hd2' : l ≤ 16384 := by simpa using hd2
                  simp [uploadOk, hd2', hd3]
              simp only [step09, step09c, hsa, Bool.false_eq_true, if_false, reqOf, hok, if_true]
            · -- the task is still alive: it did not end with an error
              have hc : c ≠ .endError := by
                intro hce; rw [hal, he, hce] at hal'; simp [endOf] at hal'
              simp only []
              rw [htx']; exact (h1 hc).symm
    · have hnf : ∀ m r d, inp ≠ .frame m r d := fun m r d c => hfr ⟨m, r, d, c⟩
      by_cases hbs : ∃ en, inp = .bcState en
      · obtain ⟨en, rfl⟩ := hbs
        simp only [tstep, hstep, hg, Bool.false_eq_true, if_false] at h
        cases en with
        | none =>
          cases h
          exact ⟨{ cache := st.cache, alive := true }, by simp [step09, step09c, hsa, pieceWrites, writes, wroteChoke],
            ⟨ha.symm, fun _ => hcache⟩⟩
        | some bb =>
          cases bb
          · cases h
            exact ⟨{ cache := st.cache, alive := true },
              by simp [step09, step09c, hsa, pieceWrites, writes, wroteChoke, obsOf], ⟨ha.symm, fun _ => hcache⟩⟩
          · cases h
            exact ⟨{ cache := none, alive := true },
              by simp [step09, step09c, hsa, pieceWrites, writes, wroteChoke, obsOf], ⟨ha.symm, fun _ => rfl⟩⟩
      · have hnb : ∀ en, inp ≠ .bcState en := fun en c => hbs ⟨en, c⟩
        -- start, recvErr, eof, bcHave, ticks: no piece data, the loaded piece stays
        have hkeep : noPiece o = true ∧ s'.alive = e.isNone ∧ (s'.alive = true → s'.pieceTx = s.pieceTx) := by
          cases inp with
          | frame m r d => exact absurd rfl (hnf m r d)
          | bcState en => exact absurd rfl (hnb en)
          | start r =>
            simp only [tstep, hstart, hg, Bool.false_eq_true, if_false] at h
            cases hp : s.peerId with
            | none => rw [hp] at h; cases h; exact ⟨rfl, ha, fun _ => rfl⟩
            | some pid =>
              rw [hp] at h; simp only at h
              cases hi : initHandshake s pid r with
              | none => rw [hi] at h; cases h
              | some oo =>
                rw [hi] at h; cases h
                unfold initHandshake at hi
                cases r with
                | bitfield bs => simp only [Option.some.injEq] at hi; subst hi; exact ⟨by simp [noPiece], ha, fun _ => rfl⟩
                | _ => cases hi
          | recvErr =>
            simp only [tstep, hstep, hg, Bool.false_eq_true, if_false, terminate] at h; cases h
            exact ⟨rfl, rfl, fun c => by cases c⟩
          | eof =>
            simp only [tstep, hstep, hg, Bool.false_eq_true, if_false, terminate] at h; cases h
            exact ⟨rfl, rfl, fun c => by cases c⟩
          | bcHave i rep =>
            simp only [tstep] at h
            obtain ⟨he, _, h2, _⟩ := hstep_bcHave_core sha1 _ s ha i rep s' o e h
            subst he
            exact ⟨bcHave_noPiece sha1 _ s i rep s' o none h, by rw [h2]; exact ha, fun _ => bcHave_tx sha1 _ s i rep s' o none h⟩
          | ticks k =>
            simp only [tstep, ticks_facts s ha, Option.some.injEq, Prod.mk.injEq] at h
            obtain ⟨rfl, rfl, rfl⟩ := h
            refine ⟨by simp [noPiece, List.all_replicate], ?_, fun _ => rfl⟩
            cases (kaRun KEEP_ALIVE_LIMIT s.keepAlive k).2.2 <;> rfl
        obtain ⟨hnp, hal, htx⟩ := hkeep
        have hpw := pieceWrites_of_noPiece sha1 o hnp
        refine ⟨{ st with alive := e.isNone }, ?_, ⟨hal.symm, fun c => by rw [htx c]; exact hcache⟩⟩
        cases inp <;> first
          | exact absurd rfl (hnf _ _ _)
          | exact absurd rfl (hnb _)
          | simp [step09, step09c, hsa, hpw]

/-- **Every script**: the task's observable behaviour satisfies the upload discipline `P09`, from any live state
    that has no piece loaded. -/
theorem C09_trace (sha1 : Bytes → Bytes) (s : HState) (halive : s.alive = true) (hfresh : s.pieceTx = none)
    (script : List TIn) : P09 PIECE_BLOCK_SIZE (runTrace sha1 s script) = true :=
  checkTrace_run sha1 (step09 PIECE_BLOCK_SIZE) R09
    (fun st t inp t' o e hR h => step09_sound sha1 st t inp t' o e hR h) script
    { cache := none, alive := true } s ⟨halive.symm, fun _ => hfresh.symm⟩

/-! ### The manager side: `load` is answered only for owned pieces of an unchoked peer
    (`Peer::handle_request`, modelled here as the decision function itself) -/


theorem load_only_if_unchoked_and_owned (amChoked : Bool) (n idx : Nat) (isHave : Bool)
    (h : managerAnswersLoad amChoked n idx isHave = true) : amChoked = false ∧ idx < n ∧ isHave = true := by
  simp [managerAnswersLoad] at h; exact ⟨h.1.1, h.1.2, h.2⟩

/-! ### Non-vacuity (tests) -/

example :
    let s : HState := { infoHash := [7], ownId := [1], piecesNum := 4, hsDone := true }
    (runTrace (fun b => b) s [.frame (.request 2 1 2) (.load 2 [9]) (some ([9], [10, 11, 12, 13]))]).map (·.2.1) =
      [[.cmd (.recvRequest 2), .write (.piece 2 1 [11, 12])]] := by decide

example :
    let s : HState := { infoHash := [7], ownId := [1], piecesNum := 4, hsDone := true }
    (runTrace (fun b => b) s [.frame (.request 2 4294967290 10) (.load 2 [9]) (some ([9], [10, 11, 12, 13]))]).map (·.2) =
      [([.cmd (.recvRequest 2)], some false)] := by decide

end Rdest.Props.C09
