/-
  C19 — tracker replies are read faithfully and tracker faults are survived.

  Part 1 (pure): `RdestModel/Tracker/Resp.lean`, tied to `TrackerResp::from_bencode(..).peers()` on generated replies.
  Part 2 (fault sequences): `RdestModel/Tracker/Retry.lean`, a hand-abstracted model of tracker task ‖ bounded
  channel ‖ manager; tied to the real `Session::run` by an end-to-end run against a scripted loopback tracker
  (observed: the manager answers a new connection while announces fail; the listed peers are contacted after the
  good reply).  The theorems of part 2 are about that model — *partial* with respect to the real runtime.
-/
import RdestModel.Tracker.Resp
import RdestModel.Tracker.Retry
import RdestModel.Gen.Constants
set_option linter.unusedSimpArgs false
set_option linter.unusedVariables false
namespace Rdest.Props.C19
open Rdest Rdest.Bencode Rdest.Meta Rdest.Tracker

/-! ## Part 1: reading a reply -/

/-- **T2 (C19).** A reply dictionary without failure reason, with a non-negative integer `interval` and a list
    `peers`, yields in the listed order exactly the entries that are well-formed (dictionary with UTF-8 `ip`,
    20-byte `peer id`, non-negative integer `port`): only malformed entries are skipped. -/
theorem T2_peers_in_listed_order (d : Dict) (i : Int) (l : List BValue)
    (hf : ∀ r, dictGet d kFailure ≠ some (.str r)) (hi : dictGet d kInterval = some (.int i)) (hpos : 0 ≤ i)
    (hp : dictGet d kPeers = some (.list l)) :
    parseResp d = .ok ⟨i.toNat, l.filterMap peerOf⟩ := by
  unfold parseResp
  split
  · rename_i r hr; exact absurd hr (hf r)
  · rw [hi]; simp only []
    rw [if_neg (by omega), hp]

/-- What a well-formed entry is, and what is reported for it: `ip:port` (decimal) with the 20-byte id. -/
theorem T2_entry (d : Dict) (ip id : Bytes) (port : Int) (h1 : dictGet d kIp = some (.str ip))
    (h2 : dictGet d kPeerId = some (.str id)) (h3 : dictGet d kPort = some (.int port))
    (hu : utf8Valid ip = true) (hl : id.length = 20) (hp : 0 ≤ port) :
    peerOf (.dict d) = some ⟨ip, id, port.toNat⟩ ∧
    peerAddrs ⟨0, [⟨ip, id, port.toNat⟩]⟩ = [(ip ++ 58 :: natDec port.toNat, id)] := by
  refine ⟨?_, rfl⟩
  simp only [peerOf, h1, h2, h3]
  rw [if_pos ⟨hu, hl, hp⟩]

/-- Entries that are kept are exactly the well-formed ones (nothing else is invented). -/
theorem T2_kept_entries_are_well_formed (v : BValue) (p : PeerAddr) (h : peerOf v = some p) :
    ∃ d, v = .dict d ∧ dictGet d kIp = some (.str p.ip) ∧ dictGet d kPeerId = some (.str p.peerId) ∧
      dictGet d kPort = some (.int p.port) ∧ utf8Valid p.ip = true ∧ p.peerId.length = 20 := by
  cases v with
  | dict d =>
    simp only [peerOf] at h
    split at h
    · rename_i ip id port h1 h2 h3
      split at h
      · rename_i hc
        cases h
        refine ⟨d, rfl, h1, h2, ?_, hc.1, hc.2.1⟩
        rw [h3]
        show some (BValue.int port) = some (BValue.int ((port.toNat : Nat) : Int))
        rw [Int.toNat_of_nonneg hc.2.2]
      · cases h
    · cases h
  | int _ | str _ | list _ => simp [peerOf] at h

/-- **T3 (C19).** A reply dictionary carrying a (byte-string) failure reason is reported as a failure — whatever
    else it contains, and whether or not the reason is valid UTF-8. -/
theorem T3_failure_reason_is_a_failure (d : Dict) (r : Bytes) (h : dictGet d kFailure = some (.str r)) :
    parseResp d = .error (.respFail (if utf8Valid r then some r else none)) := by
  unfold parseResp; rw [h]

/-- For a reply consisting of that one dictionary, this is the result of `from_bencode`. -/
theorem T3_single_dictionary_reply (body : Bytes) (d : Dict) (rest : List BValue) (r : Bytes)
    (hdec : decodeImpl body = some [.dict d]) (h : dictGet d kFailure = some (.str r)) :
    ∃ reason, respFromBencode body = .error (.respFail reason) := by
  unfold respFromBencode
  rw [hdec]
  simp only [firstResp, T3_failure_reason_is_a_failure d r h]
  exact ⟨_, rfl⟩

/-- **T2 at the HTTP exchange.** A successful status with a body that is a well-formed reply — whatever bytes its
    peer ids consist of — hands the manager exactly the reply of T2; any other status is a failed announce. -/
theorem T2_exchange_hands_over_the_reply (status : Nat) (body : Bytes) (m : RespM)
    (hs : 200 ≤ status ∧ status < 300) (h : respFromBencode body = .ok m) : exchange status body = some m := by
  unfold exchange statusSuccess
  simp [hs.1, hs.2, h]

theorem exchange_failed_status (status : Nat) (body : Bytes) (hs : status < 200 ∨ 300 ≤ status) :
    exchange status body = none := by
  unfold exchange statusSuccess
  have : (decide (200 ≤ status) && decide (status < 300)) = false := by
    rcases hs with h | h
    · simp; omega
    · simp; omega
  simp [this]

/-- T3 at the exchange: a reply carrying a failure reason is a failed announce whatever the status. -/
theorem T3_exchange_failure_reason (status : Nat) (body : Bytes) (d : Dict) (r : Bytes)
    (hdec : decodeImpl body = some [.dict d]) (h : dictGet d kFailure = some (.str r)) : exchange status body = none := by
  obtain ⟨reason, hr⟩ := T3_single_dictionary_reply body d [] r hdec h
  unfold exchange
  split
  · rw [hr]
  · rfl

/-- Non-vacuity: the reply `d8:intervali5e5:peersld2:ip1:a7:peer id20:<20 × 0xff>4:porti7eeee` (a peer id that is not
    UTF-8) is handed over with that id. -/
example : (exchange 200 ([100,56,58,105,110,116,101,114,118,97,108,105,53,101,53,58,112,101,101,114,115,108,100,50,58,105,112,49,58,
      97,55,58,112,101,101,114,32,105,100,50,48,58] ++ List.replicate 20 255 ++ [52,58,112,111,114,116,105,55,101,101,101,101])).map
      (fun m => m.peers.map (·.peerId)) = some [List.replicate 20 255] := by decide +kernel

/-! ## Part 2: any run of failed announces followed by a good one -/

namespace Retry
open Rdest.Tracker.Retry

/-- Reachable states of the protocol with `k` failing announces before the good one. -/
inductive Reach (joinOnFail : Bool) (cap k : Nat) : St → Prop
  | init : Reach joinOnFail cap k (init k)
  | step (s s' : St) (l : Label) : Reach joinOnFail cap k s → step joinOnFail cap s l = some s' → Reach joinOnFail cap k s'

/-- Invariant of the repaired protocol. -/
structure Inv (s : St) : Prop where
  joinDone : s.joining = true → s.tracker = .done
  doneResp : s.tracker = .done → s.contacted = true ∨ Cmd.resp ∈ s.chan
  respDone : Cmd.resp ∈ s.chan → s.tracker = .done

theorem inv_init (k : Nat) : Inv (init k) := by
  refine ⟨?_, ?_, ?_⟩ <;> simp [init]

theorem inv_step (cap : Nat) (s s' : St) (l : Label) (hi : Inv s) (h : step false cap s l = some s') : Inv s' := by
  obtain ⟨h1, h2, h3⟩ := hi
  cases l with
  | attempt =>
    simp only [step] at h
    split at h
    · cases h; refine ⟨?_, ?_, ?_⟩
      · intro hj; have := h1 hj; simp_all
      · intro hd; simp at hd
      · intro hr; have := h3 hr; simp_all
    · cases h; refine ⟨?_, ?_, ?_⟩
      · intro hj; have := h1 hj; simp_all
      · intro hd; simp at hd
      · intro hr; have := h3 hr; simp_all
    · cases h
  | send =>
    simp only [step] at h
    split at h
    · rename_i c n ht
      split at h
      · cases h
        cases c with
        | fail =>
          refine ⟨?_, ?_, ?_⟩
          · intro hj; have := h1 hj; simp_all
          · intro hd; simp at hd
          · intro hr
            simp only [List.mem_append, List.mem_singleton] at hr
            rcases hr with hr | hr
            · have := h3 hr; simp_all
            · cases hr
        | resp =>
          refine ⟨?_, ?_, ?_⟩
          · intro _; simp
          · intro _; right; simp
          · intro _; simp
      · cases h
    · cases h
  | wake =>
    simp only [step] at h
    split at h
    · cases h; refine ⟨?_, ?_, ?_⟩
      · intro hj; have := h1 hj; simp_all
      · intro hd; simp at hd
      · intro hr; have := h3 hr; simp_all
    · cases h
  | recv =>
    simp only [step] at h
    split at h
    · cases h
    · rename_i hnj
      split at h
      · cases h
      · rename_i rest hc
        cases h
        have hd : s.tracker = .done := h3 (by rw [hc]; simp)
        exact ⟨fun _ => hd, fun _ => Or.inl rfl, fun _ => hd⟩
      · rename_i rest hc
        cases h
        refine ⟨?_, ?_, ?_⟩
        · intro hj; simp at hj
        · intro hd
          rcases h2 hd with hc' | hm
          · exact Or.inl hc'
          · right; rw [hc] at hm; simpa using hm
        · intro hr; exact h3 (by rw [hc]; exact List.mem_cons_of_mem _ hr)
  | joined =>
    simp only [step] at h
    split at h
    · cases h; exact ⟨fun hj => by simp at hj, h2, h3⟩
    · cases h

theorem inv_reach (cap k : Nat) (s : St) (h : Reach false cap k s) : Inv s := by
  induction h with
  | init => exact inv_init k
  | step s s' l _ hs ih => exact inv_step cap s s' l ih hs

/-- **T4a (C19, model).** Whatever the number `k` of failed announces and however the steps interleave: whenever the
    manager awaits the tracker task, the task has already returned — the manager is never stuck behind a retrying
    tracker, it keeps taking the connection tasks' commands. -/
theorem T4_manager_never_blocked (cap k : Nat) (s : St) (h : Reach false cap k s) : managerFree s = true := by
  have hi := inv_reach cap k s h
  unfold managerFree
  cases hj : s.joining with
  | false => simp
  | true => simp [hi.joinDone hj]

/-- **T4b (C19, model).** No deadlock: as long as the peers have not been contacted, some step is enabled. -/
theorem T4_no_deadlock (cap k : Nat) (hcap : 0 < cap) (s : St) (h : Reach false cap k s) (hc : s.contacted = false) :
    canStep false cap s = true := by
  have hi := inv_reach cap k s h
  unfold canStep allLabels
  simp only [List.any_cons, List.any_nil, Bool.or_false, Bool.or_eq_true]
  cases ht : s.tracker with
  | trying n =>
    left
    cases n <;> simp [step, ht]
  | sleeping n => right; right; left; simp [step, ht]
  | sending c n =>
    by_cases hlen : s.chan.length < cap
    · right; left; simp [step, ht, hlen]
    · right; right; right; left
      have hj : s.joining = false := by
        cases hj : s.joining with
        | false => rfl
        | true => have := hi.joinDone hj; rw [ht] at this; cases this
      cases hch : s.chan with
      | nil => rw [hch] at hlen; simp at hlen; omega
      | cons c' rest => cases c' <;> simp [step, hj, hch]
  | done =>
    cases hj : s.joining with
    | true => right; right; right; right; simp [step, hj, ht]
    | false =>
      right; right; right; left
      rcases hi.doneResp ht with hc' | hm
      · rw [hc] at hc'; cases hc'
      · cases hch : s.chan with
        | nil => rw [hch] at hm; cases hm
        | cons c' rest => cases c' <;> simp [step, hj, hch]

/-- **T4c (C19, model).** Every step strictly decreases the progress mu. -/
theorem T4_measure_decreases (joinOnFail : Bool) (cap : Nat) (s s' : St) (l : Label) (h : step joinOnFail cap s l = some s') :
    mu s' < mu s := by
  cases l with
  | attempt =>
    simp only [step] at h
    split at h
    · rename_i n ht; cases h; simp only [mu, ht, rank]; omega
    · rename_i ht; cases h; simp only [mu, ht, rank]; omega
    · cases h
  | send =>
    simp only [step] at h
    split at h
    · rename_i c n ht
      split at h
      · cases h
        cases c <;> simp [mu, ht, rank] <;> omega
      · cases h
    · cases h
  | wake =>
    simp only [step] at h
    split at h
    · rename_i n ht; cases h; simp only [mu, ht, rank]; omega
    · cases h
  | recv =>
    simp only [step] at h
    split at h
    · cases h
    · rename_i hnj
      have hj : s.joining = false := by simpa using hnj
      split at h
      · cases h
      · rename_i rest hc; cases h; simp [mu, hc, hj]; omega
      · rename_i rest hc; cases h; simp only [mu, hc, hj, List.length_cons]; split <;> simp <;> omega
  | joined =>
    simp only [step] at h
    split at h
    · rename_i hc
      simp only [Bool.and_eq_true] at hc
      cases h; simp [mu, hc.1]
    · cases h

/-- Every execution is finite: a schedule that can be run has at most `mu` steps. -/
theorem exec_length (joinOnFail : Bool) (cap : Nat) (s s' : St) (ls : List Label) (h : exec joinOnFail cap s ls = some s') :
    mu s' + ls.length ≤ mu s := by
  induction ls generalizing s with
  | nil => simp [exec] at h; subst h; simp
  | cons l ls ih =>
    simp only [exec] at h
    cases hs : step joinOnFail cap s l with
    | none => rw [hs] at h; cases h
    | some s1 =>
      rw [hs] at h
      have h1 := T4_measure_decreases joinOnFail cap s s1 l hs
      have h2 := ih s1 h
      simp only [List.length_cons]; omega

theorem exec_reach (joinOnFail : Bool) (cap k : Nat) (s s' : St) (ls : List Label) (hr : Reach joinOnFail cap k s)
    (h : exec joinOnFail cap s ls = some s') : Reach joinOnFail cap k s' := by
  induction ls generalizing s with
  | nil => simp [exec] at h; subst h; exact hr
  | cons l ls ih =>
    simp only [exec] at h
    cases hs : step joinOnFail cap s l with
    | none => rw [hs] at h; cases h
    | some s1 => rw [hs] at h; exact ih s1 (Reach.step s s1 l hr hs) h

/-- **T4 (C19, model).** For every number `k` of failed or malformed announces followed by a good one, every
    channel capacity `cap > 0` and every interleaving: an execution that cannot be extended any further (it has at
    most `mu (init k) = 9k + 6` steps) ends with the listed peers contacted; and in every state on the way the
    manager is free to serve its connections. -/
theorem T4_any_failure_run_ends_with_peers_contacted (cap k : Nat) (hcap : 0 < cap) (ls : List Label) (s : St)
    (h : exec false cap (init k) ls = some s) (hmax : canStep false cap s = false) :
    s.contacted = true ∧ ls.length ≤ 9 * k + 6 := by
  have hr := exec_reach false cap k (init k) s ls Reach.init h
  refine ⟨?_, ?_⟩
  · cases hc : s.contacted with
    | true => rfl
    | false => have := T4_no_deadlock cap k hcap s hr hc; rw [hmax] at this; cases this
  · have := exec_length false cap (init k) s ls h
    simp only [mu, init, rank, List.length_nil] at this
    simp at this; omega

/-! ### The behaviour of the code as it was (`joinOnFail = true`) -/

/-- With a join after every command the manager is blocked by the first failure (`k = 1` is enough)… -/
theorem old_manager_blocked_by_one_failure :
    ∃ s, exec true Rdest.Gen.CHANNEL_SIZE (init 1) [.attempt, .send, .recv] = some s ∧ managerFree s = false := by
  exact ⟨_, rfl, by decide⟩

/-- The schedule that runs `k` failing rounds while the manager sits in `kill_tracker`. -/
def stuckSchedule (n : Nat) : List Label :=
  [.attempt, .send, .recv] ++ (List.replicate n [Label.wake, .attempt, .send]).flatten ++ [.wake, .attempt]

/-- …and with more failures than the channel holds (`CHANNEL_SIZE + 2`) both sides block for ever: a reachable
    state without any enabled step in which the peers were never contacted. -/
theorem old_deadlock_beyond_channel_capacity :
    ∃ s, exec true Rdest.Gen.CHANNEL_SIZE (init (Rdest.Gen.CHANNEL_SIZE + 2)) (stuckSchedule Rdest.Gen.CHANNEL_SIZE) = some s ∧
      canStep true Rdest.Gen.CHANNEL_SIZE s = false ∧ s.contacted = false := by
  decide +kernel

end Retry

/-! ### Non-vacuity (tests) -/

example : (Retry.Reach false 64 3 (Rdest.Tracker.Retry.init 3)) := Retry.Reach.init
-- k = 2 under the repaired protocol: one complete run ends contacted
example : ((Rdest.Tracker.Retry.exec false 64 (Rdest.Tracker.Retry.init 2)
    [.attempt, .send, .recv, .wake, .attempt, .send, .wake, .attempt, .send, .recv, .recv, .joined]).map (·.contacted)) = some true := by decide

end Rdest.Props.C19
