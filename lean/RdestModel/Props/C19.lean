/-
  C19 — tracker replies are read faithfully and tracker faults are survived.

  Part 1 (pure): `RdestModel/Tracker/Resp.lean`, tied to `TrackerResp::from_bencode(..).peers()` on generated replies.
  Part 2 (fault sequences): `RdestModel/Tracker/Retry.lean`, a hand-abstracted model of tracker task ‖ bounded
  channel ‖ manager; tied to the real `Session::run` by an end-to-end run against a scripted loopback tracker
  (observed: the manager answers a new connection while announces fail; the listed peers are contacted after the
  good reply).  The theorems of part 2 are about that model — *partial* with respect to the real runtime.
-/
import RdestModel.Tracker.Resp
import RdestModel.Tracker.Retry
import RdestModel.Tracker.Respawn
import RdestModel.Lemmas.Cand
import RdestModel.Gen.Constants
set_option linter.unusedSimpArgs false
set_option linter.unusedVariables false
namespace Rdest.Props.C19
open Rdest Rdest.Bencode Rdest.Meta Rdest.Tracker

/-! ## Part 1: reading a reply -/

/-- **T2 (C19).** A reply dictionary without failure reason, with a non-negative integer `interval` and a list
    `peers`, yields in the listed order exactly the entries that are well-formed (dictionary with UTF-8 `ip`,
    20-byte `peer id`, non-negative integer `port`): only malformed entries are skipped. -/
theorem T2_peers_in_listed_order (d : Dict) (i : Int) (l : List BValue)
    (hf : ∀ r, dictGet d kFailure ≠ some (.str r)) (hi : dictGet d kInterval = some (.int i)) (hpos : 0 ≤ i)
    (hp : dictGet d kPeers = some (.list l)) :
    parseResp d = .ok ⟨i.toNat, l.filterMap peerOf⟩ := by
  unfold parseResp
  split
  · rename_i r hr; exact absurd hr (hf r)
  · rw [hi]; simp only []
    rw [if_neg (by omega), hp]

/-- What a well-formed entry is, and what is reported for it: `ip:port` (decimal) with the 20-byte id. -/
theorem T2_entry (d : Dict) (ip id : Bytes) (port : Int) (h1 : dictGet d kIp = some (.str ip))
    (h2 : dictGet d kPeerId = some (.str id)) (h3 : dictGet d kPort = some (.int port))
    (hu : utf8Valid ip = true) (hl : id.length = 20) (hp : 0 ≤ port) :
    peerOf (.dict d) = some ⟨ip, id, port.toNat⟩ ∧
    peerAddrs ⟨0, [⟨ip, id, port.toNat⟩]⟩ = [(ip ++ 58 :: natDec port.toNat, id)] := by
  refine ⟨?_, rfl⟩
  simp only [peerOf, h1, h2, h3]
  rw [if_pos ⟨hu, hl, hp⟩]

/-- Entries that are kept are exactly the well-formed ones (nothing else is invented). -/
theorem T2_kept_entries_are_well_formed (v : BValue) (p : PeerAddr) (h : peerOf v = some p) :
    ∃ d, v = .dict d ∧ dictGet d kIp = some (.str p.ip) ∧ dictGet d kPeerId = some (.str p.peerId) ∧
      dictGet d kPort = some (.int p.port) ∧ utf8Valid p.ip = true ∧ p.peerId.length = 20 := by
  cases v with
  | dict d =>
    simp only [peerOf] at h
    split at h
    · rename_i ip id port h1 h2 h3
      split at h
      · rename_i hc
        cases h
        refine ⟨d, rfl, h1, h2, ?_, hc.1, hc.2.1⟩
        rw [h3]
        show some (BValue.int port) = some (BValue.int ((port.toNat : Nat) : Int))
        rw [Int.toNat_of_nonneg hc.2.2]
      · cases h
    · cases h
  | int _ | str _ | list _ => simp [peerOf] at h

/-- **T3 (C19).** A reply dictionary carrying a (byte-string) failure reason is reported as a failure — whatever
    else it contains, and whether or not the reason is valid UTF-8. -/
theorem T3_failure_reason_is_a_failure (d : Dict) (r : Bytes) (h : dictGet d kFailure = some (.str r)) :
    parseResp d = .error (.respFail (if utf8Valid r then some r else none)) := by
  unfold parseResp; rw [h]

/-- For a reply consisting of that one dictionary, this is the result of `from_bencode`. -/
theorem T3_single_dictionary_reply (body : Bytes) (d : Dict) (rest : List BValue) (r : Bytes)
    (hdec : decodeImpl body = some [.dict d]) (h : dictGet d kFailure = some (.str r)) :
    ∃ reason, respFromBencode body = .error (.respFail reason) := by
  unfold respFromBencode
  rw [hdec]
  simp only [firstResp, T3_failure_reason_is_a_failure d r h]
  exact ⟨_, rfl⟩

/-- **T2 at the HTTP exchange.** A successful status with a body that is a well-formed reply — whatever bytes its
    peer ids consist of — hands the manager exactly the reply of T2; any other status is a failed announce. -/
theorem T2_exchange_hands_over_the_reply (status : Nat) (body : Bytes) (m : RespM)
    (hs : 200 ≤ status ∧ status < 300) (h : respFromBencode body = .ok m) : exchange status body = some m := by
  unfold exchange statusSuccess
  simp [hs.1, hs.2, h]

theorem exchange_failed_status (status : Nat) (body : Bytes) (hs : status < 200 ∨ 300 ≤ status) :
    exchange status body = none := by
  unfold exchange statusSuccess
  have : (decide (200 ≤ status) && decide (status < 300)) = false := by
    rcases hs with h | h
    · simp; omega
    · simp; omega
  simp [this]

/-- T3 at the exchange: a reply carrying a failure reason is a failed announce whatever the status. -/
theorem T3_exchange_failure_reason (status : Nat) (body : Bytes) (d : Dict) (r : Bytes)
    (hdec : decodeImpl body = some [.dict d]) (h : dictGet d kFailure = some (.str r)) : exchange status body = none := by
  obtain ⟨reason, hr⟩ := T3_single_dictionary_reply body d [] r hdec h
  unfold exchange
  split
  · rw [hr]
  · rfl

/-- Non-vacuity: the reply `d8:intervali5e5:peersld2:ip1:a7:peer id20:<20 × 0xff>4:porti7eeee` (a peer id that is not
    UTF-8) is handed over with that id. -/
example : (exchange 200 ([100,56,58,105,110,116,101,114,118,97,108,105,53,101,53,58,112,101,101,114,115,108,100,50,58,105,112,49,58,
      97,55,58,112,101,101,114,32,105,100,50,48,58] ++ List.replicate 20 255 ++ [52,58,112,111,114,116,105,55,101,101,101,101])).map
      (fun m => m.peers.map (·.peerId)) = some [List.replicate 20 255] := by decide +kernel

/-! ## Part 2: any run of failed announces followed by a good one -/

namespace Retry
open Rdest.Tracker.Retry

/-- Reachable states of the protocol with `k` failing announces before the good one. -/
inductive Reach (joinOnFail : Bool) (cap k : Nat) : St → Prop
  | init : Reach joinOnFail cap k (init k)
  | step (s s' : St) (l : Label) : Reach joinOnFail cap k s → step joinOnFail cap s l = some s' → Reach joinOnFail cap k s'

/-- Invariant of the repaired protocol. -/
structure Inv (s : St) : Prop where
  joinDone : s.joining = true → s.tracker = .done
  doneResp : s.tracker = .done → s.contacted = true ∨ Cmd.resp ∈ s.chan
  respDone : Cmd.resp ∈ s.chan → s.tracker = .done

theorem inv_init (k : Nat) : Inv (init k) := by
  refine ⟨?_, ?_, ?_⟩ <;> simp [init]

theorem inv_step (cap : Nat) (s s' : St) (l : Label) (hi : Inv s) (h : step false cap s l = some s') : Inv s' := by
  obtain ⟨h1, h2, h3⟩ := hi
  cases l with
  | attempt =>
    simp only [step] at h
    split at h
    · cases h; refine ⟨?_, ?_, ?_⟩
      · intro hj; have := h1 hj; simp_all
      · intro hd; simp at hd
      · intro hr; have := h3 hr; simp_all
    · cases h; refine ⟨?_, ?_, ?_⟩
      · intro hj; have := h1 hj; simp_all
      · intro hd; simp at hd
      · intro hr; have := h3 hr; simp_all
    · cases h
  | send =>
    simp only [step] at h
    split at h
    · rename_i c n ht
      split at h
      · cases h
        cases c with
        | fail =>
          refine ⟨?_, ?_, ?_⟩
          · intro hj; have := h1 hj; simp_all
          · intro hd; simp at hd
          · intro hr
            simp only [List.mem_append, List.mem_singleton] at hr
            rcases hr with hr | hr
            · have := h3 hr; simp_all
            · cases hr
        | resp =>
          refine ⟨?_, ?_, ?_⟩
          · intro _; simp
          · intro _; right; simp
          · intro _; simp
      · cases h
    · cases h
  | wake =>
    simp only [step] at h
    split at h
    · cases h; refine ⟨?_, ?_, ?_⟩
      · intro hj; have := h1 hj; simp_all
      · intro hd; simp at hd
      · intro hr; have := h3 hr; simp_all
    · cases h
  | recv =>
    simp only [step] at h
    split at h
    · cases h
    · rename_i hnj
      split at h
      · cases h
      · rename_i rest hc
        cases h
        have hd : s.tracker = .done := h3 (by rw [hc]; simp)
        exact ⟨fun _ => hd, fun _ => Or.inl rfl, fun _ => hd⟩
      · rename_i rest hc
        cases h
        refine ⟨?_, ?_, ?_⟩
        · intro hj; simp at hj
        · intro hd
          rcases h2 hd with hc' | hm
          · exact Or.inl hc'
          · right; rw [hc] at hm; simpa using hm
        · intro hr; exact h3 (by rw [hc]; exact List.mem_cons_of_mem _ hr)
  | joined =>
    simp only [step] at h
    split at h
    · cases h; exact ⟨fun hj => by simp at hj, h2, h3⟩
    · cases h

theorem inv_reach (cap k : Nat) (s : St) (h : Reach false cap k s) : Inv s := by
  induction h with
  | init => exact inv_init k
  | step s s' l _ hs ih => exact inv_step cap s s' l ih hs

/-- **T4a (C19, model).** Whatever the number `k` of failed announces and however the steps interleave: whenever the
    manager awaits the tracker task, the task has already returned — the manager is never stuck behind a retrying
    tracker, it keeps taking the connection tasks' commands. -/
theorem T4_manager_never_blocked (cap k : Nat) (s : St) (h : Reach false cap k s) : managerFree s = true := by
  have hi := inv_reach cap k s h
  unfold managerFree
  cases hj : s.joining with
  | false => simp
  | true => simp [hi.joinDone hj]

/-- **T4b (C19, model).** No deadlock: as long as the peers have not been contacted, some step is enabled. -/
theorem T4_no_deadlock (cap k : Nat) (hcap : 0 < cap) (s : St) (h : Reach false cap k s) (hc : s.contacted = false) :
    canStep false cap s = true := by
  have hi := inv_reach cap k s h
  unfold canStep allLabels
  simp only [List.any_cons, List.any_nil, Bool.or_false, Bool.or_eq_true]
  cases ht : s.tracker with
  | trying n =>
    left
    cases n <;> simp [step, ht]
  | sleeping n => right; right; left; simp [step, ht]
  | sending c n =>
    by_cases hlen : s.chan.length < cap
    · right; left; simp [step, ht, hlen]
    · right; right; right; left
      have hj : s.joining = false := by
        cases hj : s.joining with
        | false => rfl
        | true => have := hi.joinDone hj; rw [ht] at this; cases this
      cases hch : s.chan with
      | nil => rw [hch] at hlen; simp at hlen; omega
      | cons c' rest => cases c' <;> simp [step, hj, hch]
  | done =>
    cases hj : s.joining with
    | true => right; right; right; right; simp [step, hj, ht]
    | false =>
      right; right; right; left
      rcases hi.doneResp ht with hc' | hm
      · rw [hc] at hc'; cases hc'
      · cases hch : s.chan with
        | nil => rw [hch] at hm; cases hm
        | cons c' rest => cases c' <;> simp [step, hj, hch]

/-- **T4c (C19, model).** Every step strictly decreases the progress mu. -/
theorem T4_measure_decreases (joinOnFail : Bool) (cap : Nat) (s s' : St) (l : Label) (h : step joinOnFail cap s l = some s') :
    mu s' < mu s := by
  cases l with
  | attempt =>
    simp only [step] at h
    split at h
    · rename_i n ht; cases h; simp only [mu, ht, rank]; omega
    · rename_i ht; cases h; simp only [mu, ht, rank]; omega
    · cases h
  | send =>
    simp only [step] at h
    split at h
    · rename_i c n ht
      split at h
      · cases h
        cases c <;> simp [mu, ht, rank] <;> omega
      · cases h
    · cases h
  | wake =>
    simp only [step] at h
    split at h
    · rename_i n ht; cases h; simp only [mu, ht, rank]; omega
    · cases h
  | recv =>
    simp only [step] at h
    split at h
    · cases h
    · rename_i hnj
      have hj : s.joining = false := by simpa using hnj
      split at h
      · cases h
      · rename_i rest hc; cases h; simp [mu, hc, hj]; omega
      · rename_i rest hc; cases h; simp only [mu, hc, hj, List.length_cons]; split <;> simp <;> omega
  | joined =>
    simp only [step] at h
    split at h
    · rename_i hc
      simp only [Bool.and_eq_true] at hc
      cases h; simp [mu, hc.1]
    · cases h

/-- Every execution is finite: a schedule that can be run has at most `mu` steps. -/
theorem exec_length (joinOnFail : Bool) (cap : Nat) (s s' : St) (ls : List Label) (h : exec joinOnFail cap s ls = some s') :
    mu s' + ls.length ≤ mu s := by
  induction ls generalizing s with
  | nil => simp [exec] at h; subst h; simp
  | cons l ls ih =>
    simp only [exec] at h
    cases hs : step joinOnFail cap s l with
    | none => rw [hs] at h; cases h
    | some s1 =>
      rw [hs] at h
      have h1 := T4_measure_decreases joinOnFail cap s s1 l hs
      have h2 := ih s1 h
      simp only [List.length_cons]; omega

theorem exec_reach (joinOnFail : Bool) (cap k : Nat) (s s' : St) (ls : List Label) (hr : Reach joinOnFail cap k s)
    (h : exec joinOnFail cap s ls = some s') : Reach joinOnFail cap k s' := by
  induction ls generalizing s with
  | nil => simp [exec] at h; subst h; exact hr
  | cons l ls ih =>
    simp only [exec] at h
    cases hs : step joinOnFail cap s l with
    | none => rw [hs] at h; cases h
    | some s1 => rw [hs] at h; exact ih s1 (Reach.step s s1 l hr hs) h

/-- **T4 (C19, model).** For every number `k` of failed or malformed announces followed by a good one, every
    channel capacity `cap > 0` and every interleaving: an execution that cannot be extended any further (it has at
    most `mu (init k) = 9k + 6` steps) ends with the listed peers contacted; and in every state on the way the
    manager is free to serve its connections. -/
theorem T4_any_failure_run_ends_with_peers_contacted (cap k : Nat) (hcap : 0 < cap) (ls : List Label) (s : St)
    (h : exec false cap (init k) ls = some s) (hmax : canStep false cap s = false) :
    s.contacted = true ∧ ls.length ≤ 9 * k + 6 := by
  have hr := exec_reach false cap k (init k) s ls Reach.init h
  refine ⟨?_, ?_⟩
  · cases hc : s.contacted with
    | true => rfl
    | false => have := T4_no_deadlock cap k hcap s hr hc; rw [hmax] at this; cases this
  · have := exec_length false cap (init k) s ls h
    simp only [mu, init, rank, List.length_nil] at this
    simp at this; omega

/-! ### The behaviour of the code as it was (`joinOnFail = true`) -/

/-- With a join after every command the manager is blocked by the first failure (`k = 1` is enough)… -/
theorem old_manager_blocked_by_one_failure :
    ∃ s, exec true Rdest.Gen.CHANNEL_SIZE (init 1) [.attempt, .send, .recv] = some s ∧ managerFree s = false := by
  exact ⟨_, rfl, by decide⟩

/-- The schedule that runs `k` failing rounds while the manager sits in `kill_tracker`. -/
def stuckSchedule (n : Nat) : List Label :=
  [.attempt, .send, .recv] ++ (List.replicate n [Label.wake, .attempt, .send]).flatten ++ [.wake, .attempt]

/-- …and with more failures than the channel holds (`CHANNEL_SIZE + 2`) both sides block for ever: a reachable
    state without any enabled step in which the peers were never contacted. -/
theorem old_deadlock_beyond_channel_capacity :
    ∃ s, exec true Rdest.Gen.CHANNEL_SIZE (init (Rdest.Gen.CHANNEL_SIZE + 2)) (stuckSchedule Rdest.Gen.CHANNEL_SIZE) = some s ∧
      canStep true Rdest.Gen.CHANNEL_SIZE s = false ∧ s.contacted = false := by
  decide +kernel

end Retry

/-! ## Part 2b: what the manager does with a good reply (`handle_tracker_cmd`, model `Swarm/Cand.lean`) -/

section Contact
open Rdest.Swarm Rdest.Swarm.Book Rdest.Gen

/-- **T5 (C19, manager model).** Handling a good reply in any manager state: the listed addresses are appended to the
    candidates; with `k` connected peers we are interested in, `n = MAX_UNCHOKED + MAX_OPTIMISTIC - k` candidates are
    taken from the end of the list, and **every one of them has a connection afterwards** (a connection task was
    started for it unless one to that address existed); the others stay queued, in order; the tracker handle is
    released. -/
theorem T5_reply_contacts_the_listed_peers (guard : Bool) (c c' : CState) (l : List Nat) (r : Reply)
    (h : bkstep guard c (.trackerResp l) = some (c', r)) :
    let all := c.cands ++ l
    let n := (MAX_UNCHOKED + MAX_OPTIMISTIC) - (c.x.m.peers.filter (·.amInterested)).length
    c'.cands = all.take (all.length - n) ∧ (∀ a ∈ all.drop (all.length - n), connected c' a = true) ∧
      c'.trackerHeld = false ∧ c'.x.m.statuses = c.x.m.statuses := by
  simp only [bkstep, Option.some.injEq, Prod.mk.injEq] at h
  obtain ⟨h, _⟩ := h
  subst h
  refine ⟨?_, ?_, rfl, ?_⟩
  · simp only [spawnN_cands]; rfl
  · intro a ha
    have := spawnN_connects (spawnNum { c with cands := c.cands ++ l, listed := c.listed ++ l })
      { c with cands := c.cands ++ l, listed := c.listed ++ l } a ha
    simpa [connected] using this
  · simp

/-- The constants the statement above depends on, from the source: eleven connections at most are started. -/
theorem T5_spawn_limit : MAX_UNCHOKED + MAX_OPTIMISTIC = 11 := by decide

/-- **T5 (corollary).** A session without connections and without queued candidates that gets a reply listing at most
    eleven peers has a connection to every listed peer afterwards. -/
theorem T5_fresh_session_contacts_every_listed_peer (guard : Bool) (c c' : CState) (l : List Nat) (r : Reply)
    (hp : c.x.m.peers = []) (hc : c.cands = []) (hl : l.length ≤ 11)
    (h : bkstep guard c (.trackerResp l) = some (c', r)) : c'.cands = [] ∧ ∀ a ∈ l, connected c' a = true := by
  have := T5_reply_contacts_the_listed_peers guard c c' l r h
  simp only [hp, hc, List.nil_append, List.filter_nil, List.length_nil, MAX_UNCHOKED_val, MAX_OPTIMISTIC_val] at this
  obtain ⟨h1, h2, _, _⟩ := this
  have hz : l.length - (10 + 1 - 0) = 0 := by omega
  rw [hz] at h1 h2
  exact ⟨by simpa using h1, by simpa using h2⟩

/-- Non-vacuity (test): three listed peers, fresh session. -/
example : ((bkstep true (cinit 2) (.trackerResp [5, 6, 7])).map fun p => (p.1.cands, p.1.contacted, p.1.trackerHeld)) =
    some ([], [7, 6, 5], false) := by decide

end Contact

/-! ## Part 3: several tracker tasks (`handle_kill_req` asks for a new announce) -/

namespace Respawn
open Rdest.Tracker.Respawn
open Rdest.Tracker.Retry (Cmd)

inductive Reach (guard : Bool) (cap : Nat) : St → Prop where
  | init : Reach guard cap init
  | step (s s' : St) (l : Label) : Reach guard cap s → step guard cap s l = some s' → Reach guard cap s'

structure Inv (s : St) : Prop where
  /-- every task whose handle the manager does not hold has returned -/
  othersDone : ∀ i t, s.tasks[i]? = some t → s.held ≠ some i → t = .done
  heldLt : ∀ i, s.held = some i → i < s.tasks.length
  joinLt : ∀ i, s.joining = some i → i < s.tasks.length
  joinNoHeld : s.joining.isSome → s.held = none
  /-- a good reply in the channel was sent by the held task, which has returned -/
  respDone : Cmd.resp ∈ s.chan → ∃ i, s.held = some i ∧ s.tasks[i]? = some .done
  /-- at most one good reply is queued -/
  respOnce : s.chan.count Cmd.resp ≤ 1

theorem inv_init : Inv init := by
  refine ⟨?_, ?_, ?_, ?_, ?_, ?_⟩
  · intro i t h hh
    cases i with
    | zero => simp [init] at hh
    | succ i => simp [init] at h
  · intro i h; simp [init] at h; subst h; simp [init]
  · intro i h; simp [init] at h
  · intro h; simp [init] at h
  · intro h; simp [init] at h
  · simp [init]

theorem getElem?_set_cases {l : List Tk} {i j : Nat} {v t : Tk} (h : (l.set i v)[j]? = some t) :
    (j = i ∧ t = v) ∨ (j ≠ i ∧ l[j]? = some t) := by
  by_cases hji : j = i
  · subst hji
    left
    have hlt : j < l.length := by
      have := (List.getElem?_eq_some_iff.mp h).1
      simpa using this
    simp [List.getElem?_set_self hlt] at h
    exact ⟨rfl, h.symm⟩
  · right
    rw [List.getElem?_set_ne (Ne.symm hji)] at h
    exact ⟨hji, h⟩

theorem inv_step (cap : Nat) (s s' : St) (l : Label) (hi : Inv s) (h : step true cap s l = some s') : Inv s' := by
  obtain ⟨h1, h2, h3, h4, h5, h6⟩ := hi
  cases l with
  | attempt i ok =>
    simp only [step] at h
    split at h
    · rename_i ht
      cases h
      have hheld : s.held = some i := by
        by_cases hh : s.held = some i
        · exact hh
        · have := h1 i _ ht hh; cases this
      refine ⟨?_, ?_, ?_, h4, ?_, h6⟩
      · intro j t hj hh
        rcases getElem?_set_cases hj with ⟨rfl, _⟩ | ⟨_, hj'⟩
        · exact absurd hheld hh
        · exact h1 j t hj' hh
      · intro j hj; simpa using h2 j hj
      · intro j hj; simpa using h3 j hj
      · intro hr
        obtain ⟨j, hj1, hj2⟩ := h5 hr
        rw [hheld] at hj1; cases hj1
        rw [ht] at hj2; cases hj2
    · cases h
  | send i =>
    simp only [step] at h
    split at h
    · rename_i c ht
      split at h
      · cases h
        have hheld : s.held = some i := by
          by_cases hh : s.held = some i
          · exact hh
          · have := h1 i _ ht hh; cases this
        have hlt : i < s.tasks.length := h2 i hheld
        have hnoresp : Cmd.resp ∉ s.chan := by
          intro hr
          obtain ⟨j, hj1, hj2⟩ := h5 hr
          rw [hheld] at hj1; cases hj1
          rw [ht] at hj2; cases hj2
        refine ⟨?_, ?_, ?_, h4, ?_, ?_⟩
        · intro j t hj hh
          rcases getElem?_set_cases hj with ⟨rfl, _⟩ | ⟨_, hj'⟩
          · exact absurd hheld hh
          · exact h1 j t hj' hh
        · intro j hj; simpa using h2 j hj
        · intro j hj; simpa using h3 j hj
        · intro hr
          simp only [List.mem_append, List.mem_singleton] at hr
          rcases hr with hr | hr
          · exact absurd hr hnoresp
          · subst hr
            exact ⟨i, hheld, by simp [List.getElem?_set_self hlt]⟩
        · rw [List.count_append, List.count_eq_zero.mpr hnoresp]
          cases c <;> simp
      · cases h
    · cases h
  | wake i =>
    simp only [step] at h
    split at h
    · rename_i ht
      cases h
      have hheld : s.held = some i := by
        by_cases hh : s.held = some i
        · exact hh
        · have := h1 i _ ht hh; cases this
      refine ⟨?_, ?_, ?_, h4, ?_, h6⟩
      · intro j t hj hh
        rcases getElem?_set_cases hj with ⟨rfl, _⟩ | ⟨_, hj'⟩
        · exact absurd hheld hh
        · exact h1 j t hj' hh
      · intro j hj; simpa using h2 j hj
      · intro j hj; simpa using h3 j hj
      · intro hr
        obtain ⟨j, hj1, hj2⟩ := h5 hr
        rw [hheld] at hj1; cases hj1
        rw [ht] at hj2; cases hj2
    · cases h
  | recv =>
    simp only [step] at h
    split at h
    · cases h
    · rename_i hnj
      split at h
      · cases h
      · rename_i rest hc
        cases h
        obtain ⟨i, hi1, hi2⟩ := h5 (by rw [hc]; simp)
        have hrest : Cmd.resp ∉ rest := by
          rw [hc, List.count_cons_self] at h6
          exact List.count_eq_zero.mp (by omega)
        refine ⟨?_, ?_, ?_, ?_, ?_, ?_⟩
        · intro j t hj _
          by_cases hji : s.held = some j
          · rw [hi1] at hji; cases hji; rw [hi2] at hj; cases hj; rfl
          · exact h1 j t hj hji
        · intro j hj; cases hj
        · intro j hj; exact h2 j hj
        · intro _; rfl
        · intro hr; exact absurd hr hrest
        · rw [List.count_eq_zero.mpr hrest]; omega
      · rename_i rest hc
        cases h
        refine ⟨h1, h2, h3, h4, ?_, ?_⟩
        · intro hr
          exact h5 (by rw [hc]; exact List.mem_cons_of_mem _ hr)
        · rw [hc] at h6
          have : List.count Cmd.resp (Cmd.fail :: rest) = List.count Cmd.resp rest := by
            rw [List.count_cons]; simp
          show List.count Cmd.resp rest ≤ 1
          omega
  | joined =>
    simp only [step] at h
    split at h
    · split at h
      · cases h
        exact ⟨h1, h2, (fun j hj => nomatch hj), (fun hj => nomatch hj), h5, h6⟩
      · cases h
    · cases h
  | lost =>
    simp only [step] at h
    split at h
    · cases h
    · rename_i hnj
      split at h
      · cases h; exact ⟨h1, h2, h3, h4, h5, h6⟩
      · rename_i hg
        cases h
        have hnone : s.held = none := by
          cases hh : s.held with
          | none => rfl
          | some i => simp [hh] at hg
        refine ⟨?_, ?_, ?_, ?_, ?_, h6⟩
        · intro j t hj hh
          by_cases hjl : j < s.tasks.length
          · rw [List.getElem?_append_left hjl] at hj
            exact h1 j t hj (by rw [hnone]; simp)
          · have : j ≠ s.tasks.length := fun e => hh (by rw [e])
            rw [List.getElem?_append_right (by omega)] at hj
            have : j - s.tasks.length ≠ 0 := by omega
            cases hk : j - s.tasks.length with
            | zero => omega
            | succ k => rw [hk] at hj; simp at hj
        · intro j hj; cases hj; simp
        · intro j hj; have := h3 j hj; simp; omega
        · intro hj; simp at hnj; simp [hnj] at hj
        · intro hr
          obtain ⟨i, hi1, _⟩ := h5 hr
          rw [hnone] at hi1; cases hi1

theorem inv_reach (cap : Nat) (s : St) (h : Reach true cap s) : Inv s := by
  induction h with
  | init => exact inv_init
  | step s s' l _ hs ih => exact inv_step cap s s' l ih hs

/-- **T6a (C19, model with any number of lost connections and re-announces).** Whatever the tracker answers to each
    announce (fail, recover, fail again — in any pattern), however often a connection is lost with no candidate left,
    and however the steps interleave: whenever the manager awaits a tracker task, that task has already returned. The
    manager is never stuck behind a tracker task that is still retrying. -/
theorem T6_manager_never_blocked_by_a_reannounce (cap : Nat) (s : St) (h : Reach true cap s) : managerFree s = true := by
  have hi := inv_reach cap s h
  unfold managerFree
  cases hj : s.joining with
  | none => rfl
  | some i =>
    simp only [decide_eq_true_eq]
    have hnone := hi.joinNoHeld (by simp [hj])
    have hlt := hi.joinLt i hj
    have hget : s.tasks[i]? = some s.tasks[i] := List.getElem?_eq_getElem hlt
    rw [hget, hi.othersDone i _ hget (by simp [hnone])]

/-- **T6b.** At most one tracker task is announcing at any time: two tasks that have not returned are the same task. -/
theorem T6_single_announcer (cap : Nat) (s : St) (h : Reach true cap s) (i j : Nat) (ti tj : Tk)
    (hi : s.tasks[i]? = some ti) (hj : s.tasks[j]? = some tj) (hni : ti ≠ .done) (hnj : tj ≠ .done) : i = j := by
  have inv := inv_reach cap s h
  have h1 : s.held = some i := by
    by_cases hh : s.held = some i
    · exact hh
    · exact absurd (inv.othersDone i ti hi hh) hni
  have h2 : s.held = some j := by
    by_cases hh : s.held = some j
    · exact hh
    · exact absurd (inv.othersDone j tj hj hh) hnj
  rw [h1] at h2; cases h2; rfl

/-- **T6c.** Once the good reply has been taken (no handle held) nobody announces any more. -/
theorem T6_quiet_after_the_reply (cap : Nat) (s : St) (h : Reach true cap s) (hh : s.held = none) (i : Nat) (t : Tk)
    (hi : s.tasks[i]? = some t) : t = .done :=
  (inv_reach cap s h).othersDone i t hi (by simp [hh])

/-! ### The code as it was (`guard = false`): a second tracker task replaces the held handle -/

/-- The manager awaits task `i`, and task `i` is in its retry loop. -/
def StuckOn (i : Nat) (s : St) : Prop :=
  s.joining = some i ∧
    (s.tasks[i]? = some .trying ∨ s.tasks[i]? = some (.sending .fail) ∨ s.tasks[i]? = some .sleeping)

theorem stuck_not_free (i : Nat) (s : St) (h : StuckOn i s) : managerFree s = false := by
  obtain ⟨hj, ht⟩ := h
  unfold managerFree
  rw [hj]
  rcases ht with ht | ht | ht <;> simp [ht]

/-- While the tracker keeps failing the awaited task, the manager stays stuck — whatever else happens. -/
theorem stuck_step (guard : Bool) (cap i : Nat) (s s' : St) (l : Label) (h : StuckOn i s) (hl : l ≠ .attempt i true)
    (hs : step guard cap s l = some s') : StuckOn i s' := by
  obtain ⟨hj, ht⟩ := h
  cases l with
  | attempt k ok =>
    simp only [step] at hs
    split at hs
    · rename_i hk
      cases hs
      refine ⟨hj, ?_⟩
      by_cases hki : k = i
      · subst hki
        have hlt : k < s.tasks.length := (List.getElem?_eq_some_iff.mp hk).1
        cases ok with
        | true => exact absurd rfl hl
        | false => right; left; simp [List.getElem?_set_self hlt]
      · simp only [List.getElem?_set_ne hki]; exact ht
    · cases hs
  | send k =>
    simp only [step] at hs
    split at hs
    · rename_i c hk
      split at hs
      · cases hs
        refine ⟨hj, ?_⟩
        by_cases hki : k = i
        · subst hki
          have hlt : k < s.tasks.length := (List.getElem?_eq_some_iff.mp hk).1
          rcases ht with ht | ht | ht
          · rw [hk] at ht; cases ht
          · rw [hk] at ht; cases ht; right; right; simp [List.getElem?_set_self hlt]
          · rw [hk] at ht; cases ht
        · simp only [List.getElem?_set_ne hki]; exact ht
      · cases hs
    · cases hs
  | wake k =>
    simp only [step] at hs
    split at hs
    · rename_i hk
      cases hs
      refine ⟨hj, ?_⟩
      by_cases hki : k = i
      · subst hki
        have hlt : k < s.tasks.length := (List.getElem?_eq_some_iff.mp hk).1
        left; simp [List.getElem?_set_self hlt]
      · simp only [List.getElem?_set_ne hki]; exact ht
    · cases hs
  | recv => simp [step, hj] at hs
  | joined =>
    simp only [step, hj] at hs
    split at hs
    · rename_i hd; rcases ht with ht | ht | ht <;> (rw [ht] at hd; cases hd)
    · cases hs
  | lost => simp [step, hj] at hs

theorem stuck_exec (guard : Bool) (cap i : Nat) (s s' : St) (ls : List Label) (h : StuckOn i s)
    (hl : Label.attempt i true ∉ ls) (hs : exec guard cap s ls = some s') : managerFree s' = false := by
  induction ls generalizing s with
  | nil => simp [exec] at hs; subst hs; exact stuck_not_free i s h
  | cons l ls ih =>
    simp only [exec] at hs
    cases h1 : step guard cap s l with
    | none => rw [h1] at hs; cases hs
    | some s1 =>
      rw [h1] at hs
      simp only [List.mem_cons, not_or] at hl
      exact ih s1 (stuck_step guard cap i s s1 l h (Ne.symm hl.1) h1) hl.2 hs

/-- **Refutation for the code as it was.** A connection is lost while the first announce is outstanding (a second
    tracker task is started, its handle replaces the first); the first task then gets the good reply. Handling that
    reply the manager awaits the *second* task — and stays blocked through every further schedule in which the tracker
    does not answer that task successfully (e.g. a tracker that refuses a second announce within its minimum
    interval), serving no connection meanwhile. -/
theorem old_manager_blocked_by_second_tracker_task (cap : Nat) (hcap : 0 < cap) :
    ∃ s, exec false cap init [.lost, .attempt 0 true, .send 0, .recv] = some s ∧ s.handled = 1 ∧
      ∀ ls s', Label.attempt 1 true ∉ ls → exec false cap s ls = some s' → managerFree s' = false := by
  refine ⟨⟨[.done, .trying], none, [], some 1, 1⟩, ?_, rfl, ?_⟩
  · simp [exec, step, init, hcap]
  · intro ls s' hl hs
    exact stuck_exec false cap 1 _ s' ls ⟨rfl, Or.inl rfl⟩ hl hs

/-- Non-vacuity (test): with the guard the same schedule leaves the manager free and nobody announcing. -/
example : (exec true 64 init [.lost, .attempt 0 true, .send 0, .recv, .joined]).map (fun s => (managerFree s, live s)) = some (true, 0) := by
  decide

end Respawn

/-! ### Non-vacuity (tests) -/

example : (Retry.Reach false 64 3 (Rdest.Tracker.Retry.init 3)) := Retry.Reach.init
-- k = 2 under the repaired protocol: one complete run ends contacted
example : ((Rdest.Tracker.Retry.exec false 64 (Rdest.Tracker.Retry.init 2)
    [.attempt, .send, .recv, .wake, .attempt, .send, .wake, .attempt, .send, .recv, .recv, .joined]).map (·.contacted)) = some true := by decide

end Rdest.Props.C19
