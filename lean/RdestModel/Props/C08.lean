/-
  C08 — only peers of the same torrent (and expected identity) are served.
-/
import RdestModel.Lemmas.Trace
set_option linter.unusedSimpArgs false
set_option linter.unusedVariables false
namespace Rdest.Props.C08
open Rdest Rdest.Wire Rdest.Gen Rdest.Swarm

/-! ### Outputs that carry no piece data -/

def noPiece (o : List HOut) : Bool := o.all fun x => match x with | .write (.piece ..) => false | _ => true

theorem noPiece_append (a b : List HOut) : noPiece (a ++ b) = (noPiece a && noPiece b) := by
  simp [noPiece, List.all_append]

theorem obs_noPiece (sha1 : Bytes → Bytes) (o : List HOut) (h : noPiece o = true) :
    (o.filterMap (obsOf sha1)).any isPieceWrite = false := by
  induction o with
  | nil => rfl
  | cons x xs ih =>
    simp only [noPiece, List.all_cons, Bool.and_eq_true] at h
    have ih' := ih (by simpa [noPiece] using h.2)
    cases x with
    | write m => cases m <;> simp_all [obsOf, isPieceWrite, List.filterMap_cons]
    | cmd c => simp_all [obsOf, isPieceWrite, List.filterMap_cons]
    | save a b => simp_all [obsOf, isPieceWrite, List.filterMap_cons]
    | load a => simp_all [obsOf, List.filterMap_cons]

theorem sendRequest_noPiece (s : HState) : noPiece (sendRequest s).2 = true := by
  unfold sendRequest; split
  · split <;> simp [noPiece]
  · simp [noPiece]

theorem newPieceRequest_noPiece (s : HState) (i : Bool) (rd : ReqData) : noPiece (newPieceRequest s i rd).2 = true := by
  unfold newPieceRequest
  simp only [noPiece_append, sendRequest_noPiece, Bool.and_true]
  cases i <;> simp [noPiece]

theorem pieceFinishReply_noPiece (s : HState) (rep : Rep) (s' : HState) (o : List HOut) (b : Bool)
    (h : pieceFinishReply s rep = some (s', o, b)) : noPiece o = true := by
  unfold pieceFinishReply at h
  split at h
  · cases h; exact newPieceRequest_noPiece _ _ _
  all_goals first
    | (cases h; simp [noPiece])
    | cases h

theorem bcHave_noPiece (sha1 : Bytes → Bytes) (d : Bytes → Option Bytes) (s : HState) (i : Nat) (rep : Rep)
    (s' : HState) (o : List HOut) (e : Option Bool) (h : hstep sha1 d s (.bcHave i rep) = some (s', o, e)) :
    noPiece o = true := by
  simp only [hstep] at h
  split at h
  · cases h; rfl
  · have fin : ∀ (r : Option (HState × List HOut)), (∀ s1 o1, r = some (s1, o1) → noPiece o1 = true) →
        (match r with
          | none => (none : Option HRes)
          | some (s1, o1) =>
            if s1.choked = true then some ({ s1 with msgBuff := s1.msgBuff ++ [i] }, o1, none)
            else some (s1, o1 ++ [HOut.write (Msg.haveP i)], none)) = some (s', o, e) → noPiece o = true := by
      intro r hr hm
      cases r with
      | none => cases hm
      | some p =>
        obtain ⟨s1, o1⟩ := p
        have hno := hr s1 o1 rfl
        simp only at hm
        split at hm
        · simp only [Option.some.injEq, Prod.mk.injEq] at hm; rw [← hm.2.1]; exact hno
        · simp only [Option.some.injEq, Prod.mk.injEq] at hm; rw [← hm.2.1]
          rw [noPiece_append, hno]; rfl
    cases hrx : s.pieceRx with
    | none => rw [hrx] at h; exact fin (some (s, [])) (fun s1 o1 e => by cases e; rfl) h
    | some rx =>
      rw [hrx] at h
      simp only at h
      by_cases hi : rx.index = i
      · simp only [hi, if_true] at h
        cases hpf : pieceFinishReply { s with pieceRx := none } rep with
        | none => rw [hpf] at h; cases h
        | some t =>
          obtain ⟨s2, o2, b2⟩ := t
          rw [hpf] at h
          refine fin (some (s2, _)) (fun s1 o1 e => ?_) h
          cases e
          have := pieceFinishReply_noPiece _ _ _ _ _ hpf
          simp only [noPiece_append, this, Bool.and_true]
          simp [noPiece, List.all_map]
      · simp only [hi, if_false] at h
        exact fin (some (s, [])) (fun s1 o1 e => by cases e; rfl) h


/-! ### One step of the task against the monitor -/

def endOf : Cont → Option Bool
  | .go => none
  | .endNormal => some true
  | .endError => some false

def stOf (c : Cont) (s1 : HState) : HState :=
  match c with
  | .go => s1
  | _ => { s1 with alive := false }


def R08 (infoHash ownId : Bytes) (st : M08) (s : HState) : Prop :=
  st.alive = s.alive ∧ st.validated = s.hsDone ∧ st.expected = s.peerId ∧ s.infoHash = infoHash ∧ s.ownId = ownId

/-- What every step other than a received frame guarantees. -/
structure Facts (s s' : HState) (o : List HOut) (e : Option Bool) : Prop where
  noPiece : noPiece o = true
  hs : s'.hsDone = s.hsDone
  pid : s'.peerId = s.peerId
  ih : s'.infoHash = s.infoHash
  own : s'.ownId = s.ownId
  alive : s'.alive = e.isNone

theorem nonframe_facts (sha1 : Bytes → Bytes) (s : HState) (ha : s.alive = true) (inp : TIn)
    (hnf : ∀ m r d, inp ≠ .frame m r d) (hns : ∀ r, inp ≠ .start r)
    (s' : HState) (o : List HOut) (e : Option Bool) (h : tstep sha1 s inp = some (s', o, e)) : Facts s s' o e := by
  have hg : (!s.alive) = false := by simp [ha]
  cases inp with
  | frame m r d => exact absurd rfl (hnf m r d)
  | start r => exact absurd rfl (hns r)
  | recvErr =>
    simp only [tstep, hstep, hg, Bool.false_eq_true, if_false, terminate] at h; cases h
    exact ⟨rfl, rfl, rfl, rfl, rfl, rfl⟩
  | eof =>
    simp only [tstep, hstep, hg, Bool.false_eq_true, if_false, terminate] at h; cases h
    exact ⟨rfl, rfl, rfl, rfl, rfl, rfl⟩
  | bcState en =>
    simp only [tstep, hstep, hg, Bool.false_eq_true, if_false] at h
    split at h <;> cases h <;> exact ⟨rfl, rfl, rfl, rfl, rfl, ha⟩
  | bcHave i rep =>
    simp only [tstep] at h
    obtain ⟨he, _, h2, h3, h4, _, h6, h7⟩ := hstep_bcHave_core sha1 _ s ha i rep s' o e h
    subst he
    exact ⟨bcHave_noPiece sha1 _ s i rep s' o none h, h6, h7, h3, h4, by rw [h2]; exact ha⟩
  | ticks k =>
    simp only [tstep, ticks_facts s ha, Option.some.injEq, Prod.mk.injEq] at h
    obtain ⟨rfl, rfl, rfl⟩ := h
    refine ⟨?_, rfl, rfl, rfl, rfl, ?_⟩
    · simp [noPiece, List.all_replicate]
    · cases (kaRun KEEP_ALIVE_LIMIT s.keepAlive k).2.2 <;> rfl

theorem step08_sound (sha1 : Bytes → Bytes) (infoHash ownId : Bytes) (st : M08) (s : HState) (inp : TIn)
    (s' : HState) (o : List HOut) (e : Option Bool) (hR : R08 infoHash ownId st s)
    (h : tstep sha1 s inp = some (s', o, e)) :
    ∃ st', step08 infoHash ownId st (inp, o.filterMap (obsOf sha1), e) = some st' ∧ R08 infoHash ownId st' s' := by
  obtain ⟨hRa, hRv, hRe, hRi, hRo⟩ := hR
  cases ha : s.alive with
  | false =>
    rw [tstep_dead sha1 s ha inp] at h; cases h
    exact ⟨st, by simp [step08, hRa, ha, deadOk], ⟨hRa, hRv, hRe, hRi, hRo⟩⟩
  | true =>
    have hg : (!s.alive) = false := by simp [ha]
    have hsa : (!st.alive) = false := by rw [hRa]; exact hg
    by_cases hfr : ∃ m r d, inp = .frame m r d
    · obtain ⟨m, r, d, rfl⟩ := hfr
      simp only [tstep, hstep, hg, Bool.false_eq_true, if_false] at h
      -- the state after the first lines of handle_frame
      let s0 : HState := { s with keepAlive := kaAfter m s.keepAlive }
      cases hf : handleFrame sha1 (diskOf d) s m r with
      | none => rw [hf] at h; cases h
      | some res =>
        obtain ⟨s1, o1, c⟩ := res
        rw [hf] at h
        -- what the trace records, in terms of handle_frame's result
        have hrec : o = o1 ∧ e = endOf c ∧ s' = stOf c s1 := by
          cases c <;> simp only [terminate, Option.some.injEq, Prod.mk.injEq] at h <;>
            exact ⟨h.2.1.symm, h.2.2.symm, h.1.symm⟩
        obtain ⟨rfl, he, hs'⟩ := hrec
        obtain ⟨_, ha1, hi1, ho1, _⟩ := handleFrame_core sha1 _ s m r s1 o c hf
        have hal : s'.alive = e.isNone := by
          rw [hs', he]; cases c <;> simp [stOf, endOf, ha1, ha]
        have hih : s'.infoHash = infoHash ∧ s'.ownId = ownId := by
          rw [hs']; cases c <;> simp [stOf, hi1, ho1, hRi, hRo]
        unfold handleFrame at hf
        simp only at hf
        cases hm : isHandshake m with
        | true =>
          cases m with
          | handshake ih pid =>
            simp only [isHandshake, Bool.not_true, Bool.and_false, Bool.false_eq_true, if_false, dispatch] at hf
            rcases onHandshake_cases s0 ih pid r s1 o c hf with
              ⟨hrej, rfl, rfl, rfl⟩ | ⟨hih', hpn, rfl, rfl, bs, rfl⟩ | ⟨hih', hps, rfl, rfl, rfl⟩
            · -- rejected
              have hinv : hsValid infoHash st.expected ih pid = false := by
                unfold hsValid
                rcases hrej with h1 | ⟨ex, h2, h3⟩
                · have : ¬ ih = infoHash := by rw [← hRi]; exact h1
                  simp [this]
                · have : st.expected = some ex := by rw [hRe]; exact h2
                  have h3' : ¬ ex = pid := fun c => h3 c.symm
                  simp [this, h3']
              subst he; subst hs'
              refine ⟨{ st with alive := false }, ?_, ⟨rfl, hRv, hRe, hRi, hRo⟩⟩
              simp only [step08, step08c, hsOf, hsa, Bool.false_eq_true, if_false, hinv, List.filterMap_nil, List.any_nil, Bool.not_false,
                endOf, Option.isSome_some, Bool.and_self, if_true]
            · -- accepted, our handshake is the answer
              have hexp : st.expected = none := by rw [hRe]; exact hpn
              have hval : hsValid infoHash st.expected ih pid = true := by
                simp [hsValid, hexp, hih', s0, hRi]
              subst he; subst hs'
              refine ⟨{ validated := true, expected := some pid, alive := true }, ?_, ⟨ha.symm, rfl, rfl, hRi, hRo⟩⟩
              simp only [step08, step08c, hsOf, hsa, Bool.false_eq_true, if_false, hval, if_true, endOf]
              simp [hexp, obsOf, writes, isPieceWrite, startsWithOurHandshake, s0, hRi, hRo]
            · -- accepted, id known: no answer
              have hexp : st.expected = some pid := by rw [hRe]; exact hps
              have hval : hsValid infoHash st.expected ih pid = true := by
                simp [hsValid, hexp, hih', s0, hRi]
              subst he; subst hs'
              refine ⟨{ validated := true, expected := some pid, alive := true }, ?_, ⟨ha.symm, rfl, rfl, hRi, hRo⟩⟩
              simp only [step08, step08c, hsOf, hsa, Bool.false_eq_true, if_false, hval, if_true, endOf]
              simp [hexp, isWrite, isPieceWrite]
          | _ => simp [isHandshake] at hm
        | false =>
          have hstepform : ∀ (obs : List Obs), (¬ st.validated = true → obs = []) →
              ∃ st', step08 infoHash ownId st (.frame m r d, obs, e) = some st' ∧ st' = { st with alive := e.isNone } := by
            intro obs hobs
            refine ⟨_, ?_, rfl⟩
            cases m <;> first
              | (by_cases hv : st.validated = true
                 · simp only [step08, step08c, hsOf, hsa, Bool.false_eq_true, if_false, noPieceUnless, hv, Bool.true_or, Bool.and_self, if_true]
                 · have := hobs hv; subst this
                   simp only [step08, step08c, hsOf, hsa, Bool.false_eq_true, if_false, noPieceUnless, List.any_nil, Bool.not_false,
                     Bool.or_true, Bool.and_self, if_true])
              | (simp [isHandshake] at hm)
          by_cases hgate : (!s.hsDone && !isHandshake m) = true
          · -- refused: nothing at all is emitted
            rw [if_pos (by simpa [hm] using hgate)] at hf
            simp only [Option.some.injEq, Prod.mk.injEq] at hf
            obtain ⟨rfl, rfl, rfl⟩ := hf
            obtain ⟨st', h1, rfl⟩ := hstepform [] (fun _ => rfl)
            subst he; subst hs'
            exact ⟨_, h1, ⟨rfl, hRv, hRe, hRi, hRo⟩⟩
          · rw [if_neg (by simpa [hm] using hgate)] at hf
            have hdone : s.hsDone = true := by
              cases hh : s.hsDone with
              | true => rfl
              | false => exact absurd (by simp [hh, hm]) hgate
            obtain ⟨_, _, _, _, _, h6, h7⟩ := dispatch_core sha1 _ s0 m r hm s1 o c hf
            have hv : st.validated = true := by rw [hRv]; exact hdone
            obtain ⟨st', h1, rfl⟩ := hstepform (o.filterMap (obsOf sha1)) (fun c => absurd hv c)
            refine ⟨_, h1, ⟨hal.symm, ?_, ?_, hih.1, hih.2⟩⟩
            · rw [hs']; cases c <;> simp [stOf, h6, hRv, s0]
            · rw [hs']; cases c <;> simp [stOf, h7, hRe, s0]
    · have hnf : ∀ m r d, inp ≠ .frame m r d := fun m r d c => hfr ⟨m, r, d, c⟩
      by_cases hst : ∃ r, inp = .start r
      · obtain ⟨r, rfl⟩ := hst
        simp only [tstep, hstart, hg, Bool.false_eq_true, if_false] at h
        cases hp : s.peerId with
        | none =>
          rw [hp] at h; cases h
          refine ⟨{ st with alive := true }, ?_, ⟨ha.symm, hRv, hRe, hRi, hRo⟩⟩
          have hexp : st.expected = none := by rw [hRe]; exact hp
          simp [step08, step08c, hsa, hexp, noPieceUnless]
        | some pid =>
          rw [hp] at h
          simp only at h
          cases hi : initHandshake s pid r with
          | none => rw [hi] at h; cases h
          | some oo =>
            rw [hi] at h; cases h
            unfold initHandshake at hi
            cases r with
            | bitfield bs =>
              simp only [Option.some.injEq] at hi; subst hi
              refine ⟨{ st with alive := true }, ?_, ⟨ha.symm, hRv, hRe, hRi, hRo⟩⟩
              have hexp : st.expected = some pid := by rw [hRe]; exact hp
              simp [step08, step08c, hsa, hexp, obsOf, writes, isPieceWrite, hRi, hRo, noPieceUnless, startsWithOurHandshake]
            | _ => cases hi
      · have hns : ∀ r, inp ≠ .start r := fun r c => hst ⟨r, c⟩
        have F := nonframe_facts sha1 s ha inp hnf hns s' o e h
        have hnp := obs_noPiece sha1 o F.noPiece
        refine ⟨{ st with alive := e.isNone }, ?_, ⟨F.alive.symm, by rw [F.hs]; exact hRv, by rw [F.pid]; exact hRe,
          by rw [F.ih]; exact hRi, by rw [F.own]; exact hRo⟩⟩
        cases inp <;> first
          | exact absurd rfl (hnf _ _ _)
          | exact absurd rfl (hns _)
          | simp [step08, step08c, hsa, hnp, noPieceUnless]


/-- **Every script**: the observable behaviour of the task satisfies `P08`, for an incoming connection
    (`expected = none`) as well as for one we opened towards the peer the tracker announced (`expected = some id`). -/
theorem C08_trace (sha1 : Bytes → Bytes) (s : HState) (halive : s.alive = true) (hfresh : s.hsDone = false)
    (script : List TIn) : P08 s.infoHash s.ownId s.peerId (runTrace sha1 s script) = true :=
  checkTrace_run sha1 (step08 s.infoHash s.ownId) (R08 s.infoHash s.ownId)
    (fun st t inp t' o e hR h => step08_sound sha1 _ _ st t inp t' o e hR h) script
    { validated := false, expected := s.peerId, alive := true } s ⟨halive.symm, hfresh.symm, rfl, rfl, rfl⟩

/-! ### Nothing about our pieces before the handshake: completion broadcasts -/

def noHaveOut (o : List HOut) : Prop := ∀ j, HOut.write (Msg.haveP j) ∉ o

theorem sendRequest_choked (s : HState) : (sendRequest s).1.choked = s.choked ∧ noHaveOut (sendRequest s).2 := by
  unfold sendRequest
  split
  · split
    · exact ⟨rfl, fun j hj => by simp at hj⟩
    · exact ⟨rfl, fun j hj => by simp at hj⟩
  · exact ⟨rfl, fun j hj => by simp at hj⟩

theorem newPieceRequest_choked (s : HState) (b : Bool) (rd : ReqData) :
    (newPieceRequest s b rd).1.choked = s.choked ∧ noHaveOut (newPieceRequest s b rd).2 := by
  unfold newPieceRequest
  simp only
  have h1 := sendRequest_choked { s with pieceRx := some (newRx rd) }
  have h2 := sendRequest_choked (sendRequest { s with pieceRx := some (newRx rd) }).1
  refine ⟨by rw [h2.1, h1.1], ?_⟩
  intro j hj
  simp only [List.mem_append] at hj
  rcases hj with (hj | hj) | hj
  · cases b <;> simp at hj
  · exact h1.2 j hj
  · exact h2.2 j hj

theorem pieceFinishReply_choked (s : HState) (rep : Rep) (s2 : HState) (o2 : List HOut) (b : Bool)
    (h : pieceFinishReply s rep = some (s2, o2, b)) : s2.choked = s.choked ∧ noHaveOut o2 := by
  unfold pieceFinishReply at h
  cases rep with
  | req rd wi =>
    cases wi with
    | false =>
      simp only [Option.some.injEq, Prod.mk.injEq] at h
      obtain ⟨rfl, rfl, _⟩ := h
      exact newPieceRequest_choked s false rd
    | true => cases h
  | sendNotInterested =>
    simp only [Option.some.injEq, Prod.mk.injEq] at h
    obtain ⟨rfl, rfl, _⟩ := h
    exact ⟨rfl, fun j hj => by simp at hj⟩
  | prepareKill =>
    simp only [Option.some.injEq, Prod.mk.injEq] at h
    obtain ⟨rfl, rfl, _⟩ := h
    exact ⟨rfl, fun j hj => by simp at hj⟩
  | ignore =>
    simp only [Option.some.injEq, Prod.mk.injEq] at h
    obtain ⟨rfl, rfl, _⟩ := h
    exact ⟨rfl, fun j hj => by simp at hj⟩
  | bitfield _ => cases h
  | sendInterested => cases h
  | state _ _ => cases h
  | load _ _ => cases h
  | none => cases h

/-- A completion broadcast never changes whether the peer chokes us, and while it does, no `Have` is written (it is
    buffered). -/
theorem bcHave_choked (sha1 : Bytes → Bytes) (d : Bytes → Option Bytes) (s : HState) (ha : s.alive = true) (i : Nat)
    (rep : Rep) (s' : HState) (o : List HOut) (e : Option Bool) (h : hstep sha1 d s (.bcHave i rep) = some (s', o, e)) :
    s'.choked = s.choked ∧ (s.choked = true → noHaveOut o) := by
  have hg : (!s.alive) = false := by simp [ha]
  simp only [hstep, hg, Bool.false_eq_true, if_false] at h
  have fin : ∀ (r : Option (HState × List HOut)), (∀ s1 o1, r = some (s1, o1) → s1.choked = s.choked ∧ noHaveOut o1) →
      (match r with
        | none => (none : Option HRes)
        | some (s1, o1) =>
          if s1.choked = true then some ({ s1 with msgBuff := s1.msgBuff ++ [i] }, o1, none)
          else some (s1, o1 ++ [HOut.write (Msg.haveP i)], none)) = some (s', o, e) →
      s'.choked = s.choked ∧ (s.choked = true → noHaveOut o) := by
    intro r hr hm
    cases r with
    | none => cases hm
    | some p =>
      obtain ⟨s1, o1⟩ := p
      obtain ⟨hc, hno⟩ := hr s1 o1 rfl
      simp only at hm
      split at hm
      · simp only [Option.some.injEq, Prod.mk.injEq] at hm
        obtain ⟨rfl, rfl, _⟩ := hm
        exact ⟨hc, fun _ => hno⟩
      · rename_i hnc
        simp only [Option.some.injEq, Prod.mk.injEq] at hm
        obtain ⟨rfl, rfl, _⟩ := hm
        refine ⟨hc, fun hch => ?_⟩
        rw [hc] at hnc
        exact absurd hch hnc
  cases hrx : s.pieceRx with
  | none => rw [hrx] at h; exact fin (some (s, [])) (fun s1 o1 e => by cases e; exact ⟨rfl, fun j hj => by simp at hj⟩) h
  | some rx =>
    rw [hrx] at h
    simp only at h
    by_cases hi : rx.index = i
    · simp only [hi, if_true] at h
      cases hpf : pieceFinishReply { s with pieceRx := none } rep with
      | none => rw [hpf] at h; cases h
      | some t =>
        obtain ⟨s2, o2, b2⟩ := t
        rw [hpf] at h
        refine fin (some (s2, _)) (fun s1 o1 e => ?_) h
        cases e
        obtain ⟨h1, h2⟩ := pieceFinishReply_choked _ _ _ _ _ hpf
        refine ⟨h1, ?_⟩
        intro j hj
        simp only [List.mem_append, List.mem_map, List.mem_singleton] at hj
        rcases hj with (⟨bl, _, hbl⟩ | hj) | hj
        · cases hbl
        · cases hj
        · exact h2 j hj
    · simp only [hi, if_false] at h
      exact fin (some (s, [])) (fun s1 o1 e => by cases e; exact ⟨rfl, fun j hj => by simp at hj⟩) h

theorem noHaveOut_obs (sha1 : Bytes → Bytes) (o : List HOut) (h : noHaveOut o) :
    (o.filterMap (obsOf sha1)).any isHaveWrite = false := by
  induction o with
  | nil => rfl
  | cons x xs ih =>
    have hx : noHaveOut xs := fun j hj => h j (List.mem_cons_of_mem _ hj)
    have ih' := ih hx
    cases x with
    | write m =>
      cases m with
      | haveP j => exact absurd (List.mem_cons_self) (h j)
      | _ => simpa [obsOf, isHaveWrite] using ih'
    | cmd c => simpa [obsOf, isHaveWrite] using ih'
    | save hh dd => simpa [obsOf, isHaveWrite] using ih'
    | load hh => simpa [obsOf] using ih'

theorem step08c_keeps_validated (infoHash ownId : Bytes) (st st' : M08) (inp : TIn) (obs : List Obs) (e : Option Bool)
    (hv : st.validated = true) (h : step08c infoHash ownId st inp obs e = some st') : st'.validated = true := by
  unfold step08c at h
  repeat' split at h
  all_goals (cases h <;> first | rfl | exact hv)

/-- The relation of the extended monitor: `R08`, and a live task whose handshake is still outstanding is (still) choked
    by the peer — the initial state, which only a frame handled after the handshake can change. -/
def R08h (infoHash ownId : Bytes) (st : M08) (s : HState) : Prop :=
  R08 infoHash ownId st s ∧ (s.alive = true → s.hsDone = false → s.choked = true)

theorem step08h_sound (sha1 : Bytes → Bytes) (infoHash ownId : Bytes) (st : M08) (s : HState) (inp : TIn)
    (s' : HState) (o : List HOut) (e : Option Bool) (hR : R08h infoHash ownId st s)
    (h : tstep sha1 s inp = some (s', o, e)) :
    ∃ st', step08h infoHash ownId st (inp, o.filterMap (obsOf sha1), e) = some st' ∧ R08h infoHash ownId st' s' := by
  obtain ⟨hR0, hC⟩ := hR
  obtain ⟨st', h1, hR1⟩ := step08_sound sha1 infoHash ownId st s inp s' o e hR0 h
  obtain ⟨hRa, hRv, _, _, _⟩ := hR0
  -- the invariant after the step
  have hinv : s'.alive = true → s'.hsDone = false → s'.choked = true := by
    intro ha' hd'
    cases ha : s.alive with
    | false => rw [tstep_dead sha1 s ha inp] at h; cases h; rw [ha] at ha'; cases ha'
    | true =>
      have hg : (!s.alive) = false := by simp [ha]
      cases inp with
      | start rep =>
        simp only [tstep, hstart, hg, Bool.false_eq_true, if_false] at h
        split at h
        · split at h
          · cases h; exact hC ha hd'
          · cases h
        · cases h; exact hC ha hd'
      | frame m rep dk =>
        simp only [tstep, hstep, hg, Bool.false_eq_true, if_false] at h
        cases hf : handleFrame sha1 (diskOf dk) s m rep with
        | none => rw [hf] at h; cases h
        | some res =>
          obtain ⟨s1, o1, c⟩ := res
          rw [hf] at h
          cases c with
          | endNormal => simp only [terminate, Option.some.injEq, Prod.mk.injEq] at h; rw [← h.1] at ha'; cases ha'
          | endError => simp only [terminate, Option.some.injEq, Prod.mk.injEq] at h; rw [← h.1] at ha'; cases ha'
          | go =>
            simp only [Option.some.injEq, Prod.mk.injEq] at h
            obtain ⟨rfl, _, _⟩ := h
            unfold handleFrame at hf
            simp only at hf
            cases hsd : s.hsDone with
            | false =>
              cases hm : isHandshake m with
              | false => simp [hsd, hm] at hf
              | true =>
                cases m with
                | handshake ih pid =>
                  simp only [isHandshake, Bool.not_true, Bool.and_false, Bool.false_eq_true, if_false, dispatch] at hf
                  rcases onHandshake_cases _ ih pid rep s1 o1 .go hf with
                    ⟨_, _, _, hc⟩ | ⟨_, _, rfl, _, _⟩ | ⟨_, _, rfl, _, _⟩
                  · cases hc
                  · simp at hd'
                  · simp at hd'
                | _ => simp [isHandshake] at hm
            | true =>
              -- the handshake was done before: it stays done
              have : st'.validated = true := by
                have hv : st.validated = true := by rw [hRv]; exact hsd
                have hsa : (!st.alive) = false := by rw [hRa]; exact hg
                unfold step08 at h1
                rw [if_neg (by simp [hsa])] at h1
                exact step08c_keeps_validated infoHash ownId st st' _ _ _ hv h1
              rw [hR1.2.1] at this
              rw [this] at hd'; cases hd'
      | recvErr => simp only [tstep, hstep, hg, Bool.false_eq_true, if_false, terminate] at h; cases h; cases ha'
      | eof => simp only [tstep, hstep, hg, Bool.false_eq_true, if_false, terminate] at h; cases h; cases ha'
      | bcHave i rep =>
        simp only [tstep] at h
        have hc := (bcHave_choked sha1 _ s ha i rep s' o e h).1
        have hcore := (hstep_bcHave_core sha1 _ s ha i rep s' o e h).2
        rw [hc]
        exact hC ha (by rw [← hcore.2.2.2.2.2.1]; exact hd')
      | bcState en =>
        simp only [tstep, hstep, hg, Bool.false_eq_true, if_false] at h
        split at h <;> cases h <;> exact hC ha hd'
      | ticks k =>
        simp only [tstep, ticks_facts s ha, Option.some.injEq, Prod.mk.injEq] at h
        obtain ⟨rfl, _, _⟩ := h
        exact hC ha hd'
  refine ⟨st', ?_, ⟨hR1, hinv⟩⟩
  unfold step08h
  -- the additional clause never fires on the model
  have hclause : (st.alive && !st.validated && isBcHave inp && (o.filterMap (obsOf sha1)).any isHaveWrite) = false := by
    cases hal : st.alive with
    | false => simp
    | true =>
      cases hv : st.validated with
      | true => simp
      | false =>
        cases inp with
        | bcHave i rep =>
          have ha : s.alive = true := by rw [← hRa]; exact hal
          have hd : s.hsDone = false := by rw [← hRv]; exact hv
          simp only [tstep] at h
          have := (bcHave_choked sha1 _ s ha i rep s' o e h).2 (hC ha hd)
          simp [isBcHave, noHaveOut_obs sha1 o this]
        | _ => simp [isBcHave]
  simp only [hclause, Bool.false_eq_true, if_false]
  exact h1

/-- **Every script (extended monitor)**: in addition to `C08_trace`, no `Have` announcement leaves on a connection —
    incoming or outgoing — before a handshake has validated on it. -/
theorem C08_trace_h (sha1 : Bytes → Bytes) (s : HState) (halive : s.alive = true) (hfresh : s.hsDone = false)
    (hchoked : s.choked = true) (script : List TIn) : P08h s.infoHash s.ownId s.peerId (runTrace sha1 s script) = true :=
  checkTrace_run sha1 (step08h s.infoHash s.ownId) (R08h s.infoHash s.ownId)
    (fun st t inp t' o e hR h => step08h_sound sha1 _ _ st t inp t' o e hR h) script
    { validated := false, expected := s.peerId, alive := true } s
    ⟨⟨halive.symm, hfresh.symm, rfl, rfl, rfl⟩, fun _ _ => hchoked⟩

/-! ### Non-vacuity (tests): a bitfield before any handshake is refused without a reply -/

example :
    let s : HState := { infoHash := [7], ownId := [1], piecesNum := 8 }
    runTrace (fun b => b) s [.frame (.bitfield [0xff]) (.state true true) none] =
      [(.frame (.bitfield [0xff]) (.state true true) none, [], some false)] := by decide

example :
    let s : HState := { infoHash := [7], ownId := [1], piecesNum := 8 }
    (runTrace (fun b => b) s [.frame (.handshake [7] [9]) (.bitfield [0]) none]).map (·.2.1) =
      [[.write (.handshake [7] [1]), .cmd (.init [9]), .write (.bitfield [0])]] := by decide

end Rdest.Props.C08
