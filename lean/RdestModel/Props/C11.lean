/-
  C11 — the client never advertises a piece it has not verified.
-/
import RdestModel.Lemmas.Trace
import RdestModel.Lemmas.Bitfield
import RdestModel.Props.C01
import RdestModel.Lemmas.Adv
import RdestModel.Swarm.Init
set_option linter.unusedSimpArgs false
set_option linter.unusedVariables false
namespace Rdest.Props.C11
open Rdest Rdest.Wire Rdest.Gen Rdest.Swarm

/-! ### T1: the bitfield sent after the handshake marks exactly the pieces owned at that moment -/


/-- Bit `i` of the bitfield (BEP3 bit order) is set exactly when piece `i` is owned when `Init` is handled; spare
    bits are zero. With C01 (owned ⇒ verified data stored) every advertised piece is verified and stored. -/
theorem T1_bitfield_marks_exactly_owned (statuses : List Status) (i : Nat) :
    specBit (initBitfield statuses) i = decide (statuses[i]? = some .have) := by
  unfold initBitfield
  rw [specBit_fromVec]
  simp only [List.getD_eq_getElem?_getD, List.getElem?_map]
  cases h : statuses[i]? with
  | none => simp
  | some st => cases st <;> simp

/-- The connection task writes exactly the bytes the manager computed (`init_handshake`). -/
theorem T1_task_writes_managers_bitfield (s : HState) (pid bs : Bytes) :
    initHandshake s pid (.bitfield bs) =
      some [.write (.handshake s.infoHash s.ownId), .cmd (.init pid), .write (.bitfield bs)] := rfl

/-! ### T2/T3: have-announcements -/

/-- `handle_manager_cmd(SendHave i)` when the announced piece is not the one being downloaded: held back while the
    peer chokes us (appended, so completion order is kept), written at once otherwise. -/
theorem T3_sendHave_buffers_or_writes (sha1 : Bytes → Bytes) (d : Bytes → Option Bytes) (s : HState) (i : Nat) (rep : Rep)
    (ha : s.alive = true) (hrx : ∀ rx, s.pieceRx = some rx → rx.index ≠ i) :
    hstep sha1 d s (.bcHave i rep) =
      some (if s.choked then ({ s with msgBuff := s.msgBuff ++ [i] }, [], none)
            else (s, [.write (.haveP i)], none)) := by
  obtain ⟨ih, own, np, pid, hsd, tx, prx, ch, intr, ka, mb, al⟩ := s
  simp only at ha hrx
  subst ha
  cases prx with
  | none => cases ch <;> simp [hstep]
  | some rx =>
    have hne := hrx rx rfl
    cases ch <;> simp [hstep, hne]

/-- `handle_unchoke`: everything held back is written first, in order, and nothing stays behind. -/
theorem T3_unchoke_flushes_in_order (s : HState) (rep : Rep) (s' : HState) (o : List HOut) (c : Cont)
    (h : onUnchoke s rep = some (s', o, c)) :
    s'.msgBuff = [] ∧ s'.choked = false ∧
    ∃ rest, o = s.msgBuff.map (fun i => HOut.write (.haveP i)) ++ [.cmd .recvUnchoke] ++ rest := by
  unfold onUnchoke at h
  simp only at h
  split at h
  · rename_i rd wi
    cases h
    obtain ⟨_, _, _, _, _, _, _⟩ := newPieceRequest_core { s with choked := false, msgBuff := [] } wi rd
    have hm : (newPieceRequest { s with choked := false, msgBuff := [] } wi rd).1.msgBuff = [] ∧
        (newPieceRequest { s with choked := false, msgBuff := [] } wi rd).1.choked = false := by
      unfold newPieceRequest sendRequest
      simp only
      repeat' (first | split | exact ⟨rfl, rfl⟩)
    exact ⟨hm.1, hm.2, _, rfl⟩
  · cases h; exact ⟨rfl, rfl, _, rfl⟩
  · cases h; exact ⟨rfl, rfl, [], by simp⟩
  · cases h

/-- The manager broadcasts `SendHave i` only in the step that marks `i` owned (`handle_piece_done`), which a task
    triggers only after it stored verified data (C01.T1, C01.T3). -/
def broadcastHave (s : MState) : Ev → Option Nat
  | .pieceDone a _ => (findPeer s a).bind (·.pieceIndex)
  | _ => none

theorem T2_have_broadcast_only_for_owned (s s' : MState) (ev : Ev) (r : Reply) (i : Nat)
    (hstep : mstep s ev = .ok s' r) (hb : broadcastHave s ev = some i) (hi : i < s.statuses.length) :
    s'.statuses[i]? = some .have := by
  cases ev with
  | pieceDone a chosen =>
    simp only [broadcastHave] at hb
    cases hp : findPeer s a with
    | none => simp [hp] at hb
    | some p =>
      simp only [hp, Option.bind_some] at hb
      simp only [mstep, hp, hb, Out.ok.injEq] at hstep
      rw [← hstep.1]
      have h1 : (modifyAt s.statuses i (fun _ => Status.have))[i]? = some .have := by
        rw [modifyAt_getElem?]; simp [List.getElem?_eq_getElem hi]
      -- handle_piece never takes `Have` away
      unfold handlePiece
      cases chosen with
      | none => exact h1
      | some c =>
        dsimp only; split
        · exact h1
        · rw [modifyAt_getElem?]; split <;> simp [h1, incr]
  | _ => simp [broadcastHave] at hb

/-! ### The whole trace: every script -/

def R11 (st : M11) (s : HState) : Prop :=
  st.alive = s.alive ∧ (s.alive = true → st.choked = s.choked ∧ st.buffered = s.msgBuff)

theorem quiet_cancels (i : Nat) (l : List (Nat × Nat)) : Quiet (l.map fun bl => HOut.write (.cancel i bl.1 bl.2)) := by
  induction l with
  | nil => exact ⟨rfl, rfl⟩
  | cons x xs ih =>
    obtain ⟨h1, h2⟩ := ih
    simp only [List.map_cons]
    exact ⟨by simp only [hvsO, List.filterMap_cons] at h1 ⊢; exact h1, by simp only [bfsO, List.filterMap_cons] at h2 ⊢; exact h2⟩

theorem quiet_replicate_ka (n : Nat) : Quiet (List.replicate n (HOut.write Msg.keepAlive)) := by
  induction n with
  | zero => exact ⟨rfl, rfl⟩
  | succ n ih =>
    obtain ⟨h1, h2⟩ := ih
    simp only [List.replicate_succ]
    exact ⟨by simp only [hvsO, List.filterMap_cons] at h1 ⊢; exact h1, by simp only [bfsO, List.filterMap_cons] at h2 ⊢; exact h2⟩

/-- Acceptance of a step that announces nothing, by a monitor branch that only looks at the announcements. -/
theorem accept_quiet (sha1 : Bytes → Bytes) (st : M11) (s s' : HState) (inp : TIn) (o : List HOut) (e : Option Bool)
    (hR : R11 st s) (ha : s.alive = true) (hq : Quiet o)
    (hnotspecial : (∀ i rep, inp ≠ .bcHave i rep) ∧ (∀ rep d, inp ≠ .frame .choke rep d) ∧ (∀ rep d, inp ≠ .frame .unchoke rep d))
    (hs' : s'.alive = e.isNone ∧ (e.isNone = true → Keep s s')) :
    ∃ st', step11 st (inp, o.filterMap (obsOf sha1), e) = some st' ∧ R11 st' s' := by
  obtain ⟨hRa, hRs⟩ := hR
  obtain ⟨hc, hb⟩ := hRs ha
  have hh : haveWrites (o.filterMap (obsOf sha1)) = [] := by rw [haveWrites_obs]; exact hq.1
  have hbf : bitfieldWrites (o.filterMap (obsOf sha1)) = [] := by rw [bitfieldWrites_obs]; exact hq.2
  have hlive : (!st.alive) = false := by rw [hRa, ha]; rfl
  refine ⟨{ st with alive := e.isNone }, ?_, ?_⟩
  · simp only [step11, hlive, Bool.false_eq_true, if_false, step11c, hbf, hh]
    obtain ⟨h1, h2, h3⟩ := hnotspecial
    cases inp with
    | bcHave i rep => exact absurd rfl (h1 i rep)
    | frame m rep d =>
      cases m with
      | choke => exact absurd rfl (h2 rep d)
      | unchoke => exact absurd rfl (h3 rep d)
      | handshake ih pid => cases rep <;> simp
      | _ => simp
    | start rep => cases rep <;> simp
    | _ => simp
  · refine ⟨hs'.1.symm, fun hal => ?_⟩
    have he : e.isNone = true := by rw [← hs'.1]; exact hal
    obtain ⟨k1, k2⟩ := hs'.2 he
    exact ⟨by show st.choked = s'.choked; rw [k1]; exact hc, by show st.buffered = s'.msgBuff; rw [k2]; exact hb⟩

end Rdest.Props.C11

namespace Rdest.Props.C11
open Rdest Rdest.Wire Rdest.Gen Rdest.Swarm


/-- The bitfield written in reaction to a handshake is the one of the manager's reply. -/
theorem onHandshake_bitfield (s : HState) (ih pid : Bytes) (rep : Rep) (s' : HState) (c : Cont) (x y : HOut) (bs : Bytes)
    (h : onHandshake s ih pid rep = some (s', [x, y, .write (.bitfield bs)], c)) : rep = .bitfield bs := by
  unfold onHandshake at h
  by_cases h1 : ih ≠ s.infoHash
  · rw [if_pos h1] at h; simp at h
  · rw [if_neg h1] at h
    cases hp : s.peerId with
    | none =>
      rw [hp] at h
      simp only [Bool.false_eq_true, if_false, Option.isNone_none, if_true] at h
      cases rep with
      | bitfield b =>
        simp only [initHandshake, Option.some.injEq, Prod.mk.injEq, List.cons.injEq, HOut.write.injEq,
          Msg.bitfield.injEq] at h
        rw [h.2.1.2.2.1]
      | _ => simp [initHandshake] at h
    | some e =>
      rw [hp] at h
      by_cases h2 : pid ≠ e
      · have hd : decide (pid ≠ e) = true := decide_eq_true h2
        simp [hd] at h
      · have hd : decide (pid ≠ e) = false := decide_eq_false h2
        simp [hd] at h

theorem step11_sound (sha1 : Bytes → Bytes) (st : M11) (s : HState) (inp : TIn) (s' : HState) (o : List HOut)
    (e : Option Bool) (hR : R11 st s) (h : tstep sha1 s inp = some (s', o, e)) :
    ∃ st', step11 st (inp, o.filterMap (obsOf sha1), e) = some st' ∧ R11 st' s' := by
  cases ha : s.alive with
  | false =>
    rw [tstep_dead sha1 s ha inp] at h; cases h
    refine ⟨st, ?_, hR⟩
    simp [step11, hR.1, ha, deadOk]
  | true =>
    have hg : (!s.alive) = false := by simp [ha]
    have hlive : (!st.alive) = false := by rw [hR.1, ha]; rfl
    obtain ⟨hc, hb⟩ := hR.2 ha
    have ns : ∀ (x : TIn), (∀ i rep, x ≠ .bcHave i rep) → (∀ rep d, x ≠ .frame .choke rep d) →
        (∀ rep d, x ≠ .frame .unchoke rep d) →
        (∀ i rep, x ≠ .bcHave i rep) ∧ (∀ rep d, x ≠ .frame .choke rep d) ∧ (∀ rep d, x ≠ .frame .unchoke rep d) :=
      fun _ a b c => ⟨a, b, c⟩
    cases inp with
    | ticks k =>
      simp only [tstep, ticks_facts s ha, Option.some.injEq, Prod.mk.injEq] at h
      obtain ⟨rfl, rfl, rfl⟩ := h
      refine accept_quiet sha1 st s _ _ _ _ hR ha (quiet_replicate_ka _) (ns _ (by simp) (by simp) (by simp)) ⟨?_, fun _ => ⟨rfl, rfl⟩⟩
      generalize (kaRun KEEP_ALIVE_LIMIT s.keepAlive k).2.2 = b
      cases b <;> rfl
    | eof =>
      simp only [tstep, hstep, hg, Bool.false_eq_true, if_false, terminate] at h
      cases h
      exact accept_quiet sha1 st s _ _ _ _ hR ha quiet_nil (ns _ (by simp) (by simp) (by simp)) ⟨rfl, fun c => by cases c⟩
    | recvErr =>
      simp only [tstep, hstep, hg, Bool.false_eq_true, if_false, terminate] at h
      cases h
      exact accept_quiet sha1 st s _ _ _ _ hR ha quiet_nil (ns _ (by simp) (by simp) (by simp)) ⟨rfl, fun c => by cases c⟩
    | bcState en =>
      simp only [tstep, hstep, hg, Bool.false_eq_true, if_false] at h
      split at h <;> cases h <;>
        exact accept_quiet sha1 st s _ _ _ _ hR ha ⟨rfl, rfl⟩ (ns _ (by simp) (by simp) (by simp)) ⟨ha, fun _ => ⟨rfl, rfl⟩⟩
    | start rep =>
      simp only [tstep, hstart, hg, Bool.false_eq_true, if_false] at h
      split at h
      · rename_i pid hpid
        cases rep with
        | bitfield bs =>
          simp only [initHandshake, Option.some.injEq, Prod.mk.injEq] at h
          obtain ⟨rfl, rfl, rfl⟩ := h
          refine ⟨{ st with alive := true }, ?_, ⟨ha.symm, fun _ => ⟨hc, hb⟩⟩⟩
          simp [step11, hlive, step11c, bitfieldWrites, haveWrites, writes, obsOf]
        | _ => simp [initHandshake] at h
      · cases h
        exact accept_quiet sha1 st s _ _ _ _ hR ha quiet_nil (ns _ (by simp) (by simp) (by simp)) ⟨ha, fun _ => ⟨rfl, rfl⟩⟩
    | bcHave i rep =>
      simp only [tstep, hstep, hg, Bool.false_eq_true, if_false] at h
      -- the cancellation part announces nothing and keeps the mirrored fields
      have inner : ∀ (r : Option (HState × List HOut)),
          (∀ s1 o1, r = some (s1, o1) → Keep s s1 ∧ Quiet o1 ∧ s1.alive = true) →
          (match r with
            | none => (none : Option HRes)
            | some (s1, o1) =>
              if s1.choked = true then some ({ s1 with msgBuff := s1.msgBuff ++ [i] }, o1, none)
              else some (s1, o1 ++ [HOut.write (Msg.haveP i)], none)) = some (s', o, e) →
          ∃ st', step11 st (.bcHave i rep, o.filterMap (obsOf sha1), e) = some st' ∧ R11 st' s' := by
        intro r hr hm
        cases r with
        | none => cases hm
        | some p =>
          obtain ⟨s1, o1⟩ := p
          obtain ⟨hk, hq, hal⟩ := hr s1 o1 rfl
          simp only at hm
          have hbf1 : bitfieldWrites (o1.filterMap (obsOf sha1)) = [] := by rw [bitfieldWrites_obs]; exact hq.2
          have hh1 : haveWrites (o1.filterMap (obsOf sha1)) = [] := by rw [haveWrites_obs]; exact hq.1
          by_cases hch : s1.choked = true
          · rw [if_pos hch] at hm; cases hm
            have hstc : st.choked = true := by rw [hc, ← hk.1]; exact hch
            refine ⟨{ st with buffered := st.buffered ++ [i], alive := true }, ?_, ⟨hal.symm, fun _ => ⟨?_, ?_⟩⟩⟩
            · simp [step11, hlive, step11c, hbf1, hh1, hstc]
            · exact hc.trans hk.1.symm
            · show st.buffered ++ [i] = s1.msgBuff ++ [i]; rw [hk.2, hb]
          · rw [if_neg hch] at hm; cases hm
            have hstc : st.choked = false := by
              rw [hc, ← hk.1]; simpa using hch
            have hbf2 : bitfieldWrites ((o1 ++ [HOut.write (Msg.haveP i)]).filterMap (obsOf sha1)) = [] := by
              rw [bitfieldWrites_obs, bfsO_append, hq.2]; rfl
            have hh2 : haveWrites ((o1 ++ [HOut.write (Msg.haveP i)]).filterMap (obsOf sha1)) = [i] := by
              rw [haveWrites_obs, hvsO_append, hq.1]; rfl
            rw [List.filterMap_append] at hbf2 hh2
            refine ⟨{ st with alive := true }, ?_, ⟨hal.symm, fun _ => ⟨?_, ?_⟩⟩⟩
            · simp [step11, hlive, step11c, hbf2, hh2, hstc]
            · exact hc.trans hk.1.symm
            · exact hb.trans hk.2.symm
      cases hrx : s.pieceRx with
      | none =>
        rw [hrx] at h
        exact inner (some (s, [])) (fun s1 o1 ee => by cases ee; exact ⟨keep_refl s, quiet_nil, ha⟩) h
      | some rx =>
        rw [hrx] at h
        simp only at h
        by_cases hi : rx.index = i
        · simp only [hi, if_true] at h
          cases hpf : pieceFinishReply { s with pieceRx := none } rep with
          | none => rw [hpf] at h; cases h
          | some t =>
            obtain ⟨s2, o2, b2⟩ := t
            rw [hpf] at h
            obtain ⟨hk2, hq2⟩ := pieceFinishReply_adv _ _ _ _ _ hpf
            obtain ⟨_, hal2, _⟩ := pieceFinishReply_core _ _ _ _ _ hpf
            exact inner (some (s2, _)) (fun s1 o1 ee => by
              cases ee
              exact ⟨keep_trans (b := { s with pieceRx := none }) ⟨rfl, rfl⟩ hk2,
                quiet_append (quiet_append (quiet_cancels i _) ⟨rfl, rfl⟩) hq2, by rw [hal2]; exact ha⟩) h
        · simp only [hi, if_false] at h
          exact inner (some (s, [])) (fun s1 o1 ee => by cases ee; exact ⟨keep_refl s, quiet_nil, ha⟩) h
    | frame m rep d =>
      simp only [tstep, hstep, hg, Bool.false_eq_true, if_false] at h
      cases hf : handleFrame sha1 (diskOf d) s m rep with
      | none => rw [hf] at h; cases h
      | some r =>
        obtain ⟨s1, o1, c⟩ := r
        rw [hf] at h
        obtain ⟨_, hal1, _⟩ := handleFrame_core sha1 _ s m rep s1 o1 c hf
        -- the result of the step in terms of (s1, o1, c)
        have hres : o = o1 ∧ ((c = .go ∧ s' = s1 ∧ e = none) ∨ (c ≠ .go ∧ s'.alive = false ∧ e.isNone = false)) := by
          cases c with
          | go => cases h; exact ⟨rfl, Or.inl ⟨rfl, rfl, rfl⟩⟩
          | endNormal => simp only [terminate] at h; cases h; exact ⟨rfl, Or.inr ⟨by simp, rfl, rfl⟩⟩
          | endError => simp only [terminate] at h; cases h; exact ⟨rfl, Or.inr ⟨by simp, rfl, rfl⟩⟩
        obtain ⟨rfl, hcase⟩ := hres
        have halive' : s'.alive = e.isNone := by
          rcases hcase with ⟨_, rfl, rfl⟩ | ⟨_, h1, h2⟩
          · rw [hal1]; exact ha
          · rw [h1, h2]
        -- what `handle_frame` did
        unfold handleFrame at hf
        simp only at hf
        split at hf
        · -- refused before the handshake: nothing written, the task ends
          cases hf
          have hend : e.isNone = false := by
            rcases hcase with ⟨hc', _, _⟩ | ⟨_, _, h2⟩
            · cases hc'
            · exact h2
          have hsd : s'.alive = false := by rw [halive', hend]
          refine ⟨{ st with alive := false, choked := st.choked }, ?_, ⟨by simp [hsd], fun c => by rw [hsd] at c; cases c⟩⟩
          have he : e.isNone = false := hend
          cases m <;> (try cases rep) <;>
            simp [step11, hlive, step11c, bitfieldWrites, haveWrites, writes, cmds, he]
        · -- dispatched
          cases hm : isHandshake m with
          | true =>
            cases m with
            | handshake ih pid =>
              simp only [dispatch] at hf
              rcases onHandshake_cases _ ih pid rep s1 o c hf with ⟨_, rfl, rfl, rfl⟩ | ⟨_, hpn, rfl, rfl, bs, rfl⟩ | ⟨_, _, rfl, rfl, rfl⟩
              · -- rejected
                refine accept_quiet sha1 st s _ _ _ _ hR ha quiet_nil (ns _ (by simp) (by simp) (by simp)) ⟨halive', fun he => ?_⟩
                rcases hcase with ⟨hc', _, _⟩ | ⟨_, _, h2⟩
                · cases hc'
                · rw [h2] at he; cases he
              · -- accepted on an incoming connection: our handshake, Init, the manager's bitfield
                rcases hcase with ⟨_, rfl, rfl⟩ | ⟨hc', _, _⟩
                · -- the bitfield written is the one of the reply
                  have hrep := onHandshake_bitfield _ ih pid rep _ _ _ _ bs hf
                  subst hrep
                  refine ⟨{ st with alive := true }, ?_, ⟨by simp [ha], fun _ => ⟨hc, hb⟩⟩⟩
                  simp [step11, hlive, step11c, bitfieldWrites, haveWrites, writes, obsOf]
                · exact absurd rfl hc'
              · -- accepted where the id was known: nothing is written
                rcases hcase with ⟨_, rfl, rfl⟩ | ⟨hc', _, _⟩
                · exact accept_quiet sha1 st s _ _ _ _ hR ha quiet_nil (ns _ (by simp) (by simp) (by simp))
                    ⟨by simp [ha], fun _ => ⟨rfl, rfl⟩⟩
                · exact absurd rfl hc'
            | _ => simp [isHandshake] at hm
          | false =>
            by_cases hmc : m = .choke
            · subst hmc
              simp only [dispatch, Option.some.injEq, Prod.mk.injEq] at hf
              obtain ⟨rfl, rfl, rfl⟩ := hf
              rcases hcase with ⟨_, rfl, rfl⟩ | ⟨hc', _, _⟩
              · refine ⟨{ st with choked := true, alive := true }, ?_, ⟨by simp [ha], fun _ => ⟨rfl, hb⟩⟩⟩
                simp [step11, hlive, step11c, bitfieldWrites, haveWrites, writes, cmds, obsOf]
              · exact absurd rfl hc'
            · by_cases hmu : m = .unchoke
              · subst hmu
                simp only [dispatch] at hf
                obtain ⟨hmb, hch, _, rest, rfl, hq⟩ := onUnchoke_adv _ rep s1 _ c hf
                have hcm : (cmds ((List.map (fun i => HOut.write (Msg.haveP i)) s.msgBuff ++ [HOut.cmd Cmd.recvUnchoke] ++ rest).filterMap (obsOf sha1))).contains Cmd.recvUnchoke = true := by
                  rw [cmds_obs, cmO_append, cmO_append]
                  simp [cmO]
                have hhv : haveWrites ((List.map (fun i => HOut.write (Msg.haveP i)) s.msgBuff ++ [HOut.cmd Cmd.recvUnchoke] ++ rest).filterMap (obsOf sha1)) = st.buffered := by
                  rw [haveWrites_obs, hvsO_append, hvsO_append, hvsO_flush, hq.1, hb]; simp [hvsO]
                have hbf : bitfieldWrites ((List.map (fun i => HOut.write (Msg.haveP i)) s.msgBuff ++ [HOut.cmd Cmd.recvUnchoke] ++ rest).filterMap (obsOf sha1)) = [] := by
                  rw [bitfieldWrites_obs, bfsO_append, bfsO_append, bfsO_flush, hq.2]; simp [bfsO]
                have htk : (writes ((List.map (fun i => HOut.write (Msg.haveP i)) s.msgBuff ++ [HOut.cmd Cmd.recvUnchoke] ++ rest).filterMap (obsOf sha1))).take st.buffered.length = st.buffered.map .haveP := by
                  rw [writes_obs, wrO_append, wrO_append, wrO_flush, hb, List.append_assoc]
                  rw [List.take_left' (by simp)]
                refine ⟨{ choked := false, buffered := [], alive := e.isNone }, ?_, ⟨halive'.symm, fun hal => ?_⟩⟩
                · simp only [step11, hlive, Bool.false_eq_true, if_false, step11c, hbf, hcm, hhv, htk]
                  simp
                · rcases hcase with ⟨_, rfl, rfl⟩ | ⟨_, h1, _⟩
                  · exact ⟨hch.symm, hmb.symm⟩
                  · rw [h1] at hal; cases hal
              · -- every other message
                obtain ⟨hk, hq⟩ := dispatch_adv sha1 _ _ m rep hm hmc hmu s1 _ c hf
                refine accept_quiet sha1 st s _ _ _ _ hR ha hq
                  (ns _ (by simp) (fun rep d hh => by cases hh; exact hmc rfl) (fun rep d hh => by cases hh; exact hmu rfl))
                  ⟨halive', fun he => ?_⟩
                rcases hcase with ⟨_, rfl, rfl⟩ | ⟨_, _, h2⟩
                · exact ⟨hk.1, hk.2⟩
                · rw [h2] at he; cases he

/-- **C11, whole trace (every script).** The observable behaviour of the connection task satisfies the announcement
    discipline `P11`: a `Have` is written only in reaction to the manager's `SendHave` (at once when the peer does not
    choke us, otherwise after its next `Unchoke`, first and in completion order), and the only bitfield ever written
    is the one the manager computed at `Init` — from any live state (with the monitor started on its flags). -/
theorem C11_trace (sha1 : Bytes → Bytes) (s : HState) (halive : s.alive = true) (script : List TIn) :
    checkTrace step11 { choked := s.choked, buffered := s.msgBuff, alive := true } (runTrace sha1 s script) = true :=
  checkTrace_run sha1 step11 R11 (fun st s inp s' o e hR h => step11_sound sha1 st s inp s' o e hR h)
    script _ s ⟨halive.symm, fun _ => ⟨rfl, rfl⟩⟩

/-- In the property's initial condition (fresh connection: the peer chokes us, nothing held back) this is `P11`. -/
theorem C11_trace_fresh (sha1 : Bytes → Bytes) (s : HState) (halive : s.alive = true) (hc : s.choked = true)
    (hb : s.msgBuff = []) (script : List TIn) : P11 (runTrace sha1 s script) = true := by
  have := C11_trace sha1 s halive script
  rw [hc, hb] at this
  exact this

/-! ### The whole client: every `Have` any task ever writes names a stored piece -/

section Whole
open Rdest.Swarm.Loop Rdest.Props.C01 Rdest.Props.C12

theorem quiet_case (c : Bool) (P : Prop) [Decidable P] (x st' : M11)
    (h : (if c = true then none else if P then some x else none) = some st') : P ∧ st' = x := by
  cases c with
  | true => simp at h
  | false =>
    by_cases hp : P
    · simp only [Bool.false_eq_true, if_false, hp, if_true, Option.some.injEq] at h; exact ⟨hp, h.symm⟩
    · simp [hp] at h

/-- What the monitor's acceptance of one step says about announcements: what is written was held back or is being
    broadcast now, and so is what is held back afterwards. -/
theorem step11c_sub (st : M11) (inp : TIn) (obs : List Obs) (e : Option Bool) (st' : M11)
    (h : step11c st inp obs e = some st') :
    (∀ i ∈ haveWrites obs, i ∈ st.buffered ∨ ∃ rep, inp = .bcHave i rep) ∧
    (∀ i ∈ st'.buffered, i ∈ st.buffered ∨ ∃ rep, inp = .bcHave i rep) := by
  unfold step11c at h
  have quiet : ∀ (c : Bool) (x : M11), x.buffered = st.buffered →
      (if c = true then none else if haveWrites obs = [] then some x else none) = some st' →
      (∀ i ∈ haveWrites obs, i ∈ st.buffered ∨ ∃ rep, inp = .bcHave i rep) ∧
      (∀ i ∈ st'.buffered, i ∈ st.buffered ∨ ∃ rep, inp = .bcHave i rep) := by
    intro c x hx hq
    obtain ⟨hw, rfl⟩ := quiet_case _ _ _ _ hq
    exact ⟨fun j hj => (by rw [hw] at hj; cases hj), fun j hj => (by rw [hx] at hj; exact Or.inl hj)⟩
  cases inp with
  | bcHave i rep =>
    dsimp only at h
    cases hc : st.choked with
    | true =>
      simp only [hc, if_true] at h
      obtain ⟨hw, rfl⟩ := quiet_case _ _ _ _ h
      refine ⟨fun j hj => (by rw [hw] at hj; cases hj), fun j hj => ?_⟩
      simp only [List.mem_append, List.mem_singleton] at hj
      rcases hj with hj | rfl
      · exact Or.inl hj
      · exact Or.inr ⟨rep, rfl⟩
    | false =>
      simp only [hc, Bool.false_eq_true, if_false] at h
      obtain ⟨hw, rfl⟩ := quiet_case _ _ _ _ h
      refine ⟨fun j hj => ?_, fun j hj => Or.inl hj⟩
      rw [hw] at hj; simp only [List.mem_singleton] at hj; subst hj
      exact Or.inr ⟨rep, rfl⟩
  | frame m rep d =>
    cases m with
    | choke => (dsimp only at h; exact quiet _ _ (by exact rfl) h)
    | unchoke =>
      dsimp only at h
      by_cases hu : (cmds obs).contains Cmd.recvUnchoke = true
      · simp only [hu, if_true] at h
        obtain ⟨hw, rfl⟩ := quiet_case _ _ _ _ h
        exact ⟨fun j hj => (by rw [hw.1] at hj; exact Or.inl hj), fun j hj => (by cases hj)⟩
      · simp only [hu, Bool.false_eq_true, if_false] at h
        exact quiet _ _ (by exact rfl) h
    | handshake ih pid => cases rep <;> (dsimp only at h; exact quiet _ _ (by exact rfl) h)
    | keepAlive => (dsimp only at h; exact quiet _ _ (by exact rfl) h)
    | interested => (dsimp only at h; exact quiet _ _ (by exact rfl) h)
    | notInterested => (dsimp only at h; exact quiet _ _ (by exact rfl) h)
    | haveP k => (dsimp only at h; exact quiet _ _ (by exact rfl) h)
    | bitfield bs => (dsimp only at h; exact quiet _ _ (by exact rfl) h)
    | request a b c => (dsimp only at h; exact quiet _ _ (by exact rfl) h)
    | piece a b c => (dsimp only at h; exact quiet _ _ (by exact rfl) h)
    | cancel a b c => (dsimp only at h; exact quiet _ _ (by exact rfl) h)
  | start rep => cases rep <;> (dsimp only at h; exact quiet _ _ (by exact rfl) h)
  | recvErr => (dsimp only at h; exact quiet _ _ (by exact rfl) h)
  | eof => (dsimp only at h; exact quiet _ _ (by exact rfl) h)
  | bcState en => (dsimp only at h; exact quiet _ _ (by exact rfl) h)
  | ticks k => (dsimp only at h; exact quiet _ _ (by exact rfl) h)

theorem mem_haveWrites (sha1 : Bytes → Bytes) (outs : List HOut) (i : Nat) (h : HOut.write (.haveP i) ∈ outs) :
    i ∈ haveWrites (outs.filterMap (obsOf sha1)) := by
  simp only [haveWrites, writes, List.mem_filterMap]
  exact ⟨.haveP i, ⟨.write (.haveP i), ⟨.write (.haveP i), h, rfl⟩, rfl⟩, rfl⟩

/-- One step of a live task, any input: every `Have` it writes, and everything it holds back afterwards, was held back
    before or is the broadcast being handled (from the soundness of the C11 monitor, applied to this one step). -/
theorem have_step (sha1 : Bytes → Bytes) (d : Option (Bytes × Bytes)) (t : HState) (inp : HIn) (t' : HState)
    (outs : List HOut) (e : Option Bool) (hal : t.alive = true) (h : hstep sha1 (diskOf d) t inp = some (t', outs, e)) :
    (∀ i, HOut.write (.haveP i) ∈ outs → i ∈ t.msgBuff ∨ ∃ rep, inp = .bcHave i rep) ∧
    (t'.alive = true → ∀ i ∈ t'.msgBuff, i ∈ t.msgBuff ∨ ∃ rep, inp = .bcHave i rep) := by
  have hg : (!t.alive) = false := by simp [hal]
  have key : ∀ (ti : TIn), tstep sha1 t ti = some (t', outs, e) →
      (∀ i, HOut.write (.haveP i) ∈ outs → i ∈ t.msgBuff ∨ ∃ rep, ti = .bcHave i rep) ∧
      (t'.alive = true → ∀ i ∈ t'.msgBuff, i ∈ t.msgBuff ∨ ∃ rep, ti = .bcHave i rep) := by
    intro ti hti
    obtain ⟨st', hacc, hR'⟩ := step11_sound sha1 { choked := t.choked, buffered := t.msgBuff, alive := true } t ti t' outs e
      ⟨hal.symm, fun _ => ⟨rfl, rfl⟩⟩ hti
    simp only [step11, Bool.not_true, Bool.false_eq_true, if_false] at hacc
    obtain ⟨h1, h2⟩ := step11c_sub _ _ _ _ _ hacc
    refine ⟨fun i hi => h1 i (mem_haveWrites sha1 outs i hi), fun ha' i hi => ?_⟩
    have := (hR'.2 ha').2
    rw [← this] at hi
    exact h2 i hi
  cases inp with
  | frame m rep =>
    obtain ⟨k1, k2⟩ := key (.frame m rep d) h
    exact ⟨fun i hi => (k1 i hi).imp id (fun ⟨_, hc⟩ => by cases hc),
           fun ha' i hi => (k2 ha' i hi).imp id (fun ⟨_, hc⟩ => by cases hc)⟩
  | bcHave j rep =>
    have h' : tstep sha1 t (.bcHave j rep) = some (t', outs, e) := by
      simp only [tstep]
      simp only [hstep, hg, Bool.false_eq_true, if_false] at h ⊢
      exact h
    obtain ⟨k1, k2⟩ := key (.bcHave j rep) h'
    exact ⟨fun i hi => (k1 i hi).imp id (fun ⟨_, hc⟩ => by cases hc; exact ⟨_, rfl⟩),
           fun ha' i hi => (k2 ha' i hi).imp id (fun ⟨_, hc⟩ => by cases hc; exact ⟨_, rfl⟩)⟩
  | eof =>
    simp only [hstep, hg, Bool.false_eq_true, if_false, terminate, Option.some.injEq, Prod.mk.injEq] at h
    obtain ⟨rfl, rfl, _⟩ := h
    exact ⟨fun i hi => (by cases hi), fun ha' => (by simp at ha')⟩
  | recvErr =>
    simp only [hstep, hg, Bool.false_eq_true, if_false, terminate, Option.some.injEq, Prod.mk.injEq] at h
    obtain ⟨rfl, rfl, _⟩ := h
    exact ⟨fun i hi => (by cases hi), fun ha' => (by simp at ha')⟩
  | start =>
    simp only [hstep, hg, Bool.false_eq_true, if_false, Option.some.injEq, Prod.mk.injEq] at h
    obtain ⟨rfl, rfl, _⟩ := h
    exact ⟨fun i hi => (by cases hi), fun _ i hi => Or.inl hi⟩
  | bcState en =>
    simp only [hstep, hg, Bool.false_eq_true, if_false] at h
    split at h <;>
      (simp only [Option.some.injEq, Prod.mk.injEq] at h
       obtain ⟨rfl, rfl, _⟩ := h
       exact ⟨fun i hi => (by simp at hi), fun _ i hi => Or.inl hi⟩)
  | tick =>
    simp only [hstep, hg, Bool.false_eq_true, if_false] at h
    split at h
    · simp only [terminate, Option.some.injEq, Prod.mk.injEq] at h
      obtain ⟨rfl, rfl, _⟩ := h
      exact ⟨fun i hi => (by cases hi), fun ha' => (by simp at ha')⟩
    · simp only [Option.some.injEq, Prod.mk.injEq] at h
      obtain ⟨rfl, rfl, _⟩ := h
      exact ⟨fun i hi => (by simp at hi), fun _ i hi => Or.inl hi⟩

theorem handlePiece_length (st : List Status) (p : MPeer) (c : Option Nat) :
    (handlePiece st p c).1.length = st.length := by
  unfold handlePiece
  cases c with
  | none => rfl
  | some c => dsimp only; split <;> simp [modifyAt_length]

/-- No manager step changes the number of pieces. -/
theorem mstep_length (s s' : MState) (ev : Ev) (r : Reply) (h : mstep s ev = .ok s' r) :
    s'.statuses.length = s.statuses.length := by
  cases ev with
  | add a n => simp only [mstep, Out.ok.injEq] at h; rw [← h.1]
  | choke a =>
    simp only [mstep] at h
    split at h
    · cases h
    · simp only [Out.ok.injEq] at h; rw [← h.1]; dsimp only; split <;> simp [modifyAt_length]
  | unchoke a chosen =>
    simp only [mstep] at h
    split at h
    · cases h
    · have h0 : ∀ (p : MPeer), (match p.choked, p.pieceIndex with
          | false, some old => modifyAt s.statuses old decr
          | _, _ => s.statuses).length = s.statuses.length := by
        intro p; split <;> simp [modifyAt_length]
      split at h
      · simp only [Out.ok.injEq] at h; rw [← h.1]; dsimp only; rw [modifyAt_length]; exact h0 _
      · simp only [Out.ok.injEq] at h; rw [← h.1]; exact h0 _
  | interested a =>
    simp only [mstep] at h
    split at h
    · cases h
    · simp only [Out.ok.injEq] at h; rw [← h.1]
  | notInterested a chosen =>
    simp only [mstep] at h
    split at h
    · cases h
    · simp only [Out.ok.injEq] at h; rw [← h.1]
  | «have» a i chosen =>
    simp only [mstep] at h
    split at h
    · cases h
    · split at h
      · cases h
      · split at h
        · split at h
          · split at h <;> (simp only [Out.ok.injEq] at h; obtain ⟨rfl, _⟩ := h; first | rfl | simp [modifyAt_length])
          · simp only [Out.ok.injEq] at h; rw [← h.1]
        · simp only [Out.ok.injEq] at h; rw [← h.1]
  | bitfield a bits chosen =>
    simp only [mstep] at h
    split at h
    · cases h
    · split at h
      · cases h
      · simp only [Out.ok.injEq] at h; rw [← h.1]
  | pieceDone a chosen =>
    simp only [mstep] at h
    split at h
    · cases h
    · split at h
      · cases h
      · simp only [Out.ok.injEq] at h; rw [← h.1]; simp [handlePiece_length, modifyAt_length]
  | pieceCancel a chosen =>
    simp only [mstep] at h
    split at h
    · cases h
    · split at h
      · cases h
      · simp only [Out.ok.injEq] at h; rw [← h.1]; simp [handlePiece_length, modifyAt_length]
  | kill a =>
    simp only [mstep] at h
    split at h
    · simp only [Out.ok.injEq] at h; rw [← h.1]
    · simp only [Out.ok.injEq] at h; rw [← h.1]; dsimp only
      split
      · split <;> simp [modifyAt_length]
      · rfl

/-- What `Handled` does to the statuses: a manager step, or nothing. -/
theorem handled_cases (T : Torrent) (a : Nat) (m m1 : MState) (cs : List Cmd) (rep : Rep)
    (hH : Handled T a m cs rep m1) : m1 = m ∨ ∃ ev r, mstep m ev = .ok m1 r ∧ (cs = [.pieceDone] → ∃ ch, ev = .pieceDone a ch) := by
  cases cs with
  | nil => exact Or.inl hH
  | cons c rest =>
    cases rest with
    | cons c2 r2 => cases c <;> simp [Handled] at hH
    | nil =>
      cases c with
      | init pid => exact Or.inl hH
      | recvRequest idx => exact Or.inl hH
      | recvChoke => exact Or.inr ⟨_, _, hH, fun hc => by cases hc⟩
      | recvInterested => exact Or.inr ⟨_, _, hH, fun hc => by cases hc⟩
      | recvUnchoke => obtain ⟨_, _, hm, _⟩ := hH; exact Or.inr ⟨_, _, hm, fun hc => by cases hc⟩
      | recvNotInterested => obtain ⟨_, _, hm, _⟩ := hH; exact Or.inr ⟨_, _, hm, fun hc => by cases hc⟩
      | recvHave j => obtain ⟨_, _, hm, _⟩ := hH; exact Or.inr ⟨_, _, hm, fun hc => by cases hc⟩
      | recvBitfield bs => obtain ⟨_, _, _, hm, _⟩ := hH; exact Or.inr ⟨_, _, hm, fun hc => by cases hc⟩
      | pieceCancel => obtain ⟨_, _, hm, _⟩ := hH; exact Or.inr ⟨_, _, hm, fun hc => by cases hc⟩
      | pieceDone => obtain ⟨ch, _, hm, _⟩ := hH; exact Or.inr ⟨_, _, hm, fun _ => ⟨ch, rfl⟩⟩

theorem afterEnd_keeps (a : Nat) (e : Option Bool) (m : MState) :
    (afterEnd a e m).statuses.length = m.statuses.length ∧
    ∀ i : Nat, m.statuses[i]? = some Status.have → (afterEnd a e m).statuses[i]? = some Status.have := by
  unfold afterEnd
  cases e with
  | none => exact ⟨rfl, fun _ h => h⟩
  | some b =>
    dsimp only
    cases hk : mstep m (.kill a) with
    | panic w => exact ⟨rfl, fun _ h => h⟩
    | ok m' r => exact ⟨mstep_length m m' _ r hk, fun i h => T1_have_absorbing m m' _ r hk i h⟩

/-- The whole client with two ghost logs: the indices the manager has broadcast `SendHave` for (`handle_piece_done`
    broadcasts the index of the piece assigned to the connection that reported `PieceDone`), and every `Have` frame any
    task has written, with the address it went to. -/
structure SysH where
  S : Sys
  announced : List Nat
  wrote : List (Nat × Nat)

def haveFrames (a : Nat) (outs : List HOut) : List (Nat × Nat) :=
  outs.filterMap fun | .write (.haveP i) => some (a, i) | _ => none

def announcedBy (m : MState) (a : Nat) (outs : List HOut) : List Nat :=
  if cmdsOf outs = [.pieceDone] then ((findPeer m a).bind (·.pieceIndex)).toList else []

/-- A step of the whole client (`SysStep`) with the broadcast channel in the loop: a task handles `SendHave i` only if
    the manager has broadcast it (delay, and loss to a lagging receiver, are allowed: not every broadcast need arrive);
    a new task has nothing held back. -/
inductive StepH (T : Torrent) (sha1 : Bytes → Bytes) : SysH → SysH → Prop where
  | connect (X : SysH) (a : Nat) (t : HState) (m' : MState) :
      findPeer X.S.m a = none → FreshTask t → t.msgBuff = [] → mstep X.S.m (.add a X.S.m.statuses.length) = .ok m' .none →
      StepH T sha1 X { X with S := { X.S with m := m', tasks := updateTask X.S.tasks a t } }
  | own (X : SysH) (a : Nat) (d : Option (Bytes × Bytes)) (inp : HIn) (m' : MState) (t' : HState) (outs : List HOut) :
      LStepO T sha1 (diskOf d) a X.S.m (X.S.tasks a) inp m' t' outs →
      (∀ i rep, inp = .bcHave i rep → i ∈ X.announced) →
      StepH T sha1 X
        { S := { m := m', tasks := updateTask X.S.tasks a t', stored := savedBy sha1 (X.S.tasks a) outs ++ X.S.stored },
          announced := announcedBy X.S.m a outs ++ X.announced,
          wrote := haveFrames a outs ++ X.wrote }

inductive ReachH (T : Torrent) (sha1 : Bytes → Bytes) : SysH → Prop where
  | init (n : Nat) (dead : Nat → HState) : (∀ a, (dead a).alive = false) →
      ReachH T sha1 { S := { m := { statuses := List.replicate n .missing, peers := [] }, tasks := dead, stored := [] },
                      announced := [], wrote := [] }
  | step (X X' : SysH) : ReachH T sha1 X → StepH T sha1 X X' → ReachH T sha1 X'

/-- Forgetting the logs gives an execution of the whole-client model of C01. -/
theorem reachH_reach (T : Torrent) (sha1 : Bytes → Bytes) (X : SysH) (h : ReachH T sha1 X) : SysReach T sha1 X.S := by
  induction h with
  | init n dead hd => exact SysReach.init n dead hd
  | step X X' _ hs ih =>
    cases hs with
    | connect a t m' h1 h2 _ h4 => exact SysReach.step _ _ ih (SysStep.connect X.S a t m' h1 h2 h4)
    | own a d inp m' t' outs hl _ => exact SysReach.step _ _ ih (SysStep.own X.S a d inp m' t' outs hl)

/-- The invariant: whatever a live task holds back, and whatever has been written, has been broadcast; and whatever has
    been broadcast for an index of the torrent is owned. -/
structure InvH (X : SysH) : Prop where
  held : ∀ a, (X.S.tasks a).alive = true → ∀ i ∈ (X.S.tasks a).msgBuff, i ∈ X.announced
  wrote : ∀ ai ∈ X.wrote, ai.2 ∈ X.announced
  owned : ∀ i ∈ X.announced, i < X.S.m.statuses.length → X.S.m.statuses[i]? = some .have

theorem invH_step (T : Torrent) (sha1 : Bytes → Bytes) (X X' : SysH) (hinv : InvH X) (hs : StepH T sha1 X X') : InvH X' := by
  cases hs with
  | connect a t m' hnone hfresh hbuf hadd =>
    simp only [mstep, Out.ok.injEq] at hadd
    obtain ⟨rfl, _⟩ := hadd
    refine ⟨fun b hb i hi => ?_, hinv.wrote, hinv.owned⟩
    simp only [updateTask] at hb hi
    by_cases hba : b = a
    · simp only [hba, if_true] at hi; rw [hbuf] at hi; cases hi
    · simp only [hba, if_false] at hb hi; exact hinv.held b hb i hi
  | own a d inp m' t' outs hl hbc =>
    obtain ⟨e, m1, hh, hH, rfl⟩ := hl
    have hmono : ∀ i, i ∈ X.announced → i ∈ announcedBy X.S.m a outs ++ X.announced :=
      fun i hi => List.mem_append_right _ hi
    -- lengths and owned pieces survive the step
    have hkeep : (afterEnd a e m1).statuses.length = X.S.m.statuses.length ∧
        ∀ i : Nat, X.S.m.statuses[i]? = some Status.have → (afterEnd a e m1).statuses[i]? = some Status.have := by
      obtain ⟨hl2, hk2⟩ := afterEnd_keeps a e m1
      rcases handled_cases T a X.S.m m1 _ _ hH with rfl | ⟨ev, r, hm, _⟩
      · exact ⟨hl2, hk2⟩
      · exact ⟨by rw [hl2, mstep_length _ _ _ _ hm], fun i hi => hk2 i (T1_have_absorbing _ _ _ _ hm i hi)⟩
    refine ⟨fun b hb i hi => ?_, fun ai hai => ?_, fun i hi hlt => ?_⟩
    · simp only [updateTask] at hb hi
      split at hb
      · rename_i hba
        simp only [hba, if_true] at hi
        -- a dead task does not come back to life
        cases hal : (X.S.tasks a).alive with
        | false =>
          simp only [hstep, hal, Bool.not_false, if_true, Option.some.injEq, Prod.mk.injEq] at hh
          obtain ⟨rfl, _, _⟩ := hh
          rw [hal] at hb; cases hb
        | true =>
          rcases (have_step sha1 d _ inp t' outs e hal hh).2 hb i hi with hold | ⟨rep, rfl⟩
          · exact hmono i (hinv.held a hal i hold)
          · exact hmono i (hbc i rep rfl)
      · rename_i hba
        simp only [hba, if_false] at hi
        exact hmono i (hinv.held b hb i hi)
    · simp only [List.mem_append] at hai
      rcases hai with hnew | hold
      · simp only [haveFrames, List.mem_filterMap] at hnew
        obtain ⟨o, ho, hoi⟩ := hnew
        cases hal : (X.S.tasks a).alive with
        | false =>
          simp only [hstep, hal, Bool.not_false, if_true, Option.some.injEq, Prod.mk.injEq] at hh
          obtain ⟨_, rfl, _⟩ := hh
          cases ho
        | true =>
          have hw : HOut.write (.haveP ai.2) ∈ outs := by
            split at hoi
            · cases hoi; exact ho
            · cases hoi
          rcases (have_step sha1 d _ inp t' outs e hal hh).1 _ hw with hold | ⟨rep, rfl⟩
          · exact hmono _ (hinv.held a hal _ hold)
          · exact hmono _ (hbc _ rep rfl)
      · exact hmono _ (hinv.wrote ai hold)
    · simp only at hlt ⊢
      rw [hkeep.1] at hlt
      simp only [List.mem_append] at hi
      rcases hi with hnew | hold
      · -- broadcast in this step: the piece that `PieceDone` has just made owned
        unfold announcedBy at hnew
        split at hnew
        · rename_i hcs
          cases hp : findPeer X.S.m a with
          | none => simp [hp] at hnew
          | some p =>
            simp only [hp, Option.bind_some, Option.mem_toList] at hnew
            rcases handled_cases T a X.S.m m1 _ _ hH with rfl | ⟨ev, r, hm, hev⟩
            · rw [hcs] at hH; simp only [Handled] at hH
              obtain ⟨ch, r0, hm, _⟩ := hH
              have hb : broadcastHave X.S.m (.pieceDone a ch) = some i := by simp [broadcastHave, hp, hnew]
              exact (afterEnd_keeps a e _).2 i (T2_have_broadcast_only_for_owned _ _ _ r0 i hm hb hlt)
            · obtain ⟨ch, rfl⟩ := hev hcs
              have hb : broadcastHave X.S.m (.pieceDone a ch) = some i := by simp [broadcastHave, hp, hnew]
              exact (afterEnd_keeps a e m1).2 i (T2_have_broadcast_only_for_owned _ _ _ r i hm hb hlt)
        · cases hnew
      · exact hkeep.2 i (hinv.owned i hold hlt)

theorem invH_reach (T : Torrent) (sha1 : Bytes → Bytes) (X : SysH) (h : ReachH T sha1 X) : InvH X := by
  induction h with
  | init n dead hd => exact ⟨fun a ha => (by rw [hd a] at ha; cases ha), fun _ h => (by cases h), fun _ h => (by cases h)⟩
  | step X X' _ hs ih => exact invH_step T sha1 X X' ih hs

/-- **T4 (C11, the whole client).** Any number of connection tasks and the manager in closed loop, with the broadcast
    channel between them (a task handles `SendHave i` only after the manager broadcast it; broadcasts may be delayed
    or lost), every input, every interleaving, every outcome of the chooser: every `Have i` that any task has ever
    written, to any peer, was broadcast by the manager before; and for an index of the torrent, piece `i` is owned and a
    piece file named by the hash listed for `i`, with data hashing to exactly that value, was written by a task that was
    fetching piece `i` (C01.T6). (An index outside the torrent is never assigned: C13.T1 — the chooser's picks are
    eligible pieces.) -/
theorem T4_whole_client_have_only_for_stored_pieces (T : Torrent) (sha1 : Bytes → Bytes) (X : SysH)
    (h : ReachH T sha1 X) (a i : Nat) (hw : (a, i) ∈ X.wrote) :
    i ∈ X.announced ∧ (i < X.S.m.statuses.length →
      X.S.m.statuses[i]? = some .have ∧ (i, T.hashes.getD i [], T.hashes.getD i []) ∈ X.S.stored) := by
  have hinv := invH_reach T sha1 X h
  have ha := hinv.wrote (a, i) hw
  refine ⟨ha, fun hlt => ?_⟩
  have ho := hinv.owned i ha hlt
  exact ⟨ho, T6_whole_client_owned_pieces_have_been_stored T sha1 X.S (reachH_reach T sha1 X h) i ho⟩

/-- Non-vacuity (test): a reachable state of the whole client in which a `Have` has been written — one connection:
    handshake, `Interested`, `Unchoke` answered with a request for piece 0, the block, `PieceDone`, and the manager's
    broadcast coming back to the task. -/
example : ∃ X, ReachH ⟨[[7]], fun _ => 1⟩ id X ∧ (0, 0) ∈ X.wrote ∧ 0 < X.S.m.statuses.length := by
  let T : Torrent := ⟨[[7]], fun _ => 1⟩
  let t0 : HState := { infoHash := [1], ownId := [2], piecesNum := 1 }
  have r0 : ReachH T id _ := ReachH.init 1 (fun _ => { t0 with alive := false }) (fun _ => rfl)
  have r1 := ReachH.step _ _ r0 (StepH.connect _ 0 t0 _ rfl ⟨rfl, rfl, rfl⟩ rfl rfl)
  have r2 := ReachH.step _ _ r1 (StepH.own _ 0 none (.frame (.handshake [1] [3]) (.bitfield [0])) _ _ _
    ⟨_, _, rfl, (by show _ = _; exact rfl), rfl⟩ (fun i rep h => by cases h))
  have r3 := ReachH.step _ _ r2 (StepH.own _ 0 none (.frame .interested .none) _ _ _
    ⟨_, _, rfl, (by show mstep _ _ = _; exact rfl), rfl⟩ (fun i rep h => by cases h))
  have r4 := ReachH.step _ _ r3 (StepH.own _ 0 none (.frame .unchoke (.req { index := 0, length := 1, hash := [7] } true)) _ _ _
    ⟨_, _, rfl, (by show ∃ chosen r, mstep _ _ = _ ∧ _ = _; exact ⟨some 0, _, rfl, rfl⟩), rfl⟩ (fun i rep h => by cases h))
  have r5 := ReachH.step _ _ r4 (StepH.own _ 0 none (.frame (.piece 0 0 [7]) .sendNotInterested) _ _ _
    ⟨_, _, rfl, (by show ∃ chosen r, mstep _ _ = _ ∧ _ = _; exact ⟨none, _, rfl, rfl⟩), rfl⟩ (fun i rep h => by cases h))
  have r6 := ReachH.step _ _ r5 (StepH.own _ 0 none (.bcHave 0 .none) _ _ _
    ⟨_, _, rfl, (by show _ = _; exact rfl), rfl⟩ (fun i rep h => by cases h; decide))
  exact ⟨_, r6, by decide, by decide⟩

end Whole

/-! ### Non-vacuity (tests) -/
example : initBitfield [.have, .missing, .reserved 1, .have] = [0x90] := by
  unfold initBitfield; rw [fromVec_step _ (by simp)]; simp [fromVec_nil]; decide

end Rdest.Props.C11
