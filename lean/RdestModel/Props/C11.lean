/-
  C11 — the client never advertises a piece it has not verified.
-/
import RdestModel.Lemmas.Trace
import RdestModel.Lemmas.Bitfield
import RdestModel.Props.C01
import RdestModel.Lemmas.Adv
import RdestModel.Swarm.Init
set_option linter.unusedSimpArgs false
set_option linter.unusedVariables false
namespace Rdest.Props.C11
open Rdest Rdest.Wire Rdest.Gen Rdest.Swarm

/-! ### T1: the bitfield sent after the handshake marks exactly the pieces owned at that moment -/


/-- Bit `i` of the bitfield (BEP3 bit order) is set exactly when piece `i` is owned when `Init` is handled; spare
    bits are zero. With C01 (owned ⇒ verified data stored) every advertised piece is verified and stored. -/
theorem T1_bitfield_marks_exactly_owned (statuses : List Status) (i : Nat) :
    specBit (initBitfield statuses) i = decide (statuses[i]? = some .have) := by
  unfold initBitfield
  rw [specBit_fromVec]
  simp only [List.getD_eq_getElem?_getD, List.getElem?_map]
  cases h : statuses[i]? with
  | none => simp
  | some st => cases st <;> simp

/-- The connection task writes exactly the bytes the manager computed (`init_handshake`). -/
theorem T1_task_writes_managers_bitfield (s : HState) (pid bs : Bytes) :
    initHandshake s pid (.bitfield bs) =
      some [.write (.handshake s.infoHash s.ownId), .cmd (.init pid), .write (.bitfield bs)] := rfl

/-! ### T2/T3: have-announcements -/

/-- `handle_manager_cmd(SendHave i)` when the announced piece is not the one being downloaded: held back while the
    peer chokes us (appended, so completion order is kept), written at once otherwise. -/
theorem T3_sendHave_buffers_or_writes (sha1 : Bytes → Bytes) (d : Bytes → Option Bytes) (s : HState) (i : Nat) (rep : Rep)
    (ha : s.alive = true) (hrx : ∀ rx, s.pieceRx = some rx → rx.index ≠ i) :
    hstep sha1 d s (.bcHave i rep) =
      some (if s.choked then ({ s with msgBuff := s.msgBuff ++ [i] }, [], none)
            else (s, [.write (.haveP i)], none)) := by
  obtain ⟨ih, own, np, pid, hsd, tx, prx, ch, intr, ka, mb, al⟩ := s
  simp only at ha hrx
  subst ha
  cases prx with
  | none => cases ch <;> simp [hstep]
  | some rx =>
    have hne := hrx rx rfl
    cases ch <;> simp [hstep, hne]

/-- `handle_unchoke`: everything held back is written first, in order, and nothing stays behind. -/
theorem T3_unchoke_flushes_in_order (s : HState) (rep : Rep) (s' : HState) (o : List HOut) (c : Cont)
    (h : onUnchoke s rep = some (s', o, c)) :
    s'.msgBuff = [] ∧ s'.choked = false ∧
    ∃ rest, o = s.msgBuff.map (fun i => HOut.write (.haveP i)) ++ [.cmd .recvUnchoke] ++ rest := by
  unfold onUnchoke at h
  simp only at h
  split at h
  · rename_i rd wi
    cases h
    obtain ⟨_, _, _, _, _, _, _⟩ := newPieceRequest_core { s with choked := false, msgBuff := [] } wi rd
    have hm : (newPieceRequest { s with choked := false, msgBuff := [] } wi rd).1.msgBuff = [] ∧
        (newPieceRequest { s with choked := false, msgBuff := [] } wi rd).1.choked = false := by
      unfold newPieceRequest sendRequest
      simp only
      repeat' (first | split | exact ⟨rfl, rfl⟩)
    exact ⟨hm.1, hm.2, _, rfl⟩
  · cases h; exact ⟨rfl, rfl, _, rfl⟩
  · cases h; exact ⟨rfl, rfl, [], by simp⟩
  · cases h

/-- The manager broadcasts `SendHave i` only in the step that marks `i` owned (`handle_piece_done`), which a task
    triggers only after it stored verified data (C01.T1, C01.T3). -/
def broadcastHave (s : MState) : Ev → Option Nat
  | .pieceDone a _ => (findPeer s a).bind (·.pieceIndex)
  | _ => none

theorem T2_have_broadcast_only_for_owned (s s' : MState) (ev : Ev) (r : Reply) (i : Nat)
    (hstep : mstep s ev = .ok s' r) (hb : broadcastHave s ev = some i) (hi : i < s.statuses.length) :
    s'.statuses[i]? = some .have := by
  cases ev with
  | pieceDone a chosen =>
    simp only [broadcastHave] at hb
    cases hp : findPeer s a with
    | none => simp [hp] at hb
    | some p =>
      simp only [hp, Option.bind_some] at hb
      simp only [mstep, hp, hb, Out.ok.injEq] at hstep
      rw [← hstep.1]
      have h1 : (modifyAt s.statuses i (fun _ => Status.have))[i]? = some .have := by
        rw [modifyAt_getElem?]; simp [List.getElem?_eq_getElem hi]
      -- handle_piece never takes `Have` away
      unfold handlePiece
      cases chosen with
      | none => exact h1
      | some c =>
        dsimp only; split
        · exact h1
        · rw [modifyAt_getElem?]; split <;> simp [h1, incr]
  | _ => simp [broadcastHave] at hb

/-! ### The whole trace: every script -/

def R11 (st : M11) (s : HState) : Prop :=
  st.alive = s.alive ∧ (s.alive = true → st.choked = s.choked ∧ st.buffered = s.msgBuff)

theorem quiet_cancels (i : Nat) (l : List (Nat × Nat)) : Quiet (l.map fun bl => HOut.write (.cancel i bl.1 bl.2)) := by
  induction l with
  | nil => exact ⟨rfl, rfl⟩
  | cons x xs ih =>
    obtain ⟨h1, h2⟩ := ih
    simp only [List.map_cons]
    exact ⟨by simp only [hvsO, List.filterMap_cons] at h1 ⊢; exact h1, by simp only [bfsO, List.filterMap_cons] at h2 ⊢; exact h2⟩

theorem quiet_replicate_ka (n : Nat) : Quiet (List.replicate n (HOut.write Msg.keepAlive)) := by
  induction n with
  | zero => exact ⟨rfl, rfl⟩
  | succ n ih =>
    obtain ⟨h1, h2⟩ := ih
    simp only [List.replicate_succ]
    exact ⟨by simp only [hvsO, List.filterMap_cons] at h1 ⊢; exact h1, by simp only [bfsO, List.filterMap_cons] at h2 ⊢; exact h2⟩

/-- Acceptance of a step that announces nothing, by a monitor branch that only looks at the announcements. -/
theorem accept_quiet (sha1 : Bytes → Bytes) (st : M11) (s s' : HState) (inp : TIn) (o : List HOut) (e : Option Bool)
    (hR : R11 st s) (ha : s.alive = true) (hq : Quiet o)
    (hnotspecial : (∀ i rep, inp ≠ .bcHave i rep) ∧ (∀ rep d, inp ≠ .frame .choke rep d) ∧ (∀ rep d, inp ≠ .frame .unchoke rep d))
    (hs' : s'.alive = e.isNone ∧ (e.isNone = true → Keep s s')) :
    ∃ st', step11 st (inp, o.filterMap (obsOf sha1), e) = some st' ∧ R11 st' s' := by
  obtain ⟨hRa, hRs⟩ := hR
  obtain ⟨hc, hb⟩ := hRs ha
  have hh : haveWrites (o.filterMap (obsOf sha1)) = [] := by rw [haveWrites_obs]; exact hq.1
  have hbf : bitfieldWrites (o.filterMap (obsOf sha1)) = [] := by rw [bitfieldWrites_obs]; exact hq.2
  have hlive : (!st.alive) = false := by rw [hRa, ha]; rfl
  refine ⟨{ st with alive := e.isNone }, ?_, ?_⟩
  · simp only [step11, hlive, Bool.false_eq_true, if_false, step11c, hbf, hh]
    obtain ⟨h1, h2, h3⟩ := hnotspecial
    cases inp with
    | bcHave i rep => exact absurd rfl (h1 i rep)
    | frame m rep d =>
      cases m with
      | choke => exact absurd rfl (h2 rep d)
      | unchoke => exact absurd rfl (h3 rep d)
      | handshake ih pid => cases rep <;> simp
      | _ => simp
    | start rep => cases rep <;> simp
    | _ => simp
  · refine ⟨hs'.1.symm, fun hal => ?_⟩
    have he : e.isNone = true := by rw [← hs'.1]; exact hal
    obtain ⟨k1, k2⟩ := hs'.2 he
    exact ⟨by show st.choked = s'.choked; rw [k1]; exact hc, by show st.buffered = s'.msgBuff; rw [k2]; exact hb⟩

end Rdest.Props.C11

namespace Rdest.Props.C11
open Rdest Rdest.Wire Rdest.Gen Rdest.Swarm


/-- The bitfield written in reaction to a handshake is the one of the manager's reply. -/
theorem onHandshake_bitfield (s : HState) (ih pid : Bytes) (rep : Rep) (s' : HState) (c : Cont) (x y : HOut) (bs : Bytes)
    (h : onHandshake s ih pid rep = some (s', [x, y, .write (.bitfield bs)], c)) : rep = .bitfield bs := by
  unfold onHandshake at h
  by_cases h1 : ih ≠ s.infoHash
  · rw [if_pos h1] at h; simp at h
  · rw [if_neg h1] at h
    cases hp : s.peerId with
    | none =>
      rw [hp] at h
      simp only [Bool.false_eq_true, if_false, Option.isNone_none, if_true] at h
      cases rep with
      | bitfield b =>
        simp only [initHandshake, Option.some.injEq, Prod.mk.injEq, List.cons.injEq, HOut.write.injEq,
          Msg.bitfield.injEq] at h
        rw [h.2.1.2.2.1]
      | _ => simp [initHandshake] at h
    | some e =>
      rw [hp] at h
      by_cases h2 : pid ≠ e
      · have hd : decide (pid ≠ e) = true := decide_eq_true h2
        simp [hd] at h
      · have hd : decide (pid ≠ e) = false := decide_eq_false h2
        simp [hd] at h

theorem step11_sound (sha1 : Bytes → Bytes) (st : M11) (s : HState) (inp : TIn) (s' : HState) (o : List HOut)
    (e : Option Bool) (hR : R11 st s) (h : tstep sha1 s inp = some (s', o, e)) :
    ∃ st', step11 st (inp, o.filterMap (obsOf sha1), e) = some st' ∧ R11 st' s' := by
  cases ha : s.alive with
  | false =>
    rw [tstep_dead sha1 s ha inp] at h; cases h
    refine ⟨st, ?_, hR⟩
    simp [step11, hR.1, ha, deadOk]
  | true =>
    have hg : (!s.alive) = false := by simp [ha]
    have hlive : (!st.alive) = false := by rw [hR.1, ha]; rfl
    obtain ⟨hc, hb⟩ := hR.2 ha
    have ns : ∀ (x : TIn), (∀ i rep, x ≠ .bcHave i rep) → (∀ rep d, x ≠ .frame .choke rep d) →
        (∀ rep d, x ≠ .frame .unchoke rep d) →
        (∀ i rep, x ≠ .bcHave i rep) ∧ (∀ rep d, x ≠ .frame .choke rep d) ∧ (∀ rep d, x ≠ .frame .unchoke rep d) :=
      fun _ a b c => ⟨a, b, c⟩
    cases inp with
    | ticks k =>
      simp only [tstep, ticks_facts s ha, Option.some.injEq, Prod.mk.injEq] at h
      obtain ⟨rfl, rfl, rfl⟩ := h
      refine accept_quiet sha1 st s _ _ _ _ hR ha (quiet_replicate_ka _) (ns _ (by simp) (by simp) (by simp)) ⟨?_, fun _ => ⟨rfl, rfl⟩⟩
      generalize (kaRun KEEP_ALIVE_LIMIT s.keepAlive k).2.2 = b
      cases b <;> rfl
    | eof =>
      simp only [tstep, hstep, hg, Bool.false_eq_true, if_false, terminate] at h
      cases h
      exact accept_quiet sha1 st s _ _ _ _ hR ha quiet_nil (ns _ (by simp) (by simp) (by simp)) ⟨rfl, fun c => by cases c⟩
    | recvErr =>
      simp only [tstep, hstep, hg, Bool.false_eq_true, if_false, terminate] at h
      cases h
      exact accept_quiet sha1 st s _ _ _ _ hR ha quiet_nil (ns _ (by simp) (by simp) (by simp)) ⟨rfl, fun c => by cases c⟩
    | bcState en =>
      simp only [tstep, hstep, hg, Bool.false_eq_true, if_false] at h
      split at h <;> cases h <;>
        exact accept_quiet sha1 st s _ _ _ _ hR ha ⟨rfl, rfl⟩ (ns _ (by simp) (by simp) (by simp)) ⟨ha, fun _ => ⟨rfl, rfl⟩⟩
    | start rep =>
      simp only [tstep, hstart, hg, Bool.false_eq_true, if_false] at h
      split at h
      · rename_i pid hpid
        cases rep with
        | bitfield bs =>
          simp only [initHandshake, Option.some.injEq, Prod.mk.injEq] at h
          obtain ⟨rfl, rfl, rfl⟩ := h
          refine ⟨{ st with alive := true }, ?_, ⟨ha.symm, fun _ => ⟨hc, hb⟩⟩⟩
          simp [step11, hlive, step11c, bitfieldWrites, haveWrites, writes, obsOf]
        | _ => simp [initHandshake] at h
      · cases h
        exact accept_quiet sha1 st s _ _ _ _ hR ha quiet_nil (ns _ (by simp) (by simp) (by simp)) ⟨ha, fun _ => ⟨rfl, rfl⟩⟩
    | bcHave i rep =>
      simp only [tstep, hstep, hg, Bool.false_eq_true, if_false] at h
      -- the cancellation part announces nothing and keeps the mirrored fields
      have inner : ∀ (r : Option (HState × List HOut)),
          (∀ s1 o1, r = some (s1, o1) → Keep s s1 ∧ Quiet o1 ∧ s1.alive = true) →
          (match r with
            | none => (none : Option HRes)
            | some (s1, o1) =>
              if s1.choked = true then some ({ s1 with msgBuff := s1.msgBuff ++ [i] }, o1, none)
              else some (s1, o1 ++ [HOut.write (Msg.haveP i)], none)) = some (s', o, e) →
          ∃ st', step11 st (.bcHave i rep, o.filterMap (obsOf sha1), e) = some st' ∧ R11 st' s' := by
        intro r hr hm
        cases r with
        | none => cases hm
        | some p =>
          obtain ⟨s1, o1⟩ := p
          obtain ⟨hk, hq, hal⟩ := hr s1 o1 rfl
          simp only at hm
          have hbf1 : bitfieldWrites (o1.filterMap (obsOf sha1)) = [] := by rw [bitfieldWrites_obs]; exact hq.2
          have hh1 : haveWrites (o1.filterMap (obsOf sha1)) = [] := by rw [haveWrites_obs]; exact hq.1
          by_cases hch : s1.choked = true
          · rw [if_pos hch] at hm; cases hm
            have hstc : st.choked = true := by rw [hc, ← hk.1]; exact hch
            refine ⟨{ st with buffered := st.buffered ++ [i], alive := true }, ?_, ⟨hal.symm, fun _ => ⟨?_, ?_⟩⟩⟩
            · simp [step11, hlive, step11c, hbf1, hh1, hstc]
            · exact hc.trans hk.1.symm
            · show st.buffered ++ [i] = s1.msgBuff ++ [i]; rw [hk.2, hb]
          · rw [if_neg hch] at hm; cases hm
            have hstc : st.choked = false := by
              rw [hc, ← hk.1]; simpa using hch
            have hbf2 : bitfieldWrites ((o1 ++ [HOut.write (Msg.haveP i)]).filterMap (obsOf sha1)) = [] := by
              rw [bitfieldWrites_obs, bfsO_append, hq.2]; rfl
            have hh2 : haveWrites ((o1 ++ [HOut.write (Msg.haveP i)]).filterMap (obsOf sha1)) = [i] := by
              rw [haveWrites_obs, hvsO_append, hq.1]; rfl
            rw [List.filterMap_append] at hbf2 hh2
            refine ⟨{ st with alive := true }, ?_, ⟨hal.symm, fun _ => ⟨?_, ?_⟩⟩⟩
            · simp [step11, hlive, step11c, hbf2, hh2, hstc]
            · exact hc.trans hk.1.symm
            · exact hb.trans hk.2.symm
      cases hrx : s.pieceRx with
      | none =>
        rw [hrx] at h
        exact inner (some (s, [])) (fun s1 o1 ee => by cases ee; exact ⟨keep_refl s, quiet_nil, ha⟩) h
      | some rx =>
        rw [hrx] at h
        simp only at h
        by_cases hi : rx.index = i
        · simp only [hi, if_true] at h
          cases hpf : pieceFinishReply { s with pieceRx := none } rep with
          | none => rw [hpf] at h; cases h
          | some t =>
            obtain ⟨s2, o2, b2⟩ := t
            rw [hpf] at h
            obtain ⟨hk2, hq2⟩ := pieceFinishReply_adv _ _ _ _ _ hpf
            obtain ⟨_, hal2, _⟩ := pieceFinishReply_core _ _ _ _ _ hpf
            exact inner (some (s2, _)) (fun s1 o1 ee => by
              cases ee
              exact ⟨keep_trans (b := { s with pieceRx := none }) ⟨rfl, rfl⟩ hk2,
                quiet_append (quiet_append (quiet_cancels i _) ⟨rfl, rfl⟩) hq2, by rw [hal2]; exact ha⟩) h
        · simp only [hi, if_false] at h
          exact inner (some (s, [])) (fun s1 o1 ee => by cases ee; exact ⟨keep_refl s, quiet_nil, ha⟩) h
    | frame m rep d =>
      simp only [tstep, hstep, hg, Bool.false_eq_true, if_false] at h
      cases hf : handleFrame sha1 (diskOf d) s m rep with
      | none => rw [hf] at h; cases h
      | some r =>
        obtain ⟨s1, o1, c⟩ := r
        rw [hf] at h
        obtain ⟨_, hal1, _⟩ := handleFrame_core sha1 _ s m rep s1 o1 c hf
        -- the result of the step in terms of (s1, o1, c)
        have hres : o = o1 ∧ ((c = .go ∧ s' = s1 ∧ e = none) ∨ (c ≠ .go ∧ s'.alive = false ∧ e.isNone = false)) := by
          cases c with
          | go => cases h; exact ⟨rfl, Or.inl ⟨rfl, rfl, rfl⟩⟩
          | endNormal => simp only [terminate] at h; cases h; exact ⟨rfl, Or.inr ⟨by simp, rfl, rfl⟩⟩
          | endError => simp only [terminate] at h; cases h; exact ⟨rfl, Or.inr ⟨by simp, rfl, rfl⟩⟩
        obtain ⟨rfl, hcase⟩ := hres
        have halive' : s'.alive = e.isNone := by
          rcases hcase with ⟨_, rfl, rfl⟩ | ⟨_, h1, h2⟩
          · rw [hal1]; exact ha
          · rw [h1, h2]
        -- what `handle_frame` did
        unfold handleFrame at hf
        simp only at hf
        split at hf
        · -- refused before the handshake: nothing written, the task ends
          cases hf
          have hend : e.isNone = false := by
            rcases hcase with ⟨hc', _, _⟩ | ⟨_, _, h2⟩
            · cases hc'
            · exact h2
          have hsd : s'.alive = false := by rw [halive', hend]
          refine ⟨{ st with alive := false, choked := st.choked }, ?_, ⟨by simp [hsd], fun c => by rw [hsd] at c; cases c⟩⟩
          have he : e.isNone = false := hend
          cases m <;> (try cases rep) <;>
            simp [step11, hlive, step11c, bitfieldWrites, haveWrites, writes, cmds, he]
        · -- dispatched
          cases hm : isHandshake m with
          | true =>
            cases m with
            | handshake ih pid =>
              simp only [dispatch] at hf
              rcases onHandshake_cases _ ih pid rep s1 o c hf with ⟨_, rfl, rfl, rfl⟩ | ⟨_, hpn, rfl, rfl, bs, rfl⟩ | ⟨_, _, rfl, rfl, rfl⟩
              · -- rejected
                refine accept_quiet sha1 st s _ _ _ _ hR ha quiet_nil (ns _ (by simp) (by simp) (by simp)) ⟨halive', fun he => ?_⟩
                rcases hcase with ⟨hc', _, _⟩ | ⟨_, _, h2⟩
                · cases hc'
                · rw [h2] at he; cases he
              · -- accepted on an incoming connection: our handshake, Init, the manager's bitfield
                rcases hcase with ⟨_, rfl, rfl⟩ | ⟨hc', _, _⟩
                · -- the bitfield written is the one of the reply
                  have hrep := onHandshake_bitfield _ ih pid rep _ _ _ _ bs hf
                  subst hrep
                  refine ⟨{ st with alive := true }, ?_, ⟨by simp [ha], fun _ => ⟨hc, hb⟩⟩⟩
                  simp [step11, hlive, step11c, bitfieldWrites, haveWrites, writes, obsOf]
                · exact absurd rfl hc'
              · -- accepted where the id was known: nothing is written
                rcases hcase with ⟨_, rfl, rfl⟩ | ⟨hc', _, _⟩
                · exact accept_quiet sha1 st s _ _ _ _ hR ha quiet_nil (ns _ (by simp) (by simp) (by simp))
                    ⟨by simp [ha], fun _ => ⟨rfl, rfl⟩⟩
                · exact absurd rfl hc'
            | _ => simp [isHandshake] at hm
          | false =>
            by_cases hmc : m = .choke
            · subst hmc
              simp only [dispatch, Option.some.injEq, Prod.mk.injEq] at hf
              obtain ⟨rfl, rfl, rfl⟩ := hf
              rcases hcase with ⟨_, rfl, rfl⟩ | ⟨hc', _, _⟩
              · refine ⟨{ st with choked := true, alive := true }, ?_, ⟨by simp [ha], fun _ => ⟨rfl, hb⟩⟩⟩
                simp [step11, hlive, step11c, bitfieldWrites, haveWrites, writes, cmds, obsOf]
              · exact absurd rfl hc'
            · by_cases hmu : m = .unchoke
              · subst hmu
                simp only [dispatch] at hf
                obtain ⟨hmb, hch, _, rest, rfl, hq⟩ := onUnchoke_adv _ rep s1 _ c hf
                have hcm : (cmds ((List.map (fun i => HOut.write (Msg.haveP i)) s.msgBuff ++ [HOut.cmd Cmd.recvUnchoke] ++ rest).filterMap (obsOf sha1))).contains Cmd.recvUnchoke = true := by
                  rw [cmds_obs, cmO_append, cmO_append]
                  simp [cmO]
                have hhv : haveWrites ((List.map (fun i => HOut.write (Msg.haveP i)) s.msgBuff ++ [HOut.cmd Cmd.recvUnchoke] ++ rest).filterMap (obsOf sha1)) = st.buffered := by
                  rw [haveWrites_obs, hvsO_append, hvsO_append, hvsO_flush, hq.1, hb]; simp [hvsO]
                have hbf : bitfieldWrites ((List.map (fun i => HOut.write (Msg.haveP i)) s.msgBuff ++ [HOut.cmd Cmd.recvUnchoke] ++ rest).filterMap (obsOf sha1)) = [] := by
                  rw [bitfieldWrites_obs, bfsO_append, bfsO_append, bfsO_flush, hq.2]; simp [bfsO]
                have htk : (writes ((List.map (fun i => HOut.write (Msg.haveP i)) s.msgBuff ++ [HOut.cmd Cmd.recvUnchoke] ++ rest).filterMap (obsOf sha1))).take st.buffered.length = st.buffered.map .haveP := by
                  rw [writes_obs, wrO_append, wrO_append, wrO_flush, hb, List.append_assoc]
                  rw [List.take_left' (by simp)]
                refine ⟨{ choked := false, buffered := [], alive := e.isNone }, ?_, ⟨halive'.symm, fun hal => ?_⟩⟩
                · simp only [step11, hlive, Bool.false_eq_true, if_false, step11c, hbf, hcm, hhv, htk]
                  simp
                · rcases hcase with ⟨_, rfl, rfl⟩ | ⟨_, h1, _⟩
                  · exact ⟨hch.symm, hmb.symm⟩
                  · rw [h1] at hal; cases hal
              · -- every other message
                obtain ⟨hk, hq⟩ := dispatch_adv sha1 _ _ m rep hm hmc hmu s1 _ c hf
                refine accept_quiet sha1 st s _ _ _ _ hR ha hq
                  (ns _ (by simp) (fun rep d hh => by cases hh; exact hmc rfl) (fun rep d hh => by cases hh; exact hmu rfl))
                  ⟨halive', fun he => ?_⟩
                rcases hcase with ⟨_, rfl, rfl⟩ | ⟨_, _, h2⟩
                · exact ⟨hk.1, hk.2⟩
                · rw [h2] at he; cases he

/-- **C11, whole trace (every script).** The observable behaviour of the connection task satisfies the announcement
    discipline `P11`: a `Have` is written only in reaction to the manager's `SendHave` (at once when the peer does not
    choke us, otherwise after its next `Unchoke`, first and in completion order), and the only bitfield ever written
    is the one the manager computed at `Init` — from any live state (with the monitor started on its flags). -/
theorem C11_trace (sha1 : Bytes → Bytes) (s : HState) (halive : s.alive = true) (script : List TIn) :
    checkTrace step11 { choked := s.choked, buffered := s.msgBuff, alive := true } (runTrace sha1 s script) = true :=
  checkTrace_run sha1 step11 R11 (fun st s inp s' o e hR h => step11_sound sha1 st s inp s' o e hR h)
    script _ s ⟨halive.symm, fun _ => ⟨rfl, rfl⟩⟩

/-- In the property's initial condition (fresh connection: the peer chokes us, nothing held back) this is `P11`. -/
theorem C11_trace_fresh (sha1 : Bytes → Bytes) (s : HState) (halive : s.alive = true) (hc : s.choked = true)
    (hb : s.msgBuff = []) (script : List TIn) : P11 (runTrace sha1 s script) = true := by
  have := C11_trace sha1 s halive script
  rw [hc, hb] at this
  exact this

/-! ### Non-vacuity (tests) -/
example : initBitfield [.have, .missing, .reserved 1, .have] = [0x90] := by
  unfold initBitfield; rw [fromVec_step _ (by simp)]; simp [fromVec_nil]; decide

end Rdest.Props.C11
