/-
  C11 — the client never advertises a piece it has not verified.
-/
import RdestModel.Lemmas.Trace
import RdestModel.Lemmas.Bitfield
import RdestModel.Props.C01
set_option linter.unusedSimpArgs false
set_option linter.unusedVariables false
namespace Rdest.Props.C11
open Rdest Rdest.Wire Rdest.Gen Rdest.Swarm

/-! ### T1: the bitfield sent after the handshake marks exactly the pieces owned at that moment -/

/-- `Peer::handle_init`: the bitfield is `Bitfield::from_vec(statuses.map(|s| s == Have))`. -/
def initBitfield (statuses : List Status) : Bytes := fromVec (statuses.map (fun st => decide (st = .have)))

/-- Bit `i` of the bitfield (BEP3 bit order) is set exactly when piece `i` is owned when `Init` is handled; spare
    bits are zero. With C01 (owned ⇒ verified data stored) every advertised piece is verified and stored. -/
theorem T1_bitfield_marks_exactly_owned (statuses : List Status) (i : Nat) :
    specBit (initBitfield statuses) i = decide (statuses[i]? = some .have) := by
  unfold initBitfield
  rw [specBit_fromVec]
  simp only [List.getD_eq_getElem?_getD, List.getElem?_map]
  cases h : statuses[i]? with
  | none => simp
  | some st => cases st <;> simp

/-- The connection task writes exactly the bytes the manager computed (`init_handshake`). -/
theorem T1_task_writes_managers_bitfield (s : HState) (pid bs : Bytes) :
    initHandshake s pid (.bitfield bs) =
      some [.write (.handshake s.infoHash s.ownId), .cmd (.init pid), .write (.bitfield bs)] := rfl

/-! ### T2/T3: have-announcements -/

/-- `handle_manager_cmd(SendHave i)` when the announced piece is not the one being downloaded: held back while the
    peer chokes us (appended, so completion order is kept), written at once otherwise. -/
theorem T3_sendHave_buffers_or_writes (sha1 : Bytes → Bytes) (d : Bytes → Option Bytes) (s : HState) (i : Nat) (rep : Rep)
    (ha : s.alive = true) (hrx : ∀ rx, s.pieceRx = some rx → rx.index ≠ i) :
    hstep sha1 d s (.bcHave i rep) =
      some (if s.choked then ({ s with msgBuff := s.msgBuff ++ [i] }, [], none)
            else (s, [.write (.haveP i)], none)) := by
  obtain ⟨ih, own, np, pid, hsd, tx, prx, ch, intr, ka, mb, al⟩ := s
  simp only at ha hrx
  subst ha
  cases prx with
  | none => cases ch <;> simp [hstep]
  | some rx =>
    have hne := hrx rx rfl
    cases ch <;> simp [hstep, hne]

/-- `handle_unchoke`: everything held back is written first, in order, and nothing stays behind. -/
theorem T3_unchoke_flushes_in_order (s : HState) (rep : Rep) (s' : HState) (o : List HOut) (c : Cont)
    (h : onUnchoke s rep = some (s', o, c)) :
    s'.msgBuff = [] ∧ s'.choked = false ∧
    ∃ rest, o = s.msgBuff.map (fun i => HOut.write (.haveP i)) ++ [.cmd .recvUnchoke] ++ rest := by
  unfold onUnchoke at h
  simp only at h
  split at h
  · rename_i rd wi
    cases h
    obtain ⟨_, _, _, _, _, _, _⟩ := newPieceRequest_core { s with choked := false, msgBuff := [] } wi rd
    have hm : (newPieceRequest { s with choked := false, msgBuff := [] } wi rd).1.msgBuff = [] ∧
        (newPieceRequest { s with choked := false, msgBuff := [] } wi rd).1.choked = false := by
      unfold newPieceRequest sendRequest
      simp only
      repeat' (first | split | exact ⟨rfl, rfl⟩)
    exact ⟨hm.1, hm.2, _, rfl⟩
  · cases h; exact ⟨rfl, rfl, _, rfl⟩
  · cases h; exact ⟨rfl, rfl, [], by simp⟩
  · cases h

/-- The manager broadcasts `SendHave i` only in the step that marks `i` owned (`handle_piece_done`), which a task
    triggers only after it stored verified data (C01.T1, C01.T3). -/
def broadcastHave (s : MState) : Ev → Option Nat
  | .pieceDone a _ => (findPeer s a).bind (·.pieceIndex)
  | _ => none

theorem T2_have_broadcast_only_for_owned (s s' : MState) (ev : Ev) (r : Reply) (i : Nat)
    (hstep : mstep s ev = .ok s' r) (hb : broadcastHave s ev = some i) (hi : i < s.statuses.length) :
    s'.statuses[i]? = some .have := by
  cases ev with
  | pieceDone a chosen =>
    simp only [broadcastHave] at hb
    cases hp : findPeer s a with
    | none => simp [hp] at hb
    | some p =>
      simp only [hp, Option.bind_some] at hb
      simp only [mstep, hp, hb, Out.ok.injEq] at hstep
      rw [← hstep.1]
      have h1 : (modifyAt s.statuses i (fun _ => Status.have))[i]? = some .have := by
        rw [modifyAt_getElem?]; simp [List.getElem?_eq_getElem hi]
      -- handle_piece never takes `Have` away
      unfold handlePiece
      cases chosen with
      | none => exact h1
      | some c =>
        dsimp only; split
        · exact h1
        · rw [modifyAt_getElem?]; split <;> simp [h1, incr]
  | _ => simp [broadcastHave] at hb

/-- The full trace statement (monitor `P11`); evaluated on the model's and the implementation's trace of every
    generated script, kernel proof for all scripts pending (the local theorems above are its core). -/
def C11_trace_full : Prop :=
  ∀ (sha1 : Bytes → Bytes) (s : HState) (script : List TIn), s.alive = true → s.choked = true → s.msgBuff = [] →
    P11 (runTrace sha1 s script) = true

/-! ### Non-vacuity (tests) -/
example : initBitfield [.have, .missing, .reserved 1, .have] = [0x90] := by
  unfold initBitfield; rw [fromVec_step _ (by simp)]; simp [fromVec_nil]; decide

end Rdest.Props.C11
