/-
  C13 — piece choice is rarest-first among what the peer can give.
-/
import RdestModel.Swarm.Choose
import RdestModel.Swarm.Manager
import RdestModel.Props.C12
set_option linter.unusedSimpArgs false
namespace Rdest.Props.C13
open Rdest.Gen Rdest.Swarm

theorem end_game_limit_is_ten : END_GAME_LIMIT = 10 := by decide

/-! ### Sorting lemmas (own insertion sort: permutation + sortedness) -/

theorem insert_perm (x : Nat × Nat) (l : List (Nat × Nat)) : (insertByCount x l).Perm (x :: l) := by
  induction l with
  | nil => simp [insertByCount]
  | cons y ys ih =>
    simp only [insertByCount]
    split
    · exact List.Perm.refl _
    · exact (List.Perm.cons y ih).trans (List.Perm.swap x y ys)

theorem sort_perm (l : List (Nat × Nat)) : (sortByCount l).Perm l := by
  induction l with
  | nil => simp [sortByCount]
  | cons x xs ih => exact (insert_perm x _).trans (List.Perm.cons x ih)

def Sorted (l : List (Nat × Nat)) : Prop := l.Pairwise (fun a b => a.2 ≤ b.2)

theorem insert_sorted (x : Nat × Nat) (l : List (Nat × Nat)) (h : Sorted l) : Sorted (insertByCount x l) := by
  induction l with
  | nil => simp [insertByCount, Sorted]
  | cons y ys ih =>
    simp only [insertByCount]
    simp only [Sorted, List.pairwise_cons] at h
    split
    · rename_i hlt
      simp only [Sorted, List.pairwise_cons]
      refine ⟨?_, h⟩
      intro z hz
      simp only [List.mem_cons] at hz
      rcases hz with rfl | hz
      · omega
      · have := h.1 z hz; omega
    · rename_i hge
      simp only [Sorted, List.pairwise_cons]
      refine ⟨?_, ih h.2⟩
      intro z hz
      have := (insert_perm x ys).mem_iff.mp hz
      simp only [List.mem_cons] at this
      rcases this with rfl | hz'
      · omega
      · exact h.1 z hz'

theorem sort_sorted (l : List (Nat × Nat)) : Sorted (sortByCount l) := by
  induction l with
  | nil => simp [sortByCount, Sorted]
  | cons x xs ih => exact insert_sorted x _ ih

/-- In a sorted list the first element satisfying `p` has the least count among all elements satisfying `p`. -/
theorem find_sorted_min (p : Nat × Nat → Bool) (l : List (Nat × Nat)) (hs : Sorted l) (x : Nat × Nat)
    (hf : l.find? p = some x) : x ∈ l ∧ p x = true ∧ ∀ y ∈ l, p y = true → x.2 ≤ y.2 := by
  induction l with
  | nil => simp at hf
  | cons a as ih =>
    simp only [Sorted, List.pairwise_cons] at hs
    simp only [List.find?_cons] at hf
    split at hf
    · rename_i hpa
      simp only [Option.some.injEq] at hf
      subst hf
      refine ⟨by simp, hpa, ?_⟩
      intro y hy _
      simp only [List.mem_cons] at hy
      rcases hy with rfl | hy
      · omega
      · exact hs.1 y hy
    · rename_i hpa
      obtain ⟨h1, h2, h3⟩ := ih hs.2 hf
      refine ⟨by simp [h1], h2, ?_⟩
      intro y hy hpy
      simp only [List.mem_cons] at hy
      rcases hy with rfl | hy
      · simp [hpy] at hpa
      · exact h3 y hy hpy

/-! ### Membership in the candidate list -/

theorem mem_rarest (st : List Status) (peers : List Pieces) (x : Nat × Nat) :
    x ∈ rarestList st peers ↔ x.1 < st.length ∧ desired st x.1 = true ∧ x.2 = count peers x.1 := by
  simp only [rarestList, List.mem_map, List.mem_filter, List.mem_range]
  constructor
  · rintro ⟨i, ⟨h1, h2⟩, rfl⟩; exact ⟨h1, h2, rfl⟩
  · rintro ⟨h1, h2, h3⟩; exact ⟨x.1, ⟨h1, h2⟩, by cases x; simp_all⟩

theorem desired_iff (st : List Status) (i : Nat) :
    desired st i = true ↔ st.getD i .have ≠ .have ∧ (stillMissing st ≥ END_GAME_LIMIT → st.getD i .have = .missing) := by
  unfold desired
  split
  · rename_i h
    constructor
    · intro e; exact ⟨by simpa using e, fun h2 => absurd h (by omega)⟩
    · intro ⟨e, _⟩; simpa using e
  · rename_i h
    simp only [decide_eq_true_eq]
    constructor
    · intro e; exact ⟨by rw [e]; simp, fun _ => e⟩
    · intro ⟨_, h2⟩; exact h2 (by omega)

/-! ### Main theorems: for every status vector, peer set, advertised sets and every shuffle outcome -/

/-- A pick is eligible and no eligible piece is advertised by fewer peers. -/
theorem T1_pick_is_rarest_eligible (st : List Status) (peers : List Pieces) (target : Pieces)
    (shuffled : List (Nat × Nat)) (hperm : shuffled.Perm (rarestList st peers)) (i : Nat)
    (h : chooseImpl shuffled target = some i) :
    eligible st peers target i ∧ ∀ j, eligible st peers target j → count peers i ≤ count peers j := by
  unfold chooseImpl pickFirst at h
  simp only [Option.map_eq_some_iff] at h
  obtain ⟨x, hx, rfl⟩ := h
  obtain ⟨hmem, hp, hmin⟩ := find_sorted_min _ _ (sort_sorted shuffled) x hx
  have hmemR : x ∈ rarestList st peers := hperm.mem_iff.mp ((sort_perm shuffled).mem_iff.mp hmem)
  obtain ⟨hlt, hdes, hcnt⟩ := (mem_rarest st peers x).mp hmemR
  simp only [Bool.and_eq_true, decide_eq_true_eq] at hp
  have hd := (desired_iff st x.1).mp hdes
  refine ⟨⟨hlt, hp.2, hd.1, hd.2, by rw [← hcnt]; exact hp.1⟩, ?_⟩
  intro j ⟨hj1, hj2, hj3, hj4, hj5⟩
  have hjmem : (j, count peers j) ∈ sortByCount shuffled :=
    (sort_perm shuffled).mem_iff.mpr (hperm.mem_iff.mpr ((mem_rarest st peers _).mpr
      ⟨hj1, (desired_iff st j).mpr ⟨hj3, hj4⟩, rfl⟩))
  have := hmin _ hjmem (by simp [hj2, hj5])
  simp only at this
  omega

/-- Nothing is picked exactly when no eligible piece exists. -/
theorem T2_none_iff_nothing_eligible (st : List Status) (peers : List Pieces) (target : Pieces)
    (shuffled : List (Nat × Nat)) (hperm : shuffled.Perm (rarestList st peers)) :
    chooseImpl shuffled target = none ↔ ¬ ∃ j, eligible st peers target j := by
  unfold chooseImpl pickFirst
  simp only [Option.map_eq_none_iff, List.find?_eq_none, Bool.and_eq_true, decide_eq_true_eq, not_and,
    Bool.not_eq_true, not_exists]
  constructor
  · intro h j ⟨hj1, hj2, hj3, hj4, hj5⟩
    have hjmem : (j, count peers j) ∈ sortByCount shuffled :=
      (sort_perm shuffled).mem_iff.mpr (hperm.mem_iff.mpr ((mem_rarest st peers _).mpr
        ⟨hj1, (desired_iff st j).mpr ⟨hj3, hj4⟩, rfl⟩))
    have := h _ hjmem hj5
    simp [hj2] at this
  · intro h x hx hpos
    have hmemR : x ∈ rarestList st peers := hperm.mem_iff.mp ((sort_perm shuffled).mem_iff.mp hx)
    obtain ⟨hlt, hdes, hcnt⟩ := (mem_rarest st peers x).mp hmemR
    have hd := (desired_iff st x.1).mp hdes
    by_cases ht : hasPiece target x.1 = true
    · exact absurd ⟨hlt, ht, hd.1, hd.2, by rw [← hcnt]; exact hpos⟩ (h x.1)
    · simpa using ht

/-- When the asking peer is itself among the connected peers (it always is in the session), "advertised by at
    least one peer" is implied by "the peer advertises it": eligibility is exactly the property's wording. -/
theorem T3_count_positive (peers : List Pieces) (target : Pieces) (i : Nat) (hin : target ∈ peers)
    (h : hasPiece target i = true) : count peers i > 0 := by
  unfold count
  apply List.length_pos_iff.mpr
  intro he
  have : target ∈ peers.filter (fun p => hasPiece p i) := List.mem_filter.mpr ⟨hin, h⟩
  rw [he] at this; simp at this

/-- The executable check used on the implementation's answers is the statement of T1/T2. -/
theorem admissible_iff (st : List Status) (peers : List Pieces) (target : Pieces) (r : Option Nat) :
    admissible st peers target r = true ↔
      match r with
      | some i => eligible st peers target i ∧ ∀ j, eligible st peers target j → count peers i ≤ count peers j
      | none => ¬ ∃ j, eligible st peers target j := by
  cases r with
  | none =>
    simp only [admissible, List.all_eq_true, List.mem_range, Bool.not_eq_true', decide_eq_false_iff_not, not_exists]
    constructor
    · intro h j hj; exact h j hj.1 hj
    · intro h j _; exact h j
  | some i =>
    simp only [admissible, Bool.and_eq_true, decide_eq_true_eq, List.all_eq_true, List.mem_range, Bool.or_eq_true,
      Bool.not_eq_true', decide_eq_false_iff_not]
    constructor
    · rintro ⟨h1, h2⟩
      refine ⟨h1, fun j hj => ?_⟩
      rcases h2 j hj.1 with h | h
      · exact absurd hj h
      · exact h
    · rintro ⟨h1, h2⟩
      refine ⟨h1, fun j _ => ?_⟩
      by_cases hj : eligible st peers target j
      · exact Or.inr (h2 j hj)
      · exact Or.inl hj

/-! ### Non-vacuity (tests): three peers, piece 2 is rarest among what the target has -/

example :
    let st := [Status.missing, .have, .missing, .reserved 1]
    let peers : List Pieces := [[true, true, true, true], [true, false, false, true], [true, true, false, false]]
    chooseImpl (rarestList st peers) [true, true, true, true] = some 2 := by decide

example :
    let st := [Status.missing, .have, .missing, .reserved 1]
    let peers : List Pieces := [[true, true, true, true], [true, false, false, true], [true, true, false, false]]
    (rarestList st peers).reverse.Perm (rarestList st peers) ∧
    chooseImpl (rarestList st peers).reverse [true, true, true, true] = some 2 := by
  exact ⟨List.reverse_perm _, by decide⟩

/-! ### Every pick is the chooser's — also the one made when a peer announces a piece (`Have`) -/

/-- **T4 (C13, every path).** Whenever the manager hands a request to a connection — on `Unchoke`, on `Have`, after a
    stored or a cancelled piece — the piece asked for is the chooser's answer for that peer at that moment (to which T1
    and T2 apply: eligible and rarest). There is no other way a piece gets assigned. -/
theorem T4_every_request_is_the_choosers (s s' : MState) (ev : Ev) (c : Nat) (wi : Bool)
    (h : mstep s ev = .ok s' (.request c wi)) :
    match ev with
    | .unchoke _ chosen => chosen = some c
    | .pieceDone _ chosen => chosen = some c
    | .pieceCancel _ chosen => chosen = some c
    | .have _ _ chosen => chosen = some c
    | _ => False :=
  Rdest.Props.C12.T4_asked_only_advertised_and_lacking s s' ev c wi h

/-! ### The code as it was: the Have path assigned the announced piece itself (finding, repaired) -/

/-- `Peer::handle_have` as it was: the announced piece `i`, if `Missing`, is assigned without consulting the chooser. -/
def oldHaveRequests (s : MState) (a i : Nat) : Option Nat :=
  match findPeer s a with
  | some p =>
    if i < p.pieces.length ∧ s.statuses.getD i .have = .missing ∧ p.amInterested = false ∧ p.choked = false ∧
        p.pieceIndex = none then some i else none
  | none => none

/-- Run a history on the manager model. -/
def mrun : MState → List Ev → Option MState
  | s, [] => some s
  | s, ev :: evs => match mstep s ev with
    | .ok s' _ => mrun s' evs
    | .panic _ => none

def only (n i : Nat) : Pieces := (List.range n).map (· == i)

/-- Twelve pieces. Peers 0 and 1 advertise piece 0 only, peers 2 and 3 piece 1 only. Peer 0 is asked for piece 0; peer 1
    unchokes us while piece 0 is being fetched (nothing eligible: it stays idle); peer 0 chokes us (piece 0 is free
    again). -/
def haveWitness : List Ev :=
  [.add 0 12, .bitfield 0 (only 12 0) (some 0), .add 1 12, .bitfield 1 (only 12 0) (some 0),
   .add 2 12, .bitfield 2 (only 12 1) (some 1), .add 3 12, .bitfield 3 (only 12 1) (some 1),
   .unchoke 0 (some 0), .unchoke 1 none, .choke 0]

/-- What the old rule did when peer 1 then announced piece 1: the piece requested, whether pieces 1 and 0 are eligible
    for peer 1 at that moment, whether piece 0 is advertised by fewer peers, and whether the pick passes `admissible`. -/
def oldHaveVerdict : Option (Option Nat × Bool × Bool × Bool × Bool) :=
  (mrun { statuses := List.replicate 12 .missing, peers := [] } haveWitness).map fun s =>
    let tgt := (((findPeer s 1).map (·.pieces)).getD []).set 1 true
    let pcs := s.peers.map (fun p => if p.addr = 1 then tgt else p.pieces)
    (oldHaveRequests s 1 1, decide (eligible s.statuses pcs tgt 1), decide (eligible s.statuses pcs tgt 0),
      decide (count pcs 0 < count pcs 1), admissible s.statuses pcs tgt (some 1))

/-- **The old Have path refuted** (finding `C13-have-path-pick-ignores-rarity`, repaired in /repo): after the history
    above the old rule asked peer 1 for piece 1 — eligible, but advertised by three peers — although piece 0, which peer 1
    also advertises, the client lacks and nobody fetches, is advertised by two: not an admissible pick. -/
theorem old_have_path_pick_not_rarest : oldHaveVerdict = some (some 1, true, true, true, false) := by
  decide

/-- The same situation with the repaired rule: the chooser is consulted and its (only admissible) answer is piece 0. -/
example : (mrun { statuses := List.replicate 12 .missing, peers := [] } haveWitness).map (fun s =>
    let tgt := (((findPeer s 1).map (·.pieces)).getD []).set 1 true
    let pcs := s.peers.map (fun p => if p.addr = 1 then tgt else p.pieces)
    (admissible s.statuses pcs tgt (some 0), match mstep s (.have 1 1 (some 0)) with | .ok _ r => some r | _ => none)) =
    some (true, some (.request 0 true)) := by decide

end Rdest.Props.C13
