/-
  C12 for the whole client (closed loop, Swarm/Loop.lean): in every reachable state of the manager together with any
  number of connection tasks — any interleaving, any inputs from the peers, any outcome of the random piece choice —
  the manager's bookkeeping invariant holds, and a piece marked `Reserved` is really being fetched: some *live
  connection task*, not choked by its peer, has that very piece in its `piece_rx`.

  Unlike `T2_reserved_has_live_witness` (Props/C12), nothing is assumed about which commands arrive in which state
  (`Enabled`): the commands are the ones the task model emits, and the link between the manager's ghost `rx` and the
  task's `piece_rx` is the theorem `allLinked_reach` (Lemmas/Loop).
-/
import RdestModel.Props.C12
import RdestModel.Lemmas.Loop
import RdestModel.Lemmas.NoCancel
import RdestModel.Props.C01
import RdestModel.Props.C11
import RdestModel.Lemmas.HaveRange
import RdestModel.Lemmas.BitfieldLen
set_option linter.unusedSimpArgs false
set_option linter.unusedVariables false
namespace Rdest.Props.C12
open Rdest Rdest.Wire Rdest.Swarm Rdest.Swarm.Loop

section Whole

theorem handled_inv (T : Torrent) (a : Nat) (m m1 : MState) (cs : List Cmd) (rep : Rep) (hinv : Inv m)
    (hH : Handled T a m cs rep m1) : Inv m1 := by
  have nadd : ∀ {ev : Ev}, (∀ b n, ev ≠ .add b n) → ∀ b n, ev = .add b n → findPeer m b = none :=
    fun h b n e => absurd e (h b n)
  cases cs with
  | nil => rw [show m1 = m from hH]; exact hinv
  | cons c rest =>
    cases rest with
    | cons c2 r2 => cases c <;> simp [Handled] at hH
    | nil =>
      cases c with
      | init pid => rw [show m1 = m from hH]; exact hinv
      | recvRequest idx => rw [show m1 = m from hH]; exact hinv
      | recvChoke => exact inv_of_ok m m1 hinv _ _ hH (nadd (by intro b n h; cases h))
      | recvInterested => exact inv_of_ok m m1 hinv _ _ hH (nadd (by intro b n h; cases h))
      | recvUnchoke => obtain ⟨_, _, hm, _⟩ := hH; exact inv_of_ok m m1 hinv _ _ hm (nadd (by intro b n h; cases h))
      | recvNotInterested => obtain ⟨_, _, hm, _⟩ := hH; exact inv_of_ok m m1 hinv _ _ hm (nadd (by intro b n h; cases h))
      | recvHave j => obtain ⟨_, _, hm, _⟩ := hH; exact inv_of_ok m m1 hinv _ _ hm (nadd (by intro b n h; cases h))
      | recvBitfield bs => obtain ⟨_, _, _, hm, _⟩ := hH; exact inv_of_ok m m1 hinv _ _ hm (nadd (by intro b n h; cases h))
      | pieceCancel => obtain ⟨_, _, hm, _⟩ := hH; exact inv_of_ok m m1 hinv _ _ hm (nadd (by intro b n h; cases h))
      | pieceDone => obtain ⟨_, _, hm, _⟩ := hH; exact inv_of_ok m m1 hinv _ _ hm (nadd (by intro b n h; cases h))

theorem afterEnd_inv (a : Nat) (e : Option Bool) (m : MState) (hinv : Inv m) : Inv (afterEnd a e m) := by
  unfold afterEnd
  cases e with
  | none => exact hinv
  | some b =>
    dsimp only
    cases hk : mstep m (.kill a) with
    | panic w => exact hinv
    | ok m' r => exact inv_of_ok m m' hinv _ r hk (by intro b n h; cases h)

/-- **T6 (whole client).** The bookkeeping invariant of the manager holds in every reachable state of the closed loop. -/
theorem T6_whole_client_invariant (T : Torrent) (sha1 : Bytes → Bytes) (S : Sys) (h : SysReach T sha1 S) : Inv S.m := by
  induction h with
  | init n dead hdead => exact inv_init n
  | step S S' _ hs ih =>
    cases hs with
    | connect a t m' hnone hfresh hadd =>
      exact inv_of_ok S.m m' ih _ _ hadd (by intro b n h; cases h; exact hnone)
    | own a d inp m' t' outs hl =>
      obtain ⟨e, m1, _, hH, rfl⟩ := hl
      exact afterEnd_inv a e m1 (handled_inv T a S.m m1 _ _ ih hH)

/-- Every connection the manager has on record belongs to a live connection task. -/
def Live (S : Sys) : Prop := ∀ b p, findPeer S.m b = some p → (S.tasks b).alive = true

theorem live_step (T : Torrent) (sha1 : Bytes → Bytes) (S S' : Sys) (hl : Live S) (hs : SysStep T sha1 S S') : Live S' := by
  cases hs with
  | connect a t m' hnone hfresh hadd =>
    intro b p hp
    by_cases hb : b = a
    · subst hb; simp only [updateTask, if_true]; exact hfresh.1
    · simp only [updateTask, hb, if_false]
      have := mstep_other S.m m' b _ _ (by simp only [evAddr]; exact fun h => hb h.symm) hadd
      rw [this] at hp
      exact hl b p hp
  | own a d inp m' t' outs hstepo =>
    intro b p hp
    by_cases hb : b = a
    · subst hb
      simp only [updateTask, if_true]
      cases hal : (S.tasks b).alive with
      | false =>
        -- a dead task does nothing: the manager is as it was, where a record would mean a live task
        obtain ⟨e, m1, hh, hH, rfl⟩ := hstepo
        simp only [hstep, hal, Bool.not_false, if_true, Option.some.injEq, Prod.mk.injEq] at hh
        obtain ⟨_, rfl, rfl⟩ := hh
        simp only [cmdsOf, List.filterMap_nil, Handled] at hH
        subst hH
        simp only [afterEnd] at hp
        have := hl b p hp
        rw [hal] at this; cases this
      | true =>
        cases hd : t'.alive with
        | true => rfl
        | false =>
          have := ended_is_forgotten T sha1 _ b S.m m' (S.tasks b) t' inp outs hal hstepo hd
          simp only at hp
          rw [this] at hp; cases hp
    · simp only [updateTask, hb, if_false]
      have := lstep_other T sha1 _ a b S.m m' (S.tasks a) t' inp outs (fun h => hb h.symm) hstepo
      simp only at hp
      rw [this] at hp
      exact hl b p hp

theorem live_reach (T : Torrent) (sha1 : Bytes → Bytes) (S : Sys) (h : SysReach T sha1 S) : Live S := by
  induction h with
  | init n dead hdead => intro b p hp; simp [findPeer] at hp
  | step S S' _ hs ih => exact live_step T sha1 S S' ih hs

theorem find_of_mem (ps : List MPeer) (hnd : (ps.map (·.addr)).Nodup) (p : MPeer) (hp : p ∈ ps) :
    ps.find? (·.addr = p.addr) = some p := by
  induction ps with
  | nil => cases hp
  | cons x xs ih =>
    simp only [List.map_cons, List.nodup_cons] at hnd
    rcases List.mem_cons.mp hp with rfl | hx
    · exact List.find?_cons_of_pos (by simp)
    · have hne : x.addr ≠ p.addr := by
        intro he; exact hnd.1 (List.mem_map.mpr ⟨p, hx, he.symm⟩)
      rw [List.find?_cons_of_neg (by simp [hne])]
      exact ih hnd.2 hx

/-- **T7 (whole client, clause (ii) of the property).** In every reachable state of the whole client a piece marked
    `Reserved` is being fetched by a live connection task that its peer has not choked: the reservation is never stale. -/
theorem T7_whole_client_reserved_piece_is_being_fetched (T : Torrent) (sha1 : Bytes → Bytes) (S : Sys)
    (h : SysReach T sha1 S) (i n : Nat) (hs : S.m.statuses[i]? = some (.reserved n)) :
    ∃ a, (S.tasks a).alive = true ∧ (S.tasks a).choked = false ∧ (S.tasks a).pieceRx.map (·.index) = some i := by
  have hinv := T6_whole_client_invariant T sha1 S h
  obtain ⟨h1, h2⟩ := hinv.resv i n hs
  have hpos : 0 < countOn S.m.peers i := by omega
  obtain ⟨p, hp, hc⟩ := List.countP_pos_iff.mp hpos
  obtain ⟨hc1, hc2⟩ := (counted_iff i p).mp hc
  have hrx := hinv.idxRx p hp i hc1 hc2
  have hfind : findPeer S.m p.addr = some p := find_of_mem S.m.peers hinv.nodup p hp
  have hal := live_reach T sha1 S h p.addr p hfind
  obtain ⟨p', hp', hrx', hch', _⟩ := allLinked_reach T sha1 S h p.addr hal
  rw [hfind] at hp'; cases hp'
  exact ⟨p.addr, hal, by rw [hch', hc2], by rw [hrx', hrx]⟩

/-- **T8 (whole client, clause (iii)).** When no live, unchoked connection task is fetching piece `i`, the piece is not
    `Reserved`: it is `Missing` (and can be handed out) or owned. -/
theorem T8_whole_client_no_stale_reservation (T : Torrent) (sha1 : Bytes → Bytes) (S : Sys) (h : SysReach T sha1 S) (i : Nat)
    (hnone : ∀ a, ¬ ((S.tasks a).alive = true ∧ (S.tasks a).choked = false ∧ (S.tasks a).pieceRx.map (·.index) = some i)) :
    ∀ n, S.m.statuses[i]? ≠ some (.reserved n) := by
  intro n hs
  obtain ⟨a, ha⟩ := T7_whole_client_reserved_piece_is_being_fetched T sha1 S h i n hs
  exact hnone a ha

/-- The manager event a command of connection `a` becomes (`handle_peer_cmd`), for a given outcome of the random piece
    choice and, for a bitfield, the decoded bit vector. `Init` and `RecvRequest` do not touch the piece bookkeeping. -/
def evOfCmd (a : Nat) (chosen : Option Nat) (bits : Pieces) : Cmd → Option Ev
  | .recvChoke => some (.choke a)
  | .recvUnchoke => some (.unchoke a chosen)
  | .recvInterested => some (.interested a)
  | .recvNotInterested => some (.notInterested a chosen)
  | .recvHave i => some (.have a i chosen)
  | .recvBitfield _ => some (.bitfield a bits chosen)
  | .pieceDone => some (.pieceDone a chosen)
  | .pieceCancel => some (.pieceCancel a chosen)
  | _ => none

/-- **T9 (whole client, "no sequence of peer events makes the manager panic"), partial.** In every reachable state of
    the whole client, whatever command a live connection task sends while handling any input, the manager handles it
    without panicking, for every outcome of the random piece choice: the record it looks up exists, and `PieceDone` /
    `PieceCancel` find an assigned piece ("Piece downloaded / cancelled but not requested" cannot happen) — derived from
    the tasks' behaviour (`T6_piece_done_only_while_assigned`, `pieceCancel_has_rx`, `allLinked_reach`), not assumed as
    in `T5_no_panic`. *Partial*: for `RecvHave` the index bound and for `RecvBitfield` the length of the decoded vector
    against the record's bit vector are premises here (`hlen`): the task validates both against its own `pieces_num`
    (`onHave`, `onBitfield`), and that the task's `pieces_num` is the length of the manager's vectors is a fact about
    `Session::new` / `PeerHandler::new` that the closed-loop model does not carry. -/
theorem T9_whole_client_manager_never_panics_partial (T : Torrent) (sha1 : Bytes → Bytes) (S : Sys) (h : SysReach T sha1 S)
    (a : Nat) (d : Option (Bytes × Bytes)) (inp : HIn) (t' : HState) (outs : List HOut) (e : Option Bool)
    (hal : (S.tasks a).alive = true)
    (hh : hstep sha1 (diskOf d) (S.tasks a) inp = some (t', outs, e))
    (c : Cmd) (hc : c ∈ cmdsOf outs) (chosen : Option Nat) (bits : Pieces) (ev : Ev) (hev : evOfCmd a chosen bits c = some ev)
    (hlen : ∀ p, findPeer S.m a = some p →
      (∀ i, c = .recvHave i → i < p.pieces.length) ∧ (∀ bs, c = .recvBitfield bs → bits.length = p.pieces.length)) :
    ∀ why, mstep S.m ev ≠ .panic why := by
  obtain ⟨p, hp, hrx, _, hidx⟩ := allLinked_reach T sha1 S h a hal
  have hen : EnabledW S.m ev := by
    cases c with
    | recvChoke => cases hev; exact ⟨p, hp⟩
    | recvUnchoke => cases hev; exact ⟨p, hp⟩
    | recvInterested => cases hev; exact ⟨p, hp⟩
    | recvNotInterested => cases hev; exact ⟨p, hp⟩
    | recvHave i => cases hev; exact ⟨p, hp, (hlen p hp).1 i rfl⟩
    | recvBitfield bs => cases hev; exact ⟨p, hp, (hlen p hp).2 bs rfl⟩
    | pieceDone =>
      cases hev
      obtain ⟨_, p', y, hp', _, hpi⟩ := Rdest.Props.C01.T6_piece_done_only_while_assigned T sha1 S h a d inp t' outs e hh hc
      exact ⟨p', y, hp', hpi⟩
    | pieceCancel =>
      cases hev
      obtain ⟨rx, hprx⟩ := pieceCancel_has_rx sha1 (diskOf d) (S.tasks a) inp t' outs e hh hc
      rw [hprx] at hrx
      exact ⟨p, rx.index, hp, hidx rx.index hrx.symm⟩
    | init pid => cases hev
    | recvRequest idx => cases hev
  intro why hpanic
  obtain ⟨s', r, hok, _⟩ := step_inv_w S.m (T6_whole_client_invariant T sha1 S h) ev hen
  rw [hok] at hpanic; cases hpanic

theorem handlePiece_pieces (st : List Status) (p : MPeer) (c : Option Nat) : (handlePiece st p c).2.1.pieces = p.pieces := by
  unfold handlePiece
  cases c with
  | none => rfl
  | some x => dsimp only; split <;> rfl

theorem peers_len_of_ok (s s' : MState) (ev : Ev) (r : Reply) (h : mstep s ev = .ok s' r) (L : Nat)
    (hl : ∀ p ∈ s.peers, p.pieces.length = L) (hadd : ∀ a n, ev = .add a n → n = L) :
    ∀ q ∈ s'.peers, q.pieces.length = L := by
  have close : ∀ (a : Nat) (p : MPeer), findPeer s a = some p → ∀ (st : List Status) (q0 : MPeer), q0.pieces.length = L →
      ∀ q ∈ setPeer s q0, q.pieces.length = L := by
    intro a p hp st q0 hq0 q hq
    rcases mem_setPeer s q0 q hq with rfl | ⟨hm, _⟩
    · exact hq0
    · exact hl q hm
  cases ev with
  | add a n =>
    simp only [mstep, Out.ok.injEq] at h
    obtain ⟨rfl, _⟩ := h
    intro q hq
    simp only [List.mem_cons] at hq
    rcases hq with rfl | hq
    · simp [hadd a n rfl]
    · exact hl q (List.mem_filter.mp hq).1
  | kill a =>
    cases hp : findPeer s a with
    | none => simp only [mstep, hp, Out.ok.injEq] at h; obtain ⟨rfl, _⟩ := h; exact hl
    | some p =>
      simp only [mstep, hp, Out.ok.injEq] at h; obtain ⟨rfl, _⟩ := h
      intro q hq; exact hl q (List.mem_filter.mp hq).1
  | choke a =>
    cases hp : findPeer s a with
    | none => simp [mstep, hp] at h
    | some p =>
      have hpl := hl p (findPeer_some hp).1
      simp only [mstep, hp, Out.ok.injEq] at h; obtain ⟨rfl, _⟩ := h
      exact close a p hp [] _ hpl
  | interested a =>
    cases hp : findPeer s a with
    | none => simp [mstep, hp] at h
    | some p =>
      have hpl := hl p (findPeer_some hp).1
      simp only [mstep, hp, Out.ok.injEq] at h; obtain ⟨rfl, _⟩ := h
      exact close a p hp [] _ hpl
  | notInterested a c =>
    cases hp : findPeer s a with
    | none => simp [mstep, hp] at h
    | some p =>
      have hpl := hl p (findPeer_some hp).1
      simp only [mstep, hp, Out.ok.injEq] at h; obtain ⟨rfl, _⟩ := h
      exact close a p hp [] _ hpl
  | unchoke a c =>
    cases hp : findPeer s a with
    | none => simp [mstep, hp] at h
    | some p =>
      have hpl := hl p (findPeer_some hp).1
      simp only [mstep, hp] at h
      cases c <;> (simp only [Out.ok.injEq] at h; obtain ⟨rfl, _⟩ := h; exact close a p hp [] _ hpl)
  | bitfield a bits c =>
    cases hp : findPeer s a with
    | none => simp [mstep, hp] at h
    | some p =>
      have hpl := hl p (findPeer_some hp).1
      simp only [mstep, hp] at h
      split at h
      · cases h
      · rename_i hne
        simp only [Out.ok.injEq] at h; obtain ⟨rfl, _⟩ := h
        refine close a p hp [] _ ?_
        simp only [ne_eq, Decidable.not_not] at hne
        simp [hne, hpl]
  | «have» a i c =>
    cases hp : findPeer s a with
    | none => simp [mstep, hp] at h
    | some p =>
      have hpl := hl p (findPeer_some hp).1
      simp only [mstep, hp] at h
      repeat' split at h
      all_goals first
        | (simp only [Out.ok.injEq] at h; obtain ⟨rfl, _⟩ := h; exact close a p hp [] _ (by simp [hpl]))
        | cases h
  | pieceDone a c =>
    cases hp : findPeer s a with
    | none => simp [mstep, hp] at h
    | some p =>
      have hpl := hl p (findPeer_some hp).1
      simp only [mstep, hp] at h
      split at h
      · cases h
      · simp only [Out.ok.injEq] at h; obtain ⟨rfl, _⟩ := h
        exact close a p hp [] _ (by rw [handlePiece_pieces]; exact hpl)
  | pieceCancel a c =>
    cases hp : findPeer s a with
    | none => simp [mstep, hp] at h
    | some p =>
      have hpl := hl p (findPeer_some hp).1
      simp only [mstep, hp] at h
      split at h
      · cases h
      · simp only [Out.ok.injEq] at h; obtain ⟨rfl, _⟩ := h
        exact close a p hp [] _ (by rw [handlePiece_pieces]; exact hpl)

/-- Every record's bit vector has as many bits as there are pieces. -/
def LenOk (m : MState) : Prop := ∀ p ∈ m.peers, p.pieces.length = m.statuses.length

theorem lenOk_of_ok (s s' : MState) (ev : Ev) (r : Reply) (h : mstep s ev = .ok s' r) (hl : LenOk s)
    (hadd : ∀ a n, ev = .add a n → n = s.statuses.length) : LenOk s' := by
  intro q hq
  rw [Rdest.Props.C11.mstep_length s s' ev r h]
  exact peers_len_of_ok s s' ev r h _ hl hadd q hq

theorem handled_len (T : Torrent) (a : Nat) (m m1 : MState) (cs : List Cmd) (rep : Rep) (hl : LenOk m)
    (hH : Handled T a m cs rep m1) : LenOk m1 := by
  cases cs with
  | nil => rw [show m1 = m from hH]; exact hl
  | cons c rest =>
    cases rest with
    | cons c2 r2 => cases c <;> simp [Handled] at hH
    | nil =>
      cases c with
      | init pid => rw [show m1 = m from hH]; exact hl
      | recvRequest idx => rw [show m1 = m from hH]; exact hl
      | recvChoke => exact lenOk_of_ok m m1 _ _ hH hl (by intro b n h; cases h)
      | recvInterested => exact lenOk_of_ok m m1 _ _ hH hl (by intro b n h; cases h)
      | recvUnchoke => obtain ⟨_, _, hm, _⟩ := hH; exact lenOk_of_ok m m1 _ _ hm hl (by intro b n h; cases h)
      | recvNotInterested => obtain ⟨_, _, hm, _⟩ := hH; exact lenOk_of_ok m m1 _ _ hm hl (by intro b n h; cases h)
      | recvHave j => obtain ⟨_, _, hm, _⟩ := hH; exact lenOk_of_ok m m1 _ _ hm hl (by intro b n h; cases h)
      | recvBitfield bs => obtain ⟨_, _, _, hm, _⟩ := hH; exact lenOk_of_ok m m1 _ _ hm hl (by intro b n h; cases h)
      | pieceCancel => obtain ⟨_, _, hm, _⟩ := hH; exact lenOk_of_ok m m1 _ _ hm hl (by intro b n h; cases h)
      | pieceDone => obtain ⟨_, _, hm, _⟩ := hH; exact lenOk_of_ok m m1 _ _ hm hl (by intro b n h; cases h)

theorem afterEnd_len (a : Nat) (e : Option Bool) (m : MState) (hl : LenOk m) : LenOk (afterEnd a e m) := by
  unfold afterEnd
  cases e with
  | none => exact hl
  | some b =>
    dsimp only
    cases hk : mstep m (.kill a) with
    | panic w => exact hl
    | ok m' r => exact lenOk_of_ok m m' _ r hk hl (by intro b n h; cases h)

theorem lenOk_reach (T : Torrent) (sha1 : Bytes → Bytes) (S : Sys) (h : SysReach T sha1 S) : LenOk S.m := by
  induction h with
  | init n dead hdead => intro p hp; cases hp
  | step S S' _ hs ih =>
    cases hs with
    | connect a t m' hnone hfresh hadd =>
      exact lenOk_of_ok S.m m' _ _ hadd ih (by intro b n h; cases h; rfl)
    | own a d inp m' t' outs hl =>
      obtain ⟨e, m1, _, hH, rfl⟩ := hl
      exact afterEnd_len a e m1 (handled_len T a S.m m1 _ _ ih hH)

/-- **T9 (whole client, "no sequence of peer events makes the manager panic").** As the partial statement above, with
    the Have index bound *derived*: a task sends `RecvHave i` only after checking `i` against its `pieces_num`
    (`recvHave_in_range`, Lemmas/HaveRange), and every record's bit vector has as many bits as there are pieces in every
    reachable state (`lenOk_reach`). What remains as premises is configuration, not behaviour: the task was created with
    the torrent's piece count (`hnum`; `PeerHandler::new(…, pieces_num, …)` and `Session::new` both take
    `Metainfo::pieces_num()`), and the manager decodes a bitfield to that many bits (`hbits`). -/
theorem T9_whole_client_manager_never_panics (T : Torrent) (sha1 : Bytes → Bytes) (S : Sys) (h : SysReach T sha1 S)
    (a : Nat) (d : Option (Bytes × Bytes)) (inp : HIn) (t' : HState) (outs : List HOut) (e : Option Bool)
    (hal : (S.tasks a).alive = true) (hnum : (S.tasks a).piecesNum = S.m.statuses.length)
    (hh : hstep sha1 (diskOf d) (S.tasks a) inp = some (t', outs, e))
    (c : Cmd) (hc : c ∈ cmdsOf outs) (chosen : Option Nat) (bits : Pieces) (ev : Ev) (hev : evOfCmd a chosen bits c = some ev)
    (hbits : ∀ bs, c = .recvBitfield bs → bits.length = S.m.statuses.length) :
    ∀ why, mstep S.m ev ≠ .panic why := by
  refine T9_whole_client_manager_never_panics_partial T sha1 S h a d inp t' outs e hal hh c hc chosen bits ev hev ?_
  intro p hp
  have hpl := lenOk_reach T sha1 S h p (findPeer_some hp).1
  refine ⟨?_, ?_⟩
  · intro i hi; subst hi
    have := recvHave_in_range sha1 (diskOf d) (S.tasks a) inp t' outs e hh i hc
    omega
  · intro bs hb; rw [hpl]; exact hbits bs hb

/-! ### The task's piece count is the manager's -/

theorem hstep_piecesNum (sha1 : Bytes → Bytes) (disk : Bytes → Option Bytes) (t : HState) (inp : HIn) (t' : HState)
    (outs : List HOut) (e : Option Bool) (h : hstep sha1 disk t inp = some (t', outs, e)) : t'.piecesNum = t.piecesNum := by
  cases hal : t.alive with
  | false =>
    simp only [hstep, hal, Bool.not_false, if_true, Option.some.injEq, Prod.mk.injEq] at h
    rw [← h.1]
  | true =>
    have hg : (!t.alive) = false := by simp [hal]
    cases inp with
    | frame m rep =>
      simp only [hstep, hg, Bool.false_eq_true, if_false] at h
      cases hf : handleFrame sha1 disk t m rep with
      | none => simp [hf] at h
      | some res =>
        obtain ⟨s1, o1, c⟩ := res
        obtain ⟨_, _, _, _, h5⟩ := handleFrame_core sha1 disk t m rep s1 o1 c hf
        rw [hf] at h
        cases c <;> simp only [terminate, Option.some.injEq, Prod.mk.injEq] at h <;> (rw [← h.1]; exact h5)
    | eof => simp only [hstep, hg, Bool.false_eq_true, if_false, terminate, Option.some.injEq, Prod.mk.injEq] at h; rw [← h.1]
    | recvErr => simp only [hstep, hg, Bool.false_eq_true, if_false, terminate, Option.some.injEq, Prod.mk.injEq] at h; rw [← h.1]
    | start => simp only [hstep, hg, Bool.false_eq_true, if_false, Option.some.injEq, Prod.mk.injEq] at h; rw [← h.1]
    | bcState en =>
      simp only [hstep, hg, Bool.false_eq_true, if_false] at h
      split at h <;> (simp only [Option.some.injEq, Prod.mk.injEq] at h; rw [← h.1])
    | tick =>
      simp only [hstep, hg, Bool.false_eq_true, if_false] at h
      split at h <;> (simp only [terminate, Option.some.injEq, Prod.mk.injEq] at h; rw [← h.1])
    | bcHave i rep => exact (hstep_bcHave_core sha1 disk t hal i rep t' outs e h).2.2.2.2.2.1

theorem sysStep_length (T : Torrent) (sha1 : Bytes → Bytes) (S S' : Sys) (hs : SysStep T sha1 S S') :
    S'.m.statuses.length = S.m.statuses.length := by
  cases hs with
  | connect a t m' hnone hfresh hadd => exact Rdest.Props.C11.mstep_length S.m m' _ _ hadd
  | own a d inp m' t' outs hl =>
    obtain ⟨e, m1, _, hH, rfl⟩ := hl
    rw [(Rdest.Props.C11.afterEnd_keeps a e m1).1]
    rcases Rdest.Props.C11.handled_cases T a S.m m1 _ _ hH with rfl | ⟨ev, r, hm, _⟩
    · rfl
    · exact Rdest.Props.C11.mstep_length S.m m1 ev r hm

/-- The whole client where every connection task is created with the torrent's piece count (`PeerHandler::new(…,
    pieces_num, …)`, the same `Metainfo::pieces_num()` the manager's status vector is built from in `Session::new`). -/
inductive StepN (T : Torrent) (sha1 : Bytes → Bytes) : Sys → Sys → Prop where
  | connect (S : Sys) (a : Nat) (t : HState) (m' : MState) :
      findPeer S.m a = none → FreshTask t → t.piecesNum = S.m.statuses.length →
      mstep S.m (.add a S.m.statuses.length) = .ok m' .none →
      StepN T sha1 S { S with m := m', tasks := updateTask S.tasks a t }
  | own (S : Sys) (a : Nat) (d : Option (Bytes × Bytes)) (inp : HIn) (m' : MState) (t' : HState) (outs : List HOut) :
      LStepO T sha1 (diskOf d) a S.m (S.tasks a) inp m' t' outs →
      StepN T sha1 S { m := m', tasks := updateTask S.tasks a t', stored := savedBy sha1 (S.tasks a) outs ++ S.stored }

inductive ReachN (T : Torrent) (sha1 : Bytes → Bytes) : Sys → Prop where
  | init (n : Nat) (dead : Nat → HState) : (∀ a, (dead a).alive = false) →
      ReachN T sha1 { m := { statuses := List.replicate n .missing, peers := [] }, tasks := dead, stored := [] }
  | step (S S' : Sys) : ReachN T sha1 S → StepN T sha1 S S' → ReachN T sha1 S'

theorem stepN_step (T : Torrent) (sha1 : Bytes → Bytes) (S S' : Sys) (h : StepN T sha1 S S') : SysStep T sha1 S S' := by
  cases h with
  | connect a t m' hnone hfresh _ hadd => exact SysStep.connect S a t m' hnone hfresh hadd
  | own a d inp m' t' outs hl => exact SysStep.own S a d inp m' t' outs hl

theorem reachN_reach (T : Torrent) (sha1 : Bytes → Bytes) (S : Sys) (h : ReachN T sha1 S) : SysReach T sha1 S := by
  induction h with
  | init n dead hdead => exact SysReach.init n dead hdead
  | step S S' _ hs ih => exact SysReach.step S S' ih (stepN_step T sha1 S S' hs)

def NumOk (S : Sys) : Prop := ∀ a, (S.tasks a).alive = true → (S.tasks a).piecesNum = S.m.statuses.length

theorem numOk_reach (T : Torrent) (sha1 : Bytes → Bytes) (S : Sys) (h : ReachN T sha1 S) : NumOk S := by
  induction h with
  | init n dead hdead => intro a ha; rw [hdead a] at ha; cases ha
  | step S S' _ hs ih =>
    have hlen := sysStep_length T sha1 S S' (stepN_step T sha1 S S' hs)
    intro b hb
    rw [hlen]
    cases hs with
    | connect a t m' hnone hfresh hnum hadd =>
      by_cases hba : b = a
      · subst hba; simp only [updateTask, if_true]; exact hnum
      · simp only [updateTask, hba, if_false] at hb ⊢; exact ih b hb
    | own a d inp m' t' outs hl =>
      by_cases hba : b = a
      · subst hba
        simp only [updateTask, if_true] at hb ⊢
        obtain ⟨e, m1, hh, _, _⟩ := hl
        rw [hstep_piecesNum sha1 _ (S.tasks b) inp t' outs e hh]
        cases hal : (S.tasks b).alive with
        | true => exact ih b hal
        | false =>
          simp only [hstep, hal, Bool.not_false, if_true, Option.some.injEq, Prod.mk.injEq] at hh
          rw [← hh.1, hal] at hb; cases hb
      · simp only [updateTask, hba, if_false] at hb ⊢; exact ih b hb

/-- **T10 (whole client, "no sequence of peer events makes the manager panic").** T9 with the piece count of the tasks
    *derived* (`numOk_reach`): in every reachable state of the whole client whose connection tasks are created with the
    torrent's piece count, no command a live task sends while handling any input makes the manager panic, for every
    outcome of the random piece choice. The one remaining premise is about the decoder, not about peers or schedules: a
    bitfield the task has accepted is decoded by the manager to as many bits as there are pieces (`hbits`). -/
theorem T10_whole_client_manager_never_panics (T : Torrent) (sha1 : Bytes → Bytes) (S : Sys) (h : ReachN T sha1 S)
    (a : Nat) (d : Option (Bytes × Bytes)) (inp : HIn) (t' : HState) (outs : List HOut) (e : Option Bool)
    (hal : (S.tasks a).alive = true)
    (hh : hstep sha1 (diskOf d) (S.tasks a) inp = some (t', outs, e))
    (c : Cmd) (hc : c ∈ cmdsOf outs) (chosen : Option Nat) (bits : Pieces) (ev : Ev) (hev : evOfCmd a chosen bits c = some ev)
    (hbits : ∀ bs, c = .recvBitfield bs → bits.length = S.m.statuses.length) :
    ∀ why, mstep S.m ev ≠ .panic why :=
  T9_whole_client_manager_never_panics T sha1 S (reachN_reach T sha1 S h) a d inp t' outs e hal
    (numOk_reach T sha1 S h a hal) hh c hc chosen bits ev hev hbits

/-- The manager event a command becomes, with the bitfield decoded as the manager does (`Bitfield::to_vec(pieces_num)`;
    `none` for a bitfield = the decoder's `Err(InvalidLength)`, which would end the manager's loop with an error). -/
def evOfCmdReal (a : Nat) (chosen : Option Nat) (n : Nat) : Cmd → Option Ev
  | .recvBitfield bs => (toVec bs n).map fun bits => .bitfield a bits chosen
  | c => evOfCmd a chosen [] c

/-- **T11 (whole client, "no sequence of peer events makes the manager panic"), no premise left but `ReachN`.** In every
    reachable state of the whole client (tasks created with the torrent's piece count; any number of connections, any
    interleaving, any peer input, any outcome of the random piece choice), for every command a live connection task sends
    while handling any input: a bitfield it passes on decodes (`to_vec` does not fail — `recvBitfield_len`,
    `toVec_of_validated`: the task has validated the byte count, and such bytes decode to exactly `pieces_num` bits),
    and the manager's handling of the command does not panic. -/
theorem T11_whole_client_manager_never_panics (T : Torrent) (sha1 : Bytes → Bytes) (S : Sys) (h : ReachN T sha1 S)
    (a : Nat) (d : Option (Bytes × Bytes)) (inp : HIn) (t' : HState) (outs : List HOut) (e : Option Bool)
    (hal : (S.tasks a).alive = true)
    (hh : hstep sha1 (diskOf d) (S.tasks a) inp = some (t', outs, e))
    (c : Cmd) (hc : c ∈ cmdsOf outs) (chosen : Option Nat) :
    (∀ bs, c = .recvBitfield bs → (toVec bs S.m.statuses.length).isSome = true) ∧
    ∀ ev, evOfCmdReal a chosen S.m.statuses.length c = some ev → ∀ why, mstep S.m ev ≠ .panic why := by
  have hnum := numOk_reach T sha1 S h a hal
  have hdec : ∀ bs, c = .recvBitfield bs → ∃ bits, toVec bs S.m.statuses.length = some bits ∧ bits.length = S.m.statuses.length := by
    intro bs hb; subst hb
    have := recvBitfield_len sha1 (diskOf d) (S.tasks a) inp t' outs e hh bs hc
    rw [hnum] at this
    exact toVec_of_validated bs _ this
  refine ⟨?_, ?_⟩
  · intro bs hb
    obtain ⟨bits, hb1, _⟩ := hdec bs hb
    rw [hb1]; rfl
  · intro ev hev
    cases c with
    | recvBitfield bs =>
      obtain ⟨bits, hb1, hb2⟩ := hdec bs rfl
      simp only [evOfCmdReal, hb1, Option.map_some, Option.some.injEq] at hev
      exact T10_whole_client_manager_never_panics T sha1 S h a d inp t' outs e hal hh _ hc chosen bits ev
        (by rw [← hev]; rfl) (by intro bs' _; exact hb2)
    | init pid => cases hev
    | recvRequest idx => cases hev
    | recvChoke => exact T10_whole_client_manager_never_panics T sha1 S h a d inp t' outs e hal hh _ hc chosen [] ev hev (by intro bs hb; cases hb)
    | recvUnchoke => exact T10_whole_client_manager_never_panics T sha1 S h a d inp t' outs e hal hh _ hc chosen [] ev hev (by intro bs hb; cases hb)
    | recvInterested => exact T10_whole_client_manager_never_panics T sha1 S h a d inp t' outs e hal hh _ hc chosen [] ev hev (by intro bs hb; cases hb)
    | recvNotInterested => exact T10_whole_client_manager_never_panics T sha1 S h a d inp t' outs e hal hh _ hc chosen [] ev hev (by intro bs hb; cases hb)
    | recvHave i => exact T10_whole_client_manager_never_panics T sha1 S h a d inp t' outs e hal hh _ hc chosen [] ev hev (by intro bs hb; cases hb)
    | pieceDone => exact T10_whole_client_manager_never_panics T sha1 S h a d inp t' outs e hal hh _ hc chosen [] ev hev (by intro bs hb; cases hb)
    | pieceCancel => exact T10_whole_client_manager_never_panics T sha1 S h a d inp t' outs e hal hh _ hc chosen [] ev hev (by intro bs hb; cases hb)

/-- Non-vacuity (test): a reachable state of the whole client with a `Reserved` piece — one connection: handshake,
    `Interested`, `Unchoke` answered with a request for piece 0. -/
example : ∃ S, SysReach ⟨[[7]], fun _ => 1⟩ id S ∧ S.m.statuses[0]? = some (.reserved 1) := by
  let T : Torrent := ⟨[[7]], fun _ => 1⟩
  let t0 : HState := { infoHash := [1], ownId := [2], piecesNum := 1 }
  have r0 : SysReach T id _ := SysReach.init 1 (fun _ => { t0 with alive := false }) (fun _ => rfl)
  have r1 := SysReach.step _ _ r0 (SysStep.connect _ 0 t0 _ rfl ⟨rfl, rfl, rfl⟩ rfl)
  have r2 := SysReach.step _ _ r1 (SysStep.own _ 0 none (.frame (.handshake [1] [3]) (.bitfield [0])) _ _ _
    ⟨_, _, rfl, (by show _ = _; exact rfl), rfl⟩)
  have r3 := SysReach.step _ _ r2 (SysStep.own _ 0 none (.frame .interested .none) _ _ _
    ⟨_, _, rfl, (by show mstep _ _ = _; exact rfl), rfl⟩)
  have r4 := SysReach.step _ _ r3 (SysStep.own _ 0 none (.frame .unchoke (.req { index := 0, length := 1, hash := [7] } true)) _ _ _
    ⟨_, _, rfl, (by show ∃ chosen r, mstep _ _ = _ ∧ _ = _; exact ⟨some 0, _, rfl, rfl⟩), rfl⟩)
  exact ⟨_, r4, by decide⟩

/-- Non-vacuity (test) for T9: in that state the live task of connection 0, told by broadcast that piece 0 is owned,
    sends `PieceCancel` — a command whose handling would panic without an assignment on record. -/
example : ∃ (S : Sys) (t' : HState) (outs : List HOut), SysReach ⟨[[7]], fun _ => 1⟩ id S ∧ (S.tasks 0).alive = true ∧
    (S.tasks 0).piecesNum = S.m.statuses.length ∧
    hstep id (diskOf none) (S.tasks 0) (.bcHave 0 .ignore) = some (t', outs, none) ∧ Cmd.pieceCancel ∈ cmdsOf outs := by
  let T : Torrent := ⟨[[7]], fun _ => 1⟩
  let t0 : HState := { infoHash := [1], ownId := [2], piecesNum := 1 }
  have r0 : SysReach T id _ := SysReach.init 1 (fun _ => { t0 with alive := false }) (fun _ => rfl)
  have r1 := SysReach.step _ _ r0 (SysStep.connect _ 0 t0 _ rfl ⟨rfl, rfl, rfl⟩ rfl)
  have r2 := SysReach.step _ _ r1 (SysStep.own _ 0 none (.frame (.handshake [1] [3]) (.bitfield [0])) _ _ _
    ⟨_, _, rfl, (by show _ = _; exact rfl), rfl⟩)
  have r3 := SysReach.step _ _ r2 (SysStep.own _ 0 none (.frame .interested .none) _ _ _
    ⟨_, _, rfl, (by show mstep _ _ = _; exact rfl), rfl⟩)
  have r4 := SysReach.step _ _ r3 (SysStep.own _ 0 none (.frame .unchoke (.req { index := 0, length := 1, hash := [7] } true)) _ _ _
    ⟨_, _, rfl, (by show ∃ chosen r, mstep _ _ = _ ∧ _ = _; exact ⟨some 0, _, rfl, rfl⟩), rfl⟩)
  exact ⟨_, _, _, r4, rfl, rfl, rfl, by decide⟩

/-- Non-vacuity (test) for T10: the same state is reachable with tasks created with the torrent's piece count. -/
example : ∃ (S : Sys) (t' : HState) (outs : List HOut), ReachN ⟨[[7]], fun _ => 1⟩ id S ∧ (S.tasks 0).alive = true ∧
    hstep id (diskOf none) (S.tasks 0) (.bcHave 0 .ignore) = some (t', outs, none) ∧ Cmd.pieceCancel ∈ cmdsOf outs := by
  let T : Torrent := ⟨[[7]], fun _ => 1⟩
  let t0 : HState := { infoHash := [1], ownId := [2], piecesNum := 1 }
  have r0 : ReachN T id _ := ReachN.init 1 (fun _ => { t0 with alive := false }) (fun _ => rfl)
  have r1 := ReachN.step _ _ r0 (StepN.connect _ 0 t0 _ rfl ⟨rfl, rfl, rfl⟩ rfl rfl)
  have r2 := ReachN.step _ _ r1 (StepN.own _ 0 none (.frame (.handshake [1] [3]) (.bitfield [0])) _ _ _
    ⟨_, _, rfl, (by show _ = _; exact rfl), rfl⟩)
  have r3 := ReachN.step _ _ r2 (StepN.own _ 0 none (.frame .interested .none) _ _ _
    ⟨_, _, rfl, (by show mstep _ _ = _; exact rfl), rfl⟩)
  have r4 := ReachN.step _ _ r3 (StepN.own _ 0 none (.frame .unchoke (.req { index := 0, length := 1, hash := [7] } true)) _ _ _
    ⟨_, _, rfl, (by show ∃ chosen r, mstep _ _ = _ ∧ _ = _; exact ⟨some 0, _, rfl, rfl⟩), rfl⟩)
  exact ⟨_, _, _, r4, rfl, rfl, by decide⟩

end Whole

end Rdest.Props.C12
